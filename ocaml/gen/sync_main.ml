
(** val negb : bool -> bool **)

let negb = function
| true -> false
| false -> true

type nat =
| O
| S of nat

(** val option_map : ('a1 -> 'a2) -> 'a1 option -> 'a2 option **)

let option_map f = function
| Some a -> Some (f a)
| None -> None

(** val fst : ('a1 * 'a2) -> 'a1 **)

let fst = function
| (x, _) -> x

(** val snd : ('a1 * 'a2) -> 'a2 **)

let snd = function
| (_, y) -> y

(** val app : 'a1 list -> 'a1 list -> 'a1 list **)

let rec app l m =
  match l with
  | [] -> m
  | a :: l1 -> a :: (app l1 m)

type comparison =
| Eq
| Lt
| Gt

(** val compOpp : comparison -> comparison **)

let compOpp = function
| Eq -> Eq
| Lt -> Gt
| Gt -> Lt

module Coq__1 = struct
 (** val add : nat -> nat -> nat **)
 let rec add n0 m =
   match n0 with
   | O -> m
   | S p -> S (add p m)
end
include Coq__1

(** val map : ('a1 -> 'a2) -> 'a1 list -> 'a2 list **)

let rec map f = function
| [] -> []
| a :: t0 -> (f a) :: (map f t0)

(** val fold_left : ('a1 -> 'a2 -> 'a1) -> 'a2 list -> 'a1 -> 'a1 **)

let rec fold_left f l a0 =
  match l with
  | [] -> a0
  | b :: t0 -> fold_left f t0 (f a0 b)

(** val forallb : ('a1 -> bool) -> 'a1 list -> bool **)

let rec forallb f = function
| [] -> true
| a :: l0 -> (&&) (f a) (forallb f l0)

(** val filter : ('a1 -> bool) -> 'a1 list -> 'a1 list **)

let rec filter f = function
| [] -> []
| x :: l0 -> if f x then x :: (filter f l0) else filter f l0

type positive =
| XI of positive
| XO of positive
| XH

type n =
| N0
| Npos of positive

type z =
| Z0
| Zpos of positive
| Zneg of positive

module Pos =
 struct
  type mask =
  | IsNul
  | IsPos of positive
  | IsNeg
 end

module Coq_Pos =
 struct
  (** val succ : positive -> positive **)

  let rec succ = function
  | XI p -> XO (succ p)
  | XO p -> XI p
  | XH -> XO XH

  (** val add : positive -> positive -> positive **)

  let rec add x y =
    match x with
    | XI p ->
      (match y with
       | XI q -> XO (add_carry p q)
       | XO q -> XI (add p q)
       | XH -> XO (succ p))
    | XO p ->
      (match y with
       | XI q -> XI (add p q)
       | XO q -> XO (add p q)
       | XH -> XI p)
    | XH -> (match y with
             | XI q -> XO (succ q)
             | XO q -> XI q
             | XH -> XO XH)

  (** val add_carry : positive -> positive -> positive **)

  and add_carry x y =
    match x with
    | XI p ->
      (match y with
       | XI q -> XI (add_carry p q)
       | XO q -> XO (add_carry p q)
       | XH -> XI (succ p))
    | XO p ->
      (match y with
       | XI q -> XO (add_carry p q)
       | XO q -> XI (add p q)
       | XH -> XO (succ p))
    | XH ->
      (match y with
       | XI q -> XI (succ q)
       | XO q -> XO (succ q)
       | XH -> XI XH)

  (** val pred_double : positive -> positive **)

  let rec pred_double = function
  | XI p -> XI (XO p)
  | XO p -> XI (pred_double p)
  | XH -> XH

  type mask = Pos.mask =
  | IsNul
  | IsPos of positive
  | IsNeg

  (** val succ_double_mask : mask -> mask **)

  let succ_double_mask = function
  | IsNul -> IsPos XH
  | IsPos p -> IsPos (XI p)
  | IsNeg -> IsNeg

  (** val double_mask : mask -> mask **)

  let double_mask = function
  | IsPos p -> IsPos (XO p)
  | x0 -> x0

  (** val double_pred_mask : positive -> mask **)

  let double_pred_mask = function
  | XI p -> IsPos (XO (XO p))
  | XO p -> IsPos (XO (pred_double p))
  | XH -> IsNul

  (** val sub_mask : positive -> positive -> mask **)

  let rec sub_mask x y =
    match x with
    | XI p ->
      (match y with
       | XI q -> double_mask (sub_mask p q)
       | XO q -> succ_double_mask (sub_mask p q)
       | XH -> IsPos (XO p))
    | XO p ->
      (match y with
       | XI q -> succ_double_mask (sub_mask_carry p q)
       | XO q -> double_mask (sub_mask p q)
       | XH -> IsPos (pred_double p))
    | XH -> (match y with
             | XH -> IsNul
             | _ -> IsNeg)

  (** val sub_mask_carry : positive -> positive -> mask **)

  and sub_mask_carry x y =
    match x with
    | XI p ->
      (match y with
       | XI q -> succ_double_mask (sub_mask_carry p q)
       | XO q -> double_mask (sub_mask p q)
       | XH -> IsPos (pred_double p))
    | XO p ->
      (match y with
       | XI q -> double_mask (sub_mask_carry p q)
       | XO q -> succ_double_mask (sub_mask_carry p q)
       | XH -> double_pred_mask p)
    | XH -> IsNeg

  (** val compare_cont : comparison -> positive -> positive -> comparison **)

  let rec compare_cont r x y =
    match x with
    | XI p ->
      (match y with
       | XI q -> compare_cont r p q
       | XO q -> compare_cont Gt p q
       | XH -> Gt)
    | XO p ->
      (match y with
       | XI q -> compare_cont Lt p q
       | XO q -> compare_cont r p q
       | XH -> Gt)
    | XH -> (match y with
             | XH -> r
             | _ -> Lt)

  (** val compare : positive -> positive -> comparison **)

  let compare =
    compare_cont Eq

  (** val eqb : positive -> positive -> bool **)

  let rec eqb p q =
    match p with
    | XI p0 -> (match q with
                | XI q0 -> eqb p0 q0
                | _ -> false)
    | XO p0 -> (match q with
                | XO q0 -> eqb p0 q0
                | _ -> false)
    | XH -> (match q with
             | XH -> true
             | _ -> false)

  (** val iter_op : ('a1 -> 'a1 -> 'a1) -> positive -> 'a1 -> 'a1 **)

  let rec iter_op op p a =
    match p with
    | XI p0 -> op a (iter_op op p0 (op a a))
    | XO p0 -> iter_op op p0 (op a a)
    | XH -> a

  (** val to_nat : positive -> nat **)

  let to_nat x =
    iter_op Coq__1.add x (S O)
 end

module N =
 struct
  (** val succ_double : n -> n **)

  let succ_double = function
  | N0 -> Npos XH
  | Npos p -> Npos (XI p)

  (** val double : n -> n **)

  let double = function
  | N0 -> N0
  | Npos p -> Npos (XO p)

  (** val add : n -> n -> n **)

  let add n0 m =
    match n0 with
    | N0 -> m
    | Npos p -> (match m with
                 | N0 -> n0
                 | Npos q -> Npos (Coq_Pos.add p q))

  (** val sub : n -> n -> n **)

  let sub n0 m =
    match n0 with
    | N0 -> N0
    | Npos n' ->
      (match m with
       | N0 -> n0
       | Npos m' ->
         (match Coq_Pos.sub_mask n' m' with
          | Coq_Pos.IsPos p -> Npos p
          | _ -> N0))

  (** val compare : n -> n -> comparison **)

  let compare n0 m =
    match n0 with
    | N0 -> (match m with
             | N0 -> Eq
             | Npos _ -> Lt)
    | Npos n' -> (match m with
                  | N0 -> Gt
                  | Npos m' -> Coq_Pos.compare n' m')

  (** val eqb : n -> n -> bool **)

  let eqb n0 m =
    match n0 with
    | N0 -> (match m with
             | N0 -> true
             | Npos _ -> false)
    | Npos p -> (match m with
                 | N0 -> false
                 | Npos q -> Coq_Pos.eqb p q)

  (** val leb : n -> n -> bool **)

  let leb x y =
    match compare x y with
    | Gt -> false
    | _ -> true

  (** val ltb : n -> n -> bool **)

  let ltb x y =
    match compare x y with
    | Lt -> true
    | _ -> false

  (** val min : n -> n -> n **)

  let min n0 n' =
    match compare n0 n' with
    | Gt -> n'
    | _ -> n0

  (** val max : n -> n -> n **)

  let max n0 n' =
    match compare n0 n' with
    | Gt -> n0
    | _ -> n'

  (** val pos_div_eucl : positive -> n -> n * n **)

  let rec pos_div_eucl a b =
    match a with
    | XI a' ->
      let (q, r) = pos_div_eucl a' b in
      let r' = succ_double r in
      if leb b r' then ((succ_double q), (sub r' b)) else ((double q), r')
    | XO a' ->
      let (q, r) = pos_div_eucl a' b in
      let r' = double r in
      if leb b r' then ((succ_double q), (sub r' b)) else ((double q), r')
    | XH ->
      (match b with
       | N0 -> (N0, (Npos XH))
       | Npos p -> (match p with
                    | XH -> ((Npos XH), N0)
                    | _ -> (N0, (Npos XH))))

  (** val div_eucl : n -> n -> n * n **)

  let div_eucl a b =
    match a with
    | N0 -> (N0, N0)
    | Npos na -> (match b with
                  | N0 -> (N0, a)
                  | Npos _ -> pos_div_eucl na b)

  (** val div : n -> n -> n **)

  let div a b =
    fst (div_eucl a b)

  (** val to_nat : n -> nat **)

  let to_nat = function
  | N0 -> O
  | Npos p -> Coq_Pos.to_nat p
 end

module Z =
 struct
  (** val compare : z -> z -> comparison **)

  let compare x y =
    match x with
    | Z0 -> (match y with
             | Z0 -> Eq
             | Zpos _ -> Lt
             | Zneg _ -> Gt)
    | Zpos x' -> (match y with
                  | Zpos y' -> Coq_Pos.compare x' y'
                  | _ -> Gt)
    | Zneg x' ->
      (match y with
       | Zneg y' -> compOpp (Coq_Pos.compare x' y')
       | _ -> Lt)

  (** val leb : z -> z -> bool **)

  let leb x y =
    match compare x y with
    | Gt -> false
    | _ -> true

  (** val to_N : z -> n **)

  let to_N = function
  | Zpos p -> Npos p
  | _ -> N0

  (** val of_N : n -> z **)

  let of_N = function
  | N0 -> Z0
  | Npos p -> Zpos p
 end

type t =
| I of z
| L of t list

(** val tN : n -> t **)

let tN n0 =
  I (Z.of_N n0)

(** val tB : bool -> t **)

let tB b =
  I (if b then Zpos XH else Z0)

(** val tListN : n list -> t **)

let tListN l =
  L (map tN l)

(** val getN : t -> n option **)

let getN = function
| I z0 -> if Z.leb Z0 z0 then Some (Z.to_N z0) else None
| L _ -> None

(** val getL : t -> t list option **)

let getL = function
| I _ -> None
| L l -> Some l

(** val mapM : ('a1 -> 'a2 option) -> 'a1 list -> 'a2 list option **)

let rec mapM f = function
| [] -> Some []
| x :: xs ->
  (match f x with
   | Some y -> (match mapM f xs with
                | Some ys -> Some (y :: ys)
                | None -> None)
   | None -> None)

(** val getListN : t -> n list option **)

let getListN t0 =
  match getL t0 with
  | Some l -> mapM getN l
  | None -> None

(** val getOptN : t -> n option option **)

let getOptN = function
| I _ -> None
| L l ->
  (match l with
   | [] -> Some None
   | x :: l0 ->
     (match l0 with
      | [] -> (match getN x with
               | Some n0 -> Some (Some n0)
               | None -> None)
      | _ :: _ -> None))

(** val tErr : z -> t **)

let tErr code =
  L ((I (Zneg (XI (XI (XI (XO (XO (XI (XI (XI (XI XH))))))))))) :: ((I
    code) :: []))

(** val u32max : n **)

let u32max =
  Npos (XI (XI (XI (XI (XI (XI (XI (XI (XI (XI (XI (XI (XI (XI (XI (XI (XI
    (XI (XI (XI (XI (XI (XI (XI (XI (XI (XI (XI (XI (XI (XI
    XH)))))))))))))))))))))))))))))))

(** val sat_add : n -> n -> n -> n **)

let sat_add mx a b =
  N.min mx (N.add a b)

(** val checked_add : n -> n -> n -> n option **)

let checked_add mx a b =
  if N.leb (N.add a b) mx then Some (N.add a b) else None

(** val checked_sub : n -> n -> n option **)

let checked_sub a b =
  if N.leb b a then Some (N.sub a b) else None

type status =
| Uninit
| Processing of n * n
| Committed of n

(** val rempty : n -> n -> bool **)

let rempty s e =
  N.ltb e s

(** val rcontains : n -> n -> n -> bool **)

let rcontains s e x =
  (&&) (N.leb s x) (N.leb x e)

(** val st_new : n option -> n option -> status **)

let st_new c o =
  match c with
  | Some c0 ->
    (match o with
     | Some o0 ->
       (match checked_add u32max c0 (Npos XH) with
        | Some next ->
          if rempty next o0 then Committed c0 else Processing (next, o0)
        | None -> Committed c0)
     | None -> Committed c0)
  | None -> (match o with
             | Some o0 -> Processing (N0, o0)
             | None -> Uninit)

(** val process_range : status -> (n * n) option **)

let process_range = function
| Processing (s, e) -> Some (s, e)
| _ -> None

(** val apply_status : status -> status option -> status **)

let apply_status st = function
| Some s -> s
| None -> st

(** val commit : status -> n -> status **)

let commit st h =
  apply_status st
    (match st with
     | Uninit -> Some (Committed h)
     | Processing (s, e) ->
       if N.ltb h s
       then None
       else if N.ltb h e
            then Some (Processing ((sat_add u32max h (Npos XH)), e))
            else Some (Committed h)
     | Committed c -> if N.leb h c then None else Some (Committed h))

(** val observe : status -> n -> status * bool **)

let observe st h =
  let n0 =
    match st with
    | Uninit -> Some (Processing (N0, h))
    | Processing (s, e) ->
      if N.ltb e h then Some (Processing (s, h)) else None
    | Committed c ->
      (match checked_add u32max c (Npos XH) with
       | Some next ->
         if rempty next h then None else Some (Processing (next, h))
       | None -> None)
  in
  ((apply_status st n0), (match n0 with
                          | Some _ -> true
                          | None -> false))

(** val revert_before : n -> status **)

let revert_before s =
  match checked_sub s (Npos XH) with
  | Some p -> Committed p
  | None -> Uninit

(** val failed : status -> n -> n -> status **)

let failed st fs fe =
  apply_status st
    (if rempty fs fe
     then None
     else (match st with
           | Processing (s, e) ->
             if rcontains fs fe s
             then Some (revert_before s)
             else if (||) (rcontains fs fe e) (rcontains s e fs)
                  then Some
                         (match checked_sub fs (Npos XH) with
                          | Some p -> Processing (s, p)
                          | None -> Uninit)
                  else if rcontains s e fe
                       then Some (revert_before s)
                       else None
           | _ -> None))

type event =
| EObserve of n
| ECommit of n
| EFailed of n * n

(** val step : status -> event -> status **)

let step st = function
| EObserve h -> fst (observe st h)
| ECommit h -> commit st h
| EFailed (s, e) -> failed st s e

type ghost = { maxC : n option; maxO : n option; clean : bool }

(** val omax : n option -> n -> n option **)

let omax a h =
  match a with
  | Some x -> Some (N.max x h)
  | None -> Some h

(** val ole : n option -> n -> bool **)

let ole a h =
  match a with
  | Some x -> N.leb x h
  | None -> true

(** val ghost_new : n option -> n option -> ghost **)

let ghost_new c o =
  { maxC = c; maxO = o; clean = true }

(** val ghost_step : ghost -> event -> ghost **)

let ghost_step g = function
| EObserve h ->
  { maxC = g.maxC; maxO = (omax g.maxO h); clean =
    ((||) g.clean (ole g.maxO h)) }
| ECommit h -> { maxC = (omax g.maxC h); maxO = g.maxO; clean = g.clean }
| EFailed (s, e) ->
  { maxC = g.maxC; maxO = g.maxO; clean = ((&&) g.clean (rempty s e)) }

(** val implied_committed : status -> n option **)

let implied_committed = function
| Uninit -> None
| Processing (s, _) -> checked_sub s (Npos XH)
| Committed c -> Some c

(** val oeqb : n option -> n option -> bool **)

let oeqb a b =
  match a with
  | Some x -> (match b with
               | Some y -> N.eqb x y
               | None -> false)
  | None -> (match b with
             | Some _ -> false
             | None -> true)

(** val shape_ok : ghost -> status -> bool **)

let shape_ok g st =
  (&&) (oeqb (implied_committed st) g.maxC)
    (match st with
     | Uninit -> (||) (negb g.clean) (oeqb g.maxO None)
     | Processing (s, e) ->
       (&&) ((&&) (N.leb s e) (N.leb e u32max))
         (match g.maxO with
          | Some o -> (&&) (N.leb e o) ((||) (negb g.clean) (N.eqb e o))
          | None -> false)
     | Committed c -> (||) (negb g.clean) (ole g.maxO c))

type kind =
| KHeader
| KBlock

(** val kind_eqb : kind -> kind -> bool **)

let kind_eqb a b =
  match a with
  | KHeader -> (match b with
                | KHeader -> true
                | KBlock -> false)
  | KBlock -> (match b with
               | KHeader -> false
               | KBlock -> true)

type chunk =
| CNone of n * n
| CHeaders of n * n * n list
| CBlocks of n * n * n list

(** val chunk_start : chunk -> n **)

let chunk_start = function
| CNone (a, _) -> a
| CHeaders (a, _, _) -> a
| CBlocks (a, _, _) -> a

(** val chunk_end : chunk -> n **)

let chunk_end = function
| CNone (_, b) -> b
| CHeaders (_, b, _) -> b
| CBlocks (_, b, _) -> b

(** val chunk_empty : chunk -> bool **)

let chunk_empty c =
  N.leb (chunk_end c) (chunk_start c)

type item = n * kind

(** val missing_aux : nat -> n -> n -> n -> n -> chunk list **)

let rec missing_aux n0 start size height bound =
  match n0 with
  | O -> []
  | S n' ->
    (CNone (start,
      (N.min (N.min (sat_add u32max start size) height) bound))) :: (missing_aux
                                                                    n'
                                                                    (N.add
                                                                    start
                                                                    size)
                                                                    size
                                                                    height
                                                                    bound)

(** val nchunks : n -> n -> n -> nat **)

let nchunks current height size =
  N.to_nat (N.div (N.sub (N.add (N.sub height current) size) (Npos XH)) size)

(** val push_missing : n -> n -> n -> n -> chunk list **)

let push_missing current height size bound =
  missing_aux (nchunks current height size) current size height bound

(** val new_chunk : kind -> n -> chunk **)

let new_chunk k h =
  match k with
  | KHeader -> CHeaders (h, (sat_add u32max h (Npos XH)), (h :: []))
  | KBlock -> CBlocks (h, (sat_add u32max h (Npos XH)), (h :: []))

(** val handle_current : chunk -> kind -> n -> n -> chunk list * chunk **)

let handle_current cur k h size =
  match cur with
  | CNone (_, _) -> ([], (new_chunk k h))
  | CHeaders (a, b, hs) ->
    (match k with
     | KHeader ->
       if N.eqb (N.sub b a) size
       then ((cur :: []), (new_chunk KHeader h))
       else ([], (CHeaders (a, (sat_add u32max b (Npos XH)),
              (app hs (h :: [])))))
     | KBlock -> ((cur :: []), (new_chunk KBlock h)))
  | CBlocks (a, b, hs) ->
    (match k with
     | KHeader -> ((cur :: []), (new_chunk KHeader h))
     | KBlock ->
       if N.eqb (N.sub b a) size
       then ((cur :: []), (new_chunk KBlock h))
       else ([], (CBlocks (a, (sat_add u32max b (Npos XH)),
              (app hs (h :: []))))))

(** val flush : chunk list -> chunk -> chunk list **)

let flush chunks cur =
  if chunk_empty cur then chunks else app chunks (cur :: [])

type loop_state = (n * chunk list) * chunk

(** val chunk_step : n -> n -> loop_state -> item -> loop_state **)

let chunk_step size endx st it =
  let (p, cur) = st in
  let (cur_h, chunks) = p in
  let (h, k) = it in
  if negb (N.eqb h cur_h)
  then let chunks1 = app (flush chunks cur) (push_missing cur_h h size endx)
       in
       let cur1 = CNone (N0, N0) in
       let (pushed, cur2) = handle_current cur1 k h size in
       (((sat_add u32max h (Npos XH)), (app chunks1 pushed)), cur2)
  else let (pushed, cur2) = handle_current cur k h size in
       (((sat_add u32max h (Npos XH)), (app chunks pushed)), cur2)

(** val collect : item list -> n -> n -> item list **)

let collect cache s e =
  filter (fun it -> (&&) (N.leb s (fst it)) (N.leb (fst it) e)) cache

(** val get_chunks_items : item list -> n -> n -> n -> chunk list **)

let get_chunks_items items s e size =
  let endx = sat_add u32max e (Npos XH) in
  let (p, cur) =
    fold_left (chunk_step size endx) items ((s, []), (CNone (N0, N0)))
  in
  let (cur_h, chunks) = p in
  app (flush chunks cur) (push_missing cur_h endx size endx)

(** val get_chunks : item list -> n -> n -> n -> chunk list **)

let get_chunks cache s e size =
  get_chunks_items (collect cache s e) s e size

(** val lookup : item list -> n -> kind option **)

let rec lookup cache h =
  match cache with
  | [] -> None
  | i :: r -> let (h', k) = i in if N.eqb h' h then Some k else lookup r h

(** val nseq : nat -> n -> n list **)

let rec nseq n0 a =
  match n0 with
  | O -> []
  | S n' -> a :: (nseq n' (N.add a (Npos XH)))

(** val heights : n -> n -> n list **)

let heights a b =
  nseq (N.to_nat (N.sub b a)) a

(** val listN_eqb : n list -> n list -> bool **)

let rec listN_eqb x y =
  match x with
  | [] -> (match y with
           | [] -> true
           | _ :: _ -> false)
  | a :: x' ->
    (match y with
     | [] -> false
     | b :: y' -> (&&) (N.eqb a b) (listN_eqb x' y'))

(** val okind_eqb : kind option -> kind option -> bool **)

let okind_eqb a b =
  match a with
  | Some x -> (match b with
               | Some y -> kind_eqb x y
               | None -> false)
  | None -> (match b with
             | Some _ -> false
             | None -> true)

(** val content_okb : item list -> chunk -> bool **)

let content_okb cache = function
| CNone (a, b) ->
  forallb (fun h -> okind_eqb (lookup cache h) None) (heights a b)
| CHeaders (a, b, hs) ->
  (&&) (listN_eqb hs (heights a b))
    (forallb (fun h -> okind_eqb (lookup cache h) (Some KHeader))
      (heights a b))
| CBlocks (a, b, hs) ->
  (&&) (listN_eqb hs (heights a b))
    (forallb (fun h -> okind_eqb (lookup cache h) (Some KBlock))
      (heights a b))

(** val tilesb : item list -> n -> n -> n -> chunk list -> bool **)

let rec tilesb cache size a b = function
| [] -> N.eqb a b
| c :: r ->
  (&&)
    ((&&)
      ((&&)
        ((&&) ((&&) (N.eqb (chunk_start c) a) (N.ltb a (chunk_end c)))
          (N.leb (N.sub (chunk_end c) a) size)) (N.leb (chunk_end c) b))
      (content_okb cache c)) (tilesb cache size (chunk_end c) b r)

(** val chunks_okb : item list -> n -> n -> n -> chunk list -> bool **)

let chunks_okb cache s e size cs =
  tilesb cache size s (N.add e (Npos XH)) cs

(** val status_T : status -> t **)

let status_T = function
| Uninit -> L ((I Z0) :: [])
| Processing (s0, e) -> L ((I (Zpos XH)) :: ((tN s0) :: ((tN e) :: [])))
| Committed c -> L ((I (Zpos (XO XH))) :: ((tN c) :: []))

(** val t_status : t -> status option **)

let t_status = function
| I _ -> None
| L l ->
  (match l with
   | [] -> None
   | t1 :: l0 ->
     (match t1 with
      | I z0 ->
        (match z0 with
         | Z0 -> (match l0 with
                  | [] -> Some Uninit
                  | _ :: _ -> None)
         | Zpos p ->
           (match p with
            | XI _ -> None
            | XO p0 ->
              (match p0 with
               | XH ->
                 (match l0 with
                  | [] -> None
                  | c :: l1 ->
                    (match l1 with
                     | [] -> option_map (fun x -> Committed x) (getN c)
                     | _ :: _ -> None))
               | _ -> None)
            | XH ->
              (match l0 with
               | [] -> None
               | s :: l1 ->
                 (match l1 with
                  | [] -> None
                  | e :: l2 ->
                    (match l2 with
                     | [] ->
                       (match getN s with
                        | Some s0 ->
                          (match getN e with
                           | Some e0 -> Some (Processing (s0, e0))
                           | None -> None)
                        | None -> None)
                     | _ :: _ -> None))))
         | Zneg _ -> None)
      | L _ -> None))

(** val t_event : t -> event option **)

let t_event = function
| I _ -> None
| L l ->
  (match l with
   | [] -> None
   | t1 :: l0 ->
     (match t1 with
      | I z0 ->
        (match z0 with
         | Z0 ->
           (match l0 with
            | [] -> None
            | h :: l1 ->
              (match l1 with
               | [] -> option_map (fun x -> EObserve x) (getN h)
               | _ :: _ -> None))
         | Zpos p ->
           (match p with
            | XI _ -> None
            | XO p0 ->
              (match p0 with
               | XH ->
                 (match l0 with
                  | [] -> None
                  | s :: l1 ->
                    (match l1 with
                     | [] -> None
                     | e :: l2 ->
                       (match l2 with
                        | [] ->
                          (match getN s with
                           | Some s0 ->
                             (match getN e with
                              | Some e0 -> Some (EFailed (s0, e0))
                              | None -> None)
                           | None -> None)
                        | _ :: _ -> None)))
               | _ -> None)
            | XH ->
              (match l0 with
               | [] -> None
               | h :: l1 ->
                 (match l1 with
                  | [] -> option_map (fun x -> ECommit x) (getN h)
                  | _ :: _ -> None)))
         | Zneg _ -> None)
      | L _ -> None))

(** val obs_T : status -> event -> t **)

let obs_T st_before ev =
  let st' = step st_before ev in
  L
  ((status_T st') :: ((match process_range st' with
                       | Some p ->
                         let (s, e) = p in L ((tN s) :: ((tN e) :: []))
                       | None -> L []) :: ((match ev with
                                            | EObserve h ->
                                              tB (snd (observe st_before h))
                                            | _ -> I (Zneg XH)) :: [])))

(** val run28 : status -> event list -> t list **)

let rec run28 st = function
| [] -> []
| ev :: r -> (obs_T st ev) :: (run28 (step st ev) r)

(** val pcheck28 : ghost -> event list -> t list -> bool **)

let rec pcheck28 g evs obs =
  match evs with
  | [] -> (match obs with
           | [] -> true
           | _ :: _ -> false)
  | ev :: r ->
    (match obs with
     | [] -> false
     | t0 :: obs' ->
       (match t0 with
        | I _ -> false
        | L l ->
          (match l with
           | [] -> false
           | st :: _ ->
             let g' = ghost_step g ev in
             (match t_status st with
              | Some st0 -> (&&) (shape_ok g' st0) (pcheck28 g' r obs')
              | None -> false))))

(** val main28 : t -> t -> t **)

let main28 input observed =
  match input with
  | I _ -> tErr (Zpos XH)
  | L l ->
    (match l with
     | [] -> tErr (Zpos XH)
     | c :: l0 ->
       (match l0 with
        | [] -> tErr (Zpos XH)
        | o :: l1 ->
          (match l1 with
           | [] -> tErr (Zpos XH)
           | t0 :: l2 ->
             (match t0 with
              | I _ -> tErr (Zpos XH)
              | L evs ->
                (match l2 with
                 | [] ->
                   (match getOptN c with
                    | Some c0 ->
                      (match getOptN o with
                       | Some o0 ->
                         (match mapM t_event evs with
                          | Some evs0 ->
                            let st0 = st_new c0 o0 in
                            let model = L ((status_T st0) :: (run28 st0 evs0))
                            in
                            let pc =
                              match observed with
                              | I _ -> false
                              | L l3 ->
                                (match l3 with
                                 | [] -> false
                                 | s0 :: obs ->
                                   (match t_status s0 with
                                    | Some s1 ->
                                      (&&) (shape_ok (ghost_new c0 o0) s1)
                                        (pcheck28 (ghost_new c0 o0) evs0 obs)
                                    | None -> false))
                            in
                            L (model :: ((tB pc) :: []))
                          | None -> tErr (Zpos (XO XH)))
                       | None -> tErr (Zpos (XO XH)))
                    | None -> tErr (Zpos (XO XH)))
                 | _ :: _ -> tErr (Zpos XH))))))

(** val t_kind : t -> kind option **)

let t_kind = function
| I z0 ->
  (match z0 with
   | Zpos p ->
     (match p with
      | XI _ -> None
      | XO p0 -> (match p0 with
                  | XH -> Some KBlock
                  | _ -> None)
      | XH -> Some KHeader)
   | _ -> None)
| L _ -> None

(** val chunk_T : chunk -> t **)

let chunk_T = function
| CNone (a, b) -> L ((I Z0) :: ((tN a) :: ((tN b) :: ((L []) :: []))))
| CHeaders (a, b, hs) ->
  L ((I (Zpos XH)) :: ((tN a) :: ((tN b) :: ((tListN hs) :: []))))
| CBlocks (a, b, hs) ->
  L ((I (Zpos (XO XH))) :: ((tN a) :: ((tN b) :: ((tListN hs) :: []))))

(** val t_chunk : t -> chunk option **)

let t_chunk = function
| I _ -> None
| L l ->
  (match l with
   | [] -> None
   | t1 :: l0 ->
     (match t1 with
      | I k ->
        (match l0 with
         | [] -> None
         | a :: l1 ->
           (match l1 with
            | [] -> None
            | b :: l2 ->
              (match l2 with
               | [] -> None
               | hs :: l3 ->
                 (match l3 with
                  | [] ->
                    (match getN a with
                     | Some a0 ->
                       (match getN b with
                        | Some b0 ->
                          (match getListN hs with
                           | Some hs0 ->
                             (match k with
                              | Z0 -> Some (CNone (a0, b0))
                              | Zpos p ->
                                (match p with
                                 | XI _ -> None
                                 | XO p0 ->
                                   (match p0 with
                                    | XH -> Some (CBlocks (a0, b0, hs0))
                                    | _ -> None)
                                 | XH -> Some (CHeaders (a0, b0, hs0)))
                              | Zneg _ -> None)
                           | None -> None)
                        | None -> None)
                     | None -> None)
                  | _ :: _ -> None))))
      | L _ -> None))

(** val t_item : t -> item option **)

let t_item = function
| I _ -> None
| L l ->
  (match l with
   | [] -> None
   | h :: l0 ->
     (match l0 with
      | [] -> None
      | k :: l1 ->
        (match l1 with
         | [] ->
           (match getN h with
            | Some h0 ->
              (match t_kind k with
               | Some k0 -> Some (h0, k0)
               | None -> None)
            | None -> None)
         | _ :: _ -> None)))

(** val main27 : t -> t -> t **)

let main27 input observed =
  match input with
  | I _ -> tErr (Zpos XH)
  | L l ->
    (match l with
     | [] -> tErr (Zpos XH)
     | s :: l0 ->
       (match l0 with
        | [] -> tErr (Zpos XH)
        | e :: l1 ->
          (match l1 with
           | [] -> tErr (Zpos XH)
           | size :: l2 ->
             (match l2 with
              | [] -> tErr (Zpos XH)
              | t0 :: l3 ->
                (match t0 with
                 | I _ -> tErr (Zpos XH)
                 | L cache ->
                   (match l3 with
                    | [] ->
                      (match getN s with
                       | Some s0 ->
                         (match getN e with
                          | Some e0 ->
                            (match getN size with
                             | Some size0 ->
                               (match mapM t_item cache with
                                | Some cache0 ->
                                  let model = L
                                    (map chunk_T
                                      (get_chunks cache0 s0 e0 size0))
                                  in
                                  let pc =
                                    match observed with
                                    | I _ -> false
                                    | L obs ->
                                      (match mapM t_chunk obs with
                                       | Some cs ->
                                         chunks_okb cache0 s0 e0 size0 cs
                                       | None -> false)
                                  in
                                  L (model :: ((tB pc) :: []))
                                | None -> tErr (Zpos (XO XH)))
                             | None -> tErr (Zpos (XO XH)))
                          | None -> tErr (Zpos (XO XH)))
                       | None -> tErr (Zpos (XO XH)))
                    | _ :: _ -> tErr (Zpos XH)))))))

(** val main_T : t -> t **)

let main_T = function
| I _ -> tErr Z0
| L l ->
  (match l with
   | [] -> tErr Z0
   | t0 :: l0 ->
     (match t0 with
      | I z0 ->
        (match z0 with
         | Zpos p ->
           (match p with
            | XI p0 ->
              (match p0 with
               | XI p1 ->
                 (match p1 with
                  | XO p2 ->
                    (match p2 with
                     | XI p3 ->
                       (match p3 with
                        | XH ->
                          (match l0 with
                           | [] -> tErr Z0
                           | input :: l1 ->
                             (match l1 with
                              | [] -> tErr Z0
                              | observed :: l2 ->
                                (match l2 with
                                 | [] -> main27 input observed
                                 | _ :: _ -> tErr Z0)))
                        | _ -> tErr Z0)
                     | _ -> tErr Z0)
                  | _ -> tErr Z0)
               | _ -> tErr Z0)
            | XO p0 ->
              (match p0 with
               | XO p1 ->
                 (match p1 with
                  | XI p2 ->
                    (match p2 with
                     | XI p3 ->
                       (match p3 with
                        | XH ->
                          (match l0 with
                           | [] -> tErr Z0
                           | input :: l1 ->
                             (match l1 with
                              | [] -> tErr Z0
                              | observed :: l2 ->
                                (match l2 with
                                 | [] -> main28 input observed
                                 | _ :: _ -> tErr Z0)))
                        | _ -> tErr Z0)
                     | _ -> tErr Z0)
                  | _ -> tErr Z0)
               | _ -> tErr Z0)
            | XH -> tErr Z0)
         | _ -> tErr Z0)
      | L _ -> tErr Z0))

(* Generic line driver, textually appended after an extracted model (which defines
   the inductive types positive/z and t with constructors XI XO XH / Z0 Zpos Zneg / I L
   and the function main_T).  One request per input line in the text syntax
   (1 2 (3 -4) ()) ; one reply per output line.  Trusted glue: decimal <-> positive. *)

(* decimal string (no sign, no leading junk) -> list of bits, LSB first *)
let bits_of_decimal (s : string) : bool list =
  let digits = Array.init (String.length s) (fun i -> Char.code s.[i] - 48) in
  let n = Array.length digits in
  let start = ref 0 in
  let bits = ref [] in
  while !start < n && digits.(!start) = 0 do incr start done;
  while !start < n do
    (* divide digits[start..] by 2 in place, remainder is the next bit *)
    let rem = ref 0 in
    for i = !start to n - 1 do
      let cur = !rem * 10 + digits.(i) in
      digits.(i) <- cur / 2;
      rem := cur mod 2
    done;
    bits := (!rem = 1) :: !bits;
    while !start < n && digits.(!start) = 0 do incr start done
  done;
  List.rev !bits

let rec pos_of_bits = function
  | [] -> failwith "pos_of_bits: zero"
  | [true] -> XH
  | [false] -> failwith "pos_of_bits: leading zero"
  | b :: r -> if b then XI (pos_of_bits r) else XO (pos_of_bits r)

let z_of_string (s : string) : z =
  let neg = String.length s > 0 && s.[0] = '-' in
  let body = if neg then String.sub s 1 (String.length s - 1) else s in
  if body = "" then failwith "empty number";
  String.iter (fun c -> if c < '0' || c > '9' then failwith ("bad number " ^ s)) body;
  let bits = bits_of_decimal body in
  match bits with
  | [] -> Z0
  | _ -> let p = pos_of_bits bits in if neg then Zneg p else Zpos p

(* positive -> decimal string, by double-and-add on a little-endian digit buffer *)
let decimal_of_pos (p : positive) : string =
  let rec bits p acc = match p with
    | XH -> true :: acc
    | XO q -> bits q (false :: acc)
    | XI q -> bits q (true :: acc) in
  let msb_first = bits p [] in
  let buf = Buffer.create 16 in
  let digits = ref [| 0 |] in
  let double_add carry0 =
    let d = !digits in
    let carry = ref carry0 in
    for i = 0 to Array.length d - 1 do
      let v = d.(i) * 2 + !carry in
      d.(i) <- v mod 10; carry := v / 10
    done;
    if !carry > 0 then digits := Array.append d [| !carry |] in
  List.iter (fun b -> double_add (if b then 1 else 0)) msb_first;
  let d = !digits in
  for i = Array.length d - 1 downto 0 do Buffer.add_char buf (Char.chr (48 + d.(i))) done;
  Buffer.contents buf

let string_of_z = function
  | Z0 -> "0"
  | Zpos p -> decimal_of_pos p
  | Zneg p -> "-" ^ decimal_of_pos p

let parse_t (s : string) : t =
  let n = String.length s in
  let pos = ref 0 in
  let skip () = while !pos < n && (s.[!pos] = ' ' || s.[!pos] = '\t' || s.[!pos] = '\r') do incr pos done in
  let rec item () : t =
    skip ();
    if !pos >= n then failwith "unexpected end";
    if s.[!pos] = '(' then begin
      incr pos;
      let items = ref [] in
      let fin = ref false in
      while not !fin do
        skip ();
        if !pos >= n then failwith "unclosed paren";
        if s.[!pos] = ')' then (incr pos; fin := true)
        else items := item () :: !items
      done;
      L (List.rev !items)
    end else begin
      let st = !pos in
      while !pos < n && s.[!pos] <> ' ' && s.[!pos] <> '(' && s.[!pos] <> ')' do incr pos done;
      I (z_of_string (String.sub s st (!pos - st)))
    end in
  let r = item () in
  skip ();
  if !pos <> n then failwith "trailing input";
  r

let print_t (b : Buffer.t) (x : t) : unit =
  let rec go x = match x with
    | I z -> Buffer.add_string b (string_of_z z)
    | L l ->
      Buffer.add_char b '(';
      List.iteri (fun i y -> if i > 0 then Buffer.add_char b ' '; go y) l;
      Buffer.add_char b ')' in
  go x

let () =
  let b = Buffer.create 4096 in
  (try
    while true do
      let line = input_line stdin in
      if String.trim line <> "" then begin
        Buffer.clear b;
        (match (try Ok (parse_t (String.trim line)) with Failure m -> Error m) with
         | Ok req -> print_t b (main_T req)
         | Error m -> Buffer.add_string b ("(-998) ; parse error: " ^ m));
        print_string (Buffer.contents b); print_newline ()
      end
    done
  with End_of_file -> ())
