(* Generic line driver, textually appended after an extracted model (which defines
   the inductive types positive/z and t with constructors XI XO XH / Z0 Zpos Zneg / I L
   and the function main_T).  One request per input line in the text syntax
   (1 2 (3 -4) ()) ; one reply per output line.  Trusted glue: decimal <-> positive. *)

(* decimal string (no sign, no leading junk) -> list of bits, LSB first *)
let bits_of_decimal (s : string) : bool list =
  let digits = Array.init (String.length s) (fun i -> Char.code s.[i] - 48) in
  let n = Array.length digits in
  let start = ref 0 in
  let bits = ref [] in
  while !start < n && digits.(!start) = 0 do incr start done;
  while !start < n do
    (* divide digits[start..] by 2 in place, remainder is the next bit *)
    let rem = ref 0 in
    for i = !start to n - 1 do
      let cur = !rem * 10 + digits.(i) in
      digits.(i) <- cur / 2;
      rem := cur mod 2
    done;
    bits := (!rem = 1) :: !bits;
    while !start < n && digits.(!start) = 0 do incr start done
  done;
  List.rev !bits

let rec pos_of_bits = function
  | [] -> failwith "pos_of_bits: zero"
  | [true] -> XH
  | [false] -> failwith "pos_of_bits: leading zero"
  | b :: r -> if b then XI (pos_of_bits r) else XO (pos_of_bits r)

let z_of_string (s : string) : z =
  let neg = String.length s > 0 && s.[0] = '-' in
  let body = if neg then String.sub s 1 (String.length s - 1) else s in
  if body = "" then failwith "empty number";
  String.iter (fun c -> if c < '0' || c > '9' then failwith ("bad number " ^ s)) body;
  let bits = bits_of_decimal body in
  match bits with
  | [] -> Z0
  | _ -> let p = pos_of_bits bits in if neg then Zneg p else Zpos p

(* positive -> decimal string, by double-and-add on a little-endian digit buffer *)
let decimal_of_pos (p : positive) : string =
  let rec bits p acc = match p with
    | XH -> true :: acc
    | XO q -> bits q (false :: acc)
    | XI q -> bits q (true :: acc) in
  let msb_first = bits p [] in
  let buf = Buffer.create 16 in
  let digits = ref [| 0 |] in
  let double_add carry0 =
    let d = !digits in
    let carry = ref carry0 in
    for i = 0 to Array.length d - 1 do
      let v = d.(i) * 2 + !carry in
      d.(i) <- v mod 10; carry := v / 10
    done;
    if !carry > 0 then digits := Array.append d [| !carry |] in
  List.iter (fun b -> double_add (if b then 1 else 0)) msb_first;
  let d = !digits in
  for i = Array.length d - 1 downto 0 do Buffer.add_char buf (Char.chr (48 + d.(i))) done;
  Buffer.contents buf

let string_of_z = function
  | Z0 -> "0"
  | Zpos p -> decimal_of_pos p
  | Zneg p -> "-" ^ decimal_of_pos p

let parse_t (s : string) : t =
  let n = String.length s in
  let pos = ref 0 in
  let skip () = while !pos < n && (s.[!pos] = ' ' || s.[!pos] = '\t' || s.[!pos] = '\r') do incr pos done in
  let rec item () : t =
    skip ();
    if !pos >= n then failwith "unexpected end";
    if s.[!pos] = '(' then begin
      incr pos;
      let items = ref [] in
      let fin = ref false in
      while not !fin do
        skip ();
        if !pos >= n then failwith "unclosed paren";
        if s.[!pos] = ')' then (incr pos; fin := true)
        else items := item () :: !items
      done;
      L (List.rev !items)
    end else begin
      let st = !pos in
      while !pos < n && s.[!pos] <> ' ' && s.[!pos] <> '(' && s.[!pos] <> ')' do incr pos done;
      I (z_of_string (String.sub s st (!pos - st)))
    end in
  let r = item () in
  skip ();
  if !pos <> n then failwith "trailing input";
  r

let print_t (b : Buffer.t) (x : t) : unit =
  let rec go x = match x with
    | I z -> Buffer.add_string b (string_of_z z)
    | L l ->
      Buffer.add_char b '(';
      List.iteri (fun i y -> if i > 0 then Buffer.add_char b ' '; go y) l;
      Buffer.add_char b ')' in
  go x

let () =
  let b = Buffer.create 4096 in
  (try
    while true do
      let line = input_line stdin in
      if String.trim line <> "" then begin
        Buffer.clear b;
        (match (try Ok (parse_t (String.trim line)) with Failure m -> Error m) with
         | Ok req -> print_t b (main_T req)
         | Error m -> Buffer.add_string b ("(-998) ; parse error: " ^ m));
        print_string (Buffer.contents b); print_newline ()
      end
    done
  with End_of_file -> ())
