(* Property theorems of the Db cluster (C09). Nothing but statements, [exact], and
   Print Assumptions. *)
From FC Require Import Db.Model Db.Proofs.
Open Scope N_scope.

(* the decision of commit_changes_with_height_update: Ok iff the found heights are linked to
   the previous height; MultipleHeightsInCommit iff two or more heights; the new height is
   the single found one *)
Theorem step_spec : forall mx prev hs,
  (fst (step mx prev hs) = COk <-> Linked mx prev hs) /\
  (fst (step mx prev hs) = CMultiple <-> (2 <= length hs)%nat) /\
  (fst (step mx prev hs) = COk -> snd (step mx prev hs) = last (map Some hs) None) /\
  (fst (step mx prev hs) <> COk -> snd (step mx prev hs) = None).
Proof. exact step_spec_all. Qed.
Print Assumptions step_spec.

(* accepted_iff_linked / no_two_heights / a rejected commit (also one refused by the backend)
   changes neither the cached nor the persisted height *)
Theorem accepted_iff_linked : forall c d ins p,
  let hs := found c ins in
  let r := snd (commit c d ins p) in
  let d' := fst (commit c d ins p) in
  (r = COk <-> Linked (hmax c) (cached d) hs /\ (hs = [] \/ conflict c ins p = false)) /\
  ((2 <= length hs)%nat -> r = CMultiple /\ d' = d) /\
  (r <> COk -> d' = d) /\
  (r = COk -> hs = [] -> d' = d) /\
  (r = COk -> forall n, hs = [n] -> cached d' = Some n /\ meta d' = Some n).
Proof. exact commit_spec_all. Qed.
Print Assumptions accepted_iff_linked.

(* over ALL op sequences (accepted and rejected commits, rollbacks, reopen): the persisted
   (metadata) height equals the height of the last accepted, not rolled back,
   height-carrying commit *)
Theorem persisted_height_exact : forall c ops,
  let '(d, acc) := grun c (new_db, []) ops in meta d = top acc.
Proof. exact persisted_height_exact_all. Qed.
Print Assumptions persisted_height_exact.

(* the reported (cached) height: exact on every sequence outside the known class
   (a successful rollback of the only accepted height f > 0) ... *)
Theorem reported_height_exact_partial : forall c ops, dev_free c (new_db, []) ops ->
  let '(d, acc) := grun c (new_db, []) ops in cached d = top acc /\ meta d = top acc.
Proof. exact reported_height_exact_partial_all. Qed.
Print Assumptions reported_height_exact_partial.

(* ... in particular on every sequence over MemoryStore and RocksDB/NoRewind ... *)
Theorem reported_height_exact_no_rewind : forall c ops, backend c <> 2 ->
  let '(d, acc) := grun c (new_db, []) ops in cached d = top acc /\ meta d = top acc.
Proof. exact reported_height_exact_no_rewind_all. Qed.
Print Assumptions reported_height_exact_no_rewind.

(* ... but not in general: commit height 5 into a fresh RewindFullRange database, roll it back:
   reported height 4, persisted height none *)
Theorem reported_height_exact_refuted :
  exists c ops, let '(d, acc) := grun c (new_db, []) ops in cached d <> top acc.
Proof. exact reported_height_refuted_witness. Qed.
Print Assumptions reported_height_exact_refuted.

(* the only possible deviation: nothing accepted is left and the metadata is gone *)
Theorem deviation_shape : forall c ops,
  let '(d, acc) := grun c (new_db, []) ops in cached d = top acc \/ (acc = [] /\ meta d = None).
Proof. exact deviation_shape_all. Qed.
Print Assumptions deviation_shape.

(* Pcheck = the trace specification *)
Theorem trace_checker_sound : forall c ops obs,
  trace_ok_top c ops obs = true <-> TraceSpecTop c ops obs.
Proof. exact trace_ok_top_iff. Qed.
Print Assumptions trace_checker_sound.

(* outside the class, the model's own trace passes the checker (for every op sequence) *)
Theorem model_trace_accepted_partial : forall c ops,
  dev_free c (new_db, []) ops -> trace_ok_top c ops (model_trace c ops) = true.
Proof. exact model_trace_accepted_partial_all. Qed.
Print Assumptions model_trace_accepted_partial.
