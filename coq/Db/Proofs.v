(* Proofs for C09: height-linked commits and the exactness of the reported / persisted
   height over all op sequences (commits accepted and rejected, rollbacks, reopen). *)
From FC Require Import Db.Model.
From Coq Require Import ZifyBool ZifyN ZifyNat.
Open Scope N_scope.

(* ---- readable forms ---- *)

Definition Linked (mx : N) (prev : option N) (hs : list N) : Prop :=
  match hs, prev with
  | [], None => True
  | [n], None => True
  | [n], Some p => p < mx /\ n = p + 1
  | _, _ => False
  end.

Lemma linkedb_iff mx prev hs : linkedb mx prev hs = true <-> Linked mx prev hs.
Proof.
  unfold linkedb, Linked. destruct hs as [|n [|n2 r]], prev as [p|]; try tauto;
    try (split; [discriminate|tauto]).
  rewrite andb_true_iff. lia.
Qed.

Lemma oeqb_eq a b : oeqb a b = true <-> a = b.
Proof.
  destruct a, b; cbn; split; intro H; try discriminate; try reflexivity.
  - apply N.eqb_eq in H. now subst.
  - injection H as ->. apply N.eqb_refl.
Qed.

(* ---- the decision function ---- *)

Lemma step_cases mx prev hs :
  match hs with
  | [] => step mx prev hs = match prev with None => (COk, None) | Some _ => (CNotSet, None) end
  | [n] =>
      step mx prev hs =
      match prev with
      | None => (COk, Some n)
      | Some p => if p <? mx then (if p + 1 =? n then (COk, Some n) else (CNotLinked, None))
                  else (CAdvance, None)
      end
  | _ :: _ :: _ => step mx prev hs = (CMultiple, None)
  end.
Proof.
  destruct hs as [|n [|n2 r]].
  - unfold step. cbn. now destruct prev.
  - unfold step, advance_height, checked_add. cbn. destruct prev as [p|]; [|reflexivity].
    destruct (p <? mx) eqn:E.
    + replace (p + 1 <=? mx) with true by lia. reflexivity.
    + replace (p + 1 <=? mx) with false by lia. reflexivity.
  - unfold step. cbn [length]. replace (1 <? N.of_nat (S (S (length r)))) with true by lia.
    reflexivity.
Qed.

Definition StepSpec : Prop :=
  forall mx prev hs,
    (fst (step mx prev hs) = COk <-> Linked mx prev hs) /\
    (fst (step mx prev hs) = CMultiple <-> (2 <= length hs)%nat) /\
    (fst (step mx prev hs) = COk -> snd (step mx prev hs) = last (map Some hs) None) /\
    (fst (step mx prev hs) <> COk -> snd (step mx prev hs) = None).

Lemma step_spec_all : StepSpec.
Proof.
  intros mx prev hs. pose proof (step_cases mx prev hs) as H. unfold Linked.
  destruct hs as [|n [|n2 r]]; rewrite H; cbn [length map last].
  - destruct prev; cbn; repeat split; try tauto; try discriminate; try lia; congruence.
  - destruct prev as [p|]; cbn.
    + destruct (p <? mx) eqn:E1; [destruct (p + 1 =? n) eqn:E2|]; cbn;
        repeat split; try tauto; try discriminate; try lia; try congruence.
    + repeat split; try tauto; try discriminate; try lia; congruence.
  - cbn. repeat split; try tauto; try discriminate; try lia; try congruence;
      destruct prev; tauto.
Qed.

(* ---- commit: accepted iff linked (and the backend took it); never two heights;
        a rejected commit changes nothing ---- *)

Definition conflict (c : cfg) (inserted : list N) (poison : bool) : bool :=
  poison && (N.of_nat (length inserted) =? 1) && negb (backend c =? 2).

Definition CommitSpec : Prop :=
  forall c d ins p,
    let hs := found c ins in
    let r := snd (commit c d ins p) in
    let d' := fst (commit c d ins p) in
    (r = COk <-> Linked (hmax c) (cached d) hs /\ (hs = [] \/ conflict c ins p = false)) /\
    ((2 <= length hs)%nat -> r = CMultiple /\ d' = d) /\
    (r <> COk -> d' = d) /\
    (r = COk -> hs = [] -> d' = d) /\
    (r = COk -> forall n, hs = [n] -> cached d' = Some n /\ meta d' = Some n).

Ltac fin :=
  repeat split; intros; subst; try tauto; try discriminate; try lia; try congruence;
  try (match goal with H : [_] = [_] |- _ => injection H as <- end; reflexivity);
  try solve [intuition (try congruence; try lia)];
  try solve [split; [lia|now right]]; try solve [now right].

Lemma commit_spec_all : CommitSpec.
Proof.
  intros c d ins p hs r d'. subst hs r d'. unfold commit, conflict.
  pose proof (step_cases (hmax c) (cached d) (found c ins)) as H. unfold Linked.
  destruct (found c ins) as [|n [|n2 rest]]; rewrite H; cbn [length].
  - destruct (cached d); cbn; fin.
  - destruct (cached d) as [q|]; cbn.
    + destruct (q <? hmax c) eqn:E1; [destruct (q + 1 =? n) eqn:E2|]; cbn.
      * destruct (p && (N.of_nat (length ins) =? 1) && negb (backend c =? 2)) eqn:E3; cbn; fin.
      * fin.
      * fin.
    + destruct (p && (N.of_nat (length ins) =? 1) && negb (backend c =? 2)) eqn:E3; cbn; fin.
  - cbn. fin; destruct (cached d); tauto.
Qed.

(* ---- ghost history and the invariant ---- *)

(* rollback records implied by the accepted stack *)
Fixpoint chain (acc : list N) : list (N * option N) :=
  match acc with
  | [] => []
  | n :: r => (n, top r) :: chain r
  end.

(* consecutive heights, newest first *)
Fixpoint consecutive (acc : list N) : Prop :=
  match acc with
  | n :: ((m :: _) as r) => n = m + 1 /\ consecutive r
  | _ => True
  end.

Definition gstep (c : cfg) (s : db * list N) (o : op) : db * list N :=
  let '(d, acc) := s in
  let '(d', tag) := dstep c d o in (d', next_acc c acc o tag).

Fixpoint grun (c : cfg) (s : db * list N) (ops : list op) : db * list N :=
  match ops with
  | [] => s
  | o :: r => grun c (gstep c s o) r
  end.

Definition Inv (c : cfg) (s : db * list N) : Prop :=
  let '(d, acc) := s in
  meta d = top acc /\
  hist d = (if backend c =? 2 then chain acc else []) /\
  (cached d = top acc \/ acc = []) /\
  consecutive acc.

(* the class on which the reported height is wrong: a successful rollback of the only
   accepted height f with f > 0 *)
Definition first_rollback (c : cfg) (s : db * list N) (o : op) : Prop :=
  match o with
  | ORollback => snd (rollback c (fst s)) = true /\ exists f, snd s = [f] /\ 0 < f
  | _ => False
  end.

Fixpoint dev_free (c : cfg) (s : db * list N) (ops : list op) : Prop :=
  match ops with
  | [] => True
  | o :: r => ~ first_rollback c s o /\ dev_free c (gstep c s o) r
  end.

Lemma commit_ok_some c d ins p :
  snd (commit c d ins p) = COk ->
  match found c ins with
  | [] => fst (commit c d ins p) = d
  | [n] => Linked (hmax c) (cached d) [n] /\
           fst (commit c d ins p) =
           {| cached := Some n; meta := Some n;
              hist := if backend c =? 2 then (n, meta d) :: hist d else hist d |}
  | _ => False
  end.
Proof.
  unfold commit. pose proof (step_cases (hmax c) (cached d) (found c ins)) as H.
  destruct (found c ins) as [|n [|n2 rest]]; rewrite H.
  - destruct (cached d); cbn; [discriminate|reflexivity].
  - unfold Linked. destruct (cached d) as [q|]; cbn.
    + destruct (q <? hmax c) eqn:E1; [destruct (q + 1 =? n) eqn:E2|]; cbn; try discriminate.
      destruct (p && (N.of_nat (length ins) =? 1) && negb (backend c =? 2)); cbn; [discriminate|].
      intros _. split; [lia|reflexivity].
    + destruct (p && (N.of_nat (length ins) =? 1) && negb (backend c =? 2)); cbn; [discriminate|].
      intros _. split; [exact Logic.I|reflexivity].
  - cbn. discriminate.
Qed.

Lemma commit_rejected_same c d ins p : snd (commit c d ins p) <> COk -> fst (commit c d ins p) = d.
Proof. intro H. destruct (commit_spec_all c d ins p) as [_ [_ [H3 _]]]. exact (H3 H). Qed.

Lemma cres_tag_zero r : (cres_tag r =? 0) = true <-> r = COk.
Proof. destruct r; cbn; split; intro; try discriminate; reflexivity. Qed.

Lemma gstep_inv c s o : Inv c s -> Inv c (gstep c s o).
Proof.
  destruct s as [d acc]. intros [Hm [Hh [Hc Hl]]]. unfold gstep, dstep.
  destruct o as [ins p| |].
  - (* commit *)
    destruct (commit c d ins p) as [d' r] eqn:E. cbn [next_acc].
    destruct (cres_tag r =? 0) eqn:Et.
    + apply cres_tag_zero in Et. subst r.
      pose proof (commit_ok_some c d ins p) as Hok. rewrite E in Hok. cbn [fst snd] in Hok.
      specialize (Hok eq_refl).
      destruct (found c ins) as [|n [|n2 rest]]; [subst d'; repeat split; assumption| |tauto].
      destruct Hok as [Hlk ->]. cbn [Inv meta hist cached top hd_error chain].
      repeat split.
      * rewrite Hh, Hm. destruct (backend c =? 2); reflexivity.
      * now left.
      * destruct acc as [|m acc']; [exact Logic.I|]. cbn [consecutive]. split; [|exact Hl].
        destruct Hc as [Hc|Hc]; [|discriminate]. cbn in Hc. unfold Linked in Hlk.
        rewrite Hc in Hlk. lia.
    + assert (Hr : r <> COk) by (intro; subst r; discriminate).
      pose proof (commit_rejected_same c d ins p) as Hs. rewrite E in Hs. cbn in Hs.
      rewrite (Hs Hr). repeat split; assumption.
  - (* rollback *)
    unfold rollback. destruct (cached d) as [h|] eqn:Ec;
      [|cbn; rewrite <- Ec in Hc; exact (conj Hm (conj Hh (conj Hc Hl)))].
    destruct (backend c =? 2) eqn:Eb;
      [|cbn; rewrite ?Eb; rewrite <- Ec in Hc; exact (conj Hm (conj Hh (conj Hc Hl)))].
    rewrite Hh. destruct Hc as [Hc|Hc].
    + destruct acc as [|n r]; [discriminate|]. cbn in Hc. injection Hc as <-.
      cbn [chain hist_get]. rewrite N.eqb_refl. cbn [next_acc N.eqb tl Inv meta hist cached hist_del].
      rewrite N.eqb_refl, Eb. repeat split.
      * destruct r as [|m r']; [now right|]. left. cbn [consecutive] in Hl. destruct Hl as [Hl _].
        unfold rollback_height, checked_sub. cbn [top hd_error].
        replace (1 <=? h) with true by lia. f_equal. lia.
      * destruct r as [|m r']; [exact Logic.I|]. cbn [consecutive] in Hl. tauto.
    + subst acc. cbn. rewrite ?Eb. repeat split; try assumption. now right.
  - (* reopen *)
    cbn. repeat split; try assumption. now left.
Qed.

Lemma grun_inv c ops : forall s, Inv c s -> Inv c (grun c s ops).
Proof. induction ops as [|o r IH]; intros s H; [exact H|]. cbn. apply IH, gstep_inv, H. Qed.

Lemma inv_init c : Inv c (new_db, []).
Proof. cbn. repeat split; [now destruct (backend c =? 2)|now left]. Qed.

(* the persisted height is exact on every op sequence *)
Definition PersistedHeightExact : Prop :=
  forall c ops, let '(d, acc) := grun c (new_db, []) ops in meta d = top acc.
Lemma persisted_height_exact_all : PersistedHeightExact.
Proof.
  intros c ops. pose proof (grun_inv c ops _ (inv_init c)) as H.
  destruct (grun c (new_db, []) ops) as [d acc]. exact (proj1 H).
Qed.

(* the reported (cached) height is exact unless the first accepted height f > 0 was rolled
   back; in that case it is f - 1 ... *)
Definition Inv2 (c : cfg) (s : db * list N) : Prop := Inv c s /\ cached (fst s) = top (snd s).

Lemma gstep_inv2 c s o : Inv2 c s -> ~ first_rollback c s o -> Inv2 c (gstep c s o).
Proof.
  intros [Hi Hc] Hn. split; [now apply gstep_inv|].
  destruct s as [d acc]. cbn [fst snd] in *. destruct Hi as [Hm [Hh [_ Hl]]].
  unfold gstep, dstep. destruct o as [ins p| |].
  - destruct (commit c d ins p) as [d' r] eqn:E. cbn [next_acc fst snd].
    destruct (cres_tag r =? 0) eqn:Et.
    + apply cres_tag_zero in Et. subst r.
      pose proof (commit_ok_some c d ins p) as Hok. rewrite E in Hok. cbn [fst snd] in Hok.
      specialize (Hok eq_refl).
      destruct (found c ins) as [|n [|n2 rest]]; [now subst d'| |tauto].
      destruct Hok as [_ ->]. reflexivity.
    + assert (Hr : r <> COk) by (intro; subst r; discriminate).
      pose proof (commit_rejected_same c d ins p) as Hs. rewrite E in Hs. cbn in Hs.
      now rewrite (Hs Hr).
  - unfold first_rollback in Hn. cbn [fst snd] in Hn. unfold rollback in *.
    destruct (cached d) as [h|] eqn:Ec; [|cbn; congruence].
    destruct (backend c =? 2) eqn:Eb; [|cbn; congruence].
    rewrite Hh in *. destruct acc as [|n r]; [discriminate|]. cbn in Hc. injection Hc as <-.
    cbn [chain hist_get] in *. rewrite N.eqb_refl in *. cbn [next_acc N.eqb tl fst snd cached] in *.
    destruct r as [|m r'].
    + cbn [top hd_error]. unfold rollback_height, checked_sub.
      destruct (1 <=? h) eqn:E1; [|reflexivity].
      exfalso. apply Hn. split; [reflexivity|]. exists h. split; [reflexivity|lia].
    + cbn [consecutive] in Hl. destruct Hl as [Hl _]. unfold rollback_height, checked_sub.
      cbn [top hd_error]. replace (1 <=? h) with true by lia. f_equal. lia.
  - cbn. exact Hm.
Qed.

Definition ReportedHeightExactPartial : Prop :=
  forall c ops, dev_free c (new_db, []) ops ->
    let '(d, acc) := grun c (new_db, []) ops in cached d = top acc /\ meta d = top acc.

Lemma grun_inv2 c ops : forall s, Inv2 c s -> dev_free c s ops -> Inv2 c (grun c s ops).
Proof.
  induction ops as [|o r IH]; intros s H Hd; [exact H|]. destruct Hd as [H1 H2]. cbn.
  apply IH; [now apply gstep_inv2|exact H2].
Qed.

Lemma reported_height_exact_partial_all : ReportedHeightExactPartial.
Proof.
  intros c ops Hd.
  pose proof (grun_inv2 c ops (new_db, []) (conj (inv_init c) eq_refl) Hd) as [Hi Hc].
  destruct (grun c (new_db, []) ops) as [d acc]. cbn in Hc. split; [exact Hc|exact (proj1 Hi)].
Qed.

(* backends without rollback support are never in the class *)
Lemma dev_free_no_rewind c ops : backend c <> 2 -> forall s, dev_free c s ops.
Proof.
  intro Hb. induction ops as [|o r IH]; intro s; [exact Logic.I|]. split; [|apply IH].
  destruct o; cbn; try tauto. intros [H _]. unfold rollback in H.
  destruct (cached (fst s)); [|discriminate]. replace (backend c =? 2) with false in H by lia.
  discriminate.
Qed.

Definition ReportedHeightExactNoRewind : Prop :=
  forall c ops, backend c <> 2 ->
    let '(d, acc) := grun c (new_db, []) ops in cached d = top acc /\ meta d = top acc.
Lemma reported_height_exact_no_rewind_all : ReportedHeightExactNoRewind.
Proof.
  intros c ops Hb. apply reported_height_exact_partial_all. now apply dev_free_no_rewind.
Qed.

(* ... and the full statement is false *)
Definition ReportedHeightRefuted : Prop :=
  exists c ops, let '(d, acc) := grun c (new_db, []) ops in cached d <> top acc.
Lemma reported_height_refuted_witness : ReportedHeightRefuted.
Proof.
  exists {| hmax := u32max; key_based := true; backend := 2 |}, [OCommit [5] false; ORollback].
  vm_compute. discriminate.
Qed.

(* what exactly goes wrong in the class: persisted height exact, reported height f - 1 *)
Definition DeviationShape : Prop :=
  forall c ops, let '(d, acc) := grun c (new_db, []) ops in
    cached d = top acc \/ (acc = [] /\ meta d = None).
Lemma deviation_shape_all : DeviationShape.
Proof.
  intros c ops. pose proof (grun_inv c ops _ (inv_init c)) as H.
  destruct (grun c (new_db, []) ops) as [d acc]. destruct H as [Hm [_ [[Hc|Hc] _]]].
  - now left.
  - right. subst acc. split; [reflexivity|exact Hm].
Qed.

(* ---- the checker ---- *)

Definition OpOk (c : cfg) (acc : list N) (o : op) (tag : N) : Prop :=
  match o with
  | OCommit ins _ =>
      let hs := found c ins in
      (tag = 0 -> Linked (hmax c) (top acc) hs) /\
      (tag <> 0 -> (tag = 5 \/ ~ Linked (hmax c) (top acc) hs) /\
                   ((2 <= length hs)%nat <-> tag = 1))
  | ORollback => tag = 0 -> acc <> []
  | OReopen => tag = 0
  end.

Fixpoint TraceSpec (c : cfg) (acc : list N) (ops : list op) (obs : list entry) : Prop :=
  match ops, obs with
  | [], [] => True
  | o :: r, (tag, latest, m) :: obs' =>
      let acc' := next_acc c acc o tag in
      OpOk c acc o tag /\ latest = top acc' /\ m = top acc' /\ TraceSpec c acc' r obs'
  | _, _ => False
  end.

Lemma op_okb_iff c acc o tag : op_okb c acc o tag = true <-> OpOk c acc o tag.
Proof.
  unfold op_okb, OpOk. destruct o as [ins p| |].
  - destruct (tag =? 0) eqn:Et.
    + rewrite linkedb_iff. apply N.eqb_eq in Et. subst tag. split; [intro H; split; [tauto|congruence]|tauto].
    + assert (tag <> 0) by lia. rewrite !andb_true_iff, !orb_true_iff, !negb_true_iff.
      rewrite <- not_true_iff_false, linkedb_iff.
      assert (Hm : (1 <? N.of_nat (length (found c ins))) = true <-> (2 <= length (found c ins))%nat) by lia.
      destruct (1 <? N.of_nat (length (found c ins))) eqn:E1; destruct (tag =? 1) eqn:E2; cbn;
        split; intro Hx; repeat split; try tauto; try lia; try congruence; intuition (try lia; try congruence).
  - destruct (tag =? 0) eqn:Et.
    + apply N.eqb_eq in Et. subst tag. destruct acc; split; intro; try discriminate; try congruence; auto.
      exfalso. now apply H.
    + split; [intros _ H; lia|reflexivity].
  - apply N.eqb_eq.
Qed.

Lemma trace_okb_iff c ops : forall acc obs,
  trace_okb c acc ops obs = true <-> TraceSpec c acc ops obs.
Proof.
  induction ops as [|o r IH]; intros acc obs; destruct obs as [|[[tag latest] m] obs'];
    cbn [trace_okb TraceSpec]; try (split; [discriminate|tauto]); [tauto|].
  rewrite !andb_true_iff, op_okb_iff, !oeqb_eq, IH. tauto.
Qed.

Definition TraceSpecTop (c : cfg) (ops : list op) (obs : list entry) : Prop :=
  match obs with
  | (tag, latest, m) :: obs' => tag = 0 /\ latest = None /\ m = None /\ TraceSpec c [] ops obs'
  | [] => False
  end.

Lemma trace_ok_top_iff c ops obs : trace_ok_top c ops obs = true <-> TraceSpecTop c ops obs.
Proof.
  unfold trace_ok_top, TraceSpecTop. destruct obs as [|[[tag latest] m] obs']; [split; [discriminate|tauto]|].
  rewrite !andb_true_iff, !oeqb_eq, trace_okb_iff, N.eqb_eq. tauto.
Qed.


(* ---- the model's own trace satisfies the checker outside the class ---- *)

Lemma commit_rejected_spec c d ins p :
  let hs := found c ins in
  let r := snd (commit c d ins p) in
  r <> COk ->
  (r = CConflict \/ ~ Linked (hmax c) (cached d) hs) /\ ((2 <= length hs)%nat <-> r = CMultiple).
Proof.
  cbn zeta. unfold commit.
  pose proof (step_cases (hmax c) (cached d) (found c ins)) as H. unfold Linked.
  destruct (found c ins) as [|n [|n2 rest]]; rewrite H; cbn [length].
  - destruct (cached d); cbn; fin.
  - destruct (cached d) as [q|]; cbn.
    + destruct (q <? hmax c) eqn:E1; [destruct (q + 1 =? n) eqn:E2|]; cbn.
      * destruct (p && (N.of_nat (length ins) =? 1) && negb (backend c =? 2)) eqn:E3; cbn; fin.
      * fin; try (right; lia).
      * fin; try (right; lia).
    + destruct (p && (N.of_nat (length ins) =? 1) && negb (backend c =? 2)) eqn:E3; cbn; fin.
  - cbn. fin; try (right; destruct (cached d); tauto).
Qed.

Lemma cres_tag_inj r : (cres_tag r = 5 <-> r = CConflict) /\ (cres_tag r = 1 <-> r = CMultiple) /\
                       (cres_tag r = 0 <-> r = COk).
Proof. destruct r; cbn; repeat split; intro; try discriminate; try lia; reflexivity. Qed.

Lemma dstep_ok c d acc o :
  Inv2 c (d, acc) -> OpOk c acc o (snd (dstep c d o)).
Proof.
  intros [_ Hc]. cbn [fst snd] in Hc. unfold dstep, OpOk.
  destruct o as [ins p| |].
  - pose proof (commit_spec_all c d ins p) as [H1 _].
    pose proof (commit_rejected_spec c d ins p) as H2. cbn zeta in *.
    destruct (commit c d ins p) as [d' r]. cbn [snd fst] in *. rewrite Hc in *.
    destruct (cres_tag_inj r) as [T5 [T1 T0]]. split.
    + intro Ht. apply T0 in Ht. tauto.
    + intro Ht. assert (Hr : r <> COk) by (intro Hx; apply T0 in Hx; contradiction).
      destruct (H2 Hr) as [Ha Hb]. split; [|now rewrite T1].
      destruct Ha as [Ha|Ha]; [left; now apply T5|now right].
  - unfold rollback. destruct (cached d) as [h|] eqn:Ec; [|cbn; discriminate].
    intros _. intro Hx. subst acc. discriminate.
  - reflexivity.
Qed.

Lemma drun_ok c ops : forall d acc,
  Inv2 c (d, acc) -> dev_free c (d, acc) ops -> TraceSpec c acc ops (drun c d ops).
Proof.
  induction ops as [|o r IH]; intros d acc Hi Hd; [exact Logic.I|].
  destruct Hd as [Hn Hd]. cbn [drun].
  pose proof (dstep_ok c d acc o Hi) as Hok.
  pose proof (gstep_inv2 c (d, acc) o Hi Hn) as Hi'.
  unfold gstep in Hi', Hd. destruct (dstep c d o) as [d' tag]. cbn [snd] in Hok.
  cbn [TraceSpec entry_of]. split; [exact Hok|].
  destruct Hi' as [Hinv Hc']. cbn [fst snd] in Hc'.
  split; [exact Hc'|]. split; [exact (proj1 Hinv)|]. now apply IH.
Qed.

Definition ModelTraceAcceptedPartial : Prop :=
  forall c ops, dev_free c (new_db, []) ops -> trace_ok_top c ops (model_trace c ops) = true.
Lemma model_trace_accepted_partial_all : ModelTraceAcceptedPartial.
Proof.
  intros c ops Hd. apply trace_ok_top_iff. unfold model_trace, TraceSpecTop, entry_of. cbn [cached meta new_db].
  repeat split. apply drun_ok; [exact (conj (inv_init c) eq_refl)|exact Hd].
Qed.

(* ---- non-vacuity ---- *)
Definition ex_cfg : cfg := {| hmax := u32max; key_based := true; backend := 2 |}.
Definition ex_ops : list op :=
  [OCommit [] false; OCommit [7] false; OCommit [8; 8] false; OCommit [10] false; OCommit [8; 9] false;
   OCommit [] false; ORollback; OReopen; OCommit [8] true].

Example ex_run :
  model_trace ex_cfg ex_ops =
  [(0, None, None); (0, None, None); (0, Some 7, Some 7); (0, Some 8, Some 8); (2, Some 8, Some 8);
   (1, Some 8, Some 8); (3, Some 8, Some 8); (0, Some 7, Some 7); (0, Some 7, Some 7);
   (0, Some 8, Some 8)].
Proof. vm_compute. reflexivity. Qed.

Example ex_dev_free : dev_free ex_cfg (new_db, []) ex_ops.
Proof.
  cbn [dev_free ex_ops]. repeat split; try (cbn; tauto).
  intros [_ [f [Hf Hp]]]. vm_compute in Hf. discriminate.
Qed.

Example ex_checker : trace_ok_top ex_cfg ex_ops (model_trace ex_cfg ex_ops) = true.
Proof. vm_compute. reflexivity. Qed.
