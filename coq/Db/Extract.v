From FC Require Import Db.Model.
Require Extraction.
Require Import ExtrOcamlBasic.
Extraction "db_model.ml" main_T.
