(* Executable model of the height bookkeeping of fuel-core's node databases (C09):
     crates/fuel-core/src/database.rs      commit_changes_with_height_update, rollback_last_block,
                                           Database::new (reopen = read metadata), RegularStage::height
     crates/fuel-core/src/database/database_description.rs   DatabaseHeight for BlockHeight (u32) /
                                           DaBlockHeight (u64)
     crates/fuel-core/src/state/historical_rocksdb.rs / in_memory/memory_store.rs
                                           what the backend does with (height, [changes, metadata])
   No proofs in this file. *)
From FC Require Export Common.T.
Open Scope N_scope.

(* static configuration of a run *)
Record cfg := {
  hmax : N;            (* u32::MAX for BlockHeight, u64::MAX for DaBlockHeight *)
  key_based : bool;    (* heights are keys of the table (a map: no duplicates) / values (off-chain) *)
  backend : N }.       (* 0 MemoryStore, 1 RocksDB NoRewind, 2 RocksDB RewindFullRange *)

(* DatabaseHeight *)
Definition advance_height (mx h : N) : option N := checked_add mx h 1.
Definition rollback_height (h : N) : option N := checked_sub h 1.

Inductive cres := COk | CMultiple | CNotLinked | CNotSet | CAdvance | CConflict.

(* the decision of commit_changes_with_height_update, in the order of the code:
   Err e, or Ok new_height *)
Definition step (mx : N) (prev : option N) (new_heights : list N) : cres * option N :=
  if (1 <? N.of_nat (length new_heights)) then (CMultiple, None)
  else
    let new_height := last (map Some new_heights) None in      (* into_iter().next_back() *)
    match prev, new_height with
    | None, None => (COk, None)
    | Some p, Some n =>
        match advance_height mx p with
        | None => (CAdvance, None)
        | Some e => if e =? n then (COk, Some n) else (CNotLinked, None)
        end
    | None, Some n => (COk, Some n)
    | Some p, None => (CNotSet, None)
    end.

(* the new heights found in a change set: Remove rows are filtered out by ChangesIterator, so
   only the inserted rows count; rows of a key-based table with the same height are one row *)
Fixpoint memN (x : N) (l : list N) : bool :=
  match l with [] => false | y :: r => (y =? x) || memN x r end.
Fixpoint dedup (l : list N) : list N :=
  match l with [] => [] | x :: r => if memN x r then dedup r else x :: dedup r end.
Definition found (c : cfg) (inserted : list N) : list N :=
  if key_based c then dedup inserted else inserted.

(* database: the mutex-protected cached height, the persisted metadata height, and the
   per-height rollback records of HistoricalRocksDB: height -> metadata height before it *)
Record db := { cached : option N; meta : option N; hist : list (N * option N) }.

Definition new_db : db := {| cached := None; meta := None; hist := [] |}.

Fixpoint hist_get (h : N) (l : list (N * option N)) : option (option N) :=
  match l with
  | [] => None
  | (h', m) :: r => if h' =? h then Some m else hist_get h r
  end.
Fixpoint hist_del (h : N) (l : list (N * option N)) : list (N * option N) :=
  match l with
  | [] => []
  | (h', m) :: r => if h' =? h then r else (h', m) :: hist_del h r
  end.

(* [poison]: the change set also touches the metadata key; the backend then sees the key in
   both elements of the ChangesList.  MemoryStore and RocksDb refuse that (conflict finder);
   the historical path flattens the list first and does not notice. *)
Definition commit (c : cfg) (d : db) (inserted : list N) (poison : bool) : db * cres :=
  match step (hmax c) (cached d) (found c inserted) with
  | (COk, Some n) =>
      if poison && (N.of_nat (length inserted) =? 1) && negb (backend c =? 2)
      then (d, CConflict)                                   (* backend commit failed: height kept *)
      else ({| cached := Some n; meta := Some n;
               hist := if backend c =? 2 then (n, meta d) :: hist d else hist d |}, COk)
  | (COk, None) => (d, COk)
  | (e, _) => (d, e)
  end.

Definition rollback (c : cfg) (d : db) : db * bool :=
  match cached d with
  | None => (d, false)
  | Some h =>
      if backend c =? 2 then
        match hist_get h (hist d) with
        | None => (d, false)
        | Some m => ({| cached := rollback_height h; meta := m; hist := hist_del h (hist d) |}, true)
        end
      else (d, false)
  end.

Definition reopen (d : db) : db := {| cached := meta d; meta := meta d; hist := hist d |}.

Inductive op := OCommit (inserted : list N) (poison : bool) | ORollback | OReopen.

Definition cres_tag (r : cres) : N :=
  match r with COk => 0 | CMultiple => 1 | CNotLinked => 2 | CNotSet => 3 | CAdvance => 4 | CConflict => 5 end.

(* one op: new state and the result tag *)
Definition dstep (c : cfg) (d : db) (o : op) : db * N :=
  match o with
  | OCommit ins p => let '(d', r) := commit c d ins p in (d', cres_tag r)
  | ORollback => let '(d', ok) := rollback c d in (d', if ok then 0 else 6)
  | OReopen => (reopen d, 0)
  end.

(* observation entry: tag, HistoricalView::latest_height, latest_height_from_metadata *)
Definition entry := (N * option N * option N)%type.
Definition entry_of (tag : N) (d : db) : entry := (tag, cached d, meta d).

Fixpoint drun (c : cfg) (d : db) (ops : list op) : list entry :=
  match ops with
  | [] => []
  | o :: r => let '(d', tag) := dstep c d o in entry_of tag d' :: drun c d' r
  end.

Definition model_trace (c : cfg) (ops : list op) : list entry :=
  entry_of 0 new_db :: drun c new_db ops.

(* ------------------------------------------------------------------ *)
(* the specification side: the stack of accepted, not rolled back heights *)

Definition top (acc : list N) : option N := hd_error acc.

Definition oeqb (a b : option N) : bool :=
  match a, b with
  | None, None => true
  | Some x, Some y => x =? y
  | _, _ => false
  end.

(* a change set with heights [hs] is linked to the accepted history [acc] *)
Definition linkedb (mx : N) (prev : option N) (hs : list N) : bool :=
  match hs, prev with
  | [], None => true
  | [], Some _ => false
  | [n], None => true
  | [n], Some p => (p <? mx) && (n =? p + 1)
  | _, _ => false
  end.

(* Pcheck of C09 on an observed trace.  For every op:
   - a commit reported accepted must be linked; a rejected one must not be linked, unless the
     backend itself refused it (tag 5); two or more heights must give MultipleHeightsInCommit;
   - a successful rollback needs an accepted height to roll back;
   - afterwards both the reported and the persisted height equal the height of the last
     accepted, not rolled back, height-carrying commit. *)
(* ghost: the accepted stack after an op with observed result tag [tag] *)
Definition next_acc (c : cfg) (acc : list N) (o : op) (tag : N) : list N :=
  match o with
  | OCommit ins _ =>
      if tag =? 0 then match found c ins with [n] => n :: acc | _ => acc end else acc
  | ORollback => if tag =? 0 then tl acc else acc
  | OReopen => acc
  end.

Definition op_okb (c : cfg) (acc : list N) (o : op) (tag : N) : bool :=
  match o with
  | OCommit ins _ =>
      let hs := found c ins in
      let multi := 1 <? N.of_nat (length hs) in
      if tag =? 0
      then linkedb (hmax c) (top acc) hs
      else ((tag =? 5) || negb (linkedb (hmax c) (top acc) hs)) &&
           (negb multi || (tag =? 1)) && (multi || negb (tag =? 1))
  | ORollback => if tag =? 0 then match acc with [] => false | _ => true end else true
  | OReopen => tag =? 0
  end.

Fixpoint trace_okb (c : cfg) (acc : list N) (ops : list op) (obs : list entry) : bool :=
  match ops, obs with
  | [], [] => true
  | o :: r, (tag, latest, m) :: obs' =>
      let acc' := next_acc c acc o tag in
      op_okb c acc o tag && oeqb latest (top acc') && oeqb m (top acc') && trace_okb c acc' r obs'
  | _, _ => false
  end.

Definition trace_ok_top (c : cfg) (ops : list op) (obs : list entry) : bool :=
  match obs with
  | (tag, latest, m) :: obs' =>
      (tag =? 0) && oeqb latest None && oeqb m None && trace_okb c [] ops obs'
  | [] => false
  end.

(* ------------------------------------------------------------------ *)
(* T codecs                                                             *)

Definition entry_T (e : entry) : T :=
  let '(tag, l, m) := e in L [tN tag; tOptN l; tOptN m].
Definition T_entry (t : T) : option entry :=
  match t with
  | L [tag; l; m] =>
      match getN tag, getOptN l, getOptN m with
      | Some tag, Some l, Some m => Some (tag, l, m)
      | _, _, _ => None
      end
  | _ => None
  end.

Definition T_op (t : T) : option op :=
  match t with
  | L [I 0%Z; ins; _; p] =>
      match getListN ins, getB p with
      | Some ins, Some p => Some (OCommit ins p)
      | _, _ => None
      end
  | L [I 1%Z] => Some ORollback
  | L [I 2%Z] => Some OReopen
  | _ => None
  end.

Definition cfg_of (desc bk : N) : cfg :=
  {| hmax := if desc =? 2 then u64max else u32max;
     key_based := negb (desc =? 1);
     backend := bk |}.

Definition main09 (input observed : T) : T :=
  match input with
  | L [desc; bk; L ops] =>
      match getN desc, getN bk, mapM T_op ops with
      | Some desc, Some bk, Some ops =>
          let c := cfg_of desc bk in
          let model := L (map entry_T (model_trace c ops)) in
          let pc := match observed with
                    | L obs => match mapM T_entry obs with
                               | Some es => trace_ok_top c ops es
                               | None => false
                               end
                    | _ => false
                    end in
          L [model; tB pc]
      | _, _, _ => tErr 2
      end
  | _ => tErr 1
  end.

Definition main_T (req : T) : T :=
  match req with
  | L [I 9%Z; input; observed] => main09 input observed
  | _ => tErr 0
  end.
