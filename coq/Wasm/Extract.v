From FC Require Import Wasm.Model.
Require Extraction.
Require Import ExtrOcamlBasic.
Extraction "wasm_model.ml" main_T.
