(* C07, part 1: the two packings of utils.rs are exact inverses on their domains. *)
From FC Require Import Common.T Wasm.Model.
From Coq Require Import List NArith Bool Lia ZifyBool ZifyN ZifyNat.
Import ListNotations.
Open Scope N_scope.

Ltac Zify.zify_post_hook ::= Z.div_mod_to_equations.

Definition p2_1 : N := 2.
Definition p2_16 : N := 65536.
Definition p2_32 : N := 4294967296.
Definition p2_33 : N := 8589934592.
Definition p2_49 : N := 562949953421312.
Definition p2_64 : N := 18446744073709551616.

Lemma land_u32 x : N.land x u32max = x mod p2_32.
Proof. change u32max with (N.ones 32). rewrite N.land_ones. reflexivity. Qed.
Lemma land_u16 x : N.land x u16max = x mod p2_16.
Proof. change u16max with (N.ones 16). rewrite N.land_ones. reflexivity. Qed.
Lemma land_u64 x : N.land x u64max = x mod p2_64.
Proof. change u64max with (N.ones 64). rewrite N.land_ones. reflexivity. Qed.
Lemma land_1 x : N.land x 1 = x mod 2.
Proof. change 1 with (N.ones 1) at 1. rewrite N.land_ones. reflexivity. Qed.
Lemma land_low49 x : N.land x low49 = x mod p2_49.
Proof. change low49 with (N.ones 49). rewrite N.land_ones. reflexivity. Qed.

Lemma shiftl_32 x : N.shiftl x 32 = x * p2_32.
Proof. rewrite N.shiftl_mul_pow2. reflexivity. Qed.
Lemma shiftl_33 x : N.shiftl x 33 = x * p2_33.
Proof. rewrite N.shiftl_mul_pow2. reflexivity. Qed.
Lemma shiftl_1 x : N.shiftl x 1 = x * 2.
Proof. rewrite N.shiftl_mul_pow2. reflexivity. Qed.
Lemma shiftr_32 x : N.shiftr x 32 = x / p2_32.
Proof. rewrite N.shiftr_div_pow2. reflexivity. Qed.
Lemma shiftr_33 x : N.shiftr x 33 = x / p2_33.
Proof. rewrite N.shiftr_div_pow2. reflexivity. Qed.
Lemma shiftr_1 x : N.shiftr x 1 = x / 2.
Proof. rewrite N.shiftr_div_pow2. reflexivity. Qed.

Lemma testbit_small b n : b < 2 ^ n -> N.testbit b n = false.
Proof.
  intros H. destruct (N.eq_dec b 0) as [->|Hb]; [apply N.bits_0|].
  apply N.bits_above_log2. apply N.log2_lt_pow2; lia.
Qed.

(* a | b = a + b when a is a multiple of 2^k and b < 2^k *)
Lemma lor_add a b k : b < 2 ^ k -> N.lor (a * 2 ^ k) b = a * 2 ^ k + b.
Proof.
  intros Hb.
  assert (H0 : N.land (a * 2 ^ k) b = 0).
  { apply N.bits_inj_0. intros n. rewrite N.land_spec.
    destruct (N.lt_ge_cases n k) as [Hn|Hn].
    - rewrite N.mul_pow2_bits_low by exact Hn. reflexivity.
    - rewrite (testbit_small b n), andb_false_r; [reflexivity|].
      apply N.lt_le_trans with (2 ^ k); [exact Hb|]. apply N.pow_le_mono_r; lia. }
  rewrite <- N.lxor_lor by exact H0. symmetry. apply N.add_nocarry_lxor. exact H0.
Qed.

Lemma lor_add_32 a b : b < p2_32 -> N.lor (a * p2_32) b = a * p2_32 + b.
Proof. exact (lor_add a b 32). Qed.
Lemma lor_add_33 a b : b < p2_33 -> N.lor (a * p2_33) b = a * p2_33 + b.
Proof. exact (lor_add a b 33). Qed.
Lemma lor_add_1 a b : b < 2 -> N.lor (a * 2) b = a * 2 + b.
Proof. exact (lor_add a b 1). Qed.

(* ------------------------------------------------------------------ pointer / length *)

Lemma pack_pl_value ptr len : ptr <= u32max -> len <= u32max ->
  pack_ptr_and_len ptr len = len * p2_32 + ptr.
Proof.
  intros Hp Hl. unfold pack_ptr_and_len, shl64. rewrite shiftl_32, land_u64.
  unfold u32max, p2_32, p2_64 in *.
  rewrite N.mod_small by lia. apply lor_add_32. unfold p2_32. lia.
Qed.

Lemma unpack_pack_pl ptr len : ptr <= u32max -> len <= u32max ->
  unpack_ptr_and_len (pack_ptr_and_len ptr len) = Some (ptr, len).
Proof.
  intros Hp Hl. rewrite pack_pl_value by assumption.
  unfold unpack_ptr_and_len, try_u32. rewrite land_u32, shiftr_32.
  unfold u32max, p2_32 in *.
  assert (E1 : (len * 4294967296 + ptr) mod 4294967296 = ptr) by lia.
  assert (E2 : (len * 4294967296 + ptr) / 4294967296 = len) by lia.
  rewrite E1, E2.
  destruct (N.leb_spec ptr 4294967295); [|lia].
  destruct (N.leb_spec len 4294967295); [|lia]. reflexivity.
Qed.

Lemma pack_pl_fits ptr len : ptr <= u32max -> len <= u32max ->
  pack_ptr_and_len ptr len <= u64max.
Proof.
  intros Hp Hl. rewrite pack_pl_value by assumption. unfold u32max, u64max, p2_32 in *. lia.
Qed.

(* unpack never hits its `expect` on a u64, its fields fit u32, and pack inverts it *)
Lemma unpack_pl_total val : val <= u64max ->
  exists ptr len, unpack_ptr_and_len val = Some (ptr, len) /\
                  ptr <= u32max /\ len <= u32max /\ pack_ptr_and_len ptr len = val.
Proof.
  intros Hv. unfold unpack_ptr_and_len, try_u32. rewrite land_u32, shiftr_32.
  unfold u32max, u64max, p2_32 in *.
  destruct (N.leb_spec (val mod 4294967296) 4294967295) as [H1|H1]; [|lia].
  destruct (N.leb_spec (val / 4294967296) 4294967295) as [H2|H2]; [|lia].
  eexists _, _. split; [reflexivity|]. split; [exact H1|]. split; [exact H2|].
  rewrite pack_pl_value by (unfold u32max; assumption). unfold p2_32. lia.
Qed.

(* ------------------------------------------------------------------ exists / size / result *)

Lemma pack_esr_value ex size result : size <= u32max -> result <= u16max ->
  pack_exists_size_result ex size result = result * p2_33 + size * 2 + b2n ex.
Proof.
  intros Hs Hr. unfold pack_exists_size_result, shl64.
  rewrite shiftl_33, shiftl_1, !land_u64.
  unfold u32max, u16max, p2_33, p2_64 in *.
  rewrite !N.mod_small by lia.
  rewrite lor_add_33 by (unfold p2_33; lia). unfold p2_33.
  replace (result * 8589934592 + size * 2) with ((result * 4294967296 + size) * 2) by lia.
  rewrite lor_add_1 by (destruct ex; cbn; lia). lia.
Qed.

Lemma unpack_pack_esr_all ex size result : size <= u32max -> result <= u16max ->
  unpack_exists_size_result (pack_exists_size_result ex size result) = Some (ex, size, result).
Proof.
  intros Hs Hr. rewrite pack_esr_value by assumption.
  unfold unpack_exists_size_result, try_u32, try_u16.
  rewrite land_1, shiftr_1, shiftr_33, land_u32, land_u16.
  unfold u32max, u16max, p2_33, p2_32, p2_16 in *.
  set (v := result * 8589934592 + size * 2 + b2n ex).
  assert (Hb : b2n ex < 2) by (destruct ex; cbn; lia).
  assert (E0 : v mod 2 = b2n ex) by (unfold v; lia).
  assert (E1 : (v / 2) mod 4294967296 = size) by (unfold v; lia).
  assert (E2 : (v / 8589934592) mod 65536 = result) by (unfold v; lia).
  rewrite E0, E1, E2.
  destruct (N.leb_spec size 4294967295); [|lia].
  destruct (N.leb_spec result 65535); [|lia].
  destruct ex; reflexivity.
Qed.

Lemma pack_esr_fits ex size result : size <= u32max -> result <= u16max ->
  pack_exists_size_result ex size result <= low49.
Proof.
  intros Hs Hr. rewrite pack_esr_value by assumption.
  assert (Hb : b2n ex < 2) by (destruct ex; cbn; lia).
  unfold u32max, u16max, low49, p2_33 in *. lia.
Qed.

Lemma pack_esr_fits_u64 ex size result : size <= u32max -> result <= u16max ->
  pack_exists_size_result ex size result <= u64max.
Proof.
  intros Hs Hr. pose proof (pack_esr_fits ex size result Hs Hr). unfold low49, u64max in *. lia.
Qed.

Lemma unpack_esr_total val :
  exists ex size result, unpack_exists_size_result val = Some (ex, size, result) /\
     size <= u32max /\ result <= u16max /\
     pack_exists_size_result ex size result = N.land val low49.
Proof.
  unfold unpack_exists_size_result, try_u32, try_u16.
  rewrite land_1, shiftr_1, shiftr_33, land_u32, land_u16.
  unfold u32max, u16max, p2_33, p2_32, p2_16 in *.
  destruct (N.leb_spec ((val / 2) mod 4294967296) 4294967295) as [H1|H1]; [|lia].
  destruct (N.leb_spec ((val / 8589934592) mod 65536) 65535) as [H2|H2]; [|lia].
  eexists _, _, _. split; [reflexivity|]. split; [exact H1|]. split; [exact H2|].
  rewrite pack_esr_value by (unfold u32max, u16max; assumption).
  rewrite land_low49. unfold p2_33, p2_49.
  assert (Hb : b2n (negb (val mod 2 =? 0)) = val mod 2).
  { destruct (N.eqb_spec (val mod 2) 0) as [E|E]; cbn; lia. }
  rewrite Hb. lia.
Qed.

(* ------------------------------------------------------------------ checkers *)

Lemma pl_pack_okb_sound ptr len packed un :
  pl_pack_okb ptr len packed un = true <-> packed <= u64max /\ un = Some (ptr, len).
Proof.
  unfold pl_pack_okb. rewrite andb_true_iff, N.leb_le.
  destruct un as [[p l]|].
  - rewrite andb_true_iff, !N.eqb_eq. split.
    + intros [H [-> ->]]. auto.
    + intros [H E]. inversion E. auto.
  - split; [intros [_ H]; discriminate|intros [_ H]; discriminate].
Qed.

Lemma esr_pack_okb_sound ex size result packed un :
  esr_pack_okb ex size result packed un = true <->
  packed <= u64max /\ un = Some (ex, size, result).
Proof.
  unfold esr_pack_okb. rewrite andb_true_iff, N.leb_le.
  destruct un as [[[e s] r]|].
  - rewrite !andb_true_iff, !N.eqb_eq, Bool.eqb_true_iff. split.
    + intros [H [[-> ->] ->]]. auto.
    + intros [H E]. inversion E. auto.
  - split; [intros [_ H]; discriminate|intros [_ H]; discriminate].
Qed.

Lemma pl_unpack_okb_sound val un :
  pl_unpack_okb val un = true <->
  exists p l, un = Some (p, l) /\ p <= u32max /\ l <= u32max /\ pack_ptr_and_len p l = val.
Proof.
  unfold pl_unpack_okb. destruct un as [[p l]|].
  - rewrite !andb_true_iff, !N.leb_le, N.eqb_eq. split.
    + intros [[H1 H2] H3]. exists p, l. auto.
    + intros (p' & l' & E & H1 & H2 & H3). inversion E; subst. auto.
  - split; [discriminate|]. intros (p & l & E & _). discriminate.
Qed.

Lemma esr_unpack_okb_sound val un :
  esr_unpack_okb val un = true <->
  exists e s r, un = Some (e, s, r) /\ s <= u32max /\ r <= u16max /\
                pack_exists_size_result e s r = N.land val low49.
Proof.
  unfold esr_unpack_okb. destruct un as [[[e s] r]|].
  - rewrite !andb_true_iff, !N.leb_le, N.eqb_eq. split.
    + intros [[H1 H2] H3]. exists e, s, r. auto.
    + intros (e' & s' & r' & E & H1 & H2 & H3). inversion E; subst. auto.
  - split; [discriminate|]. intros (e & s & r & E & _). discriminate.
Qed.

(* non-vacuity: boundary values *)
Example unpack_pack_pl_max :
  unpack_ptr_and_len (pack_ptr_and_len u32max u32max) = Some (u32max, u32max)
  /\ pack_ptr_and_len u32max u32max = u64max.
Proof. vm_compute. auto. Qed.
Example unpack_pack_esr_max :
  unpack_exists_size_result (pack_exists_size_result true u32max u16max) = Some (true, u32max, u16max)
  /\ pack_exists_size_result true u32max u16max = low49.
Proof. vm_compute. auto. Qed.
