(* Property theorems of the Wasm cluster (C07: the WASM and native state transition functions
   behave identically).  Nothing but statements, [exact], and Print Assumptions.

   Scope: these theorems cover the boundary between the two builds - the u64 packings, the
   host-call protocol of instance.rs as seen by the shipped guest (ext.rs), and the ReturnType
   conversions.  Equality of the two COMPILED state transition functions (rustc's wasm32 backend,
   wasmtime) is not a theorem: it is validated on generated blocks by the harness (h-wasm). *)
From FC Require Import Common.T Wasm.Model Wasm.Proofs7a Wasm.Proofs7b Wasm.Proofs7c.
Open Scope N_scope.

(* -------- packings (utils.rs), for ALL u32 / u16 / bool / u64 values -------- *)

Theorem unpack_pack : forall ptr len, ptr <= u32max -> len <= u32max ->
  unpack_ptr_and_len (pack_ptr_and_len ptr len) = Some (ptr, len).
Proof. exact unpack_pack_pl. Qed.
Print Assumptions unpack_pack.

Theorem pack_fits_u64 : forall ptr len, ptr <= u32max -> len <= u32max ->
  pack_ptr_and_len ptr len <= u64max.
Proof. exact pack_pl_fits. Qed.
Print Assumptions pack_fits_u64.

(* every u64 unpacks without hitting an `expect`, into u32 fields, and packing inverts it *)
Theorem unpack_total : forall val, val <= u64max ->
  exists ptr len, unpack_ptr_and_len val = Some (ptr, len) /\
                  ptr <= u32max /\ len <= u32max /\ pack_ptr_and_len ptr len = val.
Proof. exact unpack_pl_total. Qed.
Print Assumptions unpack_total.

Theorem unpack_pack_esr : forall ex size result, size <= u32max -> result <= u16max ->
  unpack_exists_size_result (pack_exists_size_result ex size result) = Some (ex, size, result).
Proof. exact unpack_pack_esr_all. Qed.
Print Assumptions unpack_pack_esr.

Theorem pack_esr_fits_u64 : forall ex size result, size <= u32max -> result <= u16max ->
  pack_exists_size_result ex size result <= u64max.
Proof. exact Proofs7a.pack_esr_fits_u64. Qed.
Print Assumptions pack_esr_fits_u64.

Theorem unpack_esr_total : forall val,
  exists ex size result, unpack_exists_size_result val = Some (ex, size, result) /\
     size <= u32max /\ result <= u16max /\
     pack_exists_size_result ex size result = N.land val low49.
Proof. exact Proofs7a.unpack_esr_total. Qed.
Print Assumptions unpack_esr_total.

(* the decidable checkers evaluated on the outputs of the real Rust functions *)
Theorem pack_checker_sound : forall ptr len packed un,
  pl_pack_okb ptr len packed un = true <-> packed <= u64max /\ un = Some (ptr, len).
Proof. exact pl_pack_okb_sound. Qed.
Print Assumptions pack_checker_sound.

Theorem pack_esr_checker_sound : forall ex size result packed un,
  esr_pack_okb ex size result packed un = true <->
  packed <= u64max /\ un = Some (ex, size, result).
Proof. exact esr_pack_okb_sound. Qed.
Print Assumptions pack_esr_checker_sound.

Theorem unpack_checker_sound : forall val un,
  pl_unpack_okb val un = true <->
  exists p l, un = Some (p, l) /\ p <= u32max /\ l <= u32max /\ pack_ptr_and_len p l = val.
Proof. exact pl_unpack_okb_sound. Qed.
Print Assumptions unpack_checker_sound.

Theorem unpack_esr_checker_sound : forall val un,
  esr_unpack_okb val un = true <->
  exists e s r, un = Some (e, s, r) /\ s <= u32max /\ r <= u16max /\
                pack_exists_size_result e s r = N.land val low49.
Proof. exact esr_unpack_okb_sound. Qed.
Print Assumptions unpack_esr_checker_sound.

(* the host reads exactly the slice the guest announced from `execute` *)
Theorem output_passing : forall mem ptr len, ptr <= u32max -> len <= u32max ->
  host_read_output mem (pack_ptr_and_len ptr len) = Some (read_slice mem ptr len).
Proof. exact output_passing_all. Qed.
Print Assumptions output_passing.

(* -------- storage reads through storage_size_of_value / storage_get -------- *)

(* FULL statement "the guest obtains exactly view.get k, or the error":
     forall e s col k, e_valid_col e col = true -> g_get e s col k = (s, spec_get (e_sv e col k))
   is REFUTED by the faithful model: a storage error in storage_size_of_value is packed as
   (exists = false, size = 0, result = 0), which the guest reads as "key absent". *)
Theorem host_get_faithful_refuted :
  exists e s col k, e_valid_col e col = true /\
                    snd (g_get e s col k) <> spec_get (e_sv e col k).
Proof. exact host_get_refuted. Qed.
Print Assumptions host_get_faithful_refuted.

(* for every view, key and host state: unless the view itself fails on that key, WasmStorage::get
   returns exactly the view's answer (present with the exact bytes / absent; a value longer than
   u32::MAX kills the instance) and leaves the host state untouched *)
Theorem host_get_faithful_partial : forall e s col k,
  e_valid_col e col = true -> e_sv e col k <> VErr ->
  g_get e s col k = (s, spec_get (e_sv e col k)).
Proof. exact host_get_partial. Qed.
Print Assumptions host_get_faithful_partial.

(* the excluded class, characterised exactly *)
Theorem host_get_error_masked : forall e s col k,
  e_valid_col e col = true -> e_sv e col k = VErr -> g_get e s col k = (s, GOk None).
Proof. exact host_get_masked. Qed.
Print Assumptions host_get_error_masked.

Theorem host_get_unknown_column : forall e s col k,
  e_valid_col e col = false -> g_get e s col k = (s, GTrap).
Proof. exact host_get_bad_column. Qed.
Print Assumptions host_get_unknown_column.

(* -------- relayer events through relayer_size_of_events / relayer_get_events -------- *)

(* from any host state whose cache holds only genuine answers (true initially, preserved): the
   guest obtains exactly the relayer's encoded events for that height (or the error), the cache
   stays genuine, the transaction side is untouched *)
Theorem relayer_get_faithful : forall e s h, rel_inv e s ->
  snd (g_relayer_get_events e s h) = spec_rel (e_rel e h) /\
  rel_inv e (fst (g_relayer_get_events e s h)) /\
  h_src (fst (g_relayer_get_events e s h)) = h_src s /\
  h_next (fst (g_relayer_get_events e s h)) = h_next s.
Proof. exact relayer_get_all. Qed.
Print Assumptions relayer_get_faithful.

(* -------- transactions through peek_next_txs_size / consume_next_txs -------- *)

(* the shipped guest (ext::next_transactions: peek, then consume that size at once) receives the
   source's batches in source order - also when consecutive batches have the same encoded size -
   for every source, every request list and every host state without pending batches.
   good_batch: 1 <= encoded size <= u32::MAX (postcard of a Vec is never empty). *)
Theorem peek_consume_fifo : forall e, e_has_src e = true -> good_batch (e_src_default e) ->
  forall reqs s, Forall good_batch (h_src s) -> drained (h_next s) ->
  Forall (fun r => snd (fst r) <= u16max) reqs ->
  g_next_n e s reqs =
  map (fun b => GOk (Some b)) (answers (e_src_default e) (h_src s) (length reqs)).
Proof. exact fifo_all. Qed.
Print Assumptions peek_consume_fifo.

Theorem answers_are_source_prefix : forall d src k, (k <= length src)%nat ->
  answers d src k = firstn k src.
Proof. exact answers_prefix. Qed.
Print Assumptions answers_are_source_prefix.

(* suspicion E3 (DESIGN section 7): the size-keyed map pops the most recent batch, so a guest that
   peeks twice before consuming gets equal-sized batches in reverse order.  This is a fact about
   the host API, witnessed here; it is NOT reachable with the shipped guest (theorem above: every
   peek is consumed before the next one, `drained` is an invariant). *)
Theorem pending_batches_same_size_lifo :
  run_calls env_two (hstate0 [[1; 7]; [1; 9]])
            [CPeek 0 0 0; CPeek 0 0 0; CConsume 2; CConsume 2]
  = [HRet 2 []; HRet 2 []; HRet 0 [1; 9]; HRet 0 [1; 7]]
  /\ calls_ok env_two (sstate0 [[1; 7]; [1; 9]])
              [CPeek 0 0 0; CConsume 2; CPeek 0 0 0; CConsume 2]
              (run_calls env_two (hstate0 [[1; 7]; [1; 9]])
                         [CPeek 0 0 0; CConsume 2; CPeek 0 0 0; CConsume 2]) = PC_OK.
Proof. exact pending_same_size_lifo. Qed.
Print Assumptions pending_batches_same_size_lifo.

(* -------- the trace checker used as Pcheck on the real host functions -------- *)

(* for EVERY raw call script the model's trace passes the view-level checker, unless the script
   asks the size of a key on which the view fails (then the first failure is class 2) *)
Theorem model_trace_ok : forall e src cs, no_err_size e cs ->
  calls_ok e (sstate0 src) cs (run_calls e (hstate0 src) cs) = PC_OK.
Proof. exact model_trace_ok_all. Qed.
Print Assumptions model_trace_ok.

Theorem model_trace_failure_classes : forall e src cs,
  calls_ok e (sstate0 src) cs (run_calls e (hstate0 src) cs) = PC_OK \/
  calls_ok e (sstate0 src) cs (run_calls e (hstate0 src) cs) = PC_ERR_MASKED.
Proof. exact model_trace_classes. Qed.
Print Assumptions model_trace_failure_classes.


(* meaning of the checker on single calls: what an accepted observation says about the views *)
Theorem checker_get_sound : forall e s col k n w s',
  e_valid_col e col = true ->
  spec_call e s (CGet col k n) (HRet 0 w) = (s', PC_OK) ->
  e_sv e col k = VSome w /\ blen w = n.
Proof. exact spec_get_sound. Qed.
Print Assumptions checker_get_sound.

Theorem checker_size_sound : forall e s col k r s',
  e_valid_col e col = true ->
  spec_call e s (CSize col k) (HRet r []) = (s', PC_OK) ->
  match e_sv e col k with
  | VSome v => unpack_exists_size_result r = Some (true, blen v, 0) /\ blen v <= u32max
  | VNone => exists sz, unpack_exists_size_result r = Some (false, sz, 0)
  | VErr => exists ex sz res, unpack_exists_size_result r = Some (ex, sz, res) /\ res <> 0
  end.
Proof. exact spec_size_sound. Qed.
Print Assumptions checker_size_sound.

Theorem checker_consume_sound : forall e s size w s' b,
  s_pending s = Some b -> s_disc s = true -> size = blen b ->
  spec_call e s (CConsume size) (HRet 0 w) = (s', PC_OK) -> w = b.
Proof. exact spec_consume_sound. Qed.
Print Assumptions checker_consume_sound.

(* -------- ReturnType: what the guest returns is what the host hands to its caller -------- *)

(* json_roundtrip is the serde_json round trip of ExecutorError (an assumption about serde; the
   differential runs compare the errors of both strategies on every skipped transaction) *)
Theorem convert_v1_roundtrip :
  forall (err json blk sts evs chg txid : Type) (to_json : err -> json)
         (from_json : json -> option err) (other : json -> err),
  (forall e, from_json (to_json e) = Some e) ->
  forall r : uresult blk sts evs chg txid err,
  convert_from_v1_execution_result from_json other (convert_to_v1_execution_result to_json r) = r.
Proof. exact v1_roundtrip. Qed.
Print Assumptions convert_v1_roundtrip.

Theorem produce_boundary_identity :
  forall (err err0 json blk sts evs chg txid : Type) (to_json : err -> json)
         (to_json0 : err0 -> json) (from_json : json -> option err) (other : json -> err),
  (forall e, from_json (to_json e) = Some e) ->
  forall wrong (r : uresult blk sts evs chg txid err),
  host_produce_result to_json0 from_json other wrong
    (guest_produce_output (err0 := err0) to_json r) = r.
Proof. exact produce_boundary_id. Qed.
Print Assumptions produce_boundary_identity.

Theorem validate_boundary_identity :
  forall (err err0 json blk sts evs chg txid : Type) (to_json : err -> json)
         (to_json0 : err0 -> json) (from_json : json -> option err) (other : json -> err),
  (forall e, from_json (to_json e) = Some e) ->
  forall r : vresult err sts evs chg,
  host_validate_result (blk := blk) (txid := txid) to_json0 from_json other
    (guest_validate_output (err0 := err0) to_json r) = r.
Proof. exact validate_boundary_id. Qed.
Print Assumptions validate_boundary_identity.

(* the conversions change error values only *)
Theorem conversion_keeps_shape :
  forall (blk sts evs txid E F : Type) (f : E -> F) (r : exec_result blk sts evs txid E),
  r_block (map_result f r) = r_block r /\ r_status (map_result f r) = r_status r /\
  r_events (map_result f r) = r_events r /\
  map fst (r_skipped (map_result f r)) = map fst (r_skipped r).
Proof. exact map_result_shape. Qed.
Print Assumptions conversion_keeps_shape.

(* -------- the differential cases: Pcheck is equality of the two observations -------- *)
Theorem observation_eq_sound : forall a b, T_eqb a b = true <-> a = b.
Proof. exact T_eqb_iff. Qed.
Print Assumptions observation_eq_sound.

(* the Pcheck code of a differential case is 1 exactly when the two observations are equal
   (4 marks the known class "expired transaction delivered as CheckedTransaction", 0 any other
   difference) *)
Theorem differential_code_sound : forall a b, diff_code a b = 1%Z <-> a = b.
Proof. exact diff_code_one. Qed.
Print Assumptions differential_code_sound.
