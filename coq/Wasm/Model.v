(* Cluster Wasm (C07): the boundary between the native host and the WASM build of the
   executor.  Executable definitions only.

   Anchors:
     crates/services/upgradable-executor/wasm-executor/src/utils.rs
        pack_ptr_and_len, unpack_ptr_and_len, pack_exists_size_result,
        unpack_exists_size_result, ReturnType, convert_{to,from}_v1_execution_result,
        convert_from_v0_execution_result
     crates/services/upgradable-executor/src/instance.rs      (host functions)
     crates/services/upgradable-executor/wasm-executor/src/{ext,storage,relayer,tx_source}.rs
        (guest side of the same protocol)
     crates/services/upgradable-executor/src/executor.rs      (ReturnType dispatch)

   Machine integers are N with the width operations written out: [shl64] is the u64 shift
   (bits shifted beyond bit 63 are dropped), [try_u32]/[try_u16] are u32::try_from /
   u16::try_from (None = the `expect` would panic).  Byte strings are lists of N. *)
From FC Require Import Common.T.
From Coq Require Import List NArith Bool.
Import ListNotations.
Open Scope N_scope.

(* ------------------------------------------------------------------------------------ *)
(* 1. packing (utils.rs)                                                                 *)

Definition shl64 (x k : N) : N := N.land (N.shiftl x k) u64max.
Definition try_u32 (x : N) : option N := if x <=? u32max then Some x else None.
Definition try_u16 (x : N) : option N := if x <=? u16max then Some x else None.
Definition b2n (b : bool) : N := if b then 1 else 0.

(* (u64::from(len) << 32) | u64::from(ptr) *)
Definition pack_ptr_and_len (ptr len : N) : N := N.lor (shl64 len 32) ptr.

(* ptr = u32::try_from(val & u32::MAX).expect(..); len = u32::try_from(val >> 32).expect(..) *)
Definition unpack_ptr_and_len (val : N) : option (N * N) :=
  match try_u32 (N.land val u32max), try_u32 (N.shiftr val 32) with
  | Some ptr, Some len => Some (ptr, len)
  | _, _ => None
  end.

(* ((u64::from(result) << 33) | (u64::from(size) << 1)) | u64::from(exists) *)
Definition pack_exists_size_result (ex : bool) (size result : N) : N :=
  N.lor (N.lor (shl64 result 33) (shl64 size 1)) (b2n ex).

Definition unpack_exists_size_result (val : N) : option (bool * N * N) :=
  let ex := negb (N.land val 1 =? 0) in
  match try_u32 (N.land (N.shiftr val 1) u32max),
        try_u16 (N.land (N.shiftr val 33) u16max) with
  | Some size, Some result => Some (ex, size, result)
  | _, _ => None
  end.

(* decidable round-trip checkers evaluated on the implementation's outputs *)
Definition pl_pack_okb (ptr len packed : N) (un : option (N * N)) : bool :=
  (packed <=? u64max) &&
  match un with Some (p, l) => (p =? ptr) && (l =? len) | None => false end.

Definition esr_pack_okb (ex : bool) (size result packed : N) (un : option (bool * N * N)) : bool :=
  (packed <=? u64max) &&
  match un with
  | Some (e, s, r) => Bool.eqb e ex && (s =? size) && (r =? result)
  | None => false
  end.

Definition pl_unpack_okb (val : N) (un : option (N * N)) : bool :=
  match un with
  | Some (p, l) => (p <=? u32max) && (l <=? u32max) && (pack_ptr_and_len p l =? val)
  | None => false
  end.

(* bits 49..63 are dropped by unpack; the low 49 bits are recovered *)
Definition low49 : N := 562949953421311.
Definition esr_unpack_okb (val : N) (un : option (bool * N * N)) : bool :=
  match un with
  | Some (e, s, r) => (s <=? u32max) && (r <=? u16max) &&
                      (pack_exists_size_result e s r =? N.land val low49)
  | None => false
  end.

(* ------------------------------------------------------------------------------------ *)
(* 2. the host-call protocol (instance.rs) against an abstract view                      *)

Definition bytes := list N.
Definition blen (b : bytes) : N := N.of_nat (length b).

(* KeyValueInspect::get / size_of_value of the storage view for one (column, key) *)
Inductive vres := VErr | VNone | VSome (v : bytes).

Record henv := mkEnv {
  e_has_src : bool;                 (* add_source(Some _) / no_source() *)
  e_src_default : bytes;            (* encoded answer of an exhausted source *)
  e_valid_col : N -> bool;          (* Column::try_from(column).is_ok() *)
  e_sv : N -> bytes -> vres;        (* storage view: column -> key -> result *)
  e_rel_enabled : bool;
  e_rel : N -> option bytes;        (* relayer.get_events(h) postcard-encoded; None = Err *)
  e_input : bytes                   (* postcard(InputSerializationType) *)
}.

(* ExecutionState (+ the stateful transaction source) *)
Record hstate := mkH {
  h_src : list bytes;               (* encoded answers the source will give, in order *)
  h_next : list (N * list bytes);   (* next_transactions: HashMap<u32, Vec<Vec<u8>>>, head = last pushed *)
  h_rel : list (N * bytes)          (* relayer_events: HashMap<DaBlockHeight, Value> *)
}.

Inductive call :=
| CInput (out_len : N)
| CPeekV0 (gas : N)
| CPeek (gas count size : N)
| CConsume (out_size : N)
| CSize (col : N) (k : bytes)
| CGet (col : N) (k : bytes) (out_len : N)
| CRelEnabled
| CRelSize (h : N)
| CRelGet (h : N).

(* HTrap: the host function returned Err (wasmtime trap, the instance is dead);
   HRet ret written: return value (0 for unit functions) and the bytes written to guest memory *)
Inductive hres := HTrap | HRet (ret : N) (written : bytes).

Fixpoint alookup {A} (k : N) (m : list (N * A)) : option A :=
  match m with
  | [] => None
  | (k', v) :: r => if k' =? k then Some v else alookup k r
  end.

(* entry(size).or_default().push(b) *)
Fixpoint push_next (size : N) (b : bytes) (m : list (N * list bytes)) : list (N * list bytes) :=
  match m with
  | [] => [(size, [b])]
  | (k, st) :: r => if k =? size then (k, b :: st) :: r else (k, st) :: push_next size b r
  end.

(* get_mut(&size).and_then(|v| v.pop()).unwrap_or_default() *)
Fixpoint pop_next (size : N) (m : list (N * list bytes)) : list (N * list bytes) * bytes :=
  match m with
  | [] => ([], [])
  | (k, st) :: r =>
      if k =? size then
        match st with
        | [] => ((k, []) :: r, [])
        | b :: st' => ((k, st') :: r, b)
        end
      else let '(r', b) := pop_next size r in ((k, st) :: r', b)
  end.

(* CallerHelper::peek_next_txs_bytes: the source is consulted (and advances) before the
   size check *)
Definition peek_bytes (e : henv) (s : hstate) : hstate * hres :=
  let '(b, rest) := match h_src s with [] => (e_src_default e, []) | b :: r => (b, r) end in
  if u32max <? blen b then (mkH rest (h_next s) (h_rel s), HTrap)
  else (mkH rest (push_next (blen b) b (h_next s)) (h_rel s), HRet (blen b) []).

Definition host_call (e : henv) (s : hstate) (c : call) : hstate * hres :=
  match c with
  | CInput n =>
      if n =? blen (e_input e) then (s, HRet 0 (e_input e)) else (s, HTrap)
  | CPeekV0 _ =>
      if negb (e_has_src e) then (s, HRet 0 []) else peek_bytes e s
  | CPeek _ count _ =>
      if negb (e_has_src e) then (s, HRet 0 [])
      else if u16max <? count then (s, HTrap)
      else peek_bytes e s
  | CConsume size =>
      let '(m, b) := pop_next size (h_next s) in
      (mkH (h_src s) m (h_rel s), HRet 0 b)
  | CSize col k =>
      if negb (e_valid_col e col) then (s, HTrap)
      else match e_sv e col k with
           | VSome v => if u32max <? blen v then (s, HTrap)
                        else (s, HRet (pack_exists_size_result true (blen v) 0) [])
           | VNone => (s, HRet (pack_exists_size_result false 0 0) [])
           | VErr => (s, HRet (pack_exists_size_result false 0 0) [])
           end
  | CGet col k n =>
      if negb (e_valid_col e col) then (s, HTrap)
      else match e_sv e col k with
           | VSome v => if blen v =? n then (s, HRet 0 v) else (s, HTrap)
           | VNone => (s, HTrap)
           | VErr => (s, HRet 1 [])
           end
  | CRelEnabled => (s, HRet (b2n (e_rel_enabled e)) [])
  | CRelSize h =>
      match alookup h (h_rel s) with
      | Some b => if u32max <? blen b then (s, HTrap)
                  else (s, HRet (pack_exists_size_result true (blen b) 0) [])
      | None =>
          match e_rel e h with
          | Some b => if u32max <? blen b then (s, HTrap)
                      else (mkH (h_src s) (h_next s) ((h, b) :: h_rel s),
                            HRet (pack_exists_size_result true (blen b) 0) [])
          | None => (s, HRet (pack_exists_size_result false 0 1) [])
          end
      end
  | CRelGet h =>
      match alookup h (h_rel s) with
      | Some b => (s, HRet 0 b)
      | None => (s, HTrap)
      end
  end.

(* a guest issuing raw calls; everything stops at the first trap *)
Fixpoint run_calls (e : henv) (s : hstate) (cs : list call) : list hres :=
  match cs with
  | [] => []
  | c :: r => match host_call e s c with
              | (_, HTrap) => [HTrap]
              | (s', res) => res :: run_calls e s' r
              end
  end.

(* ------------------------------------------------------------------------------------ *)
(* 3. the guest side of the protocol (ext.rs, storage.rs, relayer.rs, tx_source.rs)       *)

(* GTrap: the instance dies (host trap or an `expect` in the guest); GErr: anyhow error *)
Inductive gres (A : Type) := GTrap | GErr | GOk (a : A).
Arguments GTrap {A}. Arguments GErr {A}. Arguments GOk {A} a.

(* vec![0u8; n] overwritten from its start by what the host wrote *)
Definition overlay (n : N) (w : bytes) : bytes :=
  w ++ repeat 0 (N.to_nat n - length w).

(* ext::size_of_value *)
Definition g_size_of_value (e : henv) (s : hstate) (col : N) (k : bytes) : hstate * gres (option N) :=
  match host_call e s (CSize col k) with
  | (s', HTrap) => (s', GTrap)
  | (s', HRet v _) =>
      match unpack_exists_size_result v with
      | None => (s', GTrap)
      | Some (ex, size, result) =>
          if negb (result =? 0) then (s', GErr)
          else if ex then (s', GOk (Some size)) else (s', GOk None)
      end
  end.

(* WasmStorage::get = ext::size_of_value, then ext::get into a buffer of exactly that size *)
Definition g_get (e : henv) (s : hstate) (col : N) (k : bytes) : hstate * gres (option bytes) :=
  match g_size_of_value e s col k with
  | (s1, GTrap) => (s1, GTrap)
  | (s1, GErr) => (s1, GErr)
  | (s1, GOk None) => (s1, GOk None)
  | (s1, GOk (Some size)) =>
      match host_call e s1 (CGet col k size) with
      | (s2, HTrap) => (s2, GTrap)
      | (s2, HRet code w) =>
          if negb (code =? 0) then (s2, GErr) else (s2, GOk (Some (overlay size w)))
      end
  end.

(* ext::relayer_get_events; GOk None = `vec![]` without decoding *)
Definition g_relayer_get_events (e : henv) (s : hstate) (h : N) : hstate * gres (option bytes) :=
  match host_call e s (CRelSize h) with
  | (s1, HTrap) => (s1, GTrap)
  | (s1, HRet v _) =>
      match unpack_exists_size_result v with
      | None => (s1, GTrap)
      | Some (ex, size, result) =>
          if negb (result =? 0) then (s1, GErr)
          else if negb ex || (size =? 0) then (s1, GOk None)
          else match host_call e s1 (CRelGet h) with
               | (s2, HTrap) => (s2, GTrap)
               | (s2, HRet _ w) => (s2, GOk (Some (overlay size w)))
               end
      end
  end.

(* ext::next_transactions; GOk None = `Vec::new()` without decoding *)
Definition g_next_transactions (e : henv) (s : hstate) (gas count size : N) : hstate * gres (option bytes) :=
  match host_call e s (CPeek gas count size) with
  | (s1, HTrap) => (s1, GTrap)
  | (s1, HRet n _) =>
      if n =? 0 then (s1, GOk None)
      else match host_call e s1 (CConsume n) with
           | (s2, HTrap) => (s2, GTrap)
           | (s2, HRet _ w) => (s2, GOk (Some (overlay n w)))
           end
  end.

(* the executor asking for transactions repeatedly (process_l2_txs loop) *)
Fixpoint g_next_n (e : henv) (s : hstate) (reqs : list (N * N * N)) : list (gres (option bytes)) :=
  match reqs with
  | [] => []
  | (gas, count, size) :: r =>
      let '(s', res) := g_next_transactions e s gas count size in
      res :: g_next_n e s' r
  end.

(* ------------------------------------------------------------------------------------ *)
(* 4. ReturnType and the V0 / V1 conversions (utils.rs, executor.rs)                      *)

Section Conversions.
  (* ExecutorError, ExecutorErrorV0, the JSON text, Block, tx statuses, events, Changes, TxId *)
  Variables (err err0 json blk sts evs chg txid : Type).
  Variable to_json : err -> json.            (* serde_json::to_string(&ExecutorError) *)
  Variable to_json0 : err0 -> json.          (* serde_json::to_string(&ExecutorErrorV0) *)
  Variable from_json : json -> option err.   (* serde_json::from_str *)
  Variable other : json -> err.              (* ExecutorError::Other *)

  (* impl From<JSONError> for ExecutorError *)
  Definition err_of_json (j : json) : err :=
    match from_json j with Some e => e | None => other j end.

  Record exec_result (E : Type) := mkRes {
    r_block : blk;
    r_skipped : list (txid * E);
    r_status : sts;
    r_events : evs
  }.
  Arguments mkRes {E}. Arguments r_block {E}. Arguments r_skipped {E}.
  Arguments r_status {E}. Arguments r_events {E}.

  Definition map_result {E F} (f : E -> F) (r : exec_result E) : exec_result F :=
    mkRes (r_block r) (map (fun p => (fst p, f (snd p))) (r_skipped r)) (r_status r) (r_events r).

  (* Result<Uncommitted<ExecutionResult<E>, Changes>, E> *)
  Definition uresult (E : Type) : Type := (exec_result E * chg + E)%type.

  Definition map_uresult {E F} (f : E -> F) (r : uresult E) : uresult F :=
    match r with
    | inl (res, c) => inl (map_result f res, c)
    | inr e => inr (f e)
    end.

  Definition convert_to_v1_execution_result (r : uresult err) : uresult json :=
    map_uresult to_json r.
  Definition convert_from_v1_execution_result (r : uresult json) : uresult err :=
    map_uresult err_of_json r.
  Definition convert_from_v0_execution_result (r : uresult err0) : uresult err :=
    map_uresult (fun e0 => err_of_json (to_json0 e0)) r.

  (* Uncommitted<ValidationResult, Changes> *)
  Definition vresult : Type := (sts * evs * chg + err)%type.

  Inductive return_type :=
  | ExecutionV0 (r : uresult err0)
  | ExecutionV1 (r : uresult json)
  | Validation (r : sts * evs * chg + json).

  (* wasm_produce_inner: match output { V0 => from_v0, V1 => from_v1, Validation => Err(Other) } *)
  Definition host_produce_result (wrong_kind : err) (o : return_type) : uresult err :=
    match o with
    | ExecutionV0 r => convert_from_v0_execution_result r
    | ExecutionV1 r => convert_from_v1_execution_result r
    | Validation _ => inr wrong_kind
    end.

  (* UncommittedResult::into_validation_result *)
  Definition into_validation_result (r : exec_result err * chg) : sts * evs * chg :=
    (r_status (fst r), r_events (fst r), snd r).

  (* wasm_validate_inner *)
  Definition host_validate_result (o : return_type) : vresult :=
    match o with
    | ExecutionV0 r => match convert_from_v0_execution_result r with
                       | inl u => inl (into_validation_result u) | inr e => inr e end
    | ExecutionV1 r => match convert_from_v1_execution_result r with
                       | inl u => inl (into_validation_result u) | inr e => inr e end
    | Validation (inl v) => inl v
    | Validation (inr j) => inr (err_of_json j)
    end.

  (* what the shipped guest returns (main.rs): production/dry run -> ExecutionV1(to_v1 r),
     validation -> Validation(r.map_err(Into::into)) *)
  Definition guest_produce_output (r : uresult err) : return_type :=
    ExecutionV1 (convert_to_v1_execution_result r).
  Definition guest_validate_output (r : vresult) : return_type :=
    Validation (match r with inl v => inl v | inr e => inr (to_json e) end).
End Conversions.

(* ------------------------------------------------------------------------------------ *)
(* 5. the spec-level checker of a raw call trace (Pcheck of the host-protocol cases)      *)

(* Failure classes: 0 generic, 2 = a storage error was reported to the guest as
   (exists = false, result = 0), 3 = transaction batches out of source order. *)
Definition PC_OK : N := 1.
Definition PC_FAIL : N := 0.
Definition PC_ERR_MASKED : N := 2.
Definition PC_ORDER : N := 3.

Fixpoint bytes_eqb (a b : bytes) : bool :=
  match a, b with
  | [], [] => true
  | x :: a', y :: b' => (x =? y) && bytes_eqb a' b'
  | _, _ => false
  end.

Definition memb (h : N) (l : list N) : bool := existsb (N.eqb h) l.

(* spec state: source answers still to come; the batch announced by the last peek and not yet
   consumed (None = nothing pending); whether the guest kept the peek-then-consume discipline
   of ext::next_transactions so far; the DA heights whose size was asked successfully *)
Record sstate := mkS {
  s_src : list bytes;
  s_pending : option bytes;
  s_disc : bool;
  s_seen : list N
}.

Definition take_src (e : henv) (src : list bytes) : bytes * list bytes :=
  match src with [] => (e_src_default e, []) | b :: r => (b, r) end.

(* expected result of one call according to the views (not according to host_call) *)
Definition spec_call (e : henv) (s : sstate) (c : call) (o : hres) : sstate * N :=
  let ok (b : bool) := if b then PC_OK else PC_FAIL in
  match c with
  | CInput n =>
      (s, ok (if n =? blen (e_input e)
              then match o with HRet 0 w => bytes_eqb w (e_input e) | _ => false end
              else match o with HTrap => true | _ => false end))
  | CPeekV0 _ | CPeek _ _ _ =>
      let bad_count := match c with CPeek _ count _ => u16max <? count | _ => false end in
      if negb (e_has_src e) then (s, ok (match o with HRet 0 [] => true | _ => false end))
      else if bad_count then (s, ok (match o with HTrap => true | _ => false end))
      else
        let '(b, rest) := take_src e (s_src s) in
        let disc := s_disc s && match s_pending s with None => true | Some _ => false end in
        let s' := mkS rest (Some b) disc (s_seen s) in
        if u32max <? blen b then (s', ok (match o with HTrap => true | _ => false end))
        else (s', ok (match o with HRet n [] => n =? blen b | _ => false end))
  | CConsume size =>
      match s_pending s with
      | Some b =>
          if s_disc s && (size =? blen b) then
            (mkS (s_src s) None true (s_seen s),
             match o with
             | HRet 0 w => if bytes_eqb w b then PC_OK else PC_ORDER
             | _ => PC_FAIL
             end)
          else (mkS (s_src s) None false (s_seen s), ok (match o with HRet 0 _ => true | _ => false end))
      | None => (mkS (s_src s) None false (s_seen s), ok (match o with HRet 0 _ => true | _ => false end))
      end
  | CSize col k =>
      if negb (e_valid_col e col) then (s, ok (match o with HTrap => true | _ => false end))
      else match e_sv e col k with
           | VSome v =>
               if u32max <? blen v then (s, ok (match o with HTrap => true | _ => false end))
               else (s, ok (match o with
                            | HRet r [] => match unpack_exists_size_result r with
                                           | Some (true, sz, 0) => sz =? blen v
                                           | _ => false end
                            | _ => false end))
           | VNone =>
               (s, ok (match o with
                       | HRet r [] => match unpack_exists_size_result r with
                                      | Some (false, _, 0) => true
                                      | _ => false end
                       | _ => false end))
           | VErr =>
               (s, match o with
                   | HRet r [] => match unpack_exists_size_result r with
                                  | Some (_, _, 0) => PC_ERR_MASKED
                                  | Some (_, _, _) => PC_OK
                                  | None => PC_FAIL end
                   | _ => PC_FAIL end)
           end
  | CGet col k n =>
      if negb (e_valid_col e col) then (s, ok (match o with HTrap => true | _ => false end))
      else match e_sv e col k with
           | VSome v =>
               if blen v =? n
               then (s, ok (match o with HRet 0 w => bytes_eqb w v | _ => false end))
               else (s, ok (match o with HTrap => true | _ => false end))
           | VNone => (s, ok (match o with HTrap => true | _ => false end))
           | VErr => (s, ok (match o with HRet r [] => negb (r =? 0) | _ => false end))
           end
  | CRelEnabled =>
      (s, ok (match o with HRet r [] => r =? b2n (e_rel_enabled e) | _ => false end))
  | CRelSize h =>
      match e_rel e h with
      | Some b =>
          if u32max <? blen b then (s, ok (match o with HTrap => true | _ => false end))
          else (mkS (s_src s) (s_pending s) (s_disc s) (h :: s_seen s),
                ok (match o with
                    | HRet r [] => match unpack_exists_size_result r with
                                   | Some (true, sz, 0) => sz =? blen b
                                   | _ => false end
                    | _ => false end))
      | None =>
          (s, ok (match o with
                  | HRet r [] => match unpack_exists_size_result r with
                                 | Some (_, _, res) => negb (res =? 0)
                                 | None => false end
                  | _ => false end))
      end
  | CRelGet h =>
      if memb h (s_seen s) then
        (s, ok (match o, e_rel e h with
                | HRet 0 w, Some b => bytes_eqb w b
                | _, _ => false end))
      else (s, ok (match o with HTrap => true | _ => false end))
  end.

(* first failure class of a trace, or PC_OK; a trap ends the trace *)
Fixpoint calls_ok (e : henv) (s : sstate) (cs : list call) (os : list hres) : N :=
  match cs, os with
  | [], [] => PC_OK
  | c :: cr, o :: orest =>
      let '(s', code) := spec_call e s c o in
      if code =? PC_OK then
        match o with
        | HTrap => match orest with [] => PC_OK | _ => PC_FAIL end
        | _ => calls_ok e s' cr orest
        end
      else code
  | _, _ => PC_FAIL
  end.

Definition sstate0 (src : list bytes) : sstate := mkS src None true [].
Definition hstate0 (src : list bytes) : hstate := mkH src [] [].

(* ------------------------------------------------------------------------------------ *)
(* 6. exchange-format codecs and main_T                                                   *)

Open Scope Z_scope.

Definition tBytes (b : bytes) : T := L (map tN b).
Definition getBytes (t : T) : option bytes := getListN t.

Definition hres_T (r : hres) : T :=
  match r with
  | HTrap => L [I (-1)]
  | HRet ret w => L [tN ret; tBytes w]
  end.

Definition T_hres (t : T) : option hres :=
  match t with
  | L [I (-1)] => Some HTrap
  | L [ret; w] => match getN ret, getBytes w with
                  | Some r, Some w => Some (HRet r w) | _, _ => None end
  | _ => None
  end.

Definition T_call (t : T) : option call :=
  match t with
  | L [I 0; n] => option_map CInput (getN n)
  | L [I 1; g] => option_map CPeekV0 (getN g)
  | L [I 2; g; c; s] => match getN g, getN c, getN s with
                        | Some g, Some c, Some s => Some (CPeek g c s) | _, _, _ => None end
  | L [I 3; n] => option_map CConsume (getN n)
  | L [I 4; col; k] => match getN col, getBytes k with
                       | Some col, Some k => Some (CSize col k) | _, _ => None end
  | L [I 5; col; k; n] => match getN col, getBytes k, getN n with
                          | Some col, Some k, Some n => Some (CGet col k n) | _, _, _ => None end
  | L [I 6] => Some CRelEnabled
  | L [I 7; h] => option_map CRelSize (getN h)
  | L [I 8; h] => option_map CRelGet (getN h)
  | _ => None
  end.

Definition T_vres (tag : T) (b : T) : option vres :=
  match tag, getBytes b with
  | I 0, Some _ => Some VErr
  | I 1, Some _ => Some VNone
  | I 2, Some v => Some (VSome v)
  | _, _ => None
  end.

(* storage rows: (col key tag bytes) *)
Definition T_srow (t : T) : option (N * bytes * vres) :=
  match t with
  | L [col; k; tag; b] => match getN col, getBytes k, T_vres tag b with
                          | Some col, Some k, Some v => Some (col, k, v) | _, _, _ => None end
  | _ => None
  end.

(* relayer rows: (height tag bytes), tag 0 = Err, 1 = Ok *)
Definition T_rrow (t : T) : option (N * option bytes) :=
  match t with
  | L [h; I 0; _] => option_map (fun h => (h, None)) (getN h)
  | L [h; I 1; b] => match getN h, getBytes b with
                     | Some h, Some b => Some (h, Some b) | _, _ => None end
  | _ => None
  end.

Fixpoint sv_of (rows : list (N * bytes * vres)) (col : N) (k : bytes) : vres :=
  match rows with
  | [] => VNone
  | (c, k', v) :: r => if (c =? col)%N && bytes_eqb k' k then v else sv_of r col k
  end.

(* heights without a row: the relayer answers Ok(vec![]) whose encoding is the default row *)
Fixpoint rel_of (dflt : option bytes) (rows : list (N * option bytes)) (h : N) : option bytes :=
  match rows with
  | [] => dflt
  | (h', v) :: r => if (h' =? h)%N then v else rel_of dflt r h
  end.

(* env: (has_src default (batches) (storage rows) (valid cols) rel_enabled (relayer rows) rel_default input) *)
Definition T_env (t : T) : option (henv * list bytes) :=
  match t with
  | L [hs; dflt; L batches; L srows; vcols; ren; L rrows; rdef; inp] =>
      match getB hs, getBytes dflt, mapM getBytes batches, mapM T_srow srows, getListN vcols,
            getB ren, mapM T_rrow rrows, getBytes rdef, getBytes inp with
      | Some hs, Some dflt, Some batches, Some srows, Some vcols, Some ren, Some rrows, Some rdef, Some inp =>
          Some (mkEnv hs dflt (fun c => memb c vcols) (sv_of srows) ren (rel_of (Some rdef) rrows) inp,
                batches)
      | _, _, _, _, _, _, _, _, _ => None
      end
  | _ => None
  end.

Definition tOptPair (o : option (N * N)) : T :=
  match o with Some (a, b) => L [tN a; tN b] | None => L [] end.
Definition tOptEsr (o : option (bool * N * N)) : T :=
  match o with Some (e, s, r) => L [tB e; tN s; tN r] | None => L [] end.
Definition T_optPair (t : T) : option (option (N * N)) :=
  match t with
  | L [] => Some None
  | L [a; b] => match getN a, getN b with Some a, Some b => Some (Some (a, b)) | _, _ => None end
  | _ => None
  end.
Definition T_optEsr (t : T) : option (option (bool * N * N)) :=
  match t with
  | L [] => Some None
  | L [e; s; r] => match getB e, getN s, getN r with
                   | Some e, Some s, Some r => Some (Some (e, s, r)) | _, _, _ => None end
  | _ => None
  end.

(* Differential observations carry skipped transactions as (id, error tag, error digest).  The
   harness gives two variants fixed tags: 1001 = TransactionExpired, 1002 =
   InvalidTransaction(Validity(TransactionExpiration)).  [norm_expired] identifies them, so that a
   disagreement made only of this pair can be told apart (failure class 4). *)
Definition TAG_EXPIRED : Z := 1001.
Definition TAG_INVALID_EXPIRATION : Z := 1002.

Fixpoint norm_expired (t : T) : T :=
  match t with
  | I z => I z
  | L l =>
      match l with
      | [I a; I b; I c] =>
          if (b =? TAG_EXPIRED) || (b =? TAG_INVALID_EXPIRATION) then L [I a; I TAG_EXPIRED; I 0]
          else L l
      | _ => L ((fix go (l : list T) : list T :=
                   match l with [] => [] | x :: r => norm_expired x :: go r end) l)
      end
  end.

Definition PC_EXPIRED_VARIANT : Z := 4.

(* Pcheck of a differential case: 1 = the two strategies agree; 4 = they agree up to the
   expired-transaction error variant; 0 = they differ *)
Definition diff_code (nat_obs wasm_obs : T) : Z :=
  if T_eqb nat_obs wasm_obs then 1
  else if T_eqb (norm_expired nat_obs) (norm_expired wasm_obs) then PC_EXPIRED_VARIANT
  else 0.

Definition main7 (input observed : T) : T :=
  match input with
  (* pack_ptr_and_len then unpack_ptr_and_len *)
  | L [I 0; ptr; len] =>
      match getN ptr, getN len with
      | Some ptr, Some len =>
          let p := pack_ptr_and_len ptr len in
          let model := L [tN p; tOptPair (unpack_ptr_and_len p)] in
          let pc := match observed with
                    | L [op; ou] => match getN op, T_optPair ou with
                                    | Some op, Some ou => pl_pack_okb ptr len op ou
                                    | _, _ => false end
                    | _ => false end in
          L [model; tB pc]
      | _, _ => tErr 2
      end
  (* pack_exists_size_result then unpack_exists_size_result *)
  | L [I 1; ex; size; result] =>
      match getB ex, getN size, getN result with
      | Some ex, Some size, Some result =>
          let p := pack_exists_size_result ex size result in
          let model := L [tN p; tOptEsr (unpack_exists_size_result p)] in
          let pc := match observed with
                    | L [op; ou] => match getN op, T_optEsr ou with
                                    | Some op, Some ou => esr_pack_okb ex size result op ou
                                    | _, _ => false end
                    | _ => false end in
          L [model; tB pc]
      | _, _, _ => tErr 3
      end
  | L [I 2; val] =>
      match getN val with
      | Some val =>
          let model := tOptPair (unpack_ptr_and_len val) in
          let pc := match T_optPair observed with
                    | Some ou => pl_unpack_okb val ou | None => false end in
          L [model; tB pc]
      | None => tErr 4
      end
  | L [I 3; val] =>
      match getN val with
      | Some val =>
          let model := tOptEsr (unpack_exists_size_result val) in
          let pc := match T_optEsr observed with
                    | Some ou => esr_unpack_okb val ou | None => false end in
          L [model; tB pc]
      | None => tErr 5
      end
  (* scripted guest against the real host functions *)
  | L [I 4; env; L calls] =>
      match T_env env, mapM T_call calls with
      | Some (e, batches), Some cs =>
          let model := L (map hres_T (run_calls e (hstate0 batches) cs)) in
          let pc := match observed with
                    | L obs => match mapM T_hres obs with
                               | Some os => calls_ok e (sstate0 batches) cs os
                               | None => PC_FAIL end
                    | _ => PC_FAIL end in
          L [model; tN pc]
      | _, _ => tErr 6
      end
  (* differential case: observed = (native wasm).  There is no third implementation to compare
     with: the native executor IS the reference, so the answer echoes the observation and the
     whole verdict is the Pcheck code (equality of the two strategies' observations) *)
  | L (I 5 :: _) =>
      match observed with
      | L [nat_obs; wasm_obs] => L [observed; I (diff_code nat_obs wasm_obs)]
      | _ => L [L []; tB false]
      end
  | _ => tErr 1
  end.

Definition main_T (req : T) : T :=
  match req with
  | L [I 7; input; observed] => main7 input observed
  | _ => tErr 0
  end.
