(* C07, part 2: what the guest obtains through the host-call protocol. *)
From FC Require Import Common.T Wasm.Model Wasm.Proofs7a.
From Coq Require Import List NArith Bool Lia ZifyBool ZifyN ZifyNat.
Import ListNotations.
Open Scope N_scope.

Lemma overlay_exact v : overlay (blen v) v = v.
Proof.
  unfold overlay, blen. rewrite Nnat.Nat2N.id, PeanoNat.Nat.sub_diag. cbn. apply app_nil_r.
Qed.

Lemma ltb_false_le a b : (a <? b) = false -> b <= a.
Proof. intros H. apply N.ltb_ge. exact H. Qed.

Lemma unpack_esr_ok ex size : size <= u32max ->
  unpack_exists_size_result (pack_exists_size_result ex size 0) = Some (ex, size, 0).
Proof. intros H. apply unpack_pack_esr_all; [exact H|unfold u16max; lia]. Qed.

Lemma unpack_esr_err :
  unpack_exists_size_result (pack_exists_size_result false 0 1) = Some (false, 0, 1).
Proof. vm_compute. reflexivity. Qed.

(* ------------------------------------------------------------------ storage *)

(* the answer a faithful boundary would give for one storage read *)
Definition spec_get (r : vres) : gres (option bytes) :=
  match r with
  | VSome v => if u32max <? blen v then GTrap else GOk (Some v)
  | VNone => GOk None
  | VErr => GErr
  end.

Lemma g_size_char e s col k : e_valid_col e col = true ->
  g_size_of_value e s col k =
  (s, match e_sv e col k with
      | VSome v => if u32max <? blen v then GTrap else GOk (Some (blen v))
      | VNone => GOk None
      | VErr => GOk None
      end).
Proof.
  intros Hc. unfold g_size_of_value. cbn [host_call]. rewrite Hc. cbn [negb].
  destruct (e_sv e col k) as [| |v].
  - rewrite unpack_esr_ok by (unfold u32max; lia). reflexivity.
  - rewrite unpack_esr_ok by (unfold u32max; lia). reflexivity.
  - destruct (u32max <? blen v) eqn:E; [reflexivity|].
    rewrite unpack_esr_ok by (apply ltb_false_le; exact E). reflexivity.
Qed.

Lemma g_get_char e s col k : e_valid_col e col = true ->
  g_get e s col k =
  (s, match e_sv e col k with
      | VSome v => if u32max <? blen v then GTrap else GOk (Some v)
      | VNone => GOk None
      | VErr => GOk None
      end).
Proof.
  intros Hc. unfold g_get. rewrite g_size_char by exact Hc.
  destruct (e_sv e col k) as [| |v] eqn:Ev; try reflexivity.
  destruct (u32max <? blen v) eqn:E; [reflexivity|].
  cbn [host_call]. rewrite Hc, Ev. cbn [negb]. rewrite N.eqb_refl. cbn [N.eqb negb].
  rewrite overlay_exact. reflexivity.
Qed.

Lemma host_get_partial e s col k : e_valid_col e col = true -> e_sv e col k <> VErr ->
  g_get e s col k = (s, spec_get (e_sv e col k)).
Proof.
  intros Hc Hn. rewrite g_get_char by exact Hc. unfold spec_get.
  destruct (e_sv e col k); [congruence|reflexivity|reflexivity].
Qed.

Lemma host_get_masked e s col k : e_valid_col e col = true -> e_sv e col k = VErr ->
  g_get e s col k = (s, GOk None).
Proof. intros Hc He. rewrite g_get_char by exact Hc. rewrite He. reflexivity. Qed.

Lemma host_get_bad_column e s col k : e_valid_col e col = false ->
  g_get e s col k = (s, GTrap).
Proof.
  intros Hc. unfold g_get, g_size_of_value. cbn [host_call]. rewrite Hc. reflexivity.
Qed.

Definition env_err : henv :=
  mkEnv false [] (fun _ => true) (fun _ _ => VErr) false (fun _ => None) [].

Lemma host_get_refuted :
  exists e s col k, e_valid_col e col = true /\
                    snd (g_get e s col k) <> spec_get (e_sv e col k).
Proof.
  exists env_err, (hstate0 []), 0, []. split; [reflexivity|]. vm_compute. discriminate.
Qed.

(* ------------------------------------------------------------------ relayer *)

Definition rel_inv (e : henv) (s : hstate) : Prop :=
  forall h b, alookup h (h_rel s) = Some b -> e_rel e h = Some b /\ blen b <= u32max.

Definition spec_rel (r : option bytes) : gres (option bytes) :=
  match r with
  | None => GErr
  | Some b => if u32max <? blen b then GTrap
              else if blen b =? 0 then GOk None else GOk (Some b)
  end.

Lemma rel_inv_init e src : rel_inv e (hstate0 src).
Proof. intros h b H. discriminate. Qed.

Lemma relayer_get_all e s h : rel_inv e s ->
  snd (g_relayer_get_events e s h) = spec_rel (e_rel e h) /\
  rel_inv e (fst (g_relayer_get_events e s h)) /\
  h_src (fst (g_relayer_get_events e s h)) = h_src s /\
  h_next (fst (g_relayer_get_events e s h)) = h_next s.
Proof.
  intros Hi. unfold g_relayer_get_events. cbn [host_call].
  destruct (alookup h (h_rel s)) as [b|] eqn:El.
  - destruct (Hi h b El) as [Er Hb]. rewrite Er. unfold spec_rel.
    assert (Hlt : (u32max <? blen b) = false) by (apply N.ltb_ge; exact Hb).
    rewrite Hlt. rewrite unpack_esr_ok by exact Hb. cbn [N.eqb negb orb].
    destruct (blen b =? 0) eqn:Ez.
    + cbn [fst snd]. auto.
    + cbn [host_call]. rewrite El. cbn [fst snd]. rewrite overlay_exact. auto.
  - destruct (e_rel e h) as [b|] eqn:Er; unfold spec_rel.
    + destruct (u32max <? blen b) eqn:Hlt.
      * cbn [fst snd]. auto.
      * assert (Hb : blen b <= u32max) by (apply ltb_false_le; exact Hlt).
        rewrite unpack_esr_ok by exact Hb. cbn [N.eqb negb orb].
        assert (Hi' : rel_inv e (mkH (h_src s) (h_next s) ((h, b) :: h_rel s))).
        { intros h' b' H'. cbn [h_rel alookup] in H'.
          destruct (N.eqb_spec h h') as [->|Hne].
          - inversion H'; subst. auto.
          - apply Hi. exact H'. }
        destruct (blen b =? 0) eqn:Ez.
        -- cbn [fst snd]. auto.
        -- cbn [host_call h_rel alookup]. rewrite N.eqb_refl. cbn [fst snd].
           rewrite overlay_exact. auto.
    + rewrite unpack_esr_err. cbn [N.eqb negb fst snd]. auto.
Qed.

(* ------------------------------------------------------------------ transactions *)

Definition drained (m : list (N * list bytes)) : Prop := Forall (fun p => snd p = []) m.
Definition good_batch (b : bytes) : Prop := 1 <= blen b /\ blen b <= u32max.

Lemma push_pop n b m : drained m ->
  exists m', pop_next n (push_next n b m) = (m', b) /\ drained m'.
Proof.
  induction m as [|[k st] r IH]; intros Hd.
  - cbn [push_next pop_next]. rewrite N.eqb_refl. eexists. split; [reflexivity|].
    constructor; [reflexivity|constructor].
  - inversion Hd as [|? ? Hst Hr]; subst. cbn [snd] in Hst. subst st.
    cbn [push_next]. destruct (k =? n) eqn:E.
    + cbn [pop_next]. rewrite E. eexists. split; [reflexivity|].
      constructor; [reflexivity|exact Hr].
    + cbn [pop_next]. rewrite E. destruct (IH Hr) as (m' & Ep & Hd'). rewrite Ep.
      eexists. split; [reflexivity|]. constructor; [reflexivity|exact Hd'].
Qed.

(* the answers of the source, in its order, the default once it is exhausted *)
Fixpoint answers (d : bytes) (src : list bytes) (k : nat) : list bytes :=
  match k with
  | O => []
  | S k' => match src with
            | [] => d :: answers d [] k'
            | b :: r => b :: answers d r k'
            end
  end.

Lemma answers_prefix d src k : (k <= length src)%nat -> answers d src k = firstn k src.
Proof.
  revert src. induction k as [|k IH]; intros src Hk; [reflexivity|].
  destruct src as [|b r]; cbn in Hk; [lia|]. cbn [answers firstn]. f_equal. apply IH. lia.
Qed.

Lemma g_next_one e s gas count size b rest :
  e_has_src e = true -> count <= u16max -> drained (h_next s) ->
  (match h_src s with [] => (e_src_default e, []) | b :: r => (b, r) end) = (b, rest) ->
  good_batch b ->
  exists m', g_next_transactions e s gas count size = (mkH rest m' (h_rel s), GOk (Some b))
             /\ drained m'.
Proof.
  intros Hs Hc Hd Hb [Hg1 Hg2]. unfold g_next_transactions. cbn [host_call]. rewrite Hs. cbn [negb].
  assert (E1 : (u16max <? count) = false) by (apply N.ltb_ge; exact Hc). rewrite E1.
  unfold peek_bytes. rewrite Hb.
  assert (E2 : (u32max <? blen b) = false) by (apply N.ltb_ge; exact Hg2). rewrite E2.
  assert (E3 : (blen b =? 0) = false) by (apply N.eqb_neq; lia). rewrite E3.
  cbn [host_call h_next h_src h_rel].
  destruct (push_pop (blen b) b (h_next s) Hd) as (m' & Ep & Hd'). rewrite Ep.
  exists m'. rewrite overlay_exact. auto.
Qed.

Lemma fifo_all e : e_has_src e = true -> good_batch (e_src_default e) ->
  forall reqs s, Forall good_batch (h_src s) -> drained (h_next s) ->
  Forall (fun r => snd (fst r) <= u16max) reqs ->
  g_next_n e s reqs =
  map (fun b => GOk (Some b)) (answers (e_src_default e) (h_src s) (length reqs)).
Proof.
  intros Hs Hdflt. induction reqs as [|[[gas count] size] r IH]; intros s Hg Hd Hr; [reflexivity|].
  inversion Hr as [|? ? Hc Hr']; subst. cbn [fst snd] in Hc.
  cbn [g_next_n length answers].
  destruct (h_src s) as [|b rest] eqn:Es.
  - destruct (g_next_one e s gas count size (e_src_default e) [] Hs Hc Hd) as (m' & E & Hd').
    { rewrite Es. reflexivity. } { exact Hdflt. }
    rewrite E. cbn [map]. f_equal.
    rewrite (IH (mkH [] m' (h_rel s))); [reflexivity|constructor|exact Hd'|exact Hr'].
  - inversion Hg as [|? ? Hb Hrest]; subst.
    destruct (g_next_one e s gas count size b rest Hs Hc Hd) as (m' & E & Hd').
    { rewrite Es. reflexivity. } { exact Hb. }
    rewrite E. cbn [map]. f_equal.
    rewrite (IH (mkH rest m' (h_rel s))); [reflexivity|exact Hrest|exact Hd'|exact Hr'].
Qed.

Lemma no_source_no_txs e s gas count size : e_has_src e = false ->
  g_next_transactions e s gas count size = (s, GOk None).
Proof. intros H. unfold g_next_transactions. cbn [host_call]. rewrite H. reflexivity. Qed.

(* a guest that does NOT consume right after peeking gets two pending batches of one encoded
   size back in reverse order (the size-keyed map pops the most recent one) *)
Definition env_two : henv :=
  mkEnv true [0] (fun _ => true) (fun _ _ => VNone) false (fun _ => Some [0]) [].

Lemma pending_same_size_lifo :
  run_calls env_two (hstate0 [[1; 7]; [1; 9]])
            [CPeek 0 0 0; CPeek 0 0 0; CConsume 2; CConsume 2]
  = [HRet 2 []; HRet 2 []; HRet 0 [1; 9]; HRet 0 [1; 7]]
  /\ calls_ok env_two (sstate0 [[1; 7]; [1; 9]])
              [CPeek 0 0 0; CConsume 2; CPeek 0 0 0; CConsume 2]
              (run_calls env_two (hstate0 [[1; 7]; [1; 9]])
                         [CPeek 0 0 0; CConsume 2; CPeek 0 0 0; CConsume 2]) = PC_OK.
Proof. vm_compute. auto. Qed.

(* non-vacuity of the FIFO theorem's hypotheses *)
Example fifo_example :
  g_next_n env_two (hstate0 [[1; 7]; [1; 9]]) [(5, 3, 100); (5, 2, 50); (5, 1, 10)]
  = [GOk (Some [1; 7]); GOk (Some [1; 9]); GOk (Some [0])].
Proof. vm_compute. reflexivity. Qed.

(* ------------------------------------------------------------------ output passing *)

(* internal_run reads the slice [ptr, ptr+len) the guest announced with pack_ptr_and_len *)
Definition read_slice (mem : N -> N) (ptr len : N) : bytes :=
  map (fun i => mem (ptr + N.of_nat i)) (seq 0 (N.to_nat len)).

Definition host_read_output (mem : N -> N) (ret : N) : option bytes :=
  match unpack_ptr_and_len ret with
  | Some (ptr, len) => Some (read_slice mem ptr len)
  | None => None
  end.

Lemma output_passing_all mem ptr len : ptr <= u32max -> len <= u32max ->
  host_read_output mem (pack_ptr_and_len ptr len) = Some (read_slice mem ptr len).
Proof. intros Hp Hl. unfold host_read_output. rewrite unpack_pack_pl by assumption. reflexivity. Qed.
