(* C07, part 3: the ReturnType conversions, the trace checker, T equality. *)
From FC Require Import Common.T Wasm.Model Wasm.Proofs7a Wasm.Proofs7b.
From Coq Require Import List NArith Bool Lia ZifyBool ZifyN ZifyNat.
Import ListNotations.
Open Scope N_scope.

Arguments err_of_json {err json}.
Arguments map_result {blk sts evs txid E F}.
Arguments map_uresult {blk sts evs chg txid E F}.
Arguments convert_to_v1_execution_result {err json blk sts evs chg txid}.
Arguments convert_from_v1_execution_result {err json blk sts evs chg txid}.
Arguments convert_from_v0_execution_result {err err0 json blk sts evs chg txid}.
Arguments host_produce_result {err err0 json blk sts evs chg txid}.
Arguments host_validate_result {err err0 json blk sts evs chg txid}.
Arguments guest_produce_output {err err0 json blk sts evs chg txid}.
Arguments guest_validate_output {err err0 json blk sts evs chg txid}.
Arguments mkRes {blk sts evs txid E}.
Arguments r_block {blk sts evs txid E}.
Arguments r_skipped {blk sts evs txid E}.
Arguments r_status {blk sts evs txid E}.
Arguments r_events {blk sts evs txid E}.

(* ------------------------------------------------------------------ conversions *)

Section ConvProofs.
  Variables (err err0 json blk sts evs chg txid : Type).
  Variable to_json : err -> json.
  Variable to_json0 : err0 -> json.
  Variable from_json : json -> option err.
  Variable other : json -> err.

  Lemma map_result_id (r : exec_result blk sts evs txid err) (f : err -> err) :
    (forall e, f e = e) -> map_result f r = r.
  Proof.
    intros Hf. destruct r as [b sk st ev]. unfold map_result. cbn. f_equal.
    induction sk as [|[i e] sk IH]; cbn; [reflexivity|]. rewrite Hf, IH. reflexivity.
  Qed.

  Lemma map_result_comp {E F G} (f : E -> F) (g : F -> G) (r : exec_result blk sts evs txid E) :
    map_result g (map_result f r) = map_result (fun e => g (f e)) r.
  Proof.
    destruct r as [b sk st ev]. unfold map_result. cbn. f_equal. rewrite map_map. reflexivity.
  Qed.

  (* the conversions touch nothing but the error values: block, statuses, events, changes,
     the ids and the order of the skipped list are kept *)
  Lemma map_result_shape {E F} (f : E -> F) (r : exec_result blk sts evs txid E) :
    r_block (map_result f r) = r_block r /\ r_status (map_result f r) = r_status r /\
    r_events (map_result f r) = r_events r /\
    map fst (r_skipped (map_result f r)) = map fst (r_skipped r).
  Proof.
    destruct r as [b sk st ev]. cbn. repeat split. rewrite map_map. reflexivity.
  Qed.

  Hypothesis json_roundtrip : forall e, from_json (to_json e) = Some e.

  Lemma err_roundtrip e : err_of_json from_json other (to_json e) = e.
  Proof. unfold err_of_json. rewrite json_roundtrip. reflexivity. Qed.

  Lemma v1_roundtrip (r : uresult blk sts evs chg txid err) :
    convert_from_v1_execution_result from_json other (convert_to_v1_execution_result to_json r) = r.
  Proof.
    unfold convert_from_v1_execution_result, convert_to_v1_execution_result, map_uresult.
    destruct r as [[res c]|e].
    - rewrite map_result_comp, map_result_id; [reflexivity|]. intros e. apply err_roundtrip.
    - rewrite err_roundtrip. reflexivity.
  Qed.

  Lemma produce_boundary_id wrong (r : uresult blk sts evs chg txid err) :
    host_produce_result to_json0 from_json other wrong
      (guest_produce_output (err0 := err0) to_json r) = r.
  Proof. unfold host_produce_result, guest_produce_output. apply v1_roundtrip. Qed.

  Lemma validate_boundary_id (r : vresult err sts evs chg) :
    host_validate_result (blk := blk) (txid := txid) to_json0 from_json other
      (guest_validate_output (err0 := err0) to_json r) = r.
  Proof.
    unfold host_validate_result, guest_validate_output. destruct r as [v|e]; [reflexivity|].
    rewrite err_roundtrip. reflexivity.
  Qed.

  (* an old (V0) guest goes through the same JSON path *)
  Lemma v0_is_v1_of_json (r : uresult blk sts evs chg txid err0) :
    convert_from_v0_execution_result to_json0 from_json other r =
    convert_from_v1_execution_result from_json other (map_uresult to_json0 r).
  Proof.
    unfold convert_from_v0_execution_result, convert_from_v1_execution_result, map_uresult.
    destruct r as [[res c]|e]; [|reflexivity]. rewrite map_result_comp. reflexivity.
  Qed.
End ConvProofs.

(* ------------------------------------------------------------------ T equality *)

Lemma T_eqb_eq : forall a b, T_eqb a b = true -> a = b.
Proof.
  fix IH 1. intros [x|xs] [y|ys]; cbn; intro H; try discriminate.
  - apply Z.eqb_eq in H. now subst.
  - f_equal. revert ys H. induction xs as [|x xs IHxs]; intros [|y ys] H; try discriminate; auto.
    apply andb_true_iff in H as [H1 H2]. f_equal; [apply IH; exact H1 | apply IHxs; exact H2].
Qed.

Lemma T_eqb_refl : forall a, T_eqb a a = true.
Proof.
  fix IH 1. intros [x|xs]; cbn.
  - apply Z.eqb_refl.
  - induction xs as [|x xs IHxs]; [reflexivity|].
    apply andb_true_iff. split; [apply IH|exact IHxs].
Qed.

Lemma T_eqb_iff a b : T_eqb a b = true <-> a = b.
Proof. split; [apply T_eqb_eq|intros ->; apply T_eqb_refl]. Qed.

(* ------------------------------------------------------------------ the trace checker *)

Lemma bytes_eqb_refl b : bytes_eqb b b = true.
Proof. induction b as [|x b IH]; cbn; [reflexivity|]. rewrite N.eqb_refl, IH. reflexivity. Qed.

Lemma bytes_eqb_eq a : forall b, bytes_eqb a b = true <-> a = b.
Proof.
  induction a as [|x a IH]; intros [|y b]; cbn; try (split; [discriminate|discriminate]).
  - split; reflexivity.
  - rewrite andb_true_iff, N.eqb_eq, IH. split; [intros [-> ->]; reflexivity|].
    intros E. inversion E. auto.
Qed.

(* simulation between the host state and the checker's spec state *)
Definition sim (e : henv) (s : hstate) (ss : sstate) : Prop :=
  h_src s = s_src ss /\
  rel_inv e s /\
  (forall h, memb h (s_seen ss) = true <-> exists b, alookup h (h_rel s) = Some b) /\
  (s_disc ss = true ->
   match s_pending ss with
   | None => drained (h_next s)
   | Some b => exists m, drained m /\ h_next s = push_next (blen b) b m
   end).

Lemma sim_init e src : sim e (hstate0 src) (sstate0 src).
Proof.
  unfold sim, hstate0, sstate0. cbn. split; [reflexivity|]. split; [apply rel_inv_init|].
  split; [|intros _; constructor].
  intros h. split; [discriminate|]. intros [b H]. discriminate.
Qed.

Lemma memb_cons h h' l : memb h (h' :: l) = (h =? h') || memb h l.
Proof. reflexivity. Qed.

Definition err_size (e : henv) (c : call) : Prop :=
  match c with CSize col k => e_valid_col e col = true /\ e_sv e col k = VErr | _ => False end.

Lemma step_sim e s ss c : sim e s ss ->
  (snd (spec_call e ss c (snd (host_call e s c))) = PC_OK \/
   (snd (spec_call e ss c (snd (host_call e s c))) = PC_ERR_MASKED /\ err_size e c)) /\
  (snd (host_call e s c) <> HTrap ->
   sim e (fst (host_call e s c)) (fst (spec_call e ss c (snd (host_call e s c))))).
Proof.
  intros (Hsrc & Hinv & Hseen & Hdisc).
  destruct c as [n|g|g count sz|size|col k|col k n| |h|h].
  - (* input *)
    cbn [host_call spec_call]. destruct (n =? blen (e_input e)); cbn [fst snd].
    + rewrite bytes_eqb_refl. split; [left; reflexivity|]. intros _. exact (conj Hsrc (conj Hinv (conj Hseen Hdisc))).
    + split; [left; reflexivity|]. intros H. congruence.
  - (* peek v0 *)
    cbn [host_call spec_call]. destruct (e_has_src e); cbn [negb fst snd].
    2:{ split; [left; reflexivity|]. intros _. exact (conj Hsrc (conj Hinv (conj Hseen Hdisc))). }
    unfold peek_bytes, take_src. rewrite Hsrc.
    destruct (s_src ss) as [|b rest].
    + destruct (u32max <? blen (e_src_default e)); cbn [fst snd].
      * split; [left; reflexivity|]. congruence.
      * rewrite N.eqb_refl. split; [left; reflexivity|]. intros _.
        split; [reflexivity|]. split; [exact Hinv|]. split; [exact Hseen|].
        cbn [s_disc s_pending h_next]. intros Hd. apply andb_true_iff in Hd as [Hd1 Hd2].
        specialize (Hdisc Hd1). destruct (s_pending ss); [discriminate|].
        eexists. split; [exact Hdisc|reflexivity].
    + destruct (u32max <? blen b); cbn [fst snd].
      * split; [left; reflexivity|]. congruence.
      * rewrite N.eqb_refl. split; [left; reflexivity|]. intros _.
        split; [reflexivity|]. split; [exact Hinv|]. split; [exact Hseen|].
        cbn [s_disc s_pending h_next]. intros Hd. apply andb_true_iff in Hd as [Hd1 Hd2].
        specialize (Hdisc Hd1). destruct (s_pending ss); [discriminate|].
        eexists. split; [exact Hdisc|reflexivity].
  - (* peek *)
    cbn [host_call spec_call]. destruct (e_has_src e); cbn [negb fst snd].
    2:{ split; [left; reflexivity|]. intros _. exact (conj Hsrc (conj Hinv (conj Hseen Hdisc))). }
    destruct (u16max <? count); cbn [fst snd].
    { split; [left; reflexivity|]. congruence. }
    unfold peek_bytes, take_src. rewrite Hsrc.
    destruct (s_src ss) as [|b rest].
    + destruct (u32max <? blen (e_src_default e)); cbn [fst snd].
      * split; [left; reflexivity|]. congruence.
      * rewrite N.eqb_refl. split; [left; reflexivity|]. intros _.
        split; [reflexivity|]. split; [exact Hinv|]. split; [exact Hseen|].
        cbn [s_disc s_pending h_next]. intros Hd. apply andb_true_iff in Hd as [Hd1 Hd2].
        specialize (Hdisc Hd1). destruct (s_pending ss); [discriminate|].
        eexists. split; [exact Hdisc|reflexivity].
    + destruct (u32max <? blen b); cbn [fst snd].
      * split; [left; reflexivity|]. congruence.
      * rewrite N.eqb_refl. split; [left; reflexivity|]. intros _.
        split; [reflexivity|]. split; [exact Hinv|]. split; [exact Hseen|].
        cbn [s_disc s_pending h_next]. intros Hd. apply andb_true_iff in Hd as [Hd1 Hd2].
        specialize (Hdisc Hd1). destruct (s_pending ss); [discriminate|].
        eexists. split; [exact Hdisc|reflexivity].
  - (* consume *)
    cbn [host_call spec_call].
    destruct (pop_next size (h_next s)) as [m b] eqn:Ep. cbn [fst snd].
    destruct (s_pending ss) as [b0|] eqn:Epend.
    + destruct (s_disc ss && (size =? blen b0)) eqn:Ed; cbn [fst snd].
      * apply andb_true_iff in Ed as [Ed1 Ed2]. apply N.eqb_eq in Ed2. subst size.
        destruct (Hdisc Ed1) as (m0 & Hm0 & Hn). rewrite Hn in Ep.
        destruct (push_pop (blen b0) b0 m0 Hm0) as (m' & Ep' & Hd'). rewrite Ep' in Ep.
        inversion Ep; subst m b. rewrite bytes_eqb_refl.
        split; [left; reflexivity|]. intros _.
        split; [exact Hsrc|]. split; [exact Hinv|]. split; [exact Hseen|].
        intros _. exact Hd'.
      * split; [left; reflexivity|]. intros _.
        split; [exact Hsrc|]. split; [exact Hinv|]. split; [exact Hseen|]. discriminate.
    + split; [left; reflexivity|]. intros _.
      split; [exact Hsrc|]. split; [exact Hinv|]. split; [exact Hseen|]. discriminate.
  - (* size_of_value *)
    cbn [host_call spec_call]. destruct (e_valid_col e col) eqn:Ec; cbn [negb fst snd].
    2:{ split; [left; reflexivity|]. congruence. }
    destruct (e_sv e col k) as [| |v] eqn:Ev; cbn [fst snd].
    + rewrite unpack_esr_ok by (unfold u32max; lia).
      split; [right; split; [reflexivity|split; assumption]|].
      intros _. exact (conj Hsrc (conj Hinv (conj Hseen Hdisc))).
    + rewrite unpack_esr_ok by (unfold u32max; lia).
      split; [left; reflexivity|]. intros _. exact (conj Hsrc (conj Hinv (conj Hseen Hdisc))).
    + destruct (u32max <? blen v) eqn:El; cbn [fst snd].
      * split; [left; reflexivity|]. congruence.
      * rewrite unpack_esr_ok by (apply ltb_false_le; exact El). rewrite N.eqb_refl.
        split; [left; reflexivity|]. intros _. exact (conj Hsrc (conj Hinv (conj Hseen Hdisc))).
  - (* get *)
    cbn [host_call spec_call]. destruct (e_valid_col e col) eqn:Ec; cbn [negb fst snd].
    2:{ split; [left; reflexivity|]. congruence. }
    destruct (e_sv e col k) as [| |v] eqn:Ev; cbn [fst snd].
    + split; [left; reflexivity|]. intros _. exact (conj Hsrc (conj Hinv (conj Hseen Hdisc))).
    + split; [left; reflexivity|]. congruence.
    + destruct (blen v =? n); cbn [fst snd].
      * rewrite bytes_eqb_refl. split; [left; reflexivity|]. intros _. exact (conj Hsrc (conj Hinv (conj Hseen Hdisc))).
      * split; [left; reflexivity|]. congruence.
  - (* relayer_enabled *)
    cbn [host_call spec_call fst snd]. rewrite N.eqb_refl.
    split; [left; reflexivity|]. intros _. exact (conj Hsrc (conj Hinv (conj Hseen Hdisc))).
  - (* relayer_size_of_events *)
    cbn [host_call spec_call].
    destruct (alookup h (h_rel s)) as [b|] eqn:El.
    + destruct (Hinv h b El) as [Er Hb]. rewrite Er.
      assert (Hlt : (u32max <? blen b) = false) by (apply N.ltb_ge; exact Hb).
      rewrite Hlt. cbn [fst snd]. rewrite unpack_esr_ok by exact Hb. rewrite N.eqb_refl.
      split; [left; reflexivity|]. intros _.
      split; [exact Hsrc|]. split; [exact Hinv|]. split; [|exact Hdisc].
      intros h'. cbn [s_seen]. rewrite memb_cons. split.
      * intros H. apply orb_true_iff in H as [H|H].
        -- apply N.eqb_eq in H. subst h'. eauto.
        -- apply Hseen. exact H.
      * intros H. apply orb_true_iff. right. apply Hseen. exact H.
    + destruct (e_rel e h) as [b|] eqn:Er.
      * destruct (u32max <? blen b) eqn:Hlt; cbn [fst snd].
        -- split; [left; reflexivity|]. congruence.
        -- assert (Hb : blen b <= u32max) by (apply ltb_false_le; exact Hlt).
           rewrite unpack_esr_ok by exact Hb. rewrite N.eqb_refl.
           split; [left; reflexivity|]. intros _.
           split; [exact Hsrc|]. split.
           { intros h' b' H'. cbn [h_rel alookup] in H'.
             destruct (N.eqb_spec h h') as [->|Hne].
             - inversion H'; subst. auto.
             - apply Hinv. exact H'. }
           split; [|exact Hdisc].
           intros h'. cbn [s_seen h_rel alookup]. rewrite memb_cons. split.
           ++ intros H. destruct (N.eqb_spec h h') as [->|Hne]; [eauto|].
              apply orb_true_iff in H as [H|H].
              ** apply N.eqb_eq in H. congruence.
              ** apply Hseen. exact H.
           ++ intros H. destruct (N.eqb_spec h h') as [->|Hne].
              ** rewrite N.eqb_refl. reflexivity.
              ** apply orb_true_iff. right. apply Hseen. exact H.
      * cbn [fst snd]. rewrite unpack_esr_err. cbn [N.eqb negb].
        split; [left; reflexivity|]. intros _. exact (conj Hsrc (conj Hinv (conj Hseen Hdisc))).
  - (* relayer_get_events *)
    cbn [host_call spec_call].
    destruct (alookup h (h_rel s)) as [b|] eqn:El.
    + assert (Hm : memb h (s_seen ss) = true) by (apply Hseen; eauto). rewrite Hm.
      destruct (Hinv h b El) as [Er Hb]. rewrite Er. cbn [fst snd]. rewrite bytes_eqb_refl.
      split; [left; reflexivity|]. intros _. exact (conj Hsrc (conj Hinv (conj Hseen Hdisc))).
    + destruct (memb h (s_seen ss)) eqn:Hm.
      * apply Hseen in Hm. destruct Hm as [b Hb]. congruence.
      * cbn [fst snd]. split; [left; reflexivity|]. congruence.
Qed.

Definition no_err_size (e : henv) (cs : list call) : Prop := Forall (fun c => ~ err_size e c) cs.

Lemma trace_sim e : forall cs s ss, sim e s ss ->
  calls_ok e ss cs (run_calls e s cs) = PC_OK \/
  (calls_ok e ss cs (run_calls e s cs) = PC_ERR_MASKED /\ ~ no_err_size e cs).
Proof.
  induction cs as [|c cr IH]; intros s ss Hsim; [left; reflexivity|].
  destruct (step_sim e s ss c Hsim) as [Hcode Hnext].
  cbn [run_calls]. destruct (host_call e s c) as [s' o] eqn:Eh. cbn [fst snd] in *.
  destruct o as [|ret w].
  - cbn [calls_ok]. destruct (spec_call e ss c HTrap) as [ss' code]. cbn [snd] in Hcode.
    destruct Hcode as [->|[-> Hes]].
    + cbn. left. reflexivity.
    + cbn. right. split; [reflexivity|]. intros Hn. inversion Hn; subst. contradiction.
  - cbn [calls_ok]. destruct (spec_call e ss c (HRet ret w)) as [ss' code] eqn:Es.
    cbn [fst snd] in *. destruct Hcode as [->|[-> Hes]].
    + cbn [N.eqb PC_OK Pos.eqb]. change (PC_OK =? PC_OK) with true. cbn iota.
      assert (Hs' : sim e s' ss') by (apply Hnext; discriminate).
      destruct (IH s' ss' Hs') as [H|[H Hn]]; [left; exact H|].
      right. split; [exact H|]. intros Hf. apply Hn. inversion Hf; assumption.
    + change (PC_ERR_MASKED =? PC_OK) with false. cbn iota.
      right. split; [reflexivity|]. intros Hn. inversion Hn; subst. contradiction.
Qed.

Lemma model_trace_ok_all e src cs : no_err_size e cs ->
  calls_ok e (sstate0 src) cs (run_calls e (hstate0 src) cs) = PC_OK.
Proof.
  intros Hn. destruct (trace_sim e cs _ _ (sim_init e src)) as [H|[_ H]]; [exact H|contradiction].
Qed.

Lemma model_trace_classes e src cs :
  calls_ok e (sstate0 src) cs (run_calls e (hstate0 src) cs) = PC_OK \/
  calls_ok e (sstate0 src) cs (run_calls e (hstate0 src) cs) = PC_ERR_MASKED.
Proof.
  destruct (trace_sim e cs _ _ (sim_init e src)) as [H|[H _]]; auto.
Qed.

(* the masked storage error is visible at trace level *)
Lemma masked_error_trace :
  run_calls env_err (hstate0 []) [CSize 0 [1]] = [HRet 0 []] /\
  calls_ok env_err (sstate0 []) [CSize 0 [1]] (run_calls env_err (hstate0 []) [CSize 0 [1]])
  = PC_ERR_MASKED.
Proof. vm_compute. auto. Qed.

(* ------------------------------------------------------------------ meaning of the checker *)

(* a storage_get accepted by the checker wrote exactly the view's value, of the announced length *)
Lemma spec_get_sound e s col k n w s' :
  e_valid_col e col = true ->
  spec_call e s (CGet col k n) (HRet 0 w) = (s', PC_OK) ->
  e_sv e col k = VSome w /\ blen w = n.
Proof.
  intros Hc. cbn [spec_call]. rewrite Hc. cbn [negb].
  destruct (e_sv e col k) as [| |v]; cbn.
  - destruct w; cbn; intros H; inversion H.
  - intros H. inversion H.
  - destruct (blen v =? n) eqn:En.
    + destruct (bytes_eqb w v) eqn:Eb; intros H; inversion H.
      apply bytes_eqb_eq in Eb. subst v. apply N.eqb_eq in En. auto.
    + intros H. inversion H.
Qed.

(* a storage_size_of_value accepted by the checker announced exactly the view's state of the key *)
Lemma spec_size_sound e s col k r s' :
  e_valid_col e col = true ->
  spec_call e s (CSize col k) (HRet r []) = (s', PC_OK) ->
  match e_sv e col k with
  | VSome v => unpack_exists_size_result r = Some (true, blen v, 0) /\ blen v <= u32max
  | VNone => exists sz, unpack_exists_size_result r = Some (false, sz, 0)
  | VErr => exists ex sz res, unpack_exists_size_result r = Some (ex, sz, res) /\ res <> 0
  end.
Proof.
  intros Hc. cbn [spec_call]. rewrite Hc. cbn [negb].
  destruct (e_sv e col k) as [| |v].
  - destruct (unpack_exists_size_result r) as [[[ex sz] res]|]; cbn.
    + destruct res as [|p]; intros H; inversion H. exists ex, sz, (N.pos p). split; [reflexivity|discriminate].
    + intros H. inversion H.
  - destruct (unpack_exists_size_result r) as [[[ex sz] res]|]; cbn; [|intros H; inversion H].
    destruct ex; [intros H; inversion H|]. destruct res; intros H; inversion H. eauto.
  - destruct (u32max <? blen v) eqn:El; cbn; [intros H; inversion H|].
    destruct (unpack_exists_size_result r) as [[[ex sz] res]|]; cbn; [|intros H; inversion H].
    destruct ex; [|intros H; inversion H]. destruct res; [|intros H; inversion H].
    destruct (sz =? blen v) eqn:Es; intros H; inversion H.
    apply N.eqb_eq in Es. subst sz. split; [reflexivity|apply ltb_false_le; exact El].
Qed.

(* while the guest keeps the peek-then-consume discipline, an accepted consume delivered exactly
   the batch the source handed out at the matching peek *)
Lemma spec_consume_sound e s size w s' b :
  s_pending s = Some b -> s_disc s = true -> size = blen b ->
  spec_call e s (CConsume size) (HRet 0 w) = (s', PC_OK) -> w = b.
Proof.
  intros Hp Hd Hs. cbn [spec_call]. rewrite Hp, Hd, Hs, N.eqb_refl. cbn.
  destruct (bytes_eqb w b) eqn:Eb; intros H; inversion H. apply bytes_eqb_eq. exact Eb.
Qed.

(* ------------------------------------------------------------------ differential Pcheck *)
Lemma diff_code_one a b : diff_code a b = 1%Z <-> a = b.
Proof.
  unfold diff_code. destruct (T_eqb a b) eqn:E.
  - split; [intros _; apply T_eqb_eq; exact E|reflexivity].
  - split.
    + destruct (T_eqb (norm_expired a) (norm_expired b)); discriminate.
    + intros ->. rewrite T_eqb_refl in E. discriminate.
Qed.
