(* The sync task: its published state is Synced exactly in the inner state Synced, with that
   state's header; production happens only when it is Synced; the whole operation (ensure_synced
   + run-loop iteration) passes the checker. *)
From FC Require Import PoA.Model PoA.ProofsParse PoA.ProofsSpec PoA.ProofsRefine.
From Coq Require Import ZifyBool ZifyN ZifyNat.
Open Scope N_scope.

(* published Synced(header) <-> inner state Synced with that header *)
Definition sync_invb (s : sync) : bool :=
  match s_inner s with
  | ISynced _ => optNN_eqb (s_pub s) (Some (s_hdr s))
  | _ => match s_pub s with None => true | Some _ => false end
  end.

Lemma optNN_refl : forall a, optNN_eqb a a = true.
Proof. intro a. apply optNN_eqb_eq. reflexivity. Qed.

Lemma invb_next : forall s n, sync_invb (sy_next s n) = sync_invb s.
Proof. reflexivity. Qed.
Lemma invb_water : forall s w, sync_invb (sy_water s w) = sync_invb s.
Proof. reflexivity. Qed.
Lemma invb_restart : forall s now, sync_invb (restart_timer s now) = sync_invb s.
Proof. intros. unfold restart_timer. destruct (s_period s); reflexivity. Qed.
Lemma invb_set : forall s i hdr p,
  sync_invb (sy_set s i hdr p) =
  match i with
  | ISynced _ => optNN_eqb p (Some hdr)
  | _ => match p with None => true | Some _ => false end
  end.
Proof. reflexivity. Qed.

Lemma inv_on_peers : forall s now n, sync_invb s = true -> sync_invb (on_peers s now n) = true.
Proof.
  intros s now n H. unfold on_peers. unfold sync_invb in H.
  destruct (s_inner s) eqn:Ei.
  - destruct (s_min s <=? n); [rewrite invb_restart, invb_set; exact H|].
    unfold sync_invb. rewrite Ei. exact H.
  - destruct (negb (s_min s <=? n)); [rewrite invb_restart, invb_set; exact H|].
    unfold sync_invb. rewrite Ei. exact H.
  - rewrite invb_set. exact H.
Qed.

Lemma inv_on_block : forall s now h t local, sync_invb s = true -> sync_invb (on_block s now h t local) = true.
Proof.
  intros s now h t local H. unfold on_block.
  destruct (fst (s_hdr s) <? h); [|exact H]. unfold sync_invb in H.
  destruct (s_inner s) eqn:Ei.
  - rewrite invb_set. exact H.
  - rewrite invb_restart, invb_set. exact H.
  - destruct (local || (0 <? s_water s) && (h <=? s_water s)).
    + rewrite invb_set. apply optNN_refl.
    + destruct has_sufficient_peers; [rewrite invb_restart|]; rewrite invb_set; reflexivity.
Qed.

Lemma inv_on_tick : forall s, sync_invb s = true -> sync_invb (on_tick s) = true.
Proof.
  intros s H. unfold on_tick. destruct (s_inner s) eqn:Ei; try exact H.
  rewrite invb_set. apply optNN_refl.
Qed.

Lemma inv_advance_to : forall s t, sync_invb s = true -> sync_invb (advance_to s t) = true.
Proof.
  intros s t H. unfold advance_to. destruct (s_period s); [|exact H].
  destruct (s_next s <=? t)%Z; [|exact H]. rewrite invb_next. apply inv_on_tick, H.
Qed.

Lemma inv_water : forall s w, sync_invb s = true -> sync_invb (sy_water s w) = true.
Proof. intros. rewrite invb_water. assumption. Qed.

Lemma inv_flush : forall q s, sync_invb s = true -> sync_invb (flush s q) = true.
Proof.
  induction q as [|[[[h t] lo] a] q IH]; intros s H; [exact H|].
  cbn [flush fold_left]. apply IH. unfold handle_ann. apply inv_on_block, inv_advance_to, H.
Qed.

Lemma inv_feed : forall e s q, sync_invb s = true -> sync_invb (fst (feed (s, q) e)) = true.
Proof.
  intros e s q H. destruct e; cbn [feed fst]; try exact H;
    try (destruct (queue_older q _); cbn [fst]; [apply inv_flush|]; exact H).
Qed.

Lemma inv_fold_feed : forall evs s q,
  sync_invb s = true -> sync_invb (fst (fold_left feed evs (s, q))) = true.
Proof.
  induction evs as [|e evs IH]; intros s q H; [exact H|]. cbn [fold_left].
  destruct (feed (s, q) e) as [s1 q1] eqn:E. apply IH.
  replace s1 with (fst (feed (s, q) e)) by (rewrite E; reflexivity). apply inv_feed, H.
Qed.

Lemma inv_settle : forall st s evs, sync_invb s = true -> sync_invb (settle st s evs) = true.
Proof.
  intros st s evs H. unfold settle.
  pose proof (inv_fold_feed evs s [] H) as H1. destruct (fold_left feed evs (s, [])) as [s1 q].
  apply inv_advance_to, inv_flush, H1.
Qed.

Lemma inv_init : forall mn tus h0 t0, sync_invb (sync_init mn tus h0 t0) = true.
Proof.
  intros. unfold sync_init. apply inv_advance_to. unfold sync_invb. cbn [s_inner s_pub s_hdr].
  destruct mn; destruct (tus =? 0); cbn [optNN_eqb]; rewrite ?N.eqb_refl; reflexivity.
Qed.

Lemma fstep_keeps_inv : forall f o,
  sync_invb (fs f) = true -> sync_invb (fs (fst (fst (fstep f o)))) = true.
Proof.
  intros [st s] o H. cbn [fs fm] in *. destruct o as [c sg l fl mid pd | o' | n | dd t]; cbn [fstep fm fs].
  - destruct (s_pub s) as [[h t]|] eqn:Ep.
    + cbv beta iota zeta. rewrite Ep.
      destruct (tick (update_last_block_values st c h t) c sg l fl mid pd) as [[st3 res] evs].
      cbn [fst fs]. apply inv_settle, H.
    + destruct (s_inner s) eqn:Ei; try (cbn [fst fs]; apply inv_advance_to, H).
      destruct (s_period s) as [p|] eqn:Epd; [|cbn [fst fs]; apply inv_advance_to, H].
      pose proof (inv_advance_to s (Z.max (now_i st) (s_next s)) H) as H1.
      destruct (s_pub (advance_to s (Z.max (now_i st) (s_next s)))) as [[h t]|].
      * destruct (tick _ c sg l fl mid pd) as [[st3 res] evs]. cbn [fst fs]. apply inv_settle, H1.
      * cbn [fst fs]. exact H1.
  - destruct (step st o') as [[st' res] evs]. cbn [fst fs]. apply inv_settle, H.
  - cbn [fst fs]. apply inv_on_peers, H.
  - cbn [fst fs]. apply inv_settle, H.
Qed.

(* production only when synced: if a run-loop iteration makes any port call, ensure_synced
   returned with a published Synced header -- either it was already published, or the task was
   in SufficientPeers and ensure_synced waited for the time_until_synced timer *)
Lemma produces_only_when_synced_all : forall f clock signer l fail mid pd,
  let '(f', res, evs) := fstep f (FTick clock signer l fail mid pd) in
  evs <> [] ->
  exists st2 h t,
    r_ens res = Some (true, st2, Some (h, t)) /\
    (s_pub (fs f) = Some (h, t) \/
     (s_pub (fs f) = None /\ s_inner (fs f) = ISufficient /\ s_hdr (fs f) = (h, t) /\
      (s_next (fs f) <= now_i st2)%Z)).
Proof.
  intros [st s] clock signer l fail mid pd. cbn [fstep fm fs].
  destruct (s_pub s) as [[h t]|] eqn:Ep.
  - cbv beta iota zeta. rewrite Ep.
    destruct (tick (update_last_block_values st clock h t) clock signer l fail mid pd) as [[st3 res] evs].
    intros _. exists (update_last_block_values st clock h t), h, t. split; [reflexivity | left; reflexivity].
  - destruct (s_inner s) eqn:Ei; try (intro H; contradiction H; reflexivity).
    destruct (s_period s) as [p|] eqn:Epd; [|intro H; contradiction H; reflexivity].
    assert (Hfire : advance_to s (Z.max (now_i st) (s_next s))
                    = sy_next (on_tick s) (s_next s + p * ((Z.max (now_i st) (s_next s) - s_next s) / p + 1))%Z).
    { unfold advance_to. rewrite Epd. replace (s_next s <=? Z.max (now_i st) (s_next s))%Z with true by lia.
      reflexivity. }
    rewrite Hfire. unfold on_tick. rewrite Ei. cbn [sy_next sy_set s_pub].
    destruct (s_hdr s) as [h t] eqn:Eh.
    destruct (tick _ clock signer l fail mid pd) as [[st3 res] evs]. intros _.
    eexists _, h, t. split; [reflexivity|]. right. repeat split; try reflexivity.
    unfold update_last_block_values, extract_block_info.
    destruct (last_height (set_now st (Z.max (now_i st) (s_next s))) <? h); cbn; lia.
Qed.

(* ---------------- the whole operation passes the checker ---------------- *)

Definition FClassA1 (f : fstate) (o : fop) : bool :=
  match o with
  | FTick c s l fl mid pd =>
      match r_ens (snd (fst (fstep f o))) with
      | Some (true, st2, _) => ClassA1 st2 (OTick c s l fl mid pd)
      | _ => false
      end
  | FMain o' => ClassA1 (fm f) o'
  | _ => false
  end.

Definition FClassB (f : fstate) (o : fop) : bool :=
  match o with
  | FTick c s l fl mid pd => ClassB (fm f) (OTick c s l fl mid pd)
  | FMain o' => ClassB (fm f) o'
  | _ => false
  end.

(* the harness drives ticks only through FTick *)
Definition wf_fop (o : fop) : bool :=
  match o with FMain (OTick _ _ _ _ _ _) => false | _ => true end.

Lemma update_same : forall st n clock h t,
  same_prod_state (update_last_block_values (set_now st n) clock h t)
                  (update_last_block_values (set_now st (now_i (update_last_block_values (set_now st n) clock h t))) clock h t) = true.
Proof.
  intros. unfold update_last_block_values, extract_block_info. cbn [set_now last_height now_i].
  destruct (last_height st <? h); cbn [upd set_now now_i last_height]; unfold same_prod_state;
    cbn [upd set_now last_height last_timestamp last_created]; rewrite !N.eqb_refl, Z.eqb_refl; reflexivity.
Qed.

Lemma update_same0 : forall st clock h t,
  same_prod_state (update_last_block_values st clock h t)
                  (update_last_block_values (set_now st (now_i (update_last_block_values st clock h t))) clock h t) = true.
Proof.
  intros. unfold update_last_block_values, extract_block_info. cbn [set_now last_height now_i].
  destruct (last_height st <? h); cbn [upd set_now now_i last_height]; unfold same_prod_state;
    cbn [upd set_now last_height last_timestamp last_created]; rewrite !N.eqb_refl, Z.eqb_refl; reflexivity.
Qed.

Lemma update_db : forall st clock h t, db (update_last_block_values st clock h t) = db st.
Proof.
  intros. unfold update_last_block_values, extract_block_info. destruct (last_height st <? h); reflexivity.
Qed.

Lemma ClassB_indep : forall st st' o, ClassB st o = ClassB st' o.
Proof. intros st st' [c s [| | |bs] f m [pd|] | | | |]; reflexivity. Qed.

Lemma same_prod_refl_now : forall st n, same_prod_state st (set_now st n) = true.
Proof.
  intros. unfold same_prod_state. cbn [set_now last_height last_timestamp last_created].
  rewrite !N.eqb_refl, Z.eqb_refl. reflexivity.
Qed.

Lemma tick_passed : forall st1 st clock signer l fail mid pd h t,
  same_prod_state (update_last_block_values st1 clock h t)
    (update_last_block_values (set_now st (now_i (update_last_block_values st1 clock h t))) clock h t) = true ->
  db st1 = db st ->
  let st2 := update_last_block_values st1 clock h t in
  let '(st3, res, evs) := tick st2 clock signer l fail mid pd in
  let fo := fop_okb st (FTick clock signer l fail mid pd)
                    {| r_ens := Some (true, st2, Some (h, t)); r_res := res |} st3 evs in
  fo = 1 \/ (fo = 2 /\ ClassA1 st2 (OTick clock signer l fail mid pd) = true) \/
  (fo = 3 /\ ClassB st2 (OTick clock signer l fail mid pd) = true).
Proof.
  intros st1 st clock signer l fail mid pd h t Hs Hdb st2.
  pose proof (step_refines_all st2 (OTick clock signer l fail mid pd)) as H. cbn [step] in H.
  destruct (tick st2 clock signer l fail mid pd) as [[st3 res] evs].
  cbn [fop_okb r_ens]. fold st2. subst st2. rewrite Hs.
  rewrite update_db, Hdb, optNN_refl. cbn [andb]. exact H.
Qed.

Lemma fstep_refines_all : forall f o, wf_fop o = true ->
  let '(f', res, evs) := fstep f o in
  let fo := fop_okb (fm f) o res (fm f') evs in
  fo = 1 \/ (fo = 2 /\ FClassA1 f o = true) \/ (fo = 3 /\ FClassB f o = true).
Proof.
  intros [st s] o Hwf. destruct o as [c sg l fl mid pd | o' | n | dd t].
  - unfold FClassA1, FClassB. cbn [fstep fm fs].
    destruct (s_pub s) as [[h t]|] eqn:Ep.
    + cbv beta iota zeta. rewrite Ep.
      pose proof (tick_passed st st c sg l fl mid pd h t (update_same0 st c h t) eq_refl) as H.
      cbv zeta in H.
      destruct (tick (update_last_block_values st c h t) c sg l fl mid pd) as [[st3 res] evs].
      cbn [fst snd fm r_ens].
      rewrite (ClassB_indep st (update_last_block_values st c h t)). exact H.
    + assert (Hblocked : forall st1 st2,
                same_prod_state st st1 = true -> same_prod_state st st2 = true ->
                fop_okb st (FTick c sg l fl mid pd)
                  {| r_ens := Some (false, st1, None); r_res := RBlocked |} st2 [] = 1).
      { intros st1 st2 H1 H2. cbn [fop_okb r_ens r_res is_nil_ev andb]. rewrite H1, H2. reflexivity. }
      destruct (s_inner s) eqn:Ei;
        try (cbn [fst snd fm r_ens]; left; apply Hblocked; unfold same_prod_state;
             cbn [set_now last_height last_timestamp last_created];
             rewrite !N.eqb_refl, Z.eqb_refl; reflexivity).
      destruct (s_period s) as [p|] eqn:Epd;
        [|cbn [fst snd fm r_ens]; left; apply Hblocked; unfold same_prod_state;
          cbn [set_now last_height last_timestamp last_created];
          rewrite !N.eqb_refl, Z.eqb_refl; reflexivity].
      destruct (s_pub (advance_to s (Z.max (now_i st) (s_next s)))) as [[h t]|] eqn:Ep2.
      * pose proof (tick_passed (set_now st (Z.max (now_i st) (s_next s))) st c sg l fl mid pd h t
                      (update_same st _ c h t) eq_refl) as H.
        cbv zeta in H.
        destruct (tick (update_last_block_values (set_now st (Z.max (now_i st) (s_next s))) c h t)
                       c sg l fl mid pd) as [[st3 res] evs].
        cbn [fst snd fm r_ens].
        rewrite (ClassB_indep st (update_last_block_values (set_now st (Z.max (now_i st) (s_next s))) c h t)).
        exact H.
      * cbn [fst snd fm r_ens]. left. apply Hblocked; apply same_prod_refl_now.
  - cbn [fstep fm fs]. pose proof (step_refines_all st o') as H.
    destruct (step st o') as [[st' res] evs]. cbn [fm]. unfold FClassA1, FClassB. cbn [fm].
    destruct o'; try discriminate; cbn [fop_okb] in *; exact H.
  - left. cbn [fstep fm fop_okb is_nil_ev andb]. unfold same_prod_state.
    rewrite !N.eqb_refl, Z.eqb_refl. reflexivity.
  - left. cbn [fstep fm fop_okb]. unfold same_prod_state. cbn [set_db last_height last_timestamp last_created].
    rewrite !N.eqb_refl, Z.eqb_refl. reflexivity.
Qed.

(* no operation of the run falls into a finding class *)
Fixpoint clean (f : fstate) (ops : list fop) : bool :=
  match ops with
  | [] => true
  | o :: r => wf_fop o && negb (FClassA1 f o) && negb (FClassB f o) &&
              clean (fst (fst (fstep f o))) r
  end.

Definition obs_of (x : fstate * fres * list event) : mstate * fres * list event :=
  let '(f, r, ev) := x in (fm f, r, ev).

Lemma frun_passes_all : forall ops f,
  clean f ops = true -> trace_okb (fm f) ops (map obs_of (frun f ops)) = 1.
Proof.
  induction ops as [|o ops IH]; intros f H; [reflexivity|].
  cbn [clean] in H. apply Bool.andb_true_iff in H. destruct H as [H Hc].
  apply Bool.andb_true_iff in H. destruct H as [H HB]. apply Bool.andb_true_iff in H.
  destruct H as [Hwf HA]. apply Bool.negb_true_iff in HA, HB.
  cbn [frun]. pose proof (fstep_refines_all f o Hwf) as Hs.
  destruct (fstep f o) as [[f' res] evs]. cbn [fst] in Hc. cbn [map obs_of trace_okb].
  cbv zeta in Hs. destruct Hs as [Hs | [[_ Hs] | [_ Hs]]]; [|congruence|congruence].
  rewrite Hs. apply IH. exact Hc.
Qed.

(* the invariant along whole runs *)
Lemma frun_keeps_inv : forall ops f,
  sync_invb (fs f) = true ->
  Forall (fun x => sync_invb (fs (fst (fst x))) = true) (frun f ops).
Proof.
  induction ops as [|o ops IH]; intros f H; [constructor|]. cbn [frun].
  pose proof (fstep_keeps_inv f o H) as H1. destruct (fstep f o) as [[f' res] evs]. cbn [fst] in H1.
  constructor; [exact H1 | apply IH; exact H1].
Qed.

Lemma sync_invb_spec : forall s, sync_invb s = true ->
  match s_pub s with
  | Some hdr => (exists has, s_inner s = ISynced has) /\ s_hdr s = hdr
  | None => forall has, s_inner s <> ISynced has
  end.
Proof.
  intros s H. unfold sync_invb in H. destruct (s_inner s) eqn:Ei.
  - destruct (s_pub s); [discriminate | intros has; discriminate].
  - destruct (s_pub s); [discriminate | intros has; discriminate].
  - apply optNN_eqb_eq in H. rewrite H. split; [eexists; reflexivity | reflexivity].
Qed.

(* A1 through the whole flow: the task is Synced on block 1, passes ensure_synced, and while it
   waits for the interval deadline block (2, 1010) is imported by another path; the resync adopts
   height 2 and block 3 is requested with time 1003 *)
Lemma a1_during_run_refuted_all :
  let f := finit (TInterval 1) 1 1000 1000 0 0 in
  let '(f', res, evs) := fstep f (FTick 1003 true LLeader None (Some (2, 1010)) None) in
  sync_invb (fs f) = true /\ s_pub (fs f) = Some (1, 1000) /\
  evs = [EP2p 2 1010 1000%Z; ELeader 3 2; EProduce 3 1003 0 1000%Z 1000%Z 2; ESeal 3;
         ECommit 3 1003 true 2; EImported 3 1003 true 1000%Z] /\
  db (fm f') = Some (3, 1003).
Proof. vm_compute. repeat split. Qed.

(* finding C (liveness, outside C24's statement): with time_until_synced = 0 there is no timer;
   once a block from the network makes the task leave Synced, nothing makes it Synced again *)
Inductive sev := SPeers (n : N) | SBlock (h t : N) (local : bool) | STime (t : Z).
Definition sev_step (s : sync) (now : Z) (e : sev) : sync :=
  match e with
  | SPeers n => on_peers s now n
  | SBlock h t local => on_block s now h t local
  | STime t => advance_to s t
  end.

Lemma no_timer_never_synced_all : forall evs s now,
  s_period s = None -> (forall has, s_inner s <> ISynced has) -> s_pub s = None ->
  s_pub (fold_left (fun s e => sev_step s now e) evs s) = None.
Proof.
  induction evs as [|e evs IH]; intros s now Hp Hi Hn; [exact Hn|]. cbn [fold_left].
  assert (H : s_period (sev_step s now e) = None /\
              (forall has, s_inner (sev_step s now e) <> ISynced has) /\
              s_pub (sev_step s now e) = None).
  { destruct e as [n | h t lo | t]; cbn [sev_step].
    - unfold on_peers, restart_timer. destruct (s_inner s) eqn:Ei.
      + destruct (s_min s <=? n); cbn [sy_set s_period]; rewrite ?Hp; cbn; repeat split; try assumption;
          try (intros has; discriminate); try (rewrite Ei; intros has; discriminate).
      + destruct (negb (s_min s <=? n)); cbn [sy_set s_period]; rewrite ?Hp; cbn; repeat split; try assumption;
          try (intros has; discriminate); try (rewrite Ei; intros has; discriminate).
      + exfalso. apply (Hi has_sufficient_peers). reflexivity.
    - unfold on_block, restart_timer. destruct (fst (s_hdr s) <? h); [|repeat split; assumption].
      destruct (s_inner s) eqn:Ei.
      + cbn. repeat split; try assumption; try (intros has; discriminate).
      + cbn [sy_set s_period]. rewrite Hp. cbn. repeat split; try assumption; try (intros has; discriminate).
      + exfalso. apply (Hi has_sufficient_peers). reflexivity.
    - unfold advance_to. rewrite Hp. repeat split; assumption. }
  destruct H as [H1 [H2 H3]]. apply IH; assumption.
Qed.

Lemma no_timer_example :
  let s := on_block (sync_init 0 0 1 1000) 0%Z 2 1010 false in
  s_pub (sync_init 0 0 1 1000) = Some (1, 1000) /\
  s_period s = None /\ s_inner s = ISufficient /\ s_pub s = None.
Proof. vm_compute. repeat split. Qed.

(* non-vacuity of the refinement: a clean run with ticks, a manual production, a peer count, a
   block from another path and a wait for the timer *)
Example ex_clean :
  let f := finit (TInterval 2) 1 1000 1000 1 700 in
  let ops := [FPeers 1; FTick 1003 true LLeader None None None;
              FMain (OManual 1004 true None (MBlocks 2) None);
              FNet 2 1012; FMain (OAdvance 1000);
              FTick 1014 true (LBlocks [(1, 1013, true)]) None None None;
              FTick 1020 true LLeader (Some (0, 4)) None (Some 3)] in
  clean f ops = true /\
  map (fun x => (last_height (fm (fst (fst x))), s_pub (fs (fst (fst x))))) (frun f ops) =
    [(1, None); (2, Some (2, 1003)); (4, Some (4, 1007)); (4, None); (4, Some (5, 1012));
     (6, Some (6, 1013)); (7, Some (7, 1016))].
Proof. vm_compute. split; reflexivity. Qed.
