(* The declarative reading of the PoA checker: OpSpec, and op_okb = 1 <-> OpSpec. *)
From FC Require Import PoA.Model PoA.ProofsParse.
From Coq Require Import ZifyBool ZifyN ZifyNat.
Open Scope N_scope.

(* the deadline and call instant a production request must carry *)
Definition dl_spec (r : dl_rule) (dl a : Z) : Prop :=
  match r with
  | DLNow => dl = a
  | DLAt d => dl = d /\ a = d
  | DLOpen d a0 => dl = d /\ a = a0
  end.

Lemma dl_okb_iff : forall r dl a, dl_okb r dl a = true <-> dl_spec r dl a.
Proof.
  destruct r; cbn [dl_okb dl_spec]; intros; rewrite ?Bool.andb_true_iff, ?Z.eqb_eq; tauto.
Qed.

Definition prod_dl_spec (r : dl_rule) (src : N) (dl a : Z) : Prop :=
  if src =? 2 then dl = a else dl_spec r dl a.

Lemma prod_dl_iff : forall r src dl a,
  (if src =? 2 then (dl =? a)%Z else dl_okb r dl a) = true <-> prod_dl_spec r src dl a.
Proof.
  intros. unfold prod_dl_spec. destruct (src =? 2); [apply Z.eqb_eq | apply dl_okb_iff].
Qed.

(* One action against what is known ([k]): the known height / time / creation instant, the
   database's latest block, and the finding flags. *)
Inductive act_spec (open : bool) (r : dl_rule) (k : kst) : action -> kst -> Prop :=
| AS_p2p : forall h t a,
    (* a block imported by another path only changes the database *)
    act_spec open r k (AP2p h t a) (k_db k (db_up (kdb k) h t))
| AS_leader : forall h g,
    (* leader_state is asked for the height after the known one, after the DB-height resync *)
    h = kh (k_resync k) + 1 ->
    act_spec open r k (ALeader h g) (k_resync k)
| AS_attempt : forall h t src dl a g g' a' stage,
    (* a production attempt that did not get its block imported: next height, time not below the
       last known one, the deadline of the trigger (none for a predefined block, source 2);
       nothing changes *)
    stage < 3 -> h = kh k + 1 -> kt k <= t -> prod_dl_spec r src dl a ->
    act_spec open r k (AProduce h t src dl a g g' a' stage) (k_flag_a1 k (below_db_time k t))
| AS_produced : forall h t src dl a g g' a' stage,
    (* produce; seal; commit_result; announcement of the same block, in this order, the
       announcement not before the deadline: the block becomes the last known one *)
    3 <= stage -> h = kh k + 1 -> kt k <= t -> prod_dl_spec r src dl a -> (Z.max a dl <= a')%Z ->
    act_spec open r k (AProduce h t src dl a g g' a' stage)
             (k_import (k_flag_a1 k (below_db_time k t)) h t
                       (created_of (open && negb (src =? 2)) dl a))
| AS_import_failed : forall h t g,
    (* a reconciliation import above the known height failed: the known height is re-read from
       the database *)
    kh k < h ->
    act_spec open r k (AExec h t g None) (k_resync (k_flag_b k (negb (h =? kh k + 1))))
| AS_imported : forall h t g a,
    kh k < h ->
    act_spec open r k (AExec h t g (Some a)) (k_import (k_flag_b k (negb (h =? kh k + 1))) h t (kc k))
| AS_release :
    act_spec open r k ARelease k.

Lemma act_iff : forall open r k x k', act open r k x = Some k' <-> act_spec open r k x k'.
Proof.
  intros open r k x k'. split.
  - destruct x as [h g | h t a | h t src dl a g g' a' stage | h t g imp |]; cbn [act]; intro H.
    + destruct (h =? kh (k_resync k) + 1) eqn:E; [|discriminate]. injection H as <-.
      constructor. apply N.eqb_eq. exact E.
    + injection H as <-. constructor.
    + destruct ((h =? kh k + 1) && (kt k <=? t) &&
                (if src =? 2 then (dl =? a)%Z else dl_okb r dl a)) eqn:E; [|discriminate].
      apply Bool.andb_true_iff in E. destruct E as [E E3]. apply Bool.andb_true_iff in E.
      destruct E as [E1 E2]. apply prod_dl_iff in E3. apply N.eqb_eq in E1. apply N.leb_le in E2.
      destruct (3 <=? stage) eqn:Es.
      * destruct (Z.max a dl <=? a')%Z eqn:Ea; [|discriminate]. injection H as <-.
        apply Z.leb_le in Ea. apply N.leb_le in Es. apply AS_produced; assumption.
      * injection H as <-. apply N.leb_gt in Es. apply AS_attempt; assumption.
    + destruct (kh k <? h) eqn:E; [|discriminate]. apply N.ltb_lt in E.
      destruct imp as [a|]; injection H as <-; constructor; exact E.
    + injection H as <-. constructor.
  - intro H. inversion H; subst; cbn [act].
    + reflexivity.
    + rewrite N.eqb_refl. reflexivity.
    + rewrite N.eqb_refl, (proj2 (N.leb_le _ _) H2). cbn [andb].
      rewrite (proj2 (prod_dl_iff _ _ _ _) H3), (proj2 (N.leb_gt _ _) H0). reflexivity.
    + rewrite N.eqb_refl, (proj2 (N.leb_le _ _) H2). cbn [andb].
      rewrite (proj2 (prod_dl_iff _ _ _ _) H3), (proj2 (N.leb_le _ _) H0), (proj2 (Z.leb_le _ _) H4).
      reflexivity.
    + rewrite (proj2 (N.ltb_lt _ _) H0). reflexivity.
    + rewrite (proj2 (N.ltb_lt _ _) H0). reflexivity.
    + reflexivity.
Qed.

Inductive acts_spec (open : bool) (r : dl_rule) : kst -> list action -> kst -> Prop :=
| ASS_nil : forall k, acts_spec open r k [] k
| ASS_cons : forall k x k1 xs k2,
    act_spec open r k x k1 -> acts_spec open r k1 xs k2 -> acts_spec open r k (x :: xs) k2.

Lemma acts_run_iff : forall open r xs k k',
  acts_run open r k xs = Some k' <-> acts_spec open r k xs k'.
Proof.
  induction xs as [|x xs IH]; intros k k'; cbn [acts_run].
  - split; [intro H; injection H as <-; constructor | intro H; inversion H; reflexivity].
  - split.
    + intro H. destruct (act open r k x) as [k1|] eqn:E; [|discriminate].
      econstructor; [apply act_iff; exact E | apply IH; exact H].
    + intro H. inversion H; subst. rewrite (proj2 (act_iff _ _ _ _ _) H3). apply IH. assumption.
Qed.

Lemma acts_run_app : forall open r xs ys k,
  acts_run open r k (xs ++ ys) =
  match acts_run open r k xs with Some k1 => acts_run open r k1 ys | None => None end.
Proof.
  induction xs as [|x xs IH]; intros ys k; cbn [app acts_run]; [reflexivity|].
  destruct (act open r k x); [apply IH | reflexivity].
Qed.

(* the state after the operation is the replayed one: (last_height, last_timestamp,
   last_block_created) and the database change only through announced imports *)
Definition final_spec (k : kst) (post : mstate) : Prop :=
  kh k = last_height post /\ kt k = last_timestamp post /\ kc k = last_created post /\
  kdb k = db post.

Lemma optNN_eqb_eq : forall a b, optNN_eqb a b = true <-> a = b.
Proof.
  intros [[x y]|] [[x' y']|]; cbn [optNN_eqb]; try (split; [discriminate | congruence]);
    try (split; reflexivity).
  rewrite Bool.andb_true_iff, !N.eqb_eq. split; [intros [-> ->]; reflexivity | intro H; injection H; auto].
Qed.

Lemma final_okb_iff : forall k post, final_okb k post = true <-> final_spec k post.
Proof.
  intros. unfold final_okb, final_spec.
  rewrite !Bool.andb_true_iff, !N.eqb_eq, Z.eqb_eq, optNN_eqb_eq. tauto.
Qed.

(* the log of the operation is a sequence of well-formed actions (each commit_result directly
   preceded by the seal of the same block, itself preceded by its production), every action
   respects what is known, the final state is the replayed one, and neither finding occurred *)
Definition ReplaySpec (open : bool) (r : dl_rule) (batch_ok : bool) (pre post : mstate)
           (evs : list event) : Prop :=
  exists xs k,
    evs = flatten xs /\ Forall canonical xs /\
    acts_spec open r (k_of pre) xs k /\ final_spec k post /\
    ka1 k = false /\ (batch_ok = true -> kb k = false).

Lemma replay_okb_iff : forall open r batch_ok pre post evs,
  replay_okb open r batch_ok pre post evs = 1 <-> ReplaySpec open r batch_ok pre post evs.
Proof.
  intros. unfold replay_okb, ReplaySpec. split.
  - intro H. destruct (parse evs) as [xs|] eqn:Hp; [|discriminate].
    destruct (acts_run open r (k_of pre) xs) as [k|] eqn:Ha; [|discriminate].
    destruct (final_okb k post) eqn:Hf; cbn [negb] in H; [|discriminate].
    destruct (ka1 k) eqn:Ea; [discriminate|].
    destruct (kb k && batch_ok) eqn:Eb; [discriminate|].
    apply parse_iff in Hp. destruct Hp as [He Hc].
    exists xs, k. repeat split; try assumption.
    + apply acts_run_iff. exact Ha.
    + apply final_okb_iff in Hf. apply Hf.
    + apply final_okb_iff in Hf. apply Hf.
    + apply final_okb_iff in Hf. apply Hf.
    + apply final_okb_iff in Hf. apply Hf.
    + intros ->. rewrite Bool.andb_true_r in Eb. exact Eb.
  - intros [xs [k [He [Hc [Ha [Hf [Ea Eb]]]]]]].
    rewrite (proj2 (parse_iff evs xs) (conj He Hc)).
    rewrite (proj2 (acts_run_iff _ _ _ _ _) Ha).
    rewrite (proj2 (final_okb_iff _ _) Hf). cbn [negb]. rewrite Ea.
    destruct batch_ok; [rewrite (Eb eq_refl) | rewrite Bool.andb_false_r]; reflexivity.
Qed.

Definition same_prod (a b : mstate) : Prop :=
  last_height a = last_height b /\ last_timestamp a = last_timestamp b /\
  last_created a = last_created b.

Lemma same_prod_state_iff : forall a b, same_prod_state a b = true <-> same_prod a b.
Proof.
  intros. unfold same_prod_state, same_prod. rewrite !Bool.andb_true_iff, !N.eqb_eq, Z.eqb_eq. tauto.
Qed.

Lemma is_nil_ev_iff : forall evs, is_nil_ev evs = true <-> evs = [].
Proof. destruct evs; cbn; split; congruence. Qed.

(* What Pcheck = 1 says about one operation of the production task. *)
Definition OpSpec (pre : mstate) (o : op) (post : mstate) (evs : list event) : Prop :=
  match o with
  | OTick _ _ l _ _ pd =>
      match trig pre, pd with
      | TNever, None => evs = [] /\ same_prod pre post /\ db pre = db post
      | _, _ => ReplaySpec (is_open (trig pre)) (tick_rule pre) (leader_batch_okb l) pre post evs
      end
  | OManual _ _ _ _ _ => ReplaySpec false DLNow true pre post evs
  | OSync _ d t =>
      evs = [] /\
      (if last_height pre <? last_height pre + d - 1
       then last_height post = last_height pre + d - 1 /\ last_timestamp post = t
       else same_prod pre post)
  | _ => evs = [] /\ same_prod pre post
  end.

Lemma op_okb_iff : forall pre o post evs, op_okb pre o post evs = 1 <-> OpSpec pre o post evs.
Proof.
  intros pre o post evs. destruct o as [c s l f m pd | c s st m f | c d t | d | ms]; cbn [op_okb OpSpec].
  - destruct (trig pre), pd; try apply replay_okb_iff.
    rewrite <- is_nil_ev_iff, <- same_prod_state_iff, <- optNN_eqb_eq.
    destruct (is_nil_ev evs), (same_prod_state pre post), (optNN_eqb (db pre) (db post));
      cbn [andb]; split; try discriminate; try tauto; intros [? [? ?]]; discriminate.
  - apply replay_okb_iff.
  - rewrite <- is_nil_ev_iff.
    destruct (last_height pre <? last_height pre + d - 1).
    + rewrite <- !N.eqb_eq.
      destruct (is_nil_ev evs), (last_height post =? last_height pre + d - 1), (last_timestamp post =? t);
        cbn [andb]; split; try discriminate; try tauto; intros [? [? ?]]; discriminate.
    + rewrite <- same_prod_state_iff.
      destruct (is_nil_ev evs), (same_prod_state pre post); cbn [andb]; split; try discriminate;
        try tauto; intros [? ?]; discriminate.
  - rewrite <- is_nil_ev_iff, <- same_prod_state_iff.
    destruct (is_nil_ev evs), (same_prod_state pre post); cbn [andb]; split; try discriminate;
      try tauto; intros [? ?]; discriminate.
  - rewrite <- is_nil_ev_iff, <- same_prod_state_iff.
    destruct (is_nil_ev evs), (same_prod_state pre post); cbn [andb]; split; try discriminate;
      try tauto; intros [? ?]; discriminate.
Qed.
