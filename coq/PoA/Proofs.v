(* Proofs about the PoA production model. *)
From FC Require Import PoA.Model.
From Coq Require Import ZifyBool ZifyN ZifyNat.
Open Scope N_scope.

(* what a request says about the height known when it was made *)
Definition req_ok (e : event) : Prop :=
  match e with
  | ELeader h k => h = k + 1
  | EProduce h _ _ _ _ k => h = k + 1
  | ECommit h _ _ k => h = k + 1
  | EExec h _ k => k < h
  | _ => True
  end.

Definition prod_events (st : mstate) (h time src : N) (dl a' : Z) : list event :=
  [EProduce h time src dl (now_i st) (last_height st); ESeal h; ECommit h time true (last_height st);
   EImported h time true a'].

(* produce_block: the port calls are a prefix of produce; seal; commit; announcement of the same block,
   a failure leaves (last_height, last_timestamp, last_block_created) and the database alone,
   a produced block's time is not below last_timestamp *)
Lemma produce_block_spec : forall st signer h time src dl fail idx,
  let '(st', ok, called, ev) := produce_block st signer h time src dl fail idx in
  (exists n a', ev = firstn n (prod_events st h time src dl a') /\ (Z.max (now_i st) dl <= a')%Z) /\
  (ok = true -> (exists a', ev = prod_events st h time src dl a') /\ last_height st' = h /\
                last_timestamp st' = time /\ db st' = db_up (db st) h time /\
                last_created st' = match trig st with
                                   | TOpen _ => Z.max dl (now_i st) | _ => now_i st end) /\
  (ok = false -> last_height st' = last_height st /\ last_timestamp st' = last_timestamp st /\
                 last_created st' = last_created st /\ db st' = db st) /\
  (ev <> [] -> last_timestamp st <= time) /\
  trig st' = trig st /\ (now_i st <= now_i st')%Z.
Proof.
  intros. unfold produce_block, production_timeout_ms, slow_producer_ms.
  destruct signer; cbn [negb].
  2:{ split; [exists 0%nat, (Z.max (now_i st) dl); split; [reflexivity | lia]|]. split; [discriminate|].
      split; [repeat split; auto|]. split; [congruence|]. split; [reflexivity | lia]. }
  destruct (time <? last_timestamp st) eqn:Et.
  { split; [exists 0%nat, (Z.max (now_i st) dl); split; [reflexivity | lia]|]. split; [discriminate|].
    split; [repeat split; auto|]. split; [congruence|]. split; [reflexivity | lia]. }
  destruct (fail_is fail idx 0).
  { split; [exists 1%nat, (Z.max (now_i st) dl); split; [reflexivity | lia]|]. split; [discriminate|].
    split; [repeat split; auto|]. split; [intros _; lia|]. split; [reflexivity | lia]. }
  destruct (fail_is fail idx 3).
  { split; [exists 1%nat, (Z.max (now_i st) dl); split; [reflexivity | lia]|]. split; [discriminate|].
    split; [repeat split; auto|]. split; [intros _; lia|]. split; [reflexivity | cbn; lia]. }
  destruct (fail_is fail idx 4).
  - destruct (fail_is fail idx 1).
    { split; [exists 2%nat, (Z.max (now_i st) dl); split; [reflexivity | lia]|]. split; [discriminate|].
      split; [repeat split; auto|]. split; [intros _; lia|]. split; [reflexivity | cbn; lia]. }
    destruct (fail_is fail idx 2).
    { split; [exists 3%nat, (Z.max (now_i st) dl); split; [reflexivity | lia]|]. split; [discriminate|].
      split; [repeat split; auto|]. split; [intros _; lia|]. split; [reflexivity | cbn; lia]. }
    split; [eexists 4%nat, _; split; [reflexivity | cbn; lia]|].
    split; [intros _; split; [eexists; reflexivity|]; repeat split; cbn; destruct (trig st); reflexivity|].
    split; [discriminate|]. split; [intros _; lia|]. split; [reflexivity | cbn; lia].
  - destruct (fail_is fail idx 1).
    { split; [exists 2%nat, (Z.max (now_i st) dl); split; [reflexivity | lia]|]. split; [discriminate|].
      split; [repeat split; auto|]. split; [intros _; lia|]. split; [reflexivity | cbn; lia]. }
    destruct (fail_is fail idx 2).
    { split; [exists 3%nat, (Z.max (now_i st) dl); split; [reflexivity | lia]|]. split; [discriminate|].
      split; [repeat split; auto|]. split; [intros _; lia|]. split; [reflexivity | cbn; lia]. }
    split; [eexists 4%nat, _; split; [reflexivity | cbn; lia]|].
    split; [intros _; split; [eexists; reflexivity|]; repeat split; cbn; destruct (trig st); reflexivity|].
    split; [discriminate|]. split; [intros _; lia|]. split; [reflexivity | cbn; lia].
Qed.

Lemma firstn_prod_req : forall n st h time src dl a',
  h = last_height st + 1 -> Forall req_ok (firstn n (prod_events st h time src dl a')).
Proof.
  intros n st h time src dl a' Hh. unfold prod_events.
  destruct n as [|[|[|[|[|n]]]]]; cbn [firstn]; repeat constructor; cbn [req_ok]; auto.
Qed.

Lemma produce_block_req : forall st signer time src dl fail idx,
  Forall req_ok (snd (produce_block st signer (next_height st) time src dl fail idx)).
Proof.
  intros. pose proof (produce_block_spec st signer (next_height st) time src dl fail idx) as H.
  destruct (produce_block st signer (next_height st) time src dl fail idx) as [[[st' ok] called] ev].
  cbn [snd]. destruct H as [[n [a' [-> _]]] _]. apply firstn_prod_req. reflexivity.
Qed.

Lemma manual_loop_req : forall n st signer bt fail idx,
  Forall req_ok (snd (manual_loop n st signer bt fail idx)).
Proof.
  induction n as [|n IH]; intros; cbn [manual_loop]; [constructor|].
  pose proof (produce_block_req st signer bt 0 (now_i st) fail idx) as Hp.
  destruct (produce_block st signer (next_height st) bt 0 (now_i st) fail idx) as [[[st1 ok] called] ev].
  cbn [snd] in Hp. destruct ok; cbn [negb]; [|exact Hp].
  destruct (next_time_manual st1) as [bt'|]; [|exact Hp].
  specialize (IH st1 signer bt' fail (idx + 1)).
  destruct (manual_loop n st1 signer bt' fail (idx + 1)) as [[st2 ok2] ev2]. cbn [snd] in *.
  apply Forall_app. split; assumption.
Qed.

Lemma reconcile_req : forall bs nh st, Forall req_ok (snd (reconcile nh st bs)).
Proof.
  induction bs as [|[[off t] ok] r IH]; intros; cbn [reconcile]; [constructor|].
  destruct (nh + off - 1 <=? last_height st) eqn:E; [apply IH|].
  destruct ok.
  - match goal with |- context [reconcile nh ?s r] => specialize (IH nh s); destruct (reconcile nh s r) as [st2 ev] end.
    cbn [snd] in *. constructor; [cbn [req_ok]; lia|]. constructor; [exact Logic.I | exact IH].
  - match goal with |- context [reconcile nh ?s r] => specialize (IH nh s); destruct (reconcile nh s r) as [st2 ev] end.
    cbn [snd] in *. constructor; [cbn [req_ok]; lia | exact IH].
Qed.

(* every request of every operation is for the height after the one known when it is made
   (reconciliation imports: above the known height) *)
Lemma requests_next_height_all : forall st o, Forall req_ok (snd (step st o)).
Proof.
  intros st o. destruct o as [clock signer l fail mid pd | clock signer start m fail | | |]; cbn [step];
    try (cbn [snd]; constructor).
  - assert (G : forall s dl, Forall req_ok (snd (try_to_produce_block s clock signer l fail mid dl))).
    { intros s dl. unfold try_to_produce_block.
      assert (Hm : Forall req_ok (snd (apply_mid s mid))).
      { destruct mid as [[dd t]|]; cbn [apply_mid snd]; repeat constructor. }
      destruct (apply_mid s mid) as [s0 ev0]. cbn [snd] in Hm.
      destruct l as [| | |bs]; cbn [snd].
      - apply Forall_app. split; [exact Hm | repeat constructor].
      - apply Forall_app. split; [exact Hm | repeat constructor].
      - destruct (next_time_trigger (resync s0) clock) as [t|].
        + pose proof (produce_block_req (resync s0) signer t 0 dl fail 0) as Hp.
          destruct (produce_block (resync s0) signer (next_height (resync s0)) t 0 dl fail 0)
            as [[[s2 ok] called] ev]. cbn [snd] in Hp.
          destruct ok; cbn [snd]; apply Forall_app; (split; [exact Hm|]);
            constructor; try reflexivity; [exact Hp|].
          apply Forall_app. split; [exact Hp | repeat constructor].
        + cbn [snd]. apply Forall_app. split; [exact Hm | repeat constructor].
      - pose proof (reconcile_req bs (next_height (resync s0)) (resync s0)) as Hr.
        destruct (reconcile (next_height (resync s0)) (resync s0) bs) as [s2 ev]. cbn [snd] in *.
        apply Forall_app. split; [exact Hm|]. constructor; [reflexivity | exact Hr]. }
    unfold tick. destruct pd as [delta|].
    + unfold produce_predefined.
      destruct signer; cbn [negb snd]; [|constructor].
      destruct (fail_is fail 0 0); [cbn [snd]; repeat constructor|].
      destruct (fail_is fail 0 1); [cbn [snd]; repeat constructor|].
      destruct (fail_is fail 0 2); cbn [snd]; repeat constructor.
    + destruct (trig st); try apply G. cbn [snd]. constructor.
  - unfold produce_manual_blocks.
    assert (G : forall bt, Forall req_ok (snd (let '(st', ok, ev) :=
               match m with
               | MBlocks n => manual_loop (N.to_nat n) st signer bt fail 0
               | MWithTxs => let '(st1, ok, _, ev) :=
                    produce_block st signer (next_height st) bt 1 (now_i st) fail 0 in (st1, ok, ev)
               end in (st', if ok then ROkManual else RErrManual, ev)))).
    { intro bt. destruct m as [n|].
      - pose proof (manual_loop_req (N.to_nat n) st signer bt fail 0) as H.
        destruct (manual_loop (N.to_nat n) st signer bt fail 0) as [[s2 ok] ev]. exact H.
      - pose proof (produce_block_req st signer bt 1 (now_i st) fail 0) as H.
        destruct (produce_block st signer (next_height st) bt 1 (now_i st) fail 0) as [[[s2 ok] c] ev].
        exact H. }
    destruct (trig st); try (cbn [snd]; constructor);
      (destruct start as [t|]; [apply G | destruct (next_time_manual st); [apply G | cbn [snd]; constructor]]).
Qed.

(* the run loop's deadline under Trigger::Interval *)
Lemma interval_deadline_all : forall st clock signer l fail mid bt,
  trig st = TInterval bt ->
  let dl := Z.max (now_i st) (last_created st + ms bt)%Z in
  tick st clock signer l fail mid None = try_to_produce_block (set_now st dl) clock signer l fail mid dl.
Proof. intros st clock signer l fail mid bt H. unfold tick. rewrite H. reflexivity. Qed.

Lemma resync_keeps : forall st,
  last_timestamp (resync st) = last_timestamp st /\ db (resync st) = db st /\
  last_created (resync st) = last_created st /\ last_height st <= last_height (resync st).
Proof.
  intro st. unfold resync. destruct (db st) as [[dh dt]|] eqn:Ed; [|repeat split; try assumption; lia].
  destruct (last_height st <? dh) eqn:E; cbn [last_height last_timestamp db last_created set_height upd];
    repeat split; try assumption; lia.
Qed.

(* A1, partial: if last_timestamp is not below the time of the database's latest block, no
   produced block time is below it either *)
Lemma block_time_vs_db_partial_all : forall st signer h time src dl fail idx dh dt,
  db st = Some (dh, dt) -> dt <= last_timestamp st ->
  Forall (fun e => match e with EProduce _ t _ _ _ _ => dt <= t | _ => True end)
         (snd (produce_block st signer h time src dl fail idx)).
Proof.
  intros st signer h time src dl fail idx dh dt Hdb Hle.
  pose proof (produce_block_spec st signer h time src dl fail idx) as H.
  destruct (produce_block st signer h time src dl fail idx) as [[[st' ok] called] ev]. cbn [snd].
  destruct H as [[n [a' [Hev _]]] [_ [_ [Hne _]]]]. subst ev.
  destruct n as [|n]; [constructor|].
  assert (Ht : last_timestamp st <= time) by (apply Hne; destruct n; discriminate).
  unfold prod_events. destruct n as [|[|[|[|n]]]]; cbn [firstn]; repeat constructor; lia.
Qed.

(* A1, refuted in general: the resync adopts the database height 2 but keeps timestamp 1000;
   the next block (height 3) is requested with time 1003, before the database block's 1010 *)
Lemma block_time_vs_db_refuted_all :
  exists st clock, db st = Some (2, 1010) /\ last_height st < 2 /\
    In (EProduce 3 1003 0 1000%Z 1000%Z 2) (snd (tick st clock true LLeader None None None)).
Proof.
  exists (set_db (init (TInterval 1) 1 1000 1000) (Some (2, 1010))), 1003.
  vm_compute. repeat split; try reflexivity. right. left. reflexivity.
Qed.

(* finding B: after a failed reconciliation import the next block of the batch is still
   requested, two above the known height *)
Lemma exec_after_failed_import_refuted_all :
  exists st, last_height st = 4 /\
    In (EExec 6 1005 4) (snd (tick st 1011 true (LBlocks [(1, 1004, false); (2, 1005, true)]) None None None)).
Proof.
  exists (init TInstant 4 1003 1003). vm_compute. split; [reflexivity|]. right. right. left. reflexivity.
Qed.

Fixpoint mrun (st : mstate) (ops : list op) : list (mstate * result * list event) :=
  match ops with
  | [] => []
  | o :: r => let '(st', res, ev) := step st o in (st', res, ev) :: mrun st' r
  end.

Example ex_run :
  map (fun x => last_height (fst (fst x)))
      (mrun (init (TInterval 2) 1 1000 1000)
           [OTick 1003 true LLeader None None None; OTick 1004 true LLeader (Some (0, 2)) None None;
            OManual 1005 true None (MBlocks 2) None]) = [2; 2; 4].
Proof. vm_compute. reflexivity. Qed.
