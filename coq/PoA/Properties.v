(* Property theorems of the PoA cluster (C24). Statements, [exact], Print Assumptions only.
   Model: PoA/Model.v -- MainTask state and operations (ports are scripted outcomes, the wall
   clock is an input, the monotonic clock is part of the state), the SyncTask state machine, and
   the whole operation fstep (ensure_synced; run-loop iteration; what the sync task sees of it).
   Pcheck = trace_okb / fop_okb / op_okb on the implementation's observed log. *)
From FC Require Import PoA.Model PoA.Proofs PoA.ProofsParse PoA.ProofsSpec PoA.ProofsRefine PoA.ProofsSync.
Open Scope N_scope.

(* ---------------- structure of the requests ---------------- *)

(* every leader_state / produce_and_execute_block / commit_result request of every operation,
   from every state, is for last_height + 1 as known when it is made (the ghost last field of the
   events); execute_and_commit requests are above the known height *)
Theorem requests_next_height : forall st o, Forall req_ok (snd (step st o)).
Proof. exact requests_next_height_all. Qed.
Print Assumptions requests_next_height.

(* produce_block: the port calls are a prefix of [produce h t; seal h; commit_result h t sealed;
   announcement (not before the deadline)]; success = all of them and the state becomes
   (h, t, creation instant); any failure (producer / seal / commit error, production_timeout) leaves last_height / last_timestamp / last_block_created and the database unchanged;
   a request is only made with a block time >= last_timestamp *)
Theorem produce_block_contract : forall st signer h time src dl fail idx,
  let '(st', ok, called, ev) := produce_block st signer h time src dl fail idx in
  (exists n a', ev = firstn n (prod_events st h time src dl a') /\ (Z.max (now_i st) dl <= a')%Z) /\
  (ok = true -> (exists a', ev = prod_events st h time src dl a') /\ last_height st' = h /\
                last_timestamp st' = time /\ db st' = db_up (db st) h time /\
                last_created st' = match trig st with
                                   | TOpen _ => Z.max dl (now_i st) | _ => now_i st end) /\
  (ok = false -> last_height st' = last_height st /\ last_timestamp st' = last_timestamp st /\
                 last_created st' = last_created st /\ db st' = db st) /\
  (ev <> [] -> last_timestamp st <= time) /\
  trig st' = trig st /\ (now_i st <= now_i st')%Z.
Proof. exact produce_block_spec. Qed.
Print Assumptions produce_block_contract.

(* under Trigger::Interval the run loop sleeps until last_block_created + block_time (or not at
   all if that is past) and uses that instant as deadline *)
Theorem interval_deadline : forall st clock signer l fail mid bt,
  trig st = TInterval bt ->
  let dl := Z.max (now_i st) (last_created st + ms bt)%Z in
  tick st clock signer l fail mid None = try_to_produce_block (set_now st dl) clock signer l fail mid dl.
Proof. exact interval_deadline_all. Qed.
Print Assumptions interval_deadline.

(* ---------------- the checker: meaning and refinement ---------------- *)

(* the log parser and the flattening of actions are inverse on canonical action lists: a log is
   accepted iff it is a sequence of whole actions -- in particular every commit_result is directly
   preceded by the seal of the same block, itself preceded by its production *)
Theorem parse_flatten_inverse : forall evs xs,
  parse evs = Some xs <-> evs = flatten xs /\ Forall canonical xs.
Proof. exact parse_iff. Qed.
Print Assumptions parse_flatten_inverse.

(* Pcheck = 1 on an operation <-> OpSpec (ProofsSpec.v: act_spec / ReplaySpec / OpSpec) *)
Theorem op_okb_sound : forall pre o post evs, op_okb pre o post evs = 1 <-> OpSpec pre o post evs.
Proof. exact op_okb_iff. Qed.
Print Assumptions op_okb_sound.

(* every operation of the model passes its own checker, or lies in finding class A1 / B and
   fails with exactly that class code *)
Theorem step_refines : forall st o,
  let '(post, res, evs) := step st o in
  op_okb st o post evs = 1 \/
  (op_okb st o post evs = 2 /\ ClassA1 st o = true) \/
  (op_okb st o post evs = 3 /\ ClassB st o = true).
Proof. exact step_refines_all. Qed.
Print Assumptions step_refines.

Theorem step_passes : forall st o,
  ClassA1 st o = false -> ClassB st o = false ->
  op_okb st o (fst (fst (step st o))) (snd (step st o)) = 1.
Proof. exact step_passes_all. Qed.
Print Assumptions step_passes.

(* the same for whole operations (ensure_synced + run-loop iteration + sync task) and whole runs *)
Theorem fstep_refines : forall f o, wf_fop o = true ->
  let '(f', res, evs) := fstep f o in
  let fo := fop_okb (fm f) o res (fm f') evs in
  fo = 1 \/ (fo = 2 /\ FClassA1 f o = true) \/ (fo = 3 /\ FClassB f o = true).
Proof. exact fstep_refines_all. Qed.
Print Assumptions fstep_refines.

Theorem frun_passes : forall ops f,
  clean f ops = true -> trace_okb (fm f) ops (map obs_of (frun f ops)) = 1.
Proof. exact frun_passes_all. Qed.
Print Assumptions frun_passes.

(* a predefined block for the next height is produced before anything else and passes the
   checker whenever its time is not below last_timestamp (the code does not check that) *)
Theorem predefined_block_passes : forall st clock signer l fail mid delta,
  let '(post, res, evs) := tick st clock signer l fail mid (Some delta) in
  op_okb st (OTick clock signer l fail mid (Some delta)) post evs = 1.
Proof. exact tick_pd_passes. Qed.
Print Assumptions predefined_block_passes.

(* ---------------- sync task ---------------- *)

(* if a run-loop iteration makes any port call, ensure_synced returned with a published Synced
   header: it was already published, or the sync task was in SufficientPeers and the iteration
   waited for the time_until_synced timer *)
Theorem produces_only_when_synced : forall f clock signer l fail mid pd,
  let '(f', res, evs) := fstep f (FTick clock signer l fail mid pd) in
  evs <> [] ->
  exists st2 h t,
    r_ens res = Some (true, st2, Some (h, t)) /\
    (s_pub (fs f) = Some (h, t) \/
     (s_pub (fs f) = None /\ s_inner (fs f) = ISufficient /\ s_hdr (fs f) = (h, t) /\
      (s_next (fs f) <= now_i st2)%Z)).
Proof. exact produces_only_when_synced_all. Qed.
Print Assumptions produces_only_when_synced.

(* along every run the published state is Synced(header) exactly when the inner state is Synced
   with that header *)
Theorem sync_published_iff_synced : forall tr h0 t0 c0 mn tus ops,
  Forall (fun x => sync_invb (fs (fst (fst x))) = true) (frun (finit tr h0 t0 c0 mn tus) ops).
Proof. intros. apply frun_keeps_inv. apply inv_init. Qed.
Print Assumptions sync_published_iff_synced.

Theorem sync_invb_meaning : forall s, sync_invb s = true ->
  match s_pub s with
  | Some hdr => (exists has, s_inner s = ISynced has) /\ s_hdr s = hdr
  | None => forall has, s_inner s <> ISynced has
  end.
Proof. exact sync_invb_spec. Qed.
Print Assumptions sync_invb_meaning.

(* ---------------- findings ---------------- *)

(* A1. Block times vs. the database's latest block: holds when last_timestamp is that block's
   time (or later); the DB-height resync keeps height-only, so it does not hold in general *)
Theorem block_time_vs_db_partial : forall st signer h time src dl fail idx dh dt,
  db st = Some (dh, dt) -> dt <= last_timestamp st ->
  Forall (fun e => match e with EProduce _ t _ _ _ _ => dt <= t | _ => True end)
         (snd (produce_block st signer h time src dl fail idx)).
Proof. exact block_time_vs_db_partial_all. Qed.
Print Assumptions block_time_vs_db_partial.

Theorem resync_keeps_timestamp : forall st,
  last_timestamp (resync st) = last_timestamp st /\ db (resync st) = db st /\
  last_created (resync st) = last_created st /\ last_height st <= last_height (resync st).
Proof. exact resync_keeps. Qed.
Print Assumptions resync_keeps_timestamp.

Theorem block_time_vs_db_refuted :
  exists st clock, db st = Some (2, 1010) /\ last_height st < 2 /\
    In (EProduce 3 1003 0 1000%Z 1000%Z 2) (snd (tick st clock true LLeader None None None)).
Proof. exact block_time_vs_db_refuted_all. Qed.
Print Assumptions block_time_vs_db_refuted.

(* A1 through the whole flow: Synced on block 1, ensure_synced passes, block (2, 1010) arrives by
   another path while the iteration waits for its deadline, block 3 is requested with time 1003 *)
Theorem a1_during_run_refuted :
  let f := finit (TInterval 1) 1 1000 1000 0 0 in
  let '(f', res, evs) := fstep f (FTick 1003 true LLeader None (Some (2, 1010)) None) in
  sync_invb (fs f) = true /\ s_pub (fs f) = Some (1, 1000) /\
  evs = [EP2p 2 1010 1000%Z; ELeader 3 2; EProduce 3 1003 0 1000%Z 1000%Z 2; ESeal 3;
         ECommit 3 1003 true 2; EImported 3 1003 true 1000%Z] /\
  db (fm f') = Some (3, 1003).
Proof. exact a1_during_run_refuted_all. Qed.
Print Assumptions a1_during_run_refuted.

(* B. after a failed reconciliation import the next block of the batch is still requested *)
Theorem exec_after_failed_import_refuted :
  exists st, last_height st = 4 /\
    In (EExec 6 1005 4) (snd (tick st 1011 true (LBlocks [(1, 1004, false); (2, 1005, true)]) None None None)).
Proof. exact exec_after_failed_import_refuted_all. Qed.
Print Assumptions exec_after_failed_import_refuted.

(* C (liveness, outside the statement of C24). With time_until_synced = 0 the sync task has no
   timer: once it is not Synced, no sequence of peer counts, blocks and clock readings makes it
   publish Synced again (so production stops for good) *)
Theorem no_timer_never_synced : forall evs s now,
  s_period s = None -> (forall has, s_inner s <> ISynced has) -> s_pub s = None ->
  s_pub (fold_left (fun s e => sev_step s now e) evs s) = None.
Proof. exact no_timer_never_synced_all. Qed.
Print Assumptions no_timer_never_synced.
