(* Property theorems of the PoA cluster (C24, proof (partial)). Statements, [exact],
   Print Assumptions only.  Model: PoA/Model.v (MainTask state and operations; ports are scripted
   outcomes, the wall clock is an input, the monotonic clock is part of the state). *)
From FC Require Import PoA.Model PoA.Proofs.
Open Scope N_scope.

(* commit_requests_consecutive: every leader_state / produce_and_execute_block / commit_result
   request of every operation, from every state, is for last_height + 1 as known when it is made
   (the ghost last field of the events); execute_and_commit requests are above the known height
   (exactly the next one only while no import of the batch failed: see exec_after_failed_import_refuted). *)
Theorem requests_next_height : forall st o, Forall req_ok (snd (step st o)).
Proof. exact requests_next_height_all. Qed.
Print Assumptions requests_next_height.

(* sealed_before_commit, failure_no_advance, timestamps_monotone_wrt_known, for produce_block (the only
   place that produces, seals and commits): the port calls are a prefix of
   [produce h t; seal h; commit_result h t sealed]; success = all three happened and the state is
   (h, t, creation instant); any failure leaves last_height / last_timestamp / last_block_created
   and the database unchanged; a request is only made with a block time >= last_timestamp. *)
Theorem produce_block_contract : forall st signer h time src dl fail idx,
  let '(st', ok, called, ev) := produce_block st signer h time src dl fail idx in
  (exists n, ev = firstn n (prod_events st h time src dl)) /\
  (ok = true -> ev = prod_events st h time src dl /\ last_height st' = h /\
                last_timestamp st' = time /\ db st' = db_up (db st) h time /\
                last_created st' = match trig st with
                                   | TOpen _ => Z.max dl (now_i st) | _ => now_i st end) /\
  (ok = false -> last_height st' = last_height st /\ last_timestamp st' = last_timestamp st /\
                 last_created st' = last_created st /\ db st' = db st) /\
  (ev <> [] -> last_timestamp st <= time) /\
  trig st' = trig st /\ (now_i st <= now_i st')%Z.
Proof. exact produce_block_spec. Qed.
Print Assumptions produce_block_contract.

(* interval_deadline: under Trigger::Interval the run loop sleeps until
   last_block_created + block_time (or not at all if that is past) and uses that instant as deadline. *)
Theorem interval_deadline : forall st clock signer l fail bt,
  trig st = TInterval bt ->
  let dl := Z.max (now_i st) (last_created st + ms bt)%Z in
  tick st clock signer l fail = try_to_produce_block (set_now st dl) clock signer l fail dl.
Proof. exact interval_deadline_all. Qed.
Print Assumptions interval_deadline.

(* A1. Block times vs. the database's latest block: holds when last_timestamp is that block's time
   (or later); the DB-height resync keeps height-only, so it does not hold in general. *)
Theorem block_time_vs_db_partial : forall st signer h time src dl fail idx dh dt,
  db st = Some (dh, dt) -> dt <= last_timestamp st ->
  Forall (fun e => match e with EProduce _ t _ _ _ _ => dt <= t | _ => True end)
         (snd (produce_block st signer h time src dl fail idx)).
Proof. exact block_time_vs_db_partial_all. Qed.
Print Assumptions block_time_vs_db_partial.

Theorem resync_keeps_timestamp : forall st,
  last_timestamp (resync st) = last_timestamp st /\ db (resync st) = db st /\
  last_created (resync st) = last_created st /\ last_height st <= last_height (resync st).
Proof. exact resync_keeps. Qed.
Print Assumptions resync_keeps_timestamp.

Theorem block_time_vs_db_refuted :
  exists st clock, db st = Some (2, 1010) /\ last_height st < 2 /\
    In (EProduce 3 1003 0 1000%Z 1000%Z 2) (snd (tick st clock true LLeader None)).
Proof. exact block_time_vs_db_refuted_all. Qed.
Print Assumptions block_time_vs_db_refuted.

Theorem exec_after_failed_import_refuted :
  exists st, last_height st = 4 /\
    In (EExec 6 1005 4) (snd (tick st 1011 true (LBlocks [(1, 1004, false); (2, 1005, true)]) None)).
Proof. exact exec_after_failed_import_refuted_all. Qed.
Print Assumptions exec_after_failed_import_refuted.
