(* Refinement: the model's own log of every operation passes the checker, except in the two
   finding classes (which are decidable predicates of the state and the operation). *)
From FC Require Import PoA.Model PoA.ProofsParse PoA.ProofsSpec.
From Coq Require Import ZifyBool ZifyN ZifyNat.
Open Scope N_scope.

Definition krel (k : kst) (st : mstate) : Prop :=
  kh k = last_height st /\ kt k = last_timestamp st /\ kc k = last_created st /\ kdb k = db st.

Lemma krel_of : forall st, krel (k_of st) st.
Proof. intro. repeat split. Qed.

Lemma krel_resync : forall k st, krel k st -> krel (k_resync k) (resync st).
Proof.
  intros k st [H1 [H2 [H3 H4]]]. unfold k_resync, resync. rewrite H4, H1.
  destruct (db st) as [[dh dt]|] eqn:Ed; [|repeat split; try assumption; congruence].
  destruct (last_height st <? dh); repeat split; cbn; try assumption; congruence.
Qed.

Lemma k_resync_flags : forall k, ka1 (k_resync k) = ka1 k /\ kb (k_resync k) = kb k.
Proof.
  intro k. unfold k_resync. destruct (kdb k) as [[dh dt]|]; [|split; reflexivity].
  destruct (kh k <? dh); split; reflexivity.
Qed.

Lemma acts_run_single : forall open r k x k',
  act_spec open r k x k' -> acts_run open r k [x] = Some k'.
Proof. intros. cbn [acts_run]. rewrite (proj2 (act_iff _ _ _ _ _) H). reflexivity. Qed.

(* produce_block: at most one production action *)
Lemma produce_block_acts : forall st signer time src dl fail idx k open r,
  krel k st -> prod_dl_spec r src dl (now_i st) -> src <> 2 -> open = is_open (trig st) ->
  let '(st', ok, called, ev) := produce_block st signer (next_height st) time src dl fail idx in
  exists xs k',
    ev = flatten xs /\ Forall canonical xs /\ acts_run open r k xs = Some k' /\ krel k' st' /\
    kadopt k' = kadopt k /\ kb k' = kb k /\
    ka1 k' = ka1 k || (called && below_db_time k time) /\
    (called = true -> last_timestamp st <= time) /\ trig st' = trig st /\
    (now_i st <= now_i st')%Z.
Proof.
  intros st signer time src dl fail idx k open r Hk Hdl Hsrc Hopen.
  unfold produce_block, production_timeout_ms, slow_producer_ms.
  destruct Hk as [K1 [K2 [K3 K4]]].
  assert (Hnil : exists xs k', @nil event = flatten xs /\ Forall canonical xs /\
            acts_run open r k xs = Some k' /\ krel k' st /\ kadopt k' = kadopt k /\ kb k' = kb k /\
            ka1 k' = ka1 k || (false && below_db_time k time) /\
            (false = true -> last_timestamp st <= time) /\ trig st = trig st /\ (now_i st <= now_i st)%Z).
  { exists [], k. repeat split; try assumption; try constructor; try discriminate; try lia. }
  destruct signer; cbn [negb]; [|exact Hnil].
  destruct (time <? last_timestamp st) eqn:Et; [exact Hnil|].
  assert (Ht : kt k <= time) by lia.
  assert (Hh : next_height st = kh k + 1) by (unfold next_height; lia).
  assert (Hs2 : negb (src =? 2) = true) by (apply Bool.negb_true_iff, N.eqb_neq; exact Hsrc).
  destruct (fail_is fail idx 0).
  { exists [AProduce (next_height st) time src dl (now_i st) (last_height st) 0 0 0],
           (k_flag_a1 k (below_db_time k time)).
    split; [reflexivity|]. split; [constructor; [cbn [canonical]; auto 8 | constructor]|].
    split; [apply acts_run_single; apply AS_attempt; try assumption; lia|].
    repeat split; try assumption; try lia. }
  destruct (fail_is fail idx 3).
  { exists [AProduce (next_height st) time src dl (now_i st) (last_height st) 0 0 0],
           (k_flag_a1 k (below_db_time k time)).
    split; [reflexivity|]. split; [constructor; [cbn [canonical]; auto 8 | constructor]|].
    split; [apply acts_run_single; apply AS_attempt; try assumption; lia|].
    repeat split; try assumption; cbn; try lia. }
  assert (Htail : forall st0, last_height st0 = last_height st -> last_timestamp st0 = last_timestamp st ->
            last_created st0 = last_created st -> db st0 = db st -> trig st0 = trig st ->
            (now_i st <= now_i st0)%Z ->
    let st1 := set_now st0 (Z.max (now_i st0) dl) in
    let '(st', ok, called, ev) :=
      if fail_is fail idx 1
      then (st1, false, true, [EProduce (next_height st) time src dl (now_i st) (last_height st); ESeal (next_height st)])
      else if fail_is fail idx 2
           then (st1, false, true,
                 [EProduce (next_height st) time src dl (now_i st) (last_height st); ESeal (next_height st);
                  ECommit (next_height st) time true (last_height st)])
           else (set_db (upd st1 (next_height st) time
                             match trig st with TOpen _ => Z.max dl (now_i st) | _ => now_i st end)
                        (db_up (db st1) (next_height st) time), true, true,
                 [EProduce (next_height st) time src dl (now_i st) (last_height st); ESeal (next_height st);
                  ECommit (next_height st) time true (last_height st);
                  EImported (next_height st) time true (now_i st1)]) in
    exists xs k',
      ev = flatten xs /\ Forall canonical xs /\ acts_run open r k xs = Some k' /\ krel k' st' /\
      kadopt k' = kadopt k /\ kb k' = kb k /\
      ka1 k' = ka1 k || (called && below_db_time k time) /\
      (called = true -> last_timestamp st <= time) /\ trig st' = trig st /\
      (now_i st <= now_i st')%Z).
  { intros st0 E1 E2 E3 E4 E5 E6 st1.
    destruct (fail_is fail idx 1).
    { exists [AProduce (next_height st) time src dl (now_i st) (last_height st) 0 0 1],
             (k_flag_a1 k (below_db_time k time)).
      split; [reflexivity|]. split; [constructor; [cbn [canonical]; auto 8 | constructor]|].
      split; [apply acts_run_single; apply AS_attempt; try assumption; lia|].
      subst st1. repeat split; cbn; try congruence; try lia. }
    destruct (fail_is fail idx 2).
    { exists [AProduce (next_height st) time src dl (now_i st) (last_height st) (last_height st) 0 2],
             (k_flag_a1 k (below_db_time k time)).
      split; [reflexivity|]. split; [constructor; [cbn [canonical]; auto 8 | constructor]|].
      split; [apply acts_run_single; apply AS_attempt; try assumption; lia|].
      subst st1. repeat split; cbn; try congruence; try lia. }
    exists [AProduce (next_height st) time src dl (now_i st) (last_height st) (last_height st)
                     (now_i st1) 3],
           (k_import (k_flag_a1 k (below_db_time k time)) (next_height st) time
                     (created_of (open && negb (src =? 2)) dl (now_i st))).
    split; [reflexivity|]. split; [constructor; [cbn [canonical]; auto 8 | constructor]|].
    split; [apply acts_run_single; apply AS_produced; try assumption; try lia; subst st1; cbn; lia|].
    split.
    { repeat split; cbn; try reflexivity.
      - rewrite Hs2, Bool.andb_true_r. subst open. destruct (trig st); reflexivity.
      - rewrite K4, E4. reflexivity. }
    subst st1. repeat split; cbn; try reflexivity; try assumption; try congruence; try lia. }
  destruct (fail_is fail idx 4).
  - apply (Htail (set_now st (now_i st + 1500)%Z)); cbn; try reflexivity; lia.
  - apply (Htail st); try reflexivity; lia.
Qed.

Lemma produce_predefined_acts : forall st signer t fail k open r,
  krel k st -> last_timestamp st <= t ->
  let '(st', ok, ev) := produce_predefined st signer t fail in
  exists xs k',
    ev = flatten xs /\ Forall canonical xs /\ acts_run open r k xs = Some k' /\ krel k' st' /\
    kb k' = kb k /\ (kadopt k = false -> ka1 k' = ka1 k).
Proof.
  intros st signer t fail k open r Hk Ht. unfold produce_predefined.
  destruct Hk as [K1 [K2 [K3 K4]]].
  assert (Hflag : kadopt k = false -> ka1 (k_flag_a1 k (below_db_time k t)) = ka1 k).
  { intro Ha. unfold below_db_time. rewrite Ha. cbn. apply Bool.orb_false_r. }
  assert (Hdl : prod_dl_spec r 2 (now_i st) (now_i st)) by reflexivity.
  destruct signer; cbn [negb].
  2:{ exists [], k. repeat split; try assumption; try constructor. }
  destruct (fail_is fail 0 0).
  { exists [AProduce (last_height st + 1) t 2 (now_i st) (now_i st) (last_height st) 0 0 0],
           (k_flag_a1 k (below_db_time k t)).
    split; [reflexivity|]. split; [constructor; [cbn [canonical]; auto 8 | constructor]|].
    split; [apply acts_run_single; apply AS_attempt; try assumption; lia|].
    repeat split; try assumption. }
  destruct (fail_is fail 0 1).
  { exists [AProduce (last_height st + 1) t 2 (now_i st) (now_i st) (last_height st) 0 0 1],
           (k_flag_a1 k (below_db_time k t)).
    split; [reflexivity|]. split; [constructor; [cbn [canonical]; auto 8 | constructor]|].
    split; [apply acts_run_single; apply AS_attempt; try assumption; lia|].
    repeat split; try assumption. }
  destruct (fail_is fail 0 2).
  { exists [AProduce (last_height st + 1) t 2 (now_i st) (now_i st) (last_height st) (last_height st) 0 2],
           (k_flag_a1 k (below_db_time k t)).
    split; [reflexivity|]. split; [constructor; [cbn [canonical]; auto 8 | constructor]|].
    split; [apply acts_run_single; apply AS_attempt; try assumption; lia|].
    repeat split; try assumption. }
  exists [AProduce (last_height st + 1) t 2 (now_i st) (now_i st) (last_height st) (last_height st)
                   (now_i st) 3],
         (k_import (k_flag_a1 k (below_db_time k t)) (last_height st + 1) t
                   (created_of (open && negb (2 =? 2)) (now_i st) (now_i st))).
  split; [reflexivity|]. split; [constructor; [cbn [canonical]; auto 8 | constructor]|].
  split; [apply acts_run_single; apply AS_produced; try assumption; lia|].
  split.
  { repeat split; cbn; try reflexivity.
    - rewrite Bool.andb_false_r. reflexivity.
    - rewrite K4. reflexivity. }
  split; [reflexivity | exact Hflag].
Qed.

Lemma manual_loop_acts : forall n st signer bt fail idx k,
  krel k st -> kadopt k = false -> is_open (trig st) = false ->
  let '(st', ok, ev) := manual_loop n st signer bt fail idx in
  exists xs k',
    ev = flatten xs /\ Forall canonical xs /\ acts_run false DLNow k xs = Some k' /\ krel k' st' /\
    kadopt k' = false /\ ka1 k' = ka1 k /\ kb k' = kb k.
Proof.
  induction n as [|n IH]; intros st signer bt fail idx k Hk Ha Ho; cbn [manual_loop].
  - exists [], k. split; [reflexivity|]. split; [constructor|]. split; [reflexivity|].
    split; [exact Hk|]. repeat split; assumption.
  - assert (Hsrc0 : (0 : N) <> 2) by discriminate.
    pose proof (produce_block_acts st signer bt 0 (now_i st) fail idx k false DLNow Hk eq_refl Hsrc0
                  (eq_sym Ho)) as Hp.
    destruct (produce_block st signer (next_height st) bt 0 (now_i st) fail idx) as [[[st1 ok] called] ev].
    destruct Hp as [xs [k1 [He [Hc [Hr [Hk1 [Had [Hb [Ha1 [_ [Htr _]]]]]]]]]]].
    assert (Ha1' : ka1 k1 = ka1 k).
    { rewrite Ha1. unfold below_db_time. rewrite Ha. cbn [andb]. rewrite Bool.andb_false_r.
      apply Bool.orb_false_r. }
    assert (Hstop : exists xs0 k', ev = flatten xs0 /\ Forall canonical xs0 /\
              acts_run false DLNow k xs0 = Some k' /\ krel k' st1 /\ kadopt k' = false /\
              ka1 k' = ka1 k /\ kb k' = kb k).
    { exists xs, k1. repeat split; try assumption; try apply Hk1. congruence. }
    destruct ok; cbn [negb]; [|exact Hstop].
    destruct (next_time_manual st1) as [bt'|]; [|exact Hstop].
    assert (Ho1 : is_open (trig st1) = false) by (rewrite Htr; exact Ho).
    specialize (IH st1 signer bt' fail (idx + 1) k1 Hk1 (eq_trans Had Ha) Ho1).
    destruct (manual_loop n st1 signer bt' fail (idx + 1)) as [[st2 ok2] ev2].
    destruct IH as [xs2 [k2 [He2 [Hc2 [Hr2 [Hk2 [Had2 [Ha2 Hb2]]]]]]]].
    exists (xs ++ xs2), k2. split; [rewrite flatten_app; congruence|].
    split; [apply Forall_app; split; assumption|].
    split; [rewrite acts_run_app, Hr; exact Hr2|].
    repeat split; try apply Hk2; try assumption; congruence.
Qed.

(* all imports of the batch succeed *)
Definition all_ok (bs : list (N * N * bool)) : bool := forallb (fun b => snd b) bs.

Lemma reconcile_acts : forall bs nh st k open r,
  krel k st -> 1 <= nh ->
  let '(st', ev) := reconcile nh st bs in
  exists xs k',
    ev = flatten xs /\ Forall canonical xs /\ acts_run open r k xs = Some k' /\ krel k' st' /\
    ka1 k' = ka1 k /\
    (all_ok bs = true ->
     match bs with
     | [] => True
     | (off, _, _) :: rest => batch_consecutive off rest = true /\ nh + off - 1 <= kh k + 1
     end -> kb k' = kb k).
Proof.
  induction bs as [|[[off t] ok] rest IH]; intros nh st k open r Hk Hnh; cbn [reconcile].
  - exists [], k. repeat split; try apply Hk; try constructor.
  - destruct (nh + off - 1 <=? last_height st) eqn:Eskip.
    + specialize (IH nh st k open r Hk Hnh). destruct (reconcile nh st rest) as [st2 ev].
      destruct IH as [xs [k' [He [Hc [Hr [Hk' [Ha Hb]]]]]]].
      exists xs, k'. repeat split; try assumption; try apply Hk'.
      intros Hall [Hcons Hhead]. apply Hb.
      * cbn [all_ok forallb] in Hall. apply Bool.andb_true_iff in Hall. apply Hall.
      * destruct rest as [|[[off2 t2] ok2] rest2]; [exact Logic.I|].
        cbn [batch_consecutive] in Hcons. apply Bool.andb_true_iff in Hcons.
        destruct Hcons as [Ho2 Hc2]. split; [exact Hc2|]. destruct Hk as [K1 _]. lia.
    + assert (Hlt : kh k < nh + off - 1) by (destruct Hk as [K1 _]; lia).
      destruct ok.
      * set (k1 := k_import (k_flag_b k (negb (nh + off - 1 =? kh k + 1))) (nh + off - 1) t (kc k)).
        assert (Hk1 : krel k1 (set_db (upd st (nh + off - 1) t (last_created st))
                                      (db_up (db st) (nh + off - 1) t))).
        { destruct Hk as [K1 [K2 [K3 K4]]]. repeat split; cbn; try assumption. rewrite K4. reflexivity. }
        specialize (IH nh _ k1 open r Hk1 Hnh).
        destruct (reconcile nh (set_db (upd st (nh + off - 1) t (last_created st))
                                       (db_up (db st) (nh + off - 1) t)) rest) as [st2 ev].
        destruct IH as [xs [k' [He [Hc [Hr [Hk' [Ha Hb]]]]]]].
        exists (AExec (nh + off - 1) t (last_height st) (Some (now_i st)) :: xs), k'.
        split; [rewrite flatten_cons, He; reflexivity|].
        split; [constructor; [exact Logic.I | exact Hc]|].
        split.
        { cbn [acts_run]. rewrite (proj2 (act_iff open r k _ k1)); [exact Hr|].
          apply AS_imported. exact Hlt. }
        split; [exact Hk'|]. split; [rewrite Ha; reflexivity|].
        intros Hall [Hcons Hhead].
        assert (Hflag : kb k1 = kb k).
        { subst k1. cbn. replace (nh + off - 1 =? kh k + 1) with true by lia.
          apply Bool.orb_false_r. }
        rewrite <- Hflag. apply Hb.
        -- cbn [all_ok forallb] in Hall. apply Bool.andb_true_iff in Hall. apply Hall.
        -- destruct rest as [|[[off2 t2] ok2] rest2]; [exact Logic.I|].
           cbn [batch_consecutive] in Hcons. apply Bool.andb_true_iff in Hcons.
           destruct Hcons as [Ho2 Hc2]. split; [exact Hc2|]. subst k1. cbn. lia.
      * set (k1 := k_resync (k_flag_b k (negb (nh + off - 1 =? kh k + 1)))).
        assert (Hk1 : krel k1 (resync st)).
        { subst k1. apply krel_resync. destruct Hk as [K1 [K2 [K3 K4]]]. repeat split; assumption. }
        specialize (IH nh _ k1 open r Hk1 Hnh).
        destruct (reconcile nh (resync st) rest) as [st2 ev].
        destruct IH as [xs [k' [He [Hc [Hr [Hk' [Ha Hb]]]]]]].
        exists (AExec (nh + off - 1) t (last_height st) None :: xs), k'.
        split; [rewrite flatten_cons, He; reflexivity|].
        split; [constructor; [exact Logic.I | exact Hc]|].
        split.
        { cbn [acts_run]. rewrite (proj2 (act_iff open r k _ k1)); [exact Hr|].
          apply AS_import_failed. exact Hlt. }
        split; [exact Hk'|].
        split; [rewrite Ha; subst k1; rewrite (proj1 (k_resync_flags _)); reflexivity|].
        intros Hall _. cbn [all_ok forallb snd] in Hall. discriminate.
Qed.

(* ---------------- the two finding classes, as predicates of state and operation ---------------- *)

(* A1: the DB-height resync of this tick adopts a database height whose block time is above
   last_timestamp *)
Definition ClassA1 (st : mstate) (o : op) : bool :=
  match o with
  | OTick _ _ _ _ mid None =>
      let st0 := fst (apply_mid st mid) in
      match db st0 with
      | Some (dh, dt) => (last_height st0 <? dh) && (last_timestamp st0 <? dt)
      | None => false
      end
  | _ => false
  end.

(* B: an unreconciled batch within the port contract with at least one failing import *)
Definition ClassB (st : mstate) (o : op) : bool :=
  match o with
  | OTick _ _ (LBlocks bs) _ _ None => batch_okb bs && negb (all_ok bs)
  | _ => false
  end.

Lemma replay_from_acts : forall open r b pre post evs xs k',
  evs = flatten xs -> Forall canonical xs -> acts_run open r (k_of pre) xs = Some k' ->
  krel k' post ->
  replay_okb open r b pre post evs = if ka1 k' then 2 else if kb k' && b then 3 else 1.
Proof.
  intros open r b pre post evs xs k' He Hc Hr Hk. unfold replay_okb.
  rewrite (proj2 (parse_iff evs xs) (conj He Hc)), Hr.
  assert (Hf : final_okb k' post = true) by (apply final_okb_iff; exact Hk).
  rewrite Hf. reflexivity.
Qed.

Lemma k_resync_adopt : forall k, kadopt k = false -> kadopt (k_resync k) = true ->
  exists dh dt, kdb k = Some (dh, dt) /\ kh k < dh.
Proof.
  intros k Hf H. unfold k_resync in H. destruct (kdb k) as [[dh dt]|]; [|congruence].
  destruct (kh k <? dh) eqn:E; [|congruence]. exists dh, dt. split; [reflexivity | lia].
Qed.

Lemma k_resync_fields : forall k,
  kt (k_resync k) = kt k /\ kdb (k_resync k) = kdb k /\ kc (k_resync k) = kc k.
Proof.
  intro k. unfold k_resync. destruct (kdb k) as [[dh dt]|] eqn:E; [|repeat split; assumption].
  destruct (kh k <? dh); repeat split; cbn; congruence.
Qed.

Lemma resync_fields : forall st,
  now_i (resync st) = now_i st /\ trig (resync st) = trig st /\
  last_timestamp (resync st) = last_timestamp st /\ db (resync st) = db st.
Proof.
  intro st. unfold resync. destruct (db st) as [[dh dt]|] eqn:E; [|repeat split; assumption].
  destruct (last_height st <? dh); repeat split; cbn; congruence.
Qed.

Lemma apply_mid_acts : forall st mid open r,
  exists xs0 k0,
    snd (apply_mid st mid) = flatten xs0 /\ Forall canonical xs0 /\
    acts_run open r (k_of st) xs0 = Some k0 /\ krel k0 (fst (apply_mid st mid)) /\
    kadopt k0 = false /\ ka1 k0 = false /\ kb k0 = false /\
    now_i (fst (apply_mid st mid)) = now_i st /\ trig (fst (apply_mid st mid)) = trig st.
Proof.
  intros st [[dd t]|] open r; cbn [apply_mid fst snd].
  - exists [AP2p (last_height st + dd - 1) t (now_i st)],
           (k_db (k_of st) (db_up (kdb (k_of st)) (last_height st + dd - 1) t)).
    split; [reflexivity|]. split; [repeat constructor|].
    split; [apply acts_run_single; constructor|]. repeat split.
  - exists [], (k_of st). split; [reflexivity|]. split; [constructor|]. split; [reflexivity|].
    repeat split.
Qed.

Ltac flat He0 Hep :=
  rewrite ?flatten_app, <- ?He0, <- ?Hep; cbn [flatten flat_map flatten1 app];
  rewrite <- ?app_assoc; cbn [app]; reflexivity.

Lemma try_acts : forall st clock signer l fail mid dl open r,
  dl_spec r dl (now_i st) -> open = is_open (trig st) ->
  let '(st', res, evs) := try_to_produce_block st clock signer l fail mid dl in
  exists xs k',
    evs = flatten xs /\ Forall canonical xs /\ acts_run open r (k_of st) xs = Some k' /\
    krel k' st' /\
    (ka1 k' = true -> ClassA1 st (OTick clock signer l fail mid None) = true) /\
    (kb k' = true -> leader_batch_okb l = true -> ClassB st (OTick clock signer l fail mid None) = true).
Proof.
  intros st clock signer l fail mid dl open r Hdl Hopen. unfold try_to_produce_block.
  destruct (apply_mid_acts st mid open r)
    as [xs0 [k0 [He0 [Hc0 [Hr0 [Hk0 [Had0 [Ha0 [Hb0 [Hnow0 Htr0]]]]]]]]]].
  unfold ClassA1, ClassB.
  destruct (apply_mid st mid) as [st0 ev0]. cbn [fst snd] in *.
  set (st1 := resync st0). set (k1 := k_resync k0).
  assert (Hk1 : krel k1 st1) by (apply krel_resync; exact Hk0).
  destruct (resync_fields st0) as [Hn1 [Ht1 [Hlt1 Hdb1]]]. fold st1 in Hn1, Ht1, Hlt1, Hdb1.
  destruct (k_resync_flags k0) as [Hfa Hfb]. fold k1 in Hfa, Hfb.
  destruct (k_resync_fields k0) as [Hkt1 [Hkdb1 Hkc1]]. fold k1 in Hkt1, Hkdb1, Hkc1.
  assert (Hlead : act_spec open r k0 (ALeader (next_height st1) (last_height st1)) k1).
  { apply AS_leader. fold k1. unfold next_height. destruct Hk1 as [K _]. clear - K. lia. }
  assert (Hrun1 : acts_run open r (k_of st) (xs0 ++ [ALeader (next_height st1) (last_height st1)])
                  = Some k1).
  { rewrite acts_run_app, Hr0. apply acts_run_single. exact Hlead. }
  assert (Hflat1 : ev0 ++ [ELeader (next_height st1) (last_height st1)]
                   = flatten (xs0 ++ [ALeader (next_height st1) (last_height st1)])).
  { rewrite flatten_app, He0. reflexivity. }
  assert (Hcan1 : Forall canonical (xs0 ++ [ALeader (next_height st1) (last_height st1)])).
  { apply Forall_app. split; [exact Hc0 | repeat constructor]. }
  assert (Hno1 : ka1 k1 = false /\ kb k1 = false) by (split; congruence).
  destruct l as [| | |bs].
  - (* LErr *)
    exists (xs0 ++ [ALeader (next_height st1) (last_height st1)]), k1.
    repeat split; try assumption; try apply Hk1; intro; destruct Hno1; congruence.
  - (* LFollower *)
    exists (xs0 ++ [ALeader (next_height st1) (last_height st1)]), k1.
    repeat split; try assumption; try apply Hk1; intro; destruct Hno1; congruence.
  - (* LLeader *)
    destruct (next_time_trigger st1 clock) as [t|].
    + assert (Hdl1 : dl_spec r dl (now_i st1)) by (rewrite Hn1, Hnow0; exact Hdl).
      assert (Hop1 : open = is_open (trig st1)) by (rewrite Ht1, Htr0; exact Hopen).
      assert (Hsrc0 : (0 : N) <> 2) by discriminate.
      pose proof (produce_block_acts st1 signer t 0 dl fail 0 k1 open r Hk1 Hdl1 Hsrc0 Hop1) as Hp.
      destruct (produce_block st1 signer (next_height st1) t 0 dl fail 0) as [[[st2 ok] called] ev].
      destruct Hp as [xsp [k2 [Hep [Hcp [Hrp [Hk2 [Hadp [Hbp [Hap [Hcalled [Htr2 _]]]]]]]]]]].
      assert (HA : ka1 k2 = true ->
                   match db st0 with
                   | Some (dh, dt) => (last_height st0 <? dh) && (last_timestamp st0 <? dt)
                   | None => false
                   end = true).
      { intro H. rewrite Hap in H. destruct Hno1 as [Hz _]. rewrite Hz in H. cbn [orb] in H.
        apply Bool.andb_true_iff in H. destruct H as [Hcl Hbd]. unfold below_db_time in Hbd.
        apply Bool.andb_true_iff in Hbd. destruct Hbd as [Hadopt Hbd].
        destruct (k_resync_adopt k0 Had0 Hadopt) as [dh [dt [Hdbk Hlt]]].
        rewrite Hkdb1, Hdbk in Hbd. destruct Hk0 as [K1 [K2 [K3 K4]]].
        rewrite <- K4, Hdbk. specialize (Hcalled Hcl). rewrite Hlt1 in Hcalled.
        apply Bool.andb_true_iff. split; apply N.ltb_lt.
        - rewrite <- K1. exact Hlt.
        - apply N.ltb_lt in Hbd. eapply N.le_lt_trans; eassumption. }
      assert (HB : kb k2 = true -> False) by (intro H; destruct Hno1; congruence).
      destruct ok.
      * exists ((xs0 ++ [ALeader (next_height st1) (last_height st1)]) ++ xsp), k2.
        split; [flat He0 Hep|].
        split; [apply Forall_app; split; assumption|].
        split; [rewrite acts_run_app, Hrun1; exact Hrp|].
        split; [exact Hk2|]. split; [exact HA | intro H; destruct (HB H)].
      * exists ((xs0 ++ [ALeader (next_height st1) (last_height st1)]) ++ xsp ++ [ARelease]), k2.
        split; [flat He0 Hep|].
        split; [apply Forall_app; split; [assumption | apply Forall_app; split; [assumption | repeat constructor]]|].
        split; [rewrite acts_run_app, Hrun1, acts_run_app, Hrp; reflexivity|].
        split; [destruct Hk2 as [? [? [? ?]]]; repeat split; assumption|].
        split; [exact HA | intro H; destruct (HB H)].
    + exists ((xs0 ++ [ALeader (next_height st1) (last_height st1)]) ++ [ARelease]), k1.
      split; [flat He0 He0|].
      split; [apply Forall_app; split; [assumption | repeat constructor]|].
      split; [rewrite acts_run_app, Hrun1; reflexivity|].
      split; [destruct Hk1 as [? [? [? ?]]]; repeat split; assumption|].
      split; intro; destruct Hno1; congruence.
  - (* LBlocks *)
    assert (Hnh : 1 <= next_height st1) by (unfold next_height; clear; lia).
    pose proof (reconcile_acts bs (next_height st1) st1 k1 open r Hk1 Hnh) as Hrc.
    destruct (reconcile (next_height st1) st1 bs) as [st2 ev].
    destruct Hrc as [xsr [k2 [Her [Hcr [Hrr [Hk2 [Har Hbr]]]]]]].
    exists ((xs0 ++ [ALeader (next_height st1) (last_height st1)]) ++ xsr), k2.
    split; [flat He0 Her|].
    split; [apply Forall_app; split; assumption|].
    split; [rewrite acts_run_app, Hrun1; exact Hrr|].
    split; [exact Hk2|]. split; [intro; destruct Hno1; congruence|].
    intros Hkb Hbatch. cbn [leader_batch_okb] in Hbatch. rewrite Hbatch. cbn [andb].
    destruct (all_ok bs) eqn:Hall; [|reflexivity]. exfalso.
    assert (kb k2 = kb k1).
    { apply Hbr; [reflexivity|]. destruct bs as [|[[off t] ok] rest]; [exact Logic.I|].
      cbn [batch_okb] in Hbatch. apply Bool.andb_true_iff in Hbatch. destruct Hbatch as [Ho Hc].
      split; [exact Hc|]. destruct Hk1 as [K _]. unfold next_height. clear - K Ho. lia. }
    destruct Hno1. congruence.
Qed.

Lemma ClassA1_set_now : forall st n o, ClassA1 (set_now st n) o = ClassA1 st o.
Proof. intros st n [c s l f [[dd t]|] [pd|] | | | |]; reflexivity. Qed.

Lemma tick_acts : forall st clock signer l fail mid,
  trig st <> TNever ->
  let '(st', res, evs) := tick st clock signer l fail mid None in
  exists xs k',
    evs = flatten xs /\ Forall canonical xs /\
    acts_run (is_open (trig st)) (tick_rule st) (k_of st) xs = Some k' /\ krel k' st' /\
    (ka1 k' = true -> ClassA1 st (OTick clock signer l fail mid None) = true) /\
    (kb k' = true -> leader_batch_okb l = true -> ClassB st (OTick clock signer l fail mid None) = true).
Proof.
  intros st clock signer l fail mid Hn. unfold tick, tick_rule. cbv iota.
  destruct (trig st) as [| |bt|p] eqn:Et; [contradiction| | |].
  - apply (try_acts st clock signer l fail mid (now_i st) false DLNow); [reflexivity|].
    rewrite Et. reflexivity.
  - pose proof (try_acts (set_now st (Z.max (now_i st) (last_created st + ms bt)%Z)) clock signer l fail mid
                  (Z.max (now_i st) (last_created st + ms bt)%Z) false
                  (DLAt (Z.max (now_i st) (last_created st + ms bt)%Z))) as H.
    cbn [now_i set_now] in *. rewrite ClassA1_set_now in H.
    apply H; [split; reflexivity | cbn; rewrite Et; reflexivity].
  - apply (try_acts st clock signer l fail mid (last_created st + ms p)%Z true
             (DLOpen (last_created st + ms p)%Z (now_i st))); [split; reflexivity|].
    rewrite Et. reflexivity.
Qed.

Lemma replay_nil : forall open r b st st', krel (k_of st) st' -> replay_okb open r b st st' [] = 1.
Proof.
  intros. rewrite (replay_from_acts open r b st st' [] [] (k_of st)); try reflexivity;
    [constructor | assumption].
Qed.

Lemma manual_passes : forall st clock signer start m fail,
  let '(st', ok, ev) := produce_manual_blocks st signer start m fail in
  op_okb st (OManual clock signer start m fail) st' ev = 1.
Proof.
  intros st clock signer start m fail. unfold produce_manual_blocks.
  assert (Hnil : op_okb st (OManual clock signer start m fail) st [] = 1).
  { cbn [op_okb]. apply replay_nil. apply krel_of. }
  destruct (trig st) eqn:Et; try exact Hnil;
    (destruct (match start with Some t => Some t | None => next_time_manual st end) as [bt|];
     [|exact Hnil]);
    (assert (Ho : is_open (trig st) = false) by (rewrite Et; reflexivity));
    (destruct m as [n|];
     [ pose proof (manual_loop_acts (N.to_nat n) st signer bt fail 0 (k_of st) (krel_of st) eq_refl Ho) as H;
       destruct (manual_loop (N.to_nat n) st signer bt fail 0) as [[st' ok] ev];
       destruct H as [xs [k' [He [Hc [Hr [Hk [_ [Ha Hb]]]]]]]];
       cbn [op_okb]; rewrite (replay_from_acts _ _ true st st' ev xs k' He Hc Hr Hk);
       cbn [k_of ka1 kb] in Ha, Hb; rewrite Ha, Hb; reflexivity
     | pose proof (produce_block_acts st signer bt 1 (now_i st) fail 0 (k_of st) false DLNow
                     (krel_of st) eq_refl ltac:(discriminate) (eq_sym Ho)) as H;
       destruct (produce_block st signer (next_height st) bt 1 (now_i st) fail 0) as [[[st' ok] called] ev];
       destruct H as [xs [k' [He [Hc [Hr [Hk [_ [Hb [Ha _]]]]]]]]];
       cbn [op_okb]; rewrite (replay_from_acts _ _ true st st' ev xs k' He Hc Hr Hk);
       unfold below_db_time in Ha; cbn [k_of ka1 kb kadopt andb] in Ha, Hb;
       rewrite Bool.andb_false_r in Ha; cbn [orb] in Ha; rewrite Ha, Hb; reflexivity ]).
Qed.

(* Every operation of the model passes its own checker, or falls into one of the two finding
   classes with the corresponding failure code. *)
Lemma tick_pd_passes : forall st clock signer l fail mid delta,
  let '(post, res, evs) := tick st clock signer l fail mid (Some delta) in
  op_okb st (OTick clock signer l fail mid (Some delta)) post evs = 1.
Proof.
  intros st clock signer l fail mid delta. unfold tick.
  assert (Ht : last_timestamp st <= last_timestamp st + delta) by lia.
  pose proof (produce_predefined_acts st signer (last_timestamp st + delta) fail (k_of st)
                (is_open (trig st)) (tick_rule st) (krel_of st) Ht) as H.
  destruct (produce_predefined st signer (last_timestamp st + delta) fail) as [[st' ok] ev].
  destruct H as [xs [k' [He [Hc [Hr [Hk [Hb Ha]]]]]]].
  assert (G : replay_okb (is_open (trig st)) (tick_rule st) (leader_batch_okb l) st st' ev = 1).
  { rewrite (replay_from_acts _ _ (leader_batch_okb l) st st' ev xs k' He Hc Hr Hk).
    rewrite (Ha eq_refl), Hb. reflexivity. }
  cbn [op_okb]. destruct (trig st); exact G.
Qed.

Lemma step_refines_all : forall st o,
  let '(post, res, evs) := step st o in
  op_okb st o post evs = 1 \/
  (op_okb st o post evs = 2 /\ ClassA1 st o = true) \/
  (op_okb st o post evs = 3 /\ ClassB st o = true).
Proof.
  intros st o. destruct o as [clock signer l fail mid pd | clock signer start m fail | clock d t | d | mm];
    cbn [step].
  - (* tick *)
    destruct pd as [delta|].
    { pose proof (tick_pd_passes st clock signer l fail mid delta) as H.
      destruct (tick st clock signer l fail mid (Some delta)) as [[post res] evs]. left. exact H. }
    destruct (trig st) eqn:Et.
    + unfold tick. rewrite Et. left. cbn [op_okb]. rewrite Et. cbn [is_nil_ev andb].
      unfold same_prod_state. cbn. rewrite !N.eqb_refl, Z.eqb_refl.
      rewrite (proj2 (optNN_eqb_eq _ _) eq_refl). reflexivity.
    + assert (Hn : trig st <> TNever) by congruence.
      pose proof (tick_acts st clock signer l fail mid Hn) as H.
      destruct (tick st clock signer l fail mid None) as [[post res] evs].
      destruct H as [xs [k' [He [Hc [Hr [Hk [HA HB]]]]]]].
      cbn [op_okb]. rewrite Et. rewrite Et in Hr.
      rewrite (replay_from_acts _ _ (leader_batch_okb l) st post evs xs k' He Hc Hr Hk).
      destruct (ka1 k') eqn:Ea; [right; left; split; [reflexivity | apply HA; reflexivity]|].
      destruct (kb k') eqn:Eb; cbn [andb]; [|left; reflexivity].
      destruct (leader_batch_okb l) eqn:El; [|left; reflexivity].
      right. right. split; [reflexivity | apply HB; reflexivity].
    + assert (Hn : trig st <> TNever) by congruence.
      pose proof (tick_acts st clock signer l fail mid Hn) as H.
      destruct (tick st clock signer l fail mid None) as [[post res] evs].
      destruct H as [xs [k' [He [Hc [Hr [Hk [HA HB]]]]]]].
      cbn [op_okb]. rewrite Et. rewrite Et in Hr.
      rewrite (replay_from_acts _ _ (leader_batch_okb l) st post evs xs k' He Hc Hr Hk).
      destruct (ka1 k') eqn:Ea; [right; left; split; [reflexivity | apply HA; reflexivity]|].
      destruct (kb k') eqn:Eb; cbn [andb]; [|left; reflexivity].
      destruct (leader_batch_okb l) eqn:El; [|left; reflexivity].
      right. right. split; [reflexivity | apply HB; reflexivity].
    + assert (Hn : trig st <> TNever) by congruence.
      pose proof (tick_acts st clock signer l fail mid Hn) as H.
      destruct (tick st clock signer l fail mid None) as [[post res] evs].
      destruct H as [xs [k' [He [Hc [Hr [Hk [HA HB]]]]]]].
      cbn [op_okb]. rewrite Et. rewrite Et in Hr.
      rewrite (replay_from_acts _ _ (leader_batch_okb l) st post evs xs k' He Hc Hr Hk).
      destruct (ka1 k') eqn:Ea; [right; left; split; [reflexivity | apply HA; reflexivity]|].
      destruct (kb k') eqn:Eb; cbn [andb]; [|left; reflexivity].
      destruct (leader_batch_okb l) eqn:El; [|left; reflexivity].
      right. right. split; [reflexivity | apply HB; reflexivity].
  - (* manual *)
    pose proof (manual_passes st clock signer start m fail) as H.
    destruct (produce_manual_blocks st signer start m fail) as [[st' ok] ev]. left. exact H.
  - (* sync update *)
    cbv beta iota zeta. left. cbn [op_okb is_nil_ev andb]. unfold update_last_block_values, extract_block_info.
    destruct (last_height st <? last_height st + d - 1) eqn:E.
    + cbn. rewrite !N.eqb_refl. reflexivity.
    + unfold same_prod_state. rewrite !N.eqb_refl, Z.eqb_refl. reflexivity.
  - cbv beta iota zeta. left. cbn [op_okb is_nil_ev andb]. unfold same_prod_state.
    cbn [set_db last_height last_timestamp last_created].
    rewrite !N.eqb_refl, Z.eqb_refl. reflexivity.
  - cbv beta iota zeta. left. cbn [op_okb is_nil_ev andb]. unfold same_prod_state.
    cbn [set_now last_height last_timestamp last_created].
    rewrite !N.eqb_refl, Z.eqb_refl. reflexivity.
Qed.

Lemma step_passes_all : forall st o,
  ClassA1 st o = false -> ClassB st o = false ->
  op_okb st o (fst (fst (step st o))) (snd (step st o)) = 1.
Proof.
  intros st o HA HB. pose proof (step_refines_all st o) as H.
  destruct (step st o) as [[post res] evs]. cbn [fst snd].
  destruct H as [H | [[_ H] | [_ H]]]; [exact H | congruence | congruence].
Qed.
