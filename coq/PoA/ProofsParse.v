(* The log parser: parse and flatten are inverse on canonical action lists. *)
From FC Require Import PoA.Model.
From Coq Require Import ZifyBool ZifyN ZifyNat.
Open Scope N_scope.

(* unused fields of an action are zero and the stage is one of 0..3 *)
Definition canonical (x : action) : Prop :=
  match x with
  | AProduce _ _ _ _ _ _ g' a' stage =>
      (stage = 0 /\ g' = 0 /\ a' = 0%Z) \/ (stage = 1 /\ g' = 0 /\ a' = 0%Z) \/
      (stage = 2 /\ a' = 0%Z) \/ stage = 3
  | _ => True
  end.

Definition starts_inner (evs : list event) : bool :=
  match evs with
  | ESeal _ :: _ | ECommit _ _ _ _ :: _ | EImported _ _ _ _ :: _ => true
  | _ => false
  end.

Lemma flatten_cons : forall x xs, flatten (x :: xs) = flatten1 x ++ flatten xs.
Proof. reflexivity. Qed.

Lemma flatten_app : forall a b, flatten (a ++ b) = flatten a ++ flatten b.
Proof. intros. unfold flatten. apply flat_map_app. Qed.

Lemma flatten_starts : forall xs, starts_inner (flatten xs) = false.
Proof.
  destruct xs as [|x xs]; [reflexivity|]. rewrite flatten_cons.
  destruct x as [| | h t src dl a g g' a' stage | h t g [a|] |]; reflexivity.
Qed.

Lemma flatten1_nonempty : forall x, flatten1 x <> [].
Proof.
  destruct x as [| | h t src dl a g g' a' stage | h t g [a|] |]; cbn [flatten1]; discriminate.
Qed.

(* the one-step parser on one flattened canonical action followed by a log that does not start
   inside an action *)
Lemma parse1_flatten1 : forall x r,
  canonical x -> starts_inner r = false -> parse1 (flatten1 x ++ r) = Some (x, r).
Proof.
  intros x r Hc Hr.
  destruct x as [h g | h t a | h t src dl a g g' a' stage | h t g [a|] |]; cbn [flatten1 app].
  - reflexivity.
  - reflexivity.
  - cbn [canonical] in Hc.
    destruct Hc as [[-> [-> ->]] | [[-> [-> ->]] | [[-> ->] | ->]]].
    + change (N.to_nat (N.min 0 3)) with 0%nat. cbn [firstn app].
      destruct r as [|e r]; [reflexivity|]. destruct e; try discriminate; reflexivity.
    + change (N.to_nat (N.min 1 3)) with 1%nat. cbn [firstn app].
      destruct r as [|e r]; cbn [parse1]; rewrite ?N.eqb_refl; [reflexivity|].
      destruct e; try discriminate; cbn [parse1]; rewrite ?N.eqb_refl; reflexivity.
    + change (N.to_nat (N.min 2 3)) with 2%nat. cbn [firstn app].
      destruct r as [|e r]; cbn [parse1]; rewrite ?N.eqb_refl; cbn [andb]; [reflexivity|].
      destruct e; try discriminate; cbn [parse1]; rewrite ?N.eqb_refl; reflexivity.
    + change (N.to_nat (N.min 3 3)) with 3%nat. cbn [firstn app parse1].
      rewrite !N.eqb_refl. reflexivity.
  - cbn [parse1]. rewrite !N.eqb_refl. reflexivity.
  - destruct r as [|e r]; [reflexivity|]. destruct e; try discriminate; reflexivity.
  - reflexivity.
Qed.

Ltac split_conds :=
  repeat match goal with
         | H : (_ && _) = true |- _ => apply Bool.andb_true_iff in H; destruct H
         | H : (_ =? _) = true |- _ => apply N.eqb_eq in H
         | H : negb _ = true |- _ => apply Bool.negb_true_iff in H
         end.

Ltac leaf1 :=
  cbn [parse1] in *;
  repeat match goal with
         | H : (if ?c then _ else _) = Some _ |- _ => destruct c eqn:?; [|discriminate]
         end;
  match goal with
  | H : Some (_, _) = Some (_, _) |- _ =>
      injection H as <- <-; split_conds; subst;
      split; [reflexivity | split; [cbn [canonical]; auto 6 | cbn [length]; lia]]
  | H : None = Some _ |- _ => discriminate
  end.

(* the one-step parser returns an action whose flattening is the consumed prefix *)
Lemma parse1_sound : forall evs x r,
  parse1 evs = Some (x, r) ->
  evs = flatten1 x ++ r /\ canonical x /\ (length r < length evs)%nat.
Proof.
  intros evs x r H.
  destruct evs as [|e1 r1]; [discriminate|].
  destruct e1 as [h g | h t src dl a g | h | h t sl g | h t g | | h t lo a | h t a].
  - leaf1.
  - destruct r1 as [|e2 r2]; [leaf1|].
    destruct e2 as [? ? | ? ? ? ? ? ? | h1 | ? ? ? ? | ? ? ? | | ? ? ? ? | ? ? ?]; try leaf1.
    destruct r2 as [|e3 r3]; [leaf1|].
    destruct e3 as [? ? | ? ? ? ? ? ? | ? | h2 t2 sl2 g2 | ? ? ? | | ? ? ? ? | ? ? ?]; try leaf1.
    destruct r3 as [|e4 r4]; [leaf1|].
    destruct e4 as [? ? | ? ? ? ? ? ? | ? | ? ? ? ? | ? ? ? | | h3 t3 lo3 a3 | ? ? ?]; leaf1.
  - discriminate.
  - discriminate.
  - destruct r1 as [|e2 r2]; [leaf1|].
    destruct e2 as [? ? | ? ? ? ? ? ? | ? | ? ? ? ? | ? ? ? | | h1 t1 lo1 a1 | ? ? ?]; leaf1.
  - leaf1.
  - discriminate.
  - leaf1.
Qed.

Lemma parse_n_sound : forall n evs xs,
  parse_n n evs = Some xs -> flatten xs = evs /\ Forall canonical xs.
Proof.
  induction n as [|n IH]; intros evs xs H.
  - destruct evs; [|discriminate]. injection H as <-. split; [reflexivity | constructor].
  - destruct evs as [|e r]; [injection H as <-; split; [reflexivity | constructor]|].
    cbn [parse_n] in H. destruct (parse1 (e :: r)) as [[x r']|] eqn:Hp; [|discriminate].
    destruct (parse_n n r') as [ys|] eqn:Hn; [|discriminate]. injection H as <-.
    destruct (parse1_sound _ _ _ Hp) as [He [Hc _]]. destruct (IH _ _ Hn) as [Hf Hcs].
    split; [rewrite flatten_cons, Hf; symmetry; exact He | constructor; assumption].
Qed.

Lemma parse_n_flatten : forall xs n,
  Forall canonical xs -> (length (flatten xs) <= n)%nat -> parse_n n (flatten xs) = Some xs.
Proof.
  induction xs as [|x xs IH]; intros n Hc Hl.
  - destruct n; reflexivity.
  - inversion Hc as [|? ? Hx Hxs]; subst. rewrite flatten_cons in *.
    pose proof (flatten1_nonempty x) as Hne.
    destruct (flatten1 x ++ flatten xs) as [|e r] eqn:E.
    { destruct (flatten1 x); [contradiction | discriminate]. }
    destruct n as [|n]; [cbn in Hl; lia|].
    cbn [parse_n]. rewrite <- E, (parse1_flatten1 x (flatten xs) Hx (flatten_starts xs)).
    rewrite IH; [reflexivity | assumption |].
    assert (length (flatten1 x ++ flatten xs) = length (e :: r)) by (rewrite E; reflexivity).
    rewrite app_length in H. cbn [length] in *.
    assert (length (flatten1 x) > 0)%nat by (destruct (flatten1 x); [contradiction | cbn; lia]).
    lia.
Qed.

Lemma parse_iff : forall evs xs,
  parse evs = Some xs <-> evs = flatten xs /\ Forall canonical xs.
Proof.
  intros evs xs. unfold parse. split.
  - intro H. destruct (parse_n_sound _ _ _ H) as [Hf Hc]. split; [symmetry|]; assumption.
  - intros [-> Hc]. apply parse_n_flatten; [exact Hc | lia].
Qed.
