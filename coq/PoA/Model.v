(* Executable model of the PoA block production task:
     crates/services/consensus_module/poa/src/service.rs
       MainTask::{extract_block_info, next_height, next_time, produce_next_block,
                  produce_manual_blocks, produce_block, update_last_block_values,
                  try_to_produce_block, handle_normal_block_production, error_retry_delay},
       RunnableTask::run (choice of the production deadline), increase_time.
   Ports (producer, signer, importer, reconciliation) are scripted outcomes carried by the
   operation; the wall clock (GetTime) is an input of every operation; the monotonic clock
   (tokio Instant, milliseconds) is part of the state and moves by sleeps and by OAdvance.
   The database behind the importer port is the environment component [db].
   No proofs in this file. *)
From FC Require Export Common.T.
Open Scope N_scope.

Inductive trigger := TNever | TInstant | TInterval (block_time : N) | TOpen (period : N).

Record mstate := {
  last_height : N;
  last_timestamp : N;          (* Tai64 seconds *)
  last_created : Z;            (* last_block_created, ms on the monotonic clock *)
  trig : trigger;
  now_i : Z;                   (* Instant::now(), ms *)
  db : option (N * N)          (* latest block of the database: (height, time) *)
}.

Definition upd (st : mstate) (h t : N) (c : Z) : mstate :=
  {| last_height := h; last_timestamp := t; last_created := c; trig := trig st;
     now_i := now_i st; db := db st |}.
Definition set_height (st : mstate) (h : N) : mstate :=
  upd st h (last_timestamp st) (last_created st).
Definition set_now (st : mstate) (n : Z) : mstate :=
  {| last_height := last_height st; last_timestamp := last_timestamp st;
     last_created := last_created st; trig := trig st; now_i := n; db := db st |}.
Definition set_db (st : mstate) (d : option (N * N)) : mstate :=
  {| last_height := last_height st; last_timestamp := last_timestamp st;
     last_created := last_created st; trig := trig st; now_i := now_i st; db := d |}.

(* the mock database keeps the highest block it was given *)
Definition db_up (d : option (N * N)) (h t : N) : option (N * N) :=
  match d with
  | Some (dh, dt) => if dh <? h then Some (h, t) else d
  | None => Some (h, t)
  end.

Definition ms (secs : N) : Z := (1000 * Z.of_N secs)%Z.

(* extract_block_info: (height, time, Instant::now() - (now - time) seconds) *)
Definition extract_block_info (clock : N) (h t : N) (now : Z) : N * N * Z :=
  (h, t, (now - ms (clock - t))%Z).

Definition increase_time (t secs : N) : option N := checked_add u64max t secs.

(* last_block_created.elapsed().as_secs() (saturating at zero) *)
Definition elapsed_secs (st : mstate) : N := Z.to_N ((now_i st - last_created st) / 1000)%Z.

Definition next_time_manual (st : mstate) : option N :=
  match trig st with
  | TNever | TInstant => increase_time (last_timestamp st) (elapsed_secs st)
  | TInterval bt => increase_time (last_timestamp st) bt
  | TOpen p => increase_time (last_timestamp st) p
  end.

Definition next_time_trigger (st : mstate) (clock : N) : option N :=
  match trig st with
  | TOpen p =>
      match increase_time (last_timestamp st) p with
      | None => None
      | Some e => Some (if e <? clock then clock else e)
      end
  | _ => if last_timestamp st <? clock then Some clock else next_time_manual st
  end.

(* port calls; the last field [known] of a request is a ghost: last_height when it was made *)
Inductive event :=
| ELeader (h : N) (known : N)
| EProduce (h time src : N) (deadline at_ : Z) (known : N)
| ESeal (h : N)
| ECommit (h time : N) (sealed : bool) (known : N)
| EExec (h time : N) (known : N)
| ERelease.

Definition fail_is (fail : option (N * N)) (idx stage : N) : bool :=
  match fail with Some (i, s) => (i =? idx) && (s =? stage) | None => false end.

(* produce_block; idx = number of producer calls made before in this operation.
   Returns (state, succeeded, producer called, events) *)
Definition produce_block (st : mstate) (signer : bool) (h time src : N) (deadline : Z)
           (fail : option (N * N)) (idx : N) : mstate * bool * bool * list event :=
  let created := now_i st in
  if negb signer then (st, false, false, [])
  else if time <? last_timestamp st then (st, false, false, [])
  else
    let e1 := EProduce h time src deadline (now_i st) (last_height st) in
    if fail_is fail idx 0 then (st, false, true, [e1])
    else
      let st1 := set_now st (Z.max (now_i st) deadline) in       (* sleep_until(deadline) *)
      if fail_is fail idx 1 then (st1, false, true, [e1; ESeal h])
      else
        let e3 := ECommit h time true (last_height st) in
        if fail_is fail idx 2 then (st1, false, true, [e1; ESeal h; e3])
        else
          let c := match trig st with TOpen _ => Z.max deadline created | _ => created end in
          (set_db (upd st1 h time c) (db_up (db st1) h time), true, true, [e1; ESeal h; e3]).

Definition next_height (st : mstate) : N := last_height st + 1.

(* Mode::Blocks: the loop of produce_manual_blocks; Some = Ok, None = Err *)
Fixpoint manual_loop (n : nat) (st : mstate) (signer : bool) (block_time : N)
         (fail : option (N * N)) (idx : N) : mstate * bool * list event :=
  match n with
  | O => (st, true, [])
  | S n' =>
      let '(st1, ok, called, ev) := produce_block st signer (next_height st) block_time 0 (now_i st) fail idx in
      if negb ok then (st1, false, ev)
      else match next_time_manual st1 with
           | None => (st1, false, ev)
           | Some bt' =>
               let '(st2, ok2, ev2) := manual_loop n' st1 signer bt' fail (idx + 1) in
               (st2, ok2, ev ++ ev2)
           end
  end.

Inductive mode := MBlocks (n : N) | MWithTxs.

Definition produce_manual_blocks (st : mstate) (signer : bool) (start : option N) (m : mode)
           (fail : option (N * N)) : mstate * bool * list event :=
  match trig st with
  | TOpen _ => (st, false, [])
  | _ =>
      match (match start with Some t => Some t | None => next_time_manual st end) with
      | None => (st, false, [])
      | Some block_time =>
          match m with
          | MBlocks n => manual_loop (N.to_nat n) st signer block_time fail 0
          | MWithTxs =>
              let '(st1, ok, _, ev) := produce_block st signer (next_height st) block_time 1 (now_i st) fail 0 in
              (st1, ok, ev)
          end
      end
  end.

Definition error_retry_delay (st : mstate) : N :=
  match trig st with TInterval bt => bt | TOpen p => p | _ => 1 end.

(* the DB-height resync: the height is adopted, the timestamp is not *)
Definition resync (st : mstate) : mstate :=
  match db st with
  | Some (dh, _) => if last_height st <? dh then set_height st dh else st
  | None => st
  end.

Inductive leader := LErr | LFollower | LLeader | LBlocks (bs : list (N * N * bool)).

(* batch entries are (offset, time, import outcome): the block's height is nh + offset - 1
   where nh is the height asked from the reconciliation port *)
Fixpoint reconcile (nh : N) (st : mstate) (bs : list (N * N * bool)) : mstate * list event :=
  match bs with
  | [] => (st, [])
  | (off, t, ok) :: r =>
      let h := nh + off - 1 in
      if h <=? last_height st then reconcile nh st r
      else
        let e := EExec h t (last_height st) in
        let st1 := if ok then set_db (upd st h t (last_created st)) (db_up (db st) h t)
                   else resync st in
        let '(st2, ev) := reconcile nh st1 r in (st2, e :: ev)
  end.

(* results of an operation *)
Inductive result := RContinue | RErrorContinue | RBlocked | ROkManual | RErrManual | RNone.

Definition try_to_produce_block (st : mstate) (clock : N) (signer : bool) (l : leader)
           (fail : option (N * N)) (deadline : Z) : mstate * result * list event :=
  let st1 := resync st in
  let e0 := ELeader (next_height st1) (last_height st1) in
  match l with
  | LErr => (st1, RErrorContinue, [e0])
  | LFollower => (set_now st1 (Z.max (now_i st1) deadline), RContinue, [e0])
  | LLeader =>
      let '(st2, ok, ev) :=
        match next_time_trigger st1 clock with
        | None => (st1, false, [])
        | Some t =>
            let '(s, ok, _, ev) := produce_block st1 signer (next_height st1) t 0 deadline fail 0 in
            (s, ok, ev)
        end in
      if ok then (st2, RContinue, e0 :: ev)
      else (set_now st2 (now_i st2 + ms (error_retry_delay st2))%Z, RErrorContinue,
            e0 :: ev ++ [ERelease])
  | LBlocks bs =>
      let '(st2, ev) := reconcile (next_height st1) st1 bs in (st2, RContinue, e0 :: ev)
  end.

(* one iteration of RunnableTask::run taking the production branch *)
Definition tick (st : mstate) (clock : N) (signer : bool) (l : leader) (fail : option (N * N))
  : mstate * result * list event :=
  match trig st with
  | TNever => (st, RBlocked, [])
  | TInstant => try_to_produce_block st clock signer l fail (now_i st)
  | TInterval bt =>
      let target := (last_created st + ms bt)%Z in
      let st' := set_now st (Z.max (now_i st) target) in
      try_to_produce_block st' clock signer l fail (now_i st')
  | TOpen p => try_to_produce_block st clock signer l fail (last_created st + ms p)%Z
  end.

Definition update_last_block_values (st : mstate) (clock h t : N) : mstate :=
  let '(h', t', c') := extract_block_info clock h t (now_i st) in
  if last_height st <? h' then upd st h' t' c' else st.

Inductive op :=
| OTick (clock : N) (signer : bool) (l : leader) (fail : option (N * N))
| OManual (clock : N) (signer : bool) (start : option N) (m : mode) (fail : option (N * N))
| OSync (clock delta t : N)            (* height = last_height + delta - 1 *)
| ODb (d : option (N * N))
| OAdvance (millis : N).

Definition step (st : mstate) (o : op) : mstate * result * list event :=
  match o with
  | OTick clock signer l fail => tick st clock signer l fail
  | OManual _ signer start m fail =>
      let '(st', ok, ev) := produce_manual_blocks st signer start m fail in
      (st', if ok then ROkManual else RErrManual, ev)
  | OSync clock d t => (update_last_block_values st clock (last_height st + d - 1) t, RNone, [])
  | ODb d => (set_db st (match d with Some (dd, t) => Some (last_height st + dd - 1, t) | None => None end),
              RNone, [])
  | OAdvance m => (set_now st (now_i st + Z.of_N m)%Z, RNone, [])
  end.

Fixpoint run (st : mstate) (ops : list op) : list (mstate * result * list event) :=
  match ops with
  | [] => []
  | o :: r => let '(st', res, ev) := step st o in (st', res, ev) :: run st' r
  end.

(* MainTask::new + into_task *)
Definition init (tr : trigger) (h0 t0 clock0 : N) : mstate :=
  {| last_height := h0; last_timestamp := t0;
     last_created := match tr with
                     | TInterval _ | TOpen _ => 0%Z
                     | _ => (0 - ms (clock0 - t0))%Z
                     end;
     trig := tr; now_i := 0%Z; db := Some (h0, t0) |}.

(* ------------------------------------------------------------------ *)
(* Pcheck: decidable local properties of one observed operation        *)

Definition is_request (e : event) : bool :=
  match e with EProduce _ _ _ _ _ _ | ESeal _ | ECommit _ _ _ _ => true | _ => false end.

(* every commit_result is directly preceded by the seal of the same block, which is directly
   preceded by its production; the committed block carries the seal *)
Fixpoint seal_order_okb (evs : list event) : bool :=
  match evs with
  | [] => true
  | EProduce h t _ _ _ _ :: ESeal h1 :: ECommit h2 t2 sealed _ :: r =>
      (h =? h1) && (h =? h2) && (t =? t2) && sealed && seal_order_okb r
  | EProduce h t _ _ _ _ :: ESeal h1 :: r => (h =? h1) && seal_order_okb r
  | EProduce _ _ _ _ _ _ :: r => seal_order_okb r
  | ESeal _ :: _ => false
  | ECommit _ _ _ _ :: _ => false
  | _ :: r => seal_order_okb r
  end.

(* heights of produce requests go up by one from [h]+1, times never go below [t] and never
   decrease; returns the failure class: 1 ok, 0 height/time wrong *)
Fixpoint produce_chain_okb (h t : N) (evs : list event) : bool :=
  match evs with
  | [] => true
  | EProduce h' t' _ _ _ _ :: r => (h' =? h + 1) && (t <=? t') && produce_chain_okb h' t' r
  | ELeader h' _ :: r => (h' =? h + 1) && produce_chain_okb h t r
  | _ :: r => produce_chain_okb h t r
  end.

(* block times requested are not below the time of the database's latest block *)
Definition db_time_okb (d : option (N * N)) (evs : list event) : bool :=
  match d with
  | None => true
  | Some (_, dt) =>
      forallb (fun e => match e with EProduce _ t _ _ _ _ => dt <=? t | _ => true end) evs
  end.

(* reconciliation imports: every execute_and_commit is for the height after the latest known
   one, where the known height follows the script of import outcomes; returns the class *)
Fixpoint exec_chain_okb (nh h : N) (d : option N) (bs : list (N * N * bool)) (evs : list event) : bool :=
  match evs with
  | [] => true
  | EExec h' t' _ :: r =>
      let ok := existsb (fun b => match b with (off, bt, bok) => (nh + off - 1 =? h') && (bt =? t') && bok end) bs in
      (h' =? h + 1) &&
      (if ok then exec_chain_okb nh h' (match d with Some dh => Some (N.max dh h') | None => Some h' end) bs r
       else exec_chain_okb nh (match d with Some dh => N.max h dh | None => h end) d bs r)
  | _ :: r => exec_chain_okb nh h d bs r
  end.

(* contract of the reconciliation port: consecutive blocks, the first not above the asked height *)
Fixpoint batch_consecutive (prev : N) (bs : list (N * N * bool)) : bool :=
  match bs with
  | [] => true
  | (off, _, _) :: r => (off =? prev + 1) && batch_consecutive off r
  end.
Definition batch_okb (bs : list (N * N * bool)) : bool :=
  match bs with
  | [] => true
  | (off, _, _) :: r => (off <=? 1) && batch_consecutive off r
  end.

Definition has_commit_or_exec (evs : list event) : bool :=
  existsb (fun e => match e with ECommit _ _ _ _ | EExec _ _ _ => true | _ => false end) evs.

Definition deadline_okb (st : mstate) (evs : list event) : bool :=
  match trig st with
  | TInterval bt =>
      let dl := Z.max (now_i st) (last_created st + ms bt)%Z in
      forallb (fun e => match e with EProduce _ _ _ d a _ => (d =? dl)%Z && (a =? dl)%Z | _ => true end) evs
  | TOpen p =>
      forallb (fun e => match e with EProduce _ _ _ d _ _ => (d =? last_created st + ms p)%Z | _ => true end) evs
  | _ => true
  end.

Definition same_prod_state (a b : mstate) : bool :=
  (last_height a =? last_height b) && (last_timestamp a =? last_timestamp b) &&
  (last_created a =? last_created b)%Z.

Definition db_height (st : mstate) : option N :=
  match db st with Some (h, _) => Some h | None => None end.

Definition is_nil_ev (evs : list event) : bool := match evs with [] => true | _ => false end.

(* classes: 1 holds; 2 the DB-height resync adopted the database height and a block time below the
   database's latest block time was requested; 3 a reconciliation import (batch within the port
   contract) requested for a height that is not the next one; 0 anything else *)
Definition op_okb (pre : mstate) (o : op) (post : mstate) (evs : list event) : N :=
  match o with
  | OTick _ _ l _ =>
      let base := resync pre in
      if (match trig pre with TNever => true | _ => false end)
      then (if is_nil_ev evs && same_prod_state pre post then 1 else 0)
      else
      if negb (seal_order_okb evs && produce_chain_okb (last_height base) (last_timestamp pre) evs &&
               deadline_okb pre evs &&
               (has_commit_or_exec evs || same_prod_state base post) &&
               (last_height pre <=? last_height post)) then 0
      else if negb (last_height pre =? last_height base) && negb (db_time_okb (db pre) evs) then 2
      else match l with
           | LBlocks bs =>
               if batch_okb bs && negb (exec_chain_okb (last_height base + 1) (last_height base)
                                          (db_height pre) bs evs) then 3 else 1
           | _ => 1
           end
  | OManual _ _ _ _ _ =>
      if negb (seal_order_okb evs && produce_chain_okb (last_height pre) (last_timestamp pre) evs &&
               (has_commit_or_exec evs || same_prod_state pre post) &&
               (last_height pre <=? last_height post)) then 0
      else 1
  | OSync _ d t =>
      let h := last_height pre + d - 1 in
      if is_nil_ev evs && (if last_height pre <? h then (last_height post =? h) && (last_timestamp post =? t)
                           else same_prod_state pre post) then 1 else 0
  | _ => if is_nil_ev evs && same_prod_state pre post then 1 else 0
  end.

(* first failing class over a whole observed trace *)
Fixpoint trace_okb (pre : mstate) (ops : list op) (obs : list (mstate * result * list event)) : N :=
  match ops, obs with
  | [], [] => 1
  | o :: ops', (post, _, evs) :: obs' =>
      match op_okb pre o post evs with
      | 1 => trace_okb post ops' obs'
      | c => c
      end
  | _, _ => 0
  end.

(* ------------------------------------------------------------------ *)
(* T codecs and entry point                                            *)

Definition tZ (z : Z) : T := I z.

Definition T_trigger (t : T) : option trigger :=
  match t with
  | L [I 0%Z] => Some TNever
  | L [I 1%Z] => Some TInstant
  | L [I 2%Z; b] => option_map TInterval (getN b)
  | L [I 3%Z; p] => option_map TOpen (getN p)
  | _ => None
  end.

Definition T_pair (t : T) : option (N * N) :=
  match t with
  | L [a; b] => match getN a, getN b with Some a, Some b => Some (a, b) | _, _ => None end
  | _ => None
  end.

Definition T_opt_pair (t : T) : option (option (N * N)) :=
  match t with
  | L [] => Some None
  | _ => option_map Some (T_pair t)
  end.

Definition T_blk (t : T) : option (N * N * bool) :=
  match t with
  | L [h; tm; ok] => match getN h, getN tm, getB ok with
                     | Some h, Some tm, Some ok => Some (h, tm, ok) | _, _, _ => None end
  | _ => None
  end.

Definition T_leader (t : T) : option leader :=
  match t with
  | L [I 0%Z] => Some LErr
  | L [I 1%Z] => Some LFollower
  | L [I 2%Z] => Some LLeader
  | L [I 3%Z; L bs] => option_map LBlocks (mapM T_blk bs)
  | _ => None
  end.

Definition T_mode (t : T) : option mode :=
  match t with
  | L [I 0%Z; n] => option_map MBlocks (getN n)
  | L [I 1%Z] => Some MWithTxs
  | _ => None
  end.

Definition T_op (t : T) : option op :=
  match t with
  | L [I 0%Z; c; s; l; f] =>
      match getN c, getB s, T_leader l, T_opt_pair f with
      | Some c, Some s, Some l, Some f => Some (OTick c s l f) | _, _, _, _ => None end
  | L [I 1%Z; c; s; st; m; f] =>
      match getN c, getB s, getOptN st, T_mode m, T_opt_pair f with
      | Some c, Some s, Some st, Some m, Some f => Some (OManual c s st m f)
      | _, _, _, _, _ => None end
  | L [I 2%Z; c; h; tm] =>
      match getN c, getN h, getN tm with
      | Some c, Some h, Some tm => Some (OSync c h tm) | _, _, _ => None end
  | L [I 3%Z; d] => option_map ODb (T_opt_pair d)
  | L [I 4%Z; m] => option_map OAdvance (getN m)
  | _ => None
  end.

Definition result_T (r : result) : T :=
  match r with
  | RContinue => L [I 0] | RErrorContinue => L [I 1] | RBlocked => L [I 3]
  | ROkManual => L [I 0] | RErrManual => L [I 1] | RNone => L []
  end.

Definition event_T (e : event) : T :=
  match e with
  | ELeader h _ => L [I 0; tN h]
  | EProduce h t s d a _ => L [I 1; tN h; tN t; tN s; tZ d; tZ a]
  | ESeal h => L [I 2; tN h]
  | ECommit h t s _ => L [I 3; tN h; tN t; tB s]
  | EExec h t _ => L [I 4; tN h; tN t]
  | ERelease => L [I 5]
  end.

Definition T_event (t : T) : option event :=
  match t with
  | L [I 0%Z; h] => option_map (fun h => ELeader h 0) (getN h)
  | L [I 1%Z; h; tm; s; d; a] =>
      match getN h, getN tm, getN s, getZ d, getZ a with
      | Some h, Some tm, Some s, Some d, Some a => Some (EProduce h tm s d a 0)
      | _, _, _, _, _ => None end
  | L [I 2%Z; h] => option_map ESeal (getN h)
  | L [I 3%Z; h; tm; s] =>
      match getN h, getN tm, getB s with
      | Some h, Some tm, Some s => Some (ECommit h tm s 0) | _, _, _ => None end
  | L [I 4%Z; h; tm] =>
      match getN h, getN tm with Some h, Some tm => Some (EExec h tm 0) | _, _ => None end
  | L [I 5%Z] => Some ERelease
  | _ => None
  end.

Definition state_T (st : mstate) : T :=
  L [tN (last_height st); tN (last_timestamp st); tZ (last_created st); tZ (now_i st);
     match db st with None => L [] | Some (h, t) => L [tN h; tN t] end].

Definition T_state (tr : trigger) (t : T) : option mstate :=
  match t with
  | L [h; tm; c; n; d] =>
      match getN h, getN tm, getZ c, getZ n, T_opt_pair d with
      | Some h, Some tm, Some c, Some n, Some d =>
          Some {| last_height := h; last_timestamp := tm; last_created := c; trig := tr;
                  now_i := n; db := d |}
      | _, _, _, _, _ => None end
  | _ => None
  end.

Definition T_obs (tr : trigger) (t : T) : option (mstate * result * list event) :=
  match t with
  | L [_; s; L evs] =>
      match T_state tr s, mapM T_event evs with
      | Some s, Some evs => Some (s, RNone, evs)
      | _, _ => None end
  | _ => None
  end.

Definition obs_T (x : mstate * result * list event) : T :=
  let '(st, r, ev) := x in L [result_T r; state_T st; L (map event_T ev)].

(* input: (trigger (h0 t0) clock0 ops) *)
Definition main24 (input observed : T) : T :=
  match input with
  | L [tr; ht; c0; L ops] =>
      match T_trigger tr, T_pair ht, getN c0, mapM T_op ops with
      | Some tr, Some (h0, t0), Some c0, Some ops =>
          let st0 := init tr h0 t0 c0 in
          let model := L (L [L []; state_T st0; L []] :: map obs_T (run st0 ops)) in
          let pc := match observed with
                    | L (first :: rest) =>
                        match T_obs tr first, mapM (T_obs tr) rest with
                        | Some (pre, _, _), Some rest => trace_okb pre ops rest
                        | _, _ => 0
                        end
                    | _ => 0
                    end in
          L [model; tN pc]
      | _, _, _, _ => tErr 2
      end
  | _ => tErr 1
  end.

Definition main_T (req : T) : T :=
  match req with
  | L [I 24%Z; input; observed] => main24 input observed
  | _ => tErr 0
  end.
