(* Executable model of the PoA block production task and its sync task:
     crates/services/consensus_module/poa/src/service.rs
       MainTask::{extract_block_info, next_height, next_time, produce_next_block,
                  produce_manual_blocks, produce_block, update_last_block_values, ensure_synced,
                  try_to_produce_block, handle_normal_block_production, error_retry_delay},
       RunnableTask::run (choice of the production deadline), increase_time.
     crates/services/consensus_module/poa/src/sync.rs
       SyncTask::{new, run, update_sync_state, restart_timer}, InnerSyncState, SyncState.
   Ports (producer, signer, importer, reconciliation) are scripted outcomes carried by the
   operation; the wall clock (GetTime) is an input of every operation; the monotonic clock
   (tokio Instant, milliseconds) is part of the state and moves by sleeps and by OAdvance.
   The database behind the importer port is the environment component [db]; the importer
   announces every imported block on block_stream (event EImported / EP2p), which is what the
   sync task consumes.
   No proofs in this file. *)
From FC Require Export Common.T.
Open Scope N_scope.

Inductive trigger := TNever | TInstant | TInterval (block_time : N) | TOpen (period : N).

Record mstate := {
  last_height : N;
  last_timestamp : N;          (* Tai64 seconds *)
  last_created : Z;            (* last_block_created, ms on the monotonic clock *)
  trig : trigger;
  now_i : Z;                   (* Instant::now(), ms *)
  db : option (N * N)          (* latest block of the database: (height, time) *)
}.

Definition upd (st : mstate) (h t : N) (c : Z) : mstate :=
  {| last_height := h; last_timestamp := t; last_created := c; trig := trig st;
     now_i := now_i st; db := db st |}.
Definition set_height (st : mstate) (h : N) : mstate :=
  upd st h (last_timestamp st) (last_created st).
Definition set_now (st : mstate) (n : Z) : mstate :=
  {| last_height := last_height st; last_timestamp := last_timestamp st;
     last_created := last_created st; trig := trig st; now_i := n; db := db st |}.
Definition set_db (st : mstate) (d : option (N * N)) : mstate :=
  {| last_height := last_height st; last_timestamp := last_timestamp st;
     last_created := last_created st; trig := trig st; now_i := now_i st; db := d |}.

(* the database keeps the highest block it was given *)
Definition db_up (d : option (N * N)) (h t : N) : option (N * N) :=
  match d with
  | Some (dh, dt) => if dh <? h then Some (h, t) else d
  | None => Some (h, t)
  end.

Definition ms (secs : N) : Z := (1000 * Z.of_N secs)%Z.

(* extract_block_info: (height, time, Instant::now() - (now - time) seconds) *)
Definition extract_block_info (clock : N) (h t : N) (now : Z) : N * N * Z :=
  (h, t, (now - ms (clock - t))%Z).

Definition increase_time (t secs : N) : option N := checked_add u64max t secs.

(* last_block_created.elapsed().as_secs() (saturating at zero) *)
Definition elapsed_secs (st : mstate) : N := Z.to_N ((now_i st - last_created st) / 1000)%Z.

Definition next_time_manual (st : mstate) : option N :=
  match trig st with
  | TNever | TInstant => increase_time (last_timestamp st) (elapsed_secs st)
  | TInterval bt => increase_time (last_timestamp st) bt
  | TOpen p => increase_time (last_timestamp st) p
  end.

Definition next_time_trigger (st : mstate) (clock : N) : option N :=
  match trig st with
  | TOpen p =>
      match increase_time (last_timestamp st) p with
      | None => None
      | Some e => Some (if e <? clock then clock else e)
      end
  | _ => if last_timestamp st <? clock then Some clock else next_time_manual st
  end.

(* port calls and importer announcements; the last field [known] of a request is a ghost:
   last_height when the request was made *)
Inductive event :=
| ELeader (h : N) (known : N)                              (* leader_state(next_height) *)
| EProduce (h time src : N) (deadline at_ : Z) (known : N) (* produce_and_execute_block *)
| ESeal (h : N)                                            (* seal_block *)
| ECommit (h time : N) (sealed : bool) (known : N)         (* commit_result *)
| EExec (h time : N) (known : N)                           (* execute_and_commit *)
| ERelease                                                 (* reconciliation release *)
| EImported (h time : N) (local : bool) (at_ : Z)          (* the importer announced the block *)
| EP2p (h time : N) (at_ : Z).                             (* a block imported by another path *)

Definition fail_is (fail : option (N * N)) (idx stage : N) : bool :=
  match fail with Some (i, s) => (i =? idx) && (s =? stage) | None => false end.

(* production_timeout of the harness configuration, and the delay of a slow producer *)
Definition production_timeout_ms : Z := 20000%Z.
Definition slow_producer_ms : Z := 1500%Z.

(* produce_block; idx = number of producer calls made before in this operation; stages of the
   failure script: 0 producer error, 1 seal error, 2 commit error, 3 the producer does not answer
   within production_timeout, 4 the producer answers after slow_producer_ms (no failure).
   Returns (state, succeeded, producer called, events) *)
Definition produce_block (st : mstate) (signer : bool) (h time src : N) (deadline : Z)
           (fail : option (N * N)) (idx : N) : mstate * bool * bool * list event :=
  let created := now_i st in
  if negb signer then (st, false, false, [])
  else if time <? last_timestamp st then (st, false, false, [])
  else
    let e1 := EProduce h time src deadline (now_i st) (last_height st) in
    if fail_is fail idx 0 then (st, false, true, [e1])
    else if fail_is fail idx 3 then (set_now st (now_i st + production_timeout_ms)%Z, false, true, [e1])
    else
      let st0 := if fail_is fail idx 4 then set_now st (now_i st + slow_producer_ms)%Z else st in
      let st1 := set_now st0 (Z.max (now_i st0) deadline) in       (* sleep_until(deadline) *)
      if fail_is fail idx 1 then (st1, false, true, [e1; ESeal h])
      else
        let e3 := ECommit h time true (last_height st) in
        if fail_is fail idx 2 then (st1, false, true, [e1; ESeal h; e3])
        else
          let c := match trig st with TOpen _ => Z.max deadline created | _ => created end in
          (set_db (upd st1 h time c) (db_up (db st1) h time), true, true,
           [e1; ESeal h; e3; EImported h time true (now_i st1)]).

(* produce_predefined_block: the block stored for the next height (time t) is executed, sealed
   and committed; no timestamp check, no deadline; source code 2 in the produce event *)
Definition produce_predefined (st : mstate) (signer : bool) (t : N) (fail : option (N * N))
  : mstate * bool * list event :=
  let created := now_i st in
  let h := last_height st + 1 in
  if negb signer then (st, false, [])
  else
    let e1 := EProduce h t 2 (now_i st) (now_i st) (last_height st) in
    if fail_is fail 0 0 then (st, false, [e1])
    else if fail_is fail 0 1 then (st, false, [e1; ESeal h])
    else
      let e3 := ECommit h t true (last_height st) in
      if fail_is fail 0 2 then (st, false, [e1; ESeal h; e3])
      else (set_db (upd st h t created) (db_up (db st) h t), true,
            [e1; ESeal h; e3; EImported h t true (now_i st)]).

Definition next_height (st : mstate) : N := last_height st + 1.

(* Mode::Blocks: the loop of produce_manual_blocks *)
Fixpoint manual_loop (n : nat) (st : mstate) (signer : bool) (block_time : N)
         (fail : option (N * N)) (idx : N) : mstate * bool * list event :=
  match n with
  | O => (st, true, [])
  | S n' =>
      let '(st1, ok, called, ev) := produce_block st signer (next_height st) block_time 0 (now_i st) fail idx in
      if negb ok then (st1, false, ev)
      else match next_time_manual st1 with
           | None => (st1, false, ev)
           | Some bt' =>
               let '(st2, ok2, ev2) := manual_loop n' st1 signer bt' fail (idx + 1) in
               (st2, ok2, ev ++ ev2)
           end
  end.

Inductive mode := MBlocks (n : N) | MWithTxs.

Definition produce_manual_blocks (st : mstate) (signer : bool) (start : option N) (m : mode)
           (fail : option (N * N)) : mstate * bool * list event :=
  match trig st with
  | TOpen _ => (st, false, [])
  | _ =>
      match (match start with Some t => Some t | None => next_time_manual st end) with
      | None => (st, false, [])
      | Some block_time =>
          match m with
          | MBlocks n => manual_loop (N.to_nat n) st signer block_time fail 0
          | MWithTxs =>
              let '(st1, ok, _, ev) := produce_block st signer (next_height st) block_time 1 (now_i st) fail 0 in
              (st1, ok, ev)
          end
      end
  end.

Definition error_retry_delay (st : mstate) : N :=
  match trig st with TInterval bt => bt | TOpen p => p | _ => 1 end.

(* the DB-height resync: the height is adopted, the timestamp is not *)
Definition resync (st : mstate) : mstate :=
  match db st with
  | Some (dh, _) => if last_height st <? dh then set_height st dh else st
  | None => st
  end.

Inductive leader := LErr | LFollower | LLeader | LBlocks (bs : list (N * N * bool)).

(* batch entries are (offset, time, import outcome): the block's height is nh + offset - 1
   where nh is the height asked from the reconciliation port *)
Fixpoint reconcile (nh : N) (st : mstate) (bs : list (N * N * bool)) : mstate * list event :=
  match bs with
  | [] => (st, [])
  | (off, t, ok) :: r =>
      let h := nh + off - 1 in
      if h <=? last_height st then reconcile nh st r
      else
        let e := EExec h t (last_height st) in
        if ok then
          let '(st2, ev) := reconcile nh (set_db (upd st h t (last_created st)) (db_up (db st) h t)) r in
          (st2, e :: EImported h t false (now_i st) :: ev)
        else
          let '(st2, ev) := reconcile nh (resync st) r in (st2, e :: ev)
  end.

(* results of an operation *)
Inductive result := RContinue | RErrorContinue | RBlocked | ROkManual | RErrManual | RNone.

(* a block imported by another path (p2p) while the task was between ensure_synced and the
   database height check: height = last_height + delta - 1 *)
Definition apply_mid (st : mstate) (mid : option (N * N)) : mstate * list event :=
  match mid with
  | Some (dd, t) =>
      let h := last_height st + dd - 1 in
      (set_db st (db_up (db st) h t), [EP2p h t (now_i st)])
  | None => (st, [])
  end.

Definition try_to_produce_block (st : mstate) (clock : N) (signer : bool) (l : leader)
           (fail : option (N * N)) (mid : option (N * N)) (deadline : Z)
  : mstate * result * list event :=
  let '(st0, ev0) := apply_mid st mid in
  let st1 := resync st0 in
  let e0 := ELeader (next_height st1) (last_height st1) in
  match l with
  | LErr => (st1, RErrorContinue, ev0 ++ [e0])
  | LFollower => (set_now st1 (Z.max (now_i st1) deadline), RContinue, ev0 ++ [e0])
  | LLeader =>
      let '(st2, ok, ev) :=
        match next_time_trigger st1 clock with
        | None => (st1, false, [])
        | Some t =>
            let '(s, ok, _, ev) := produce_block st1 signer (next_height st1) t 0 deadline fail 0 in
            (s, ok, ev)
        end in
      if ok then (st2, RContinue, ev0 ++ e0 :: ev)
      else (set_now st2 (now_i st2 + ms (error_retry_delay st2))%Z, RErrorContinue,
            ev0 ++ e0 :: ev ++ [ERelease])
  | LBlocks bs =>
      let '(st2, ev) := reconcile (next_height st1) st1 bs in (st2, RContinue, ev0 ++ e0 :: ev)
  end.

(* the wait of a run-loop iteration that never reaches production (Trigger::Never, or not
   synced): the harness gives up after this many milliseconds *)
Definition big_wait : Z := 100000%Z.

(* one iteration of RunnableTask::run (after ensure_synced): a predefined block for the next
   height (pd = its time minus last_timestamp) is produced first and ends the iteration; otherwise
   the production branch of the trigger is taken *)
Definition tick (st : mstate) (clock : N) (signer : bool) (l : leader) (fail : option (N * N))
           (mid : option (N * N)) (pd : option N) : mstate * result * list event :=
  match pd with
  | Some delta =>
      let '(st', ok, ev) := produce_predefined st signer (last_timestamp st + delta) fail in
      (st', if ok then RContinue else RErrorContinue, ev)
  | None =>
      match trig st with
      | TNever => (set_now st (now_i st + big_wait)%Z, RBlocked, [])
      | TInstant => try_to_produce_block st clock signer l fail mid (now_i st)
      | TInterval bt =>
          let target := (last_created st + ms bt)%Z in
          let st' := set_now st (Z.max (now_i st) target) in
          try_to_produce_block st' clock signer l fail mid (now_i st')
      | TOpen p => try_to_produce_block st clock signer l fail mid (last_created st + ms p)%Z
      end
  end.

Definition update_last_block_values (st : mstate) (clock h t : N) : mstate :=
  let '(h', t', c') := extract_block_info clock h t (now_i st) in
  if last_height st <? h' then upd st h' t' c' else st.

Inductive op :=
| OTick (clock : N) (signer : bool) (l : leader) (fail : option (N * N)) (mid : option (N * N))
        (pd : option N)
| OManual (clock : N) (signer : bool) (start : option N) (m : mode) (fail : option (N * N))
| OSync (clock delta t : N)            (* update_last_block_values; height = last_height + delta - 1 *)
| ODb (d : option (N * N))             (* the database content changes silently *)
| OAdvance (millis : N).

Definition step (st : mstate) (o : op) : mstate * result * list event :=
  match o with
  | OTick clock signer l fail mid pd => tick st clock signer l fail mid pd
  | OManual _ signer start m fail =>
      let '(st', ok, ev) := produce_manual_blocks st signer start m fail in
      (st', if ok then ROkManual else RErrManual, ev)
  | OSync clock d t => (update_last_block_values st clock (last_height st + d - 1) t, RNone, [])
  | ODb d => (set_db st (match d with Some (dd, t) => Some (last_height st + dd - 1, t) | None => None end),
              RNone, [])
  | OAdvance m => (set_now st (now_i st + Z.of_N m)%Z, RNone, [])
  end.

(* ------------------------------------------------------------------ *)
(* sync.rs: the sync task                                              *)

Inductive inner := IInsufficient | ISufficient | ISynced (has_sufficient_peers : bool).

Record sync := {
  s_inner : inner;
  s_hdr : N * N;               (* the header carried by the inner state: (height, time) *)
  s_pub : option (N * N);      (* the published SyncState: None = NotSynced *)
  s_min : N;                   (* min_connected_reserved_peers *)
  s_period : option Z;         (* time_until_synced in ms; None = zero = no timer *)
  s_next : Z;                  (* next tick of the interval timer *)
  s_water : N                  (* reconciliation watermark (shared with MainTask) *)
}.

Definition sy_set (s : sync) (i : inner) (hdr : N * N) (p : option (N * N)) : sync :=
  {| s_inner := i; s_hdr := hdr; s_pub := p; s_min := s_min s; s_period := s_period s;
     s_next := s_next s; s_water := s_water s |}.
Definition sy_next (s : sync) (n : Z) : sync :=
  {| s_inner := s_inner s; s_hdr := s_hdr s; s_pub := s_pub s; s_min := s_min s;
     s_period := s_period s; s_next := n; s_water := s_water s |}.
Definition sy_water (s : sync) (w : N) : sync :=
  {| s_inner := s_inner s; s_hdr := s_hdr s; s_pub := s_pub s; s_min := s_min s;
     s_period := s_period s; s_next := s_next s; s_water := w |}.

(* restart_timer = Interval::reset: the next tick is one period from now *)
Definition restart_timer (s : sync) (now : Z) : sync :=
  match s_period s with Some p => sy_next s (now + p)%Z | None => s end.

(* the arm of SyncTask::run for a reserved-peers count *)
Definition on_peers (s : sync) (now : Z) (n : N) : sync :=
  let sufficient := s_min s <=? n in
  match s_inner s with
  | IInsufficient =>
      if sufficient then restart_timer (sy_set s ISufficient (s_hdr s) (s_pub s)) now else s
  | ISufficient =>
      if negb sufficient then restart_timer (sy_set s IInsufficient (s_hdr s) (s_pub s)) now else s
  | ISynced _ => sy_set s (ISynced sufficient) (s_hdr s) (s_pub s)
  end.

(* the arm for an imported block *)
Definition on_block (s : sync) (now : Z) (h t : N) (local : bool) : sync :=
  if fst (s_hdr s) <? h then
    match s_inner s with
    | IInsufficient => sy_set s IInsufficient (h, t) (s_pub s)
    | ISufficient => restart_timer (sy_set s ISufficient (h, t) (s_pub s)) now
    | ISynced has =>
        let is_reconciliation := (0 <? s_water s) && (h <=? s_water s) in
        if local || is_reconciliation then sy_set s (ISynced has) (h, t) (Some (h, t))
        else if has then restart_timer (sy_set s ISufficient (h, t) None) now
        else sy_set s IInsufficient (h, t) None
    end
  else s.

(* the arm for the timer *)
Definition on_tick (s : sync) : sync :=
  match s_inner s with
  | ISufficient => sy_set s (ISynced true) (s_hdr s) (Some (s_hdr s))
  | _ => s
  end.

(* the monotonic clock reaches [t]: a due tick fires (MissedTickBehavior::Skip: later ticks
   stay on the original grid) *)
Definition advance_to (s : sync) (t : Z) : sync :=
  match s_period s with
  | Some p =>
      if (s_next s <=? t)%Z
      then sy_next (on_tick s) (s_next s + p * ((t - s_next s) / p + 1))%Z
      else s
  | None => s
  end.

(* What the sync task sees of the events of an operation.  Announcements wait in the block
   stream until the main task yields, which it only does to let the clock advance (or at the end
   of the operation); the watermark is a shared atomic and is visible at once.  So an
   announcement is handled with the watermark as it stands when the clock next moves. *)
Definition ann := (N * N * bool * Z)%type.       (* height, time, local, instant of the announcement *)

Definition handle_ann (s : sync) (x : ann) : sync :=
  let '(h, t, local, a) := x in on_block (advance_to s a) a h t local.

Definition flush (s : sync) (q : list ann) : sync := fold_left handle_ann q s.

Definition queue_older (q : list ann) (a : Z) : bool :=
  match q with
  | (_, _, _, qa) :: _ => (qa <? a)%Z
  | [] => false
  end.

Definition feed (sq : sync * list ann) (e : event) : sync * list ann :=
  let '(s, q) := sq in
  match e with
  | EImported h t local a =>
      if queue_older q a then (flush s q, [(h, t, local, a)]) else (s, q ++ [(h, t, local, a)])
  | EP2p h t a =>
      if queue_older q a then (flush s q, [(h, t, false, a)]) else (s, q ++ [(h, t, false, a)])
  | EProduce _ _ _ _ a _ => if queue_older q a then (flush s q, []) else (s, q)
  | EExec h _ _ => (sy_water s (N.max (s_water s) h), q)     (* reconciliation_watermark.fetch_max *)
  | _ => (s, q)
  end.

Record fstate := { fm : mstate; fs : sync }.

Inductive fop :=
| FTick (clock : N) (signer : bool) (l : leader) (fail : option (N * N)) (mid : option (N * N))
        (pd : option N)
| FMain (o : op)
| FPeers (n : N)
| FNet (delta t : N).          (* a block imported by another path, announced on block_stream *)

(* observation of an operation: for FTick the outcome of ensure_synced comes first *)
Record fres := {
  r_ens : option (bool * mstate * option (N * N));  (* passed?, state after it, published header then *)
  r_res : result
}.

Definition settle (st : mstate) (s : sync) (evs : list event) : sync :=
  let '(s1, q) := fold_left feed evs (s, []) in
  advance_to (flush s1 q) (now_i st).

Definition fstep (f : fstate) (o : fop) : fstate * fres * list event :=
  let st := fm f in
  let s := fs f in
  match o with
  | FTick clock signer l fail mid pd =>
      (* ensure_synced: wait for the published state to be Synced *)
      let waited :=
        match s_pub s with
        | Some _ => Some (st, s)
        | None =>
            match s_inner s, s_period s with
            | ISufficient, Some _ =>
                let n := Z.max (now_i st) (s_next s) in Some (set_now st n, advance_to s n)
            | _, _ => None
            end
        end in
      match waited with
      | Some (st1, s1) =>
          match s_pub s1 with
          | Some (h, t) =>
              let st2 := update_last_block_values st1 clock h t in
              let '(st3, res, evs) := tick st2 clock signer l fail mid pd in
              ({| fm := st3; fs := settle st3 s1 evs |},
               {| r_ens := Some (true, st2, Some (h, t)); r_res := res |}, evs)
          | None =>   (* unreachable: a fired tick publishes Synced *)
              ({| fm := st1; fs := s1 |}, {| r_ens := Some (false, st1, None); r_res := RBlocked |}, [])
          end
      | None =>
          (* neither ensure_synced nor the run-loop iteration return: two abandoned waits *)
          let st1 := set_now st (now_i st + big_wait)%Z in
          let st2 := set_now st1 (now_i st1 + big_wait)%Z in
          ({| fm := st2; fs := advance_to s (now_i st2) |},
           {| r_ens := Some (false, st1, None); r_res := RBlocked |}, [])
      end
  | FMain o' =>
      let '(st', res, evs) := step st o' in
      ({| fm := st'; fs := settle st' s evs |}, {| r_ens := None; r_res := res |}, evs)
  | FPeers n =>
      ({| fm := st; fs := on_peers s (now_i st) n |}, {| r_ens := None; r_res := RNone |}, [])
  | FNet dd t =>
      let h := last_height st + dd - 1 in
      let st' := set_db st (db_up (db st) h t) in
      let evs := [EP2p h t (now_i st)] in
      ({| fm := st'; fs := settle st' s evs |}, {| r_ens := None; r_res := RNone |}, evs)
  end.

Fixpoint frun (f : fstate) (ops : list fop) : list (fstate * fres * list event) :=
  match ops with
  | [] => []
  | o :: r => let '(f', res, ev) := fstep f o in (f', res, ev) :: frun f' r
  end.

(* MainTask::new + into_task; SyncTask::new and its first poll *)
Definition init (tr : trigger) (h0 t0 clock0 : N) : mstate :=
  {| last_height := h0; last_timestamp := t0;
     last_created := match tr with
                     | TInterval _ | TOpen _ => 0%Z
                     | _ => (0 - ms (clock0 - t0))%Z
                     end;
     trig := tr; now_i := 0%Z; db := Some (h0, t0) |}.

Definition sync_init (min_peers tus_ms h0 t0 : N) : sync :=
  let period := if tus_ms =? 0 then None else Some (Z.of_N tus_ms) in
  let i := match min_peers, period with
           | 0, None => ISynced true
           | 0, Some _ => ISufficient
           | _, _ => IInsufficient
           end in
  advance_to
    {| s_inner := i; s_hdr := (h0, t0);
       s_pub := match min_peers, period with 0, None => Some (h0, t0) | _, _ => None end;
       s_min := min_peers; s_period := period; s_next := 0%Z; s_water := 0 |} 0%Z.

Definition finit (tr : trigger) (h0 t0 clock0 min_peers tus_ms : N) : fstate :=
  {| fm := init tr h0 t0 clock0; fs := sync_init min_peers tus_ms h0 t0 |}.

(* ------------------------------------------------------------------ *)
(* Pcheck.  The flat log is first parsed into actions (a production attempt is produce
   [; seal [; commit_result [; announcement]]] of one block, a reconciliation import is
   execute_and_commit [; announcement]); then the actions are replayed against the state known
   before the operation.                                                                      *)

Inductive action :=
| ALeader (h g : N)
| AP2p (h t : N) (a : Z)
| AProduce (h t src : N) (dl a : Z) (g g' : N) (a' : Z) (stage : N)
    (* stage 0: only produce was called; 1: + seal; 2: + commit_result; 3: + announced *)
| AExec (h t g : N) (imported : option Z)
| ARelease.

Definition flatten1 (x : action) : list event :=
  match x with
  | ALeader h g => [ELeader h g]
  | AP2p h t a => [EP2p h t a]
  | AProduce h t src dl a g g' a' stage =>
      firstn (S (N.to_nat (N.min stage 3)))
             [EProduce h t src dl a g; ESeal h; ECommit h t true g'; EImported h t true a']
  | AExec h t g None => [EExec h t g]
  | AExec h t g (Some a) => [EExec h t g; EImported h t false a]
  | ARelease => [ERelease]
  end.
Definition flatten (xs : list action) : list event := flat_map flatten1 xs.

(* the first action of a log and the rest of the log *)
Definition parse1 (evs : list event) : option (action * list event) :=
  match evs with
  | [] => None
  | ELeader h g :: r => Some (ALeader h g, r)
  | EP2p h t a :: r => Some (AP2p h t a, r)
  | ERelease :: r => Some (ARelease, r)
  | EProduce h t src dl a g :: ESeal h1 :: ECommit h2 t2 sealed g' :: EImported h3 t3 lo a' :: r =>
      if (h =? h1) && (h =? h2) && (t =? t2) && sealed && (h =? h3) && (t =? t3) && lo
      then Some (AProduce h t src dl a g g' a' 3, r) else None
  | EProduce h t src dl a g :: ESeal h1 :: ECommit h2 t2 sealed g' :: r =>
      if (h =? h1) && (h =? h2) && (t =? t2) && sealed
      then Some (AProduce h t src dl a g g' 0 2, r) else None
  | EProduce h t src dl a g :: ESeal h1 :: r =>
      if h =? h1 then Some (AProduce h t src dl a g 0 0 1, r) else None
  | EProduce h t src dl a g :: r => Some (AProduce h t src dl a g 0 0 0, r)
  | EExec h t g :: EImported h1 t1 lo a :: r =>
      if (h =? h1) && (t =? t1) && negb lo then Some (AExec h t g (Some a), r) else None
  | EExec h t g :: r => Some (AExec h t g None, r)
  | ESeal _ :: _ => None
  | ECommit _ _ _ _ :: _ => None
  | EImported _ _ _ _ :: _ => None
  end.

Fixpoint parse_n (n : nat) (evs : list event) : option (list action) :=
  match evs with
  | [] => Some []
  | _ => match n with
         | O => None
         | S n' => match parse1 evs with
                   | Some (x, r) => option_map (cons x) (parse_n n' r)
                   | None => None
                   end
         end
  end.

Definition parse (evs : list event) : option (list action) := parse_n (length evs) evs.

(* what is known while replaying: the production state, the database's latest block, whether
   the DB-height resync adopted a height, and the two finding flags *)
Record kst := {
  kh : N; kt : N; kc : Z; kdb : option (N * N);
  kadopt : bool;      (* the resync raised the known height *)
  ka1 : bool;         (* a block time below the database's latest block time was requested after that *)
  kb : bool           (* an execute_and_commit was requested for a height other than the next one *)
}.

Definition k_of (st : mstate) : kst :=
  {| kh := last_height st; kt := last_timestamp st; kc := last_created st; kdb := db st;
     kadopt := false; ka1 := false; kb := false |}.

Definition k_db (k : kst) (d : option (N * N)) : kst :=
  {| kh := kh k; kt := kt k; kc := kc k; kdb := d; kadopt := kadopt k; ka1 := ka1 k; kb := kb k |}.
Definition k_resync (k : kst) : kst :=
  match kdb k with
  | Some (dh, _) =>
      if kh k <? dh
      then {| kh := dh; kt := kt k; kc := kc k; kdb := kdb k; kadopt := true; ka1 := ka1 k; kb := kb k |}
      else k
  | None => k
  end.
Definition k_import (k : kst) (h t : N) (c : Z) : kst :=
  {| kh := h; kt := t; kc := c; kdb := db_up (kdb k) h t; kadopt := kadopt k; ka1 := ka1 k; kb := kb k |}.
Definition k_flag_a1 (k : kst) (b : bool) : kst :=
  {| kh := kh k; kt := kt k; kc := kc k; kdb := kdb k; kadopt := kadopt k; ka1 := ka1 k || b; kb := kb k |}.
Definition k_flag_b (k : kst) (b : bool) : kst :=
  {| kh := kh k; kt := kt k; kc := kc k; kdb := kdb k; kadopt := kadopt k; ka1 := ka1 k; kb := kb k || b |}.

Definition below_db_time (k : kst) (t : N) : bool :=
  kadopt k && match kdb k with Some (_, dt) => t <? dt | None => false end.

(* the context of an operation: trigger and the deadline / call instant a production request
   must carry *)
Inductive dl_rule :=
| DLNow                (* manual production, Trigger::Instant: deadline = the instant of the call *)
| DLAt (d : Z)         (* Trigger::Interval: deadline = call instant = d *)
| DLOpen (d a : Z).    (* Trigger::Open: deadline d, called at a *)

Definition dl_okb (r : dl_rule) (dl a : Z) : bool :=
  match r with
  | DLNow => (dl =? a)%Z
  | DLAt d => (dl =? d)%Z && (a =? d)%Z
  | DLOpen d a0 => (dl =? d)%Z && (a =? a0)%Z
  end.

Definition created_of (open : bool) (dl a : Z) : Z := if open then Z.max dl a else a.

Definition act (open : bool) (r : dl_rule) (k : kst) (x : action) : option kst :=
  match x with
  | AP2p h t _ => Some (k_db k (db_up (kdb k) h t))
  | ALeader h _ => let k' := k_resync k in if h =? kh k' + 1 then Some k' else None
  | AProduce h t src dl a _ _ a' stage =>
      (* a predefined block (source 2) has no deadline: dl = call instant *)
      if (h =? kh k + 1) && (kt k <=? t) && (if src =? 2 then (dl =? a)%Z else dl_okb r dl a)
      then let k1 := k_flag_a1 k (below_db_time k t) in
           if 3 <=? stage
           then if (Z.max a dl <=? a')%Z
                then Some (k_import k1 h t (created_of (open && negb (src =? 2)) dl a)) else None
           else Some k1
      else None
  | AExec h t _ imported =>
      if kh k <? h
      then let k1 := k_flag_b k (negb (h =? kh k + 1)) in
           match imported with
           | Some _ => Some (k_import k1 h t (kc k1))
           | None => Some (k_resync k1)
           end
      else None
  | ARelease => Some k
  end.

Fixpoint acts_run (open : bool) (r : dl_rule) (k : kst) (xs : list action) : option kst :=
  match xs with
  | [] => Some k
  | x :: xs' => match act open r k x with Some k' => acts_run open r k' xs' | None => None end
  end.

Definition optNN_eqb (a b : option (N * N)) : bool :=
  match a, b with
  | None, None => true
  | Some (x, y), Some (x', y') => (x =? x') && (y =? y')
  | _, _ => false
  end.

(* the state after the operation is what the replay of its log says: no change of
   (last_height, last_timestamp, last_block_created) or of the database without an import *)
Definition final_okb (k : kst) (post : mstate) : bool :=
  (kh k =? last_height post) && (kt k =? last_timestamp post) &&
  (kc k =? last_created post)%Z && optNN_eqb (kdb k) (db post).

Definition is_open (tr : trigger) : bool := match tr with TOpen _ => true | _ => false end.

Definition tick_rule (pre : mstate) : dl_rule :=
  match trig pre with
  | TInterval bt => DLAt (Z.max (now_i pre) (last_created pre + ms bt))%Z
  | TOpen p => DLOpen (last_created pre + ms p)%Z (now_i pre)
  | _ => DLNow
  end.

(* contract of the reconciliation port: consecutive blocks, the first not above the asked height *)
Fixpoint batch_consecutive (prev : N) (bs : list (N * N * bool)) : bool :=
  match bs with
  | [] => true
  | (off, _, _) :: r => (off =? prev + 1) && batch_consecutive off r
  end.
Definition batch_okb (bs : list (N * N * bool)) : bool :=
  match bs with
  | [] => true
  | (off, _, _) :: r => (off <=? 1) && batch_consecutive off r
  end.
Definition leader_batch_okb (l : leader) : bool :=
  match l with LBlocks bs => batch_okb bs | _ => true end.

Definition same_prod_state (a b : mstate) : bool :=
  (last_height a =? last_height b) && (last_timestamp a =? last_timestamp b) &&
  (last_created a =? last_created b)%Z.

Definition is_nil_ev (evs : list event) : bool := match evs with [] => true | _ => false end.

(* classes: 1 holds; 2 the DB-height resync adopted the database height and a block time below
   the database's latest block time was requested (A1); 3 a reconciliation import (batch within
   the port contract) was requested for a height that is not the next one (B); 0 anything else *)
Definition replay_okb (open : bool) (r : dl_rule) (batch_ok : bool) (pre post : mstate)
           (evs : list event) : N :=
  match parse evs with
  | None => 0
  | Some xs =>
      match acts_run open r (k_of pre) xs with
      | None => 0
      | Some k =>
          if negb (final_okb k post) then 0
          else if ka1 k then 2
          else if kb k && batch_ok then 3
          else 1
      end
  end.

Definition op_okb (pre : mstate) (o : op) (post : mstate) (evs : list event) : N :=
  match o with
  | OTick _ _ l _ _ pd =>
      match trig pre, pd with
      | TNever, None => if is_nil_ev evs && same_prod_state pre post && optNN_eqb (db pre) (db post) then 1 else 0
      | _, _ => replay_okb (is_open (trig pre)) (tick_rule pre) (leader_batch_okb l) pre post evs
      end
  | OManual _ _ _ _ _ => replay_okb false DLNow true pre post evs
  | OSync _ d t =>
      let h := last_height pre + d - 1 in
      if is_nil_ev evs && (if last_height pre <? h then (last_height post =? h) && (last_timestamp post =? t)
                           else same_prod_state pre post) then 1 else 0
  | _ => if is_nil_ev evs && same_prod_state pre post then 1 else 0
  end.

(* the whole operation including ensure_synced: production only when the sync task says Synced,
   and the header it published is adopted if higher *)
Definition fop_okb (pre : mstate) (o : fop) (res : fres) (post : mstate) (evs : list event) : N :=
  match o with
  | FTick clock signer l fail mid pd =>
      match r_ens res with
      | Some (true, st2, Some (h, t)) =>
          if same_prod_state st2 (update_last_block_values (set_now pre (now_i st2)) clock h t) &&
             optNN_eqb (db pre) (db st2)
          then op_okb st2 (OTick clock signer l fail mid pd) post evs else 0
      | Some (false, st1, _) =>
          if is_nil_ev evs && same_prod_state pre st1 && same_prod_state pre post &&
             match r_res res with RBlocked => true | _ => false end then 1 else 0
      | _ => 0
      end
  | FMain (OTick _ _ _ _ _ _) => 0
  | FMain o' => op_okb pre o' post evs
  | FPeers _ => if is_nil_ev evs && same_prod_state pre post then 1 else 0
  | FNet _ _ => if same_prod_state pre post then 1 else 0
  end.

(* first failing class over a whole observed trace *)
Fixpoint trace_okb (pre : mstate) (ops : list fop) (obs : list (mstate * fres * list event)) : N :=
  match ops, obs with
  | [], [] => 1
  | o :: ops', (post, res, evs) :: obs' =>
      match fop_okb pre o res post evs with
      | 1 => trace_okb post ops' obs'
      | c => c
      end
  | _, _ => 0
  end.

(* ------------------------------------------------------------------ *)
(* T codecs and entry point                                            *)

Definition tZ (z : Z) : T := I z.

Definition T_trigger (t : T) : option trigger :=
  match t with
  | L [I 0%Z] => Some TNever
  | L [I 1%Z] => Some TInstant
  | L [I 2%Z; b] => option_map TInterval (getN b)
  | L [I 3%Z; p] => option_map TOpen (getN p)
  | _ => None
  end.

Definition T_pair (t : T) : option (N * N) :=
  match t with
  | L [a; b] => match getN a, getN b with Some a, Some b => Some (a, b) | _, _ => None end
  | _ => None
  end.

Definition T_opt_pair (t : T) : option (option (N * N)) :=
  match t with
  | L [] => Some None
  | _ => option_map Some (T_pair t)
  end.

Definition T_blk (t : T) : option (N * N * bool) :=
  match t with
  | L [h; tm; ok] => match getN h, getN tm, getB ok with
                     | Some h, Some tm, Some ok => Some (h, tm, ok) | _, _, _ => None end
  | _ => None
  end.

Definition T_leader (t : T) : option leader :=
  match t with
  | L [I 0%Z] => Some LErr
  | L [I 1%Z] => Some LFollower
  | L [I 2%Z] => Some LLeader
  | L [I 3%Z; L bs] => option_map LBlocks (mapM T_blk bs)
  | _ => None
  end.

Definition T_mode (t : T) : option mode :=
  match t with
  | L [I 0%Z; n] => option_map MBlocks (getN n)
  | L [I 1%Z] => Some MWithTxs
  | _ => None
  end.

Definition T_fop (t : T) : option fop :=
  match t with
  | L [I 0%Z; c; s; l; f; m; pd] =>
      match getN c, getB s, T_leader l, T_opt_pair f, T_opt_pair m, getOptN pd with
      | Some c, Some s, Some l, Some f, Some m, Some pd => Some (FTick c s l f m pd)
      | _, _, _, _, _, _ => None end
  | L [I 1%Z; c; s; st; m; f] =>
      match getN c, getB s, getOptN st, T_mode m, T_opt_pair f with
      | Some c, Some s, Some st, Some m, Some f => Some (FMain (OManual c s st m f))
      | _, _, _, _, _ => None end
  | L [I 2%Z; c; h; tm] =>
      match getN c, getN h, getN tm with
      | Some c, Some h, Some tm => Some (FMain (OSync c h tm)) | _, _, _ => None end
  | L [I 3%Z; d] => option_map (fun d => FMain (ODb d)) (T_opt_pair d)
  | L [I 4%Z; m] => option_map (fun m => FMain (OAdvance m)) (getN m)
  | L [I 5%Z; n] => option_map FPeers (getN n)
  | L [I 6%Z; d; tm] =>
      match getN d, getN tm with Some d, Some tm => Some (FNet d tm) | _, _ => None end
  | _ => None
  end.

Definition result_T (r : result) : T :=
  match r with
  | RContinue => L [I 0] | RErrorContinue => L [I 1] | RBlocked => L [I 3]
  | ROkManual => L [I 0] | RErrManual => L [I 1] | RNone => L []
  end.

Definition T_result (t : T) : option result :=
  match t with
  | L [I 0%Z] => Some RContinue
  | L [I 1%Z] => Some RErrorContinue
  | L [I 3%Z] => Some RBlocked
  | L [] => Some RNone
  | L [I _] => Some RNone
  | _ => None
  end.

Definition event_T (e : event) : T :=
  match e with
  | ELeader h _ => L [I 0; tN h]
  | EProduce h t s d a _ => L [I 1; tN h; tN t; tN s; tZ d; tZ a]
  | ESeal h => L [I 2; tN h]
  | ECommit h t s _ => L [I 3; tN h; tN t; tB s]
  | EExec h t _ => L [I 4; tN h; tN t]
  | ERelease => L [I 5]
  | EImported h t lo a => L [I 6; tN h; tN t; tB lo; tZ a]
  | EP2p h t a => L [I 7; tN h; tN t; tZ a]
  end.

Definition T_event (t : T) : option event :=
  match t with
  | L [I 0%Z; h] => option_map (fun h => ELeader h 0) (getN h)
  | L [I 1%Z; h; tm; s; d; a] =>
      match getN h, getN tm, getN s, getZ d, getZ a with
      | Some h, Some tm, Some s, Some d, Some a => Some (EProduce h tm s d a 0)
      | _, _, _, _, _ => None end
  | L [I 2%Z; h] => option_map ESeal (getN h)
  | L [I 3%Z; h; tm; s] =>
      match getN h, getN tm, getB s with
      | Some h, Some tm, Some s => Some (ECommit h tm s 0) | _, _, _ => None end
  | L [I 4%Z; h; tm] =>
      match getN h, getN tm with Some h, Some tm => Some (EExec h tm 0) | _, _ => None end
  | L [I 5%Z] => Some ERelease
  | L [I 6%Z; h; tm; lo; a] =>
      match getN h, getN tm, getB lo, getZ a with
      | Some h, Some tm, Some lo, Some a => Some (EImported h tm lo a) | _, _, _, _ => None end
  | L [I 7%Z; h; tm; a] =>
      match getN h, getN tm, getZ a with
      | Some h, Some tm, Some a => Some (EP2p h tm a) | _, _, _ => None end
  | _ => None
  end.

Definition pub_T (p : option (N * N)) : T :=
  match p with None => L [] | Some (h, t) => L [tN h; tN t] end.

Definition state_T (st : mstate) : T :=
  L [tN (last_height st); tN (last_timestamp st); tZ (last_created st); tZ (now_i st); pub_T (db st)].

Definition T_state (tr : trigger) (t : T) : option mstate :=
  match t with
  | L [h; tm; c; n; d] =>
      match getN h, getN tm, getZ c, getZ n, T_opt_pair d with
      | Some h, Some tm, Some c, Some n, Some d =>
          Some {| last_height := h; last_timestamp := tm; last_created := c; trig := tr;
                  now_i := n; db := d |}
      | _, _, _, _, _ => None end
  | _ => None
  end.

Definition fres_T (r : fres) : T :=
  match r_ens r with
  | Some (passed, st, p) => L [I (if passed then 0 else 1); state_T st; pub_T p; result_T (r_res r)]
  | None => result_T (r_res r)
  end.

Definition T_fres (tr : trigger) (t : T) : option fres :=
  match t with
  | L [I c; s; p; r] =>
      match T_state tr s, T_opt_pair p, T_result r with
      | Some s, Some p, Some r =>
          Some {| r_ens := Some (Z.eqb c 0, s, p); r_res := r |}
      | _, _, _ => None end
  | _ => option_map (fun r => {| r_ens := None; r_res := r |}) (T_result t)
  end.

Definition fobs_T (x : fstate * fres * list event) : T :=
  let '(f, r, ev) := x in
  L [fres_T r; state_T (fm f); pub_T (s_pub (fs f)); L (map event_T ev)].

Definition T_fobs (tr : trigger) (t : T) : option (mstate * fres * list event) :=
  match t with
  | L [r; s; _; L evs] =>
      match T_fres tr r, T_state tr s, mapM T_event evs with
      | Some r, Some s, Some evs => Some (s, r, evs)
      | _, _, _ => None end
  | _ => None
  end.

(* input: (trigger (h0 t0) clock0 (min_peers time_until_synced_ms) ops) *)
Definition main24 (input observed : T) : T :=
  match input with
  | L [tr; ht; c0; sy; L ops] =>
      match T_trigger tr, T_pair ht, getN c0, T_pair sy, mapM T_fop ops with
      | Some tr, Some (h0, t0), Some c0, Some (mn, tus), Some ops =>
          let f0 := finit tr h0 t0 c0 mn tus in
          let model := L (L [L []; state_T (fm f0); pub_T (s_pub (fs f0)); L []] :: map fobs_T (frun f0 ops)) in
          let pc := match observed with
                    | L (first :: rest) =>
                        match T_fobs tr first, mapM (T_fobs tr) rest with
                        | Some (pre, _, _), Some rest => trace_okb pre ops rest
                        | _, _ => 0
                        end
                    | _ => 0
                    end in
          L [model; tN pc]
      | _, _, _, _, _ => tErr 2
      end
  | _ => tErr 1
  end.

Definition main_T (req : T) : T :=
  match req with
  | L [I 24%Z; input; observed] => main24 input observed
  | _ => tErr 0
  end.
