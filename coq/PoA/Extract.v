From FC Require Import PoA.Model.
Require Extraction.
Require Import ExtrOcamlBasic.
Extraction "poa_model.ml" main_T.
