(* Property theorems of the Backend cluster (C11, C12). Nothing but statements, [exact], and
   Print Assumptions. *)
From FC Require Import Backend.Model Backend.ProofsOrd Backend.ProofsIter Backend.ProofsCommit Backend.ProofsHist.
Open Scope N_scope.

(* C11. For EVERY sorted map (a BTreeMap), prefix, start key and direction the iterator of
   storage/src/iter.rs returns exactly iter_spec. *)
Theorem btree_iter_eq_spec : forall (V : Type) (m : @smap V) prefix start d, ssorted m ->
  btree_iter m prefix start d = iter_spec m prefix start d.
Proof. exact (@btree_iter_eq_spec_all). Qed.
Print Assumptions btree_iter_eq_spec.

(* For EVERY sorted column of byte-string keys, byte-string prefix, start key and direction
   RocksDb::_iter_store (with reverse_prefix_iter and next_prefix) over the cursor returns exactly
   iter_spec. *)
Theorem rocks_iter_eq_spec : forall (V : Type) (m : @smap V) prefix start d, ssorted m ->
  Forall (fun kv => is_bytes (fst kv)) m -> opt_bytes prefix ->
  rocks_iter m prefix start d = iter_spec m prefix start d.
Proof. exact (@rocks_iter_eq_spec_all). Qed.
Print Assumptions rocks_iter_eq_spec.

(* iter_spec is the plain selection (prefix and start bound, in the direction's order) whenever
   the start key lies inside the prefix; outside, the API contract is the empty result. *)
Theorem iter_spec_is_selection : forall (V : Type) (m : @smap V) prefix start d, within prefix start = true ->
  iter_spec m prefix start d =
  let l := filter (fun kv => sel prefix start d (fst kv)) m in match d with Fwd => l | Rev => rev l end.
Proof. exact (@iter_spec_natural). Qed.
Print Assumptions iter_spec_is_selection.

(* what the three repaired defects were (S1 successor prefix keeps the 0xFF tail, S2 key equal to
   the successor prefix, S3 start outside the prefix on the BTreeMap iterator) *)
Theorem original_iterators_wrong :
  (iter_spec ex_s1 (Some [1; 255]) None Rev = [([1; 255; 0], [7])] /\
   takewhile (sw [1; 255]) (iterator ex_s1 (MFrom [2; 255] Rev)) = []) /\
  (iter_spec ex_s2 (Some [1]) None Rev = [([1; 0], [7])] /\
   takewhile (sw [1]) (iterator ex_s2 (MFrom [2] Rev)) = []) /\
  (btree_iter_orig ex_s3 (Some [1]) (Some [0]) Fwd = [([1; 0], [7])] /\
   rocks_iter ex_s3 (Some [1]) (Some [0]) Fwd = []).
Proof. exact original_iterators_refuted. Qed.
Print Assumptions original_iterators_wrong.

(* RocksDb::commit_changes is the atomic specification on EVERY change set, conflicting or not. *)
Theorem rocks_commit_eq_spec : forall st sc,
  snd (rocks_commit st sc) = snd (spec_commit st sc) /\
  ceq (fst (rocks_commit st sc)) (fst (spec_commit st sc)).
Proof. exact rocks_commit_eq_spec_all. Qed.
Print Assumptions rocks_commit_eq_spec.

(* After the same history of commits (single change sets and lists, with and without heights)
   any two backends (0 MemoryStore, 1 RocksDb, 2.. HistoricalRocksDB under every policy) hold the
   same contents in every column - outside the known class: a change list that writes one
   (column,key) twice. *)
Theorem commit_same_contents_partial : forall b1 b2 cms,
  history_conflict_free cms -> Forall bytes_commit cms ->
  ceq (bcontents (fst (brun (binit b1) cms))) (bcontents (fst (brun (binit b2) cms))).
Proof. exact commit_same_contents_all. Qed.
Print Assumptions commit_same_contents_partial.

(* ... and on that class they differ: MemoryStore keeps a partial write, the historical store
   with history accepts the list that RocksDb refuses. *)
Theorem commit_same_contents_refuted :
  exists cms, Forall bytes_commit cms /\
    bcontents (fst (brun (binit 0) cms)) <> bcontents (fst (brun (binit 1) cms)) /\
    bcontents (fst (brun (binit 3) cms)) <> bcontents (fst (brun (binit 1) cms)) /\
    snd (brun (binit 3) cms) <> snd (brun (binit 1) cms).
Proof. exact commit_same_contents_refuted_witness. Qed.
Print Assumptions commit_same_contents_refuted.

(* The whole observation: commit results, contents of every column, every lookup and EVERY
   iteration query of every backend equal the sorted-map specification. *)
Theorem backends_eq_spec_partial : forall b cms qs,
  history_conflict_free cms -> Forall bytes_commit cms -> Forall query_ok qs ->
  model_obs b cms qs = spec_obs cms qs.
Proof. exact all_backends_eq_spec. Qed.
Print Assumptions backends_eq_spec_partial.

(* Pcheck of C11 = "every backend's observation is the specification's". *)
Theorem c11_checker_sound : forall nb cms qs observed,
  c11_okb nb cms qs observed = true <->
  length observed = nb /\ Forall (fun o => o = tObs (spec_obs cms qs)) observed.
Proof. exact c11_okb_sound. Qed.
Print Assumptions c11_checker_sound.

(* the observation the model computes - the one compared textually with the implementation's on
   every case - passes that checker on every conflict-free history *)
Theorem model_obs_accepted_partial : forall bs cms qs,
  history_conflict_free cms -> Forall bytes_commit cms -> Forall query_ok qs ->
  c11_okb (length bs) cms qs (map (fun b => tObs (model_obs b cms qs)) bs) = true.
Proof. exact model_passes_c11. Qed.
Print Assumptions model_obs_accepted_partial.

(* ---------------------------------------------------------------------------------- C12 *)

(* Over ALL histories of block commits (any change sets), rollbacks of the latest block and
   restarts with any (changed) rewind policy, from the empty database: a view at height h is either
   refused (None = NoHistoryForRequestedHeight) or returns for every key exactly the value of the
   snapshot taken right after block h (for h = start-1: the empty state before the first block).
   Hypotheses: the change sets are maps (no (column,key) twice) over the key universe U; heights
   fit u64; and the two classes found to be violated by the code are excluded:
   (H1) no key of a column is a proper prefix of another key of that column (every real table has
        fixed-length keys), (H2) the retained heights have no hole [gap_free], which fails after a
        restart that shrinks the window or after a NoRewind interlude. *)
Theorem view_exact_or_nohistory_partial : forall U start p ops,
  ops_wf U ops -> prefix_free U = true -> u64 (start + N.of_nat (length ops)) ->
  gap_free (fst (grun start (hinit p) [] ops)) = true ->
  forall h c k, u64 (h + 1) -> In (c, k) U ->
  match create_view_at h (s_db (fst (grun start (hinit p) [] ops))) with
  | None => True
  | Some rb => exists sn, snapshot start (snd (grun start (hinit p) [] ops)) h = Some sn /\
               view_get rb (s_db (fst (grun start (hinit p) [] ops))) c k = lookup sn c k
  end.
Proof. exact view_exact_or_nohistory_all. Qed.
Print Assumptions view_exact_or_nohistory_partial.

(* (H2) is necessary: RewindRange{3} for five blocks, restart with RewindRange{1}, one more block:
   the view at height 4 is not refused and returns the value of height 5. *)
Theorem view_exact_or_nohistory_refuted :
  let s := fst (grun 1 (hinit 4) [] ex_s7_ops) in
  gap_free s = false /\
  create_view_at 4 (s_db s) = Some 5 /\ view_get 5 (s_db s) 0 [1; 0] = Some [5] /\
  exists sn, snapshot 1 (snd (grun 1 (hinit 4) [] ex_s7_ops)) 4 = Some sn /\ lookup sn 0 [1; 0] = Some [4].
Proof. exact view_gap_refuted. Qed.
Print Assumptions view_exact_or_nohistory_refuted.

(* what the repaired defect S6 was: the original ViewAtHeight::get compared only the first |key|
   bytes of the found history key *)
Theorem view_mixed_lengths_original_wrong :
  let s := fst (grun 1 (hinit 1) [] ex_s6_ops) in
  view_get_orig 2 (s_db s) 0 [1; 0] = Some None /\ view_get 2 (s_db s) 0 [1; 0] = Some [5] /\
  prefix_free (universe ex_s6_ops) = false.
Proof. exact view_mixed_lengths_orig_refuted. Qed.
Print Assumptions view_mixed_lengths_original_wrong.

(* Over ALL such histories (no exclusion): the database always holds exactly the newest snapshot of
   the chain of accepted, not rolled back blocks - a commit applies exactly its change set, a
   successful rollback restores exactly the state of the previous height, repeatedly - and a
   rollback of the latest height succeeds exactly when its history record is retained. *)
Theorem rollback_restores_prev : forall U start p ops,
  ops_wf U ops -> u64 (start + N.of_nat (length ops)) ->
  let s := fst (grun start (hinit p) [] ops) in
  let ch := snd (grun start (hinit p) [] ops) in
  ceq (h_main (s_db s)) (chain_top ch) /\ s_latest s = chain_latest ch /\
  (forall l, s_latest s = Some l -> (snd (hist_rollback l (s_db s)) = true <-> Hd (s_db s) l <> None)).
Proof. exact rollback_restores_prev_all. Qed.
Print Assumptions rollback_restores_prev.

(* one step, from ANY database state: committing block h with history on and rolling back to h
   restores every column exactly *)
Theorem rollback_undoes_commit_step : forall p h sc d, p <> 0 -> csorted (h_main d) -> ssorted (h_hist d) ->
  let d' := fst (hist_commit p (Some h) sc d) in
  snd (hist_rollback h d') = true /\ ceq (h_main (fst (hist_rollback h d'))) (h_main d).
Proof. exact rollback_undoes_commit. Qed.
Print Assumptions rollback_undoes_commit_step.

(* Pcheck of C12 = the trace specification: every step's result tag is possible, the database equals
   the newest snapshot, every view is refused or equals the snapshot of its height *)
Theorem c12_checker_sound : forall start ops obs,
  c12_okb start ops obs = true <-> HTrace start (universe ops) (view_heights start ops) [] ops obs.
Proof. exact c12_okb_sound. Qed.
Print Assumptions c12_checker_sound.

(* the trace the model computes - the one compared textually with the implementation's on every
   case - passes that checker on every history outside the two classes *)
Theorem model_trace_accepted_partial : forall U start p ops,
  ops_wf U ops -> prefix_free U = true -> incl (universe ops) U ->
  u64 (start + N.of_nat (length ops) + 2) ->
  run_gap_free start (hinit p) ops = true ->
  c12_okb start ops (hmodel start p ops) = true.
Proof. exact model_passes_c12. Qed.
Print Assumptions model_trace_accepted_partial.
