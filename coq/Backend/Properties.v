(* Property theorems of the Backend cluster (C11, C12). Nothing but statements, [exact], and
   Print Assumptions. *)
From FC Require Import Backend.Model Backend.ProofsOrd Backend.ProofsIter Backend.ProofsCommit.
Open Scope N_scope.

(* C11. For EVERY sorted map (a BTreeMap), prefix, start key and direction the iterator of
   storage/src/iter.rs returns exactly iter_spec. *)
Theorem btree_iter_eq_spec : forall (V : Type) (m : @smap V) prefix start d, ssorted m ->
  btree_iter m prefix start d = iter_spec m prefix start d.
Proof. exact (@btree_iter_eq_spec_all). Qed.
Print Assumptions btree_iter_eq_spec.

(* For EVERY sorted column of byte-string keys, byte-string prefix, start key and direction
   RocksDb::_iter_store (with reverse_prefix_iter and next_prefix) over the cursor returns exactly
   iter_spec. *)
Theorem rocks_iter_eq_spec : forall (V : Type) (m : @smap V) prefix start d, ssorted m ->
  Forall (fun kv => is_bytes (fst kv)) m -> opt_bytes prefix ->
  rocks_iter m prefix start d = iter_spec m prefix start d.
Proof. exact (@rocks_iter_eq_spec_all). Qed.
Print Assumptions rocks_iter_eq_spec.

(* iter_spec is the plain selection (prefix and start bound, in the direction's order) whenever
   the start key lies inside the prefix; outside, the API contract is the empty result. *)
Theorem iter_spec_is_selection : forall (V : Type) (m : @smap V) prefix start d, within prefix start = true ->
  iter_spec m prefix start d =
  let l := filter (fun kv => sel prefix start d (fst kv)) m in match d with Fwd => l | Rev => rev l end.
Proof. exact (@iter_spec_natural). Qed.
Print Assumptions iter_spec_is_selection.

(* what the three repaired defects were (S1 successor prefix keeps the 0xFF tail, S2 key equal to
   the successor prefix, S3 start outside the prefix on the BTreeMap iterator) *)
Theorem original_iterators_wrong :
  (iter_spec ex_s1 (Some [1; 255]) None Rev = [([1; 255; 0], [7])] /\
   takewhile (sw [1; 255]) (iterator ex_s1 (MFrom [2; 255] Rev)) = []) /\
  (iter_spec ex_s2 (Some [1]) None Rev = [([1; 0], [7])] /\
   takewhile (sw [1]) (iterator ex_s2 (MFrom [2] Rev)) = []) /\
  (btree_iter_orig ex_s3 (Some [1]) (Some [0]) Fwd = [([1; 0], [7])] /\
   rocks_iter ex_s3 (Some [1]) (Some [0]) Fwd = []).
Proof. exact original_iterators_refuted. Qed.
Print Assumptions original_iterators_wrong.

(* RocksDb::commit_changes is the atomic specification on EVERY change set, conflicting or not. *)
Theorem rocks_commit_eq_spec : forall st sc,
  snd (rocks_commit st sc) = snd (spec_commit st sc) /\
  ceq (fst (rocks_commit st sc)) (fst (spec_commit st sc)).
Proof. exact rocks_commit_eq_spec_all. Qed.
Print Assumptions rocks_commit_eq_spec.

(* After the same history of commits (single change sets and lists, with and without heights)
   any two backends (0 MemoryStore, 1 RocksDb, 2.. HistoricalRocksDB under every policy) hold the
   same contents in every column - outside the known class: a change list that writes one
   (column,key) twice. *)
Theorem commit_same_contents_partial : forall b1 b2 cms,
  history_conflict_free cms -> Forall bytes_commit cms ->
  ceq (bcontents (fst (brun (binit b1) cms))) (bcontents (fst (brun (binit b2) cms))).
Proof. exact commit_same_contents_all. Qed.
Print Assumptions commit_same_contents_partial.

(* ... and on that class they differ: MemoryStore keeps a partial write, the historical store
   with history accepts the list that RocksDb refuses. *)
Theorem commit_same_contents_refuted :
  exists cms, Forall bytes_commit cms /\
    bcontents (fst (brun (binit 0) cms)) <> bcontents (fst (brun (binit 1) cms)) /\
    bcontents (fst (brun (binit 3) cms)) <> bcontents (fst (brun (binit 1) cms)) /\
    snd (brun (binit 3) cms) <> snd (brun (binit 1) cms).
Proof. exact commit_same_contents_refuted_witness. Qed.
Print Assumptions commit_same_contents_refuted.

(* The whole observation: commit results, contents of every column, every lookup and EVERY
   iteration query of every backend equal the sorted-map specification. *)
Theorem backends_eq_spec_partial : forall b cms qs,
  history_conflict_free cms -> Forall bytes_commit cms -> Forall query_ok qs ->
  model_obs b cms qs = spec_obs cms qs.
Proof. exact all_backends_eq_spec. Qed.
Print Assumptions backends_eq_spec_partial.

(* Pcheck of C11 = "every backend's observation is the specification's". *)
Theorem c11_checker_sound : forall nb cms qs observed,
  c11_okb nb cms qs observed = true <->
  length observed = nb /\ Forall (fun o => o = tObs (spec_obs cms qs)) observed.
Proof. exact c11_okb_sound. Qed.
Print Assumptions c11_checker_sound.
