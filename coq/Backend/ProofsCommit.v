(* C11, commits: all backends hold the same contents after the same commit history, and every
   observation of every backend equals the specification's. *)
From FC Require Import Backend.Model Backend.ProofsOrd Backend.ProofsIter.
From Coq Require Import Sorting.Sorted ZifyBool ZifyN ZifyNat Lia.
Open Scope N_scope.

(* ------------------------------------------------------------------ column states *)
Section CState.
Context {V : Type}.
Notation cstate := (cstate V).

Definition ceq (a b : cstate) : Prop := forall c, cget c a = cget c b.
Definition csorted (st : cstate) : Prop := forall c, ssorted (cget c st).

Lemma cget_cset : forall (st : cstate) c m c', cget c' (cset c m st) = if c =? c' then m else cget c' st.
Proof.
  induction st as [|[c0 m0] st]; intros c m c'; cbn [cset cget].
  - destruct (c =? c'); auto.
  - destruct (c0 =? c) eqn:E; cbn [cget].
    + apply N.eqb_eq in E. subst. destruct (c =? c'); auto.
    + rewrite IHst. destruct (c0 =? c') eqn:E2; auto.
      apply N.eqb_eq in E2. subst. rewrite N.eqb_sym, E. auto.
Qed.
Lemma cget_cset_same : forall (st : cstate) c m, cget c (cset c m st) = m.
Proof. intros. rewrite cget_cset, N.eqb_refl. auto. Qed.

Lemma ceq_refl : forall a : cstate, ceq a a.
Proof. intros a c. auto. Qed.
Lemma ceq_sym : forall a b : cstate, ceq a b -> ceq b a.
Proof. intros a b H c. auto. Qed.
Lemma ceq_trans : forall a b c : cstate, ceq a b -> ceq b c -> ceq a c.
Proof. intros a b c H1 H2 x. rewrite H1. auto. Qed.
Lemma ceq_cset : forall (a b : cstate) c m, ceq a b -> ceq (cset c m a) (cset c m b).
Proof. intros a b c m H c'. rewrite !cget_cset. destruct (c =? c'); auto. Qed.
Lemma cset_cset : forall (a : cstate) c m m', ceq (cset c m (cset c m' a)) (cset c m a).
Proof. intros a c m m' c'. rewrite !cget_cset. destruct (c =? c'); auto. Qed.
Lemma cset_cget : forall (a : cstate) c, ceq (cset c (cget c a) a) a.
Proof. intros a c c'. rewrite cget_cset. destruct (c =? c') eqn:E; auto. apply N.eqb_eq in E. subst. auto. Qed.

Lemma csorted_nil : csorted [].
Proof. intros c. cbn. constructor. Qed.
Lemma csorted_cset : forall (st : cstate) c m, csorted st -> ssorted m -> csorted (cset c m st).
Proof. intros st c m H Hm c'. rewrite cget_cset. destruct (c =? c'); auto. Qed.
Lemma csorted_ceq : forall a b : cstate, ceq a b -> csorted a -> csorted b.
Proof. intros a b H Ha c. rewrite <- H. auto. Qed.

(* column ids occur once *)
Definition cnodup (st : cstate) : Prop := NoDup (map fst st).
Lemma cset_cols : forall (st : cstate) c m x, In x (map fst (cset c m st)) -> x = c \/ In x (map fst st).
Proof.
  induction st as [|[c0 m0] st]; intros c m x; cbn [cset map fst In].
  - intros [<-|[]]. auto.
  - destruct (c0 =? c) eqn:E; cbn [map fst In].
    + apply N.eqb_eq in E. subst. intros [<-|H]; auto.
    + intros [<-|H]; auto. apply IHst in H. destruct H; auto.
Qed.
Lemma cnodup_cset : forall (st : cstate) c m, cnodup st -> cnodup (cset c m st).
Proof.
  unfold cnodup. induction st as [|[c0 m0] st]; intros c m H; cbn [cset map fst].
  - repeat constructor. intros [].
  - inversion H; subst. destruct (c0 =? c) eqn:E; cbn [map fst].
    + apply N.eqb_eq in E. subst. constructor; auto.
    + constructor; auto. intros Hin. apply cset_cols in Hin as [->|Hin]; auto.
      rewrite N.eqb_refl in E. discriminate.
Qed.
Lemma cget_notin : forall (st : cstate) c, ~ In c (map fst st) -> cget c st = [].
Proof.
  induction st as [|[c0 m0] st]; intros c H; cbn [cget]; auto.
  destruct (c0 =? c) eqn:E.
  - apply N.eqb_eq in E. subst. exfalso. apply H. cbn. auto.
  - apply IHst. intros Hin. apply H. cbn. auto.
Qed.
End CState.

(* ------------------------------------------------------------------ operations as a flat batch *)
Definition opval (o : wop) : option value := match o with WInsert v => Some v | WRemove => None end.

Lemma mget_apply_op : forall (m : @smap value) k o k', ssorted m ->
  mget k' (apply_op k o m) = if keqb k' k then opval o else mget k' m.
Proof. intros. destruct o; cbn [apply_op opval]. apply mget_mremove; auto. apply mget_minsert. Qed.
Lemma apply_op_sorted : forall (m : @smap value) k o, ssorted m -> ssorted (apply_op k o m).
Proof. intros. destruct o; cbn. apply mremove_sorted; auto. apply minsert_sorted; auto. Qed.

Definition tag_entries (c : N) (es : @smap wop) : batch := map (fun e => (c, fst e, snd e)) es.
Definition flat (ch : changes) : batch := flat_map (fun ce => tag_entries (fst ce) (snd ce)) ch.
Definition flat_list (l : list changes) : batch := flat_map flat l.

Lemma write_batch_app : forall b1 b2 st, write_batch (b1 ++ b2) st = write_batch b2 (write_batch b1 st).
Proof. induction b1 as [|[[c k] o] b1]; cbn; intros; auto. Qed.
Lemma write_batch_ceq : forall b a a', ceq a a' -> ceq (write_batch b a) (write_batch b a').
Proof.
  induction b as [|[[c k] o] b]; cbn; intros; auto. apply IHb.
  rewrite (H c). apply ceq_cset. auto.
Qed.
Lemma write_batch_sorted : forall b st, csorted st -> csorted (write_batch b st).
Proof.
  induction b as [|[[c k] o] b]; cbn; intros; auto. apply IHb.
  apply csorted_cset; auto. apply apply_op_sorted. auto.
Qed.

Lemma apply_entries_batch : forall es c st,
  ceq (write_batch (tag_entries c es) st) (cset c (apply_entries es (cget c st)) st).
Proof.
  induction es as [|[k o] es]; intros c st; cbn [tag_entries map write_batch apply_entries fst snd].
  - apply ceq_sym. apply cset_cget.
  - eapply ceq_trans. apply IHes. rewrite cget_cset_same. apply cset_cset.
Qed.
Lemma apply_changes_batch : forall ch st, ceq (apply_changes ch st) (write_batch (flat ch) st).
Proof.
  induction ch as [|[c es] ch]; intros st; cbn [apply_changes flat flat_map fst snd].
  - apply ceq_refl.
  - rewrite write_batch_app. eapply ceq_trans. apply IHch.
    apply write_batch_ceq. apply ceq_sym. apply apply_entries_batch.
Qed.
Lemma apply_list_batch : forall l st, ceq (apply_list l st) (write_batch (flat_list l) st).
Proof.
  induction l as [|ch l]; intros st; cbn [apply_list flat_list flat_map].
  - apply ceq_refl.
  - rewrite write_batch_app. eapply ceq_trans. apply IHl.
    apply write_batch_ceq. apply apply_changes_batch.
Qed.

Lemma apply_entries_sorted : forall es (m : @smap value), ssorted m -> ssorted (apply_entries es m).
Proof. induction es as [|[k o] es]; cbn; intros; auto. apply IHes. apply apply_op_sorted. auto. Qed.
Lemma apply_changes_sorted : forall ch st, csorted st -> csorted (apply_changes ch st).
Proof.
  induction ch as [|[c es] ch]; cbn; intros; auto. apply IHch. apply csorted_cset; auto.
  apply apply_entries_sorted. auto.
Qed.
Lemma apply_list_sorted : forall l st, csorted st -> csorted (apply_list l st).
Proof. induction l; cbn; intros; auto. apply IHl. apply apply_changes_sorted. auto. Qed.

(* ------------------------------------------------------------------ the conflict finder *)
Lemma kd_app : forall l1 l2 seen,
  keys_disjoint seen (l1 ++ l2) = keys_disjoint seen l1 && keys_disjoint (rev l1 ++ seen) l2.
Proof.
  induction l1 as [|x l1]; intros l2 seen; cbn [app keys_disjoint rev]; auto.
  rewrite IHl1. rewrite <- app_assoc. cbn [app]. rewrite andb_assoc. auto.
Qed.
Definition entry_keys (c : N) (es : @smap wop) : list ck := map (fun e => (c, fst e)) es.
Lemma changes_keys_cons : forall c es ch, changes_keys ((c, es) :: ch) = entry_keys c es ++ changes_keys ch.
Proof. intros. reflexivity. Qed.

(* RocksDb: the batch is exactly the flattened list, or a conflict *)
Lemma entry_keys_cons : forall c k o es, entry_keys c ((k, o) :: es) = (c, k) :: entry_keys c es.
Proof. reflexivity. Qed.
Lemma tag_entries_cons : forall c k o es, tag_entries c ((k, o) :: es) = (c, k, o) :: tag_entries c es.
Proof. reflexivity. Qed.
Lemma populate_entries_spec : forall es cf c b,
  populate_entries cf c es b =
  if keys_disjoint cf (entry_keys c es) then Some (rev (entry_keys c es) ++ cf, b ++ tag_entries c es) else None.
Proof.
  induction es as [|[k o] es]; intros cf c b.
  - cbn. rewrite app_nil_r. auto.
  - cbn [populate_entries]. rewrite entry_keys_cons, tag_entries_cons. cbn [keys_disjoint rev].
    destruct (ck_mem (c, k) cf); cbn [negb andb]; auto.
    rewrite IHes. unfold ck in *.
    destruct (keys_disjoint ((c, k) :: cf) (entry_keys c es)); auto.
    rewrite <- !app_assoc. auto.
Qed.
Lemma populate_batch_spec : forall ch cf b,
  populate_batch cf ch b =
  if keys_disjoint cf (changes_keys ch) then Some (rev (changes_keys ch) ++ cf, b ++ flat ch) else None.
Proof.
  induction ch as [|[c es] ch]; intros cf b; cbn [populate_batch].
  - cbn. rewrite app_nil_r. auto.
  - rewrite changes_keys_cons, kd_app, populate_entries_spec.
    destruct (keys_disjoint cf (entry_keys c es)); cbn [andb]; auto.
    rewrite IHch. destruct (keys_disjoint _ (changes_keys ch)); auto.
    rewrite rev_app_distr, <- !app_assoc. cbn [flat flat_map fst snd]. auto.
Qed.
Lemma populate_list_spec : forall l cf b,
  populate_list cf l b =
  if keys_disjoint cf (flat_map changes_keys l) then Some (b ++ flat_list l) else None.
Proof.
  induction l as [|ch l]; intros cf b; cbn [populate_list flat_map].
  - cbn. rewrite app_nil_r. auto.
  - rewrite kd_app, populate_batch_spec.
    destruct (keys_disjoint cf (changes_keys ch)); cbn [andb]; auto.
    rewrite IHl. destruct (keys_disjoint _ (flat_map changes_keys l)); auto.
    rewrite <- app_assoc. auto.
Qed.

Lemma sc_sets_cases : forall sc, (match sc with SChanges ch => [ch] | SList l => l end) = sc_sets sc.
Proof. destruct sc; auto. Qed.

(* RocksDb = the specification on EVERY change set, conflicting or not *)
Lemma rocks_commit_spec : forall st sc,
  snd (rocks_commit st sc) = snd (spec_commit st sc) /\
  ceq (fst (rocks_commit st sc)) (fst (spec_commit st sc)).
Proof.
  intros. unfold rocks_commit, spec_commit, conflict_free. rewrite sc_sets_cases, populate_list_spec.
  destruct (keys_disjoint [] (flat_map changes_keys (sc_sets sc))); cbn [fst snd app].
  - split; auto. apply ceq_sym. apply apply_list_batch.
  - split; auto. apply ceq_refl.
Qed.

(* MemoryStore: the same on conflict-free change sets *)
Lemma mem_entries_spec : forall es cf c tree rest,
  keys_disjoint cf (entry_keys c es ++ rest) = true ->
  mem_insert_entries cf c es tree = (rev (entry_keys c es) ++ cf, apply_entries es tree, true).
Proof.
  induction es as [|[k o] es]; intros cf c tree rest H.
  - cbn. auto.
  - cbn [mem_insert_entries apply_entries]. rewrite entry_keys_cons in *. cbn [app keys_disjoint rev] in *.
    apply andb_true_iff in H as [H1 H2]. apply negb_true_iff in H1. rewrite H1.
    rewrite (IHes _ _ _ rest H2). rewrite <- app_assoc. auto.
Qed.
Lemma mem_changes_spec : forall ch cf st rest,
  keys_disjoint cf (changes_keys ch ++ rest) = true ->
  mem_insert_changes cf ch st = (rev (changes_keys ch) ++ cf, apply_changes ch st, true).
Proof.
  induction ch as [|[c es] ch]; intros cf st rest H; cbn [mem_insert_changes apply_changes]; auto.
  rewrite changes_keys_cons, <- app_assoc in H.
  rewrite (mem_entries_spec _ _ _ _ _ H).
  rewrite kd_app in H. apply andb_true_iff in H as [_ H].
  rewrite (IHch _ _ rest H). rewrite changes_keys_cons, rev_app_distr, <- app_assoc. auto.
Qed.
Lemma mem_list_spec : forall l cf st,
  keys_disjoint cf (flat_map changes_keys l) = true ->
  mem_insert_list cf l st = (apply_list l st, true).
Proof.
  induction l as [|ch l]; intros cf st H; cbn [mem_insert_list apply_list flat_map] in *; auto.
  rewrite (mem_changes_spec _ _ _ _ H).
  rewrite kd_app in H. apply andb_true_iff in H as [_ H]. apply IHl. auto.
Qed.
Lemma mem_commit_spec : forall st sc, conflict_free sc = true -> mem_commit st sc = spec_commit st sc.
Proof.
  intros st sc H. unfold spec_commit. rewrite H. unfold conflict_free in H.
  destruct sc; cbn [mem_commit sc_sets] in *; apply mem_list_spec; auto.
Qed.

(* ------------------------------------------------------------------ lookups *)
Definition lookup {V} (st : cstate V) (c : N) (k : key) : option V := mget k (cget c st).

Definition fapply (f : N -> key -> option value) (x : N * key * wop) : N -> key -> option value :=
  fun c k => if (c =? fst (fst x)) && keqb k (snd (fst x)) then opval (snd x) else f c k.
Definition fapplyW (f : N -> key -> option wop) (x : N * key * wop) : N -> key -> option wop :=
  fun c k => if (c =? fst (fst x)) && keqb k (snd (fst x)) then Some (snd x) else f c k.

Lemma fold_fapply_ext : forall b f g, (forall c k, f c k = g c k) ->
  forall c k, fold_left fapply b f c k = fold_left fapply b g c k.
Proof.
  induction b; cbn; intros; auto. apply IHb. intros. unfold fapply. rewrite H. auto.
Qed.
Lemma fold_fapplyW_ext : forall b f g, (forall c k, f c k = g c k) ->
  forall c k, fold_left fapplyW b f c k = fold_left fapplyW b g c k.
Proof.
  induction b; cbn; intros; auto. apply IHb. intros. unfold fapplyW. rewrite H. auto.
Qed.

Lemma lookup_write_batch : forall b st, csorted st ->
  forall c k, lookup (write_batch b st) c k = fold_left fapply b (lookup st) c k.
Proof.
  induction b as [|[[c0 k0] o] b]; intros st Hs c k; cbn [write_batch fold_left]; auto.
  rewrite IHb.
  - apply fold_fapply_ext. intros c' k'. unfold lookup, fapply. cbn [fst snd].
    rewrite cget_cset. rewrite (N.eqb_sym c' c0). destruct (c0 =? c') eqn:E; cbn [andb]; auto.
    apply N.eqb_eq in E. subst. apply mget_apply_op. auto.
  - apply csorted_cset; auto. apply apply_op_sorted. auto.
Qed.

(* folding value operations = folding the operations themselves, then reading them *)
Lemma fold_fapply_W : forall b f g f0,
  (forall c k, f c k = match g c k with Some o => opval o | None => f0 c k end) ->
  forall c k, fold_left fapply b f c k =
              match fold_left fapplyW b g c k with Some o => opval o | None => f0 c k end.
Proof.
  induction b; cbn [fold_left]; intros; auto. apply IHb. intros c' k'.
  unfold fapply, fapplyW. destruct ((c' =? fst (fst a)) && keqb k' (snd (fst a))); auto.
Qed.

(* the merged change set *)
Lemma merge_entries_sorted : forall es (acc : @smap wop), ssorted acc -> ssorted (merge_entries es acc).
Proof. induction es as [|[k o] es]; cbn; intros; auto. apply IHes. apply minsert_sorted. auto. Qed.
Lemma merge_changes_inv : forall ch acc, csorted acc -> cnodup acc ->
  csorted (merge_changes ch acc) /\ cnodup (merge_changes ch acc).
Proof.
  induction ch as [|[c es] ch]; cbn; intros; auto. apply IHch.
  - apply csorted_cset; auto. apply merge_entries_sorted. auto.
  - apply cnodup_cset. auto.
Qed.
Lemma merge_list_inv : forall l acc, csorted acc -> cnodup acc ->
  csorted (merge_list l acc) /\ cnodup (merge_list l acc).
Proof.
  induction l; cbn; intros; auto. destruct (merge_changes_inv a acc); auto.
Qed.

Lemma lookup_merge_entries : forall es c (acc : cstate wop) c' k',
  lookup (cset c (merge_entries es (cget c acc)) acc) c' k' =
  fold_left fapplyW (tag_entries c es) (lookup acc) c' k'.
Proof.
  induction es as [|[k o] es]; intros c acc c' k'; cbn [merge_entries tag_entries map fold_left fst snd].
  - unfold lookup. rewrite cget_cset. destruct (c =? c') eqn:E; auto. apply N.eqb_eq in E. subst. auto.
  - fold (tag_entries c es).
    specialize (IHes c (cset c (minsert k o (cget c acc)) acc) c' k').
    rewrite cget_cset_same in IHes.
    assert (forall x y, lookup (cset c (merge_entries es (minsert k o (cget c acc))) (cset c (minsert k o (cget c acc)) acc)) x y =
                        lookup (cset c (merge_entries es (minsert k o (cget c acc))) acc) x y) as E.
    { intros. unfold lookup. rewrite (cset_cset acc c). auto. }
    rewrite <- E, IHes. apply fold_fapplyW_ext. intros x y. unfold lookup, fapplyW. cbn [fst snd].
    rewrite cget_cset. rewrite (N.eqb_sym x c). destruct (c =? x) eqn:E2; cbn [andb]; auto.
    apply N.eqb_eq in E2. subst. apply mget_minsert.
Qed.
Lemma lookup_merge_changes : forall ch acc c k,
  lookup (merge_changes ch acc) c k = fold_left fapplyW (flat ch) (lookup acc) c k.
Proof.
  induction ch as [|[c0 es] ch]; intros acc c k; cbn [merge_changes flat flat_map fst snd]; auto.
  rewrite fold_left_app, IHch. apply fold_fapplyW_ext. intros. apply lookup_merge_entries.
Qed.
Lemma lookup_merge_list : forall l acc c k,
  lookup (merge_list l acc) c k = fold_left fapplyW (flat_list l) (lookup acc) c k.
Proof.
  induction l as [|ch l]; intros acc c k; cbn [merge_list flat_list flat_map]; auto.
  rewrite fold_left_app, IHl. apply fold_fapplyW_ext. intros. apply lookup_merge_changes.
Qed.

(* reading a flattened well-formed change set *)
Lemma fold_entries_sorted : forall (es : @smap wop) c g c' k', ssorted es ->
  fold_left fapplyW (tag_entries c es) g c' k' =
  if c' =? c then match mget k' es with Some o => Some o | None => g c' k' end else g c' k'.
Proof.
  induction es as [|[k o] es]; intros c g c' k' Hs; cbn [tag_entries map fold_left fst snd mget].
  - destruct (c' =? c); auto.
  - fold (tag_entries c es). rewrite IHes by (eapply ssorted_tail; eauto).
    pose proof (ssorted_head _ _ Hs) as Hh.
    unfold fapplyW. cbn [fst snd]. destruct (c' =? c) eqn:E; cbn [andb]; auto.
    unfold keqb. destruct (kcmp k' k) eqn:E2.
    + apply kcmp_eq in E2. subst. destruct (mget k es) eqn:G; auto.
      apply mget_In in G; eauto using ssorted_tail. apply Hh in G. cbn in G. rewrite kltb_irrefl in G. discriminate.
    + destruct (mget k' es) eqn:G; auto.
      apply mget_In in G; eauto using ssorted_tail. apply Hh in G. cbn in G. apply kltb_lt in G.
      pose proof (kcmp_lt_trans _ _ _ E2 G) as HH. rewrite kcmp_refl in HH. discriminate.
    + auto.
Qed.
Lemma fold_flat_wf : forall (M : cstate wop) g c k, csorted M -> cnodup M ->
  fold_left fapplyW (flat M) g c k = match lookup M c k with Some o => Some o | None => g c k end.
Proof.
  induction M as [|[c0 es] M]; intros g c k Hs Hn; cbn [flat flat_map fst snd]; auto.
  rewrite fold_left_app. inversion Hn; subst.
  assert (csorted M) as HsM.
  { intros x. destruct (N.eq_dec x c0) as [->|Ne].
    - rewrite cget_notin by auto. constructor.
    - specialize (Hs x). cbn [cget] in Hs. destruct (c0 =? x) eqn:E; auto. apply N.eqb_eq in E. congruence. }
  rewrite IHM by auto. unfold lookup. cbn [cget].
  assert (ssorted es) as Hes by (specialize (Hs c0); cbn [cget] in Hs; rewrite N.eqb_refl in Hs; auto).
  rewrite fold_entries_sorted by auto.
  destruct (c0 =? c) eqn:E.
  - apply N.eqb_eq in E. subst. rewrite cget_notin by auto. cbn [mget]. rewrite N.eqb_refl. auto.
  - rewrite (N.eqb_sym c c0), E. auto.
Qed.

(* the historical path applies exactly the flattened list (later operations win) *)
Lemma apply_merged : forall l st, csorted st ->
  ceq (apply_changes (merge_list l []) st) (write_batch (flat_list l) st).
Proof.
  intros l st Hs. destruct (merge_list_inv l []) as [Ms Mn]. apply csorted_nil. constructor.
  intros c. apply sorted_ext.
  - apply apply_changes_sorted. auto.
  - apply write_batch_sorted. auto.
  - intros k. change (lookup (apply_changes (merge_list l []) st) c k = lookup (write_batch (flat_list l) st) c k).
    assert (lookup (apply_changes (merge_list l []) st) c k = lookup (write_batch (flat (merge_list l [])) st) c k) as ->.
    { unfold lookup. rewrite (apply_changes_batch _ st c). auto. }
    rewrite !lookup_write_batch by auto.
    rewrite (fold_fapply_W (flat (merge_list l [])) (lookup st) (fun _ _ => None) (lookup st)) by auto.
    rewrite (fold_fapply_W (flat_list l) (lookup st) (fun _ _ => None) (lookup st)) by auto.
    rewrite fold_flat_wf by auto. rewrite lookup_merge_list.
    assert (forall c k, lookup ([] : cstate wop) c k = None) as E0 by (intros; unfold lookup; destruct c0; auto).
    rewrite (fold_fapplyW_ext (flat_list l) (lookup []) (fun _ _ => None)) by auto.
    destruct (fold_left fapplyW (flat_list l) (fun _ _ => None) c k); auto.
Qed.

Lemma all_changes_sets : forall sc, all_changes sc = merge_list (sc_sets sc) [].
Proof. destruct sc; auto. Qed.

Lemma cleanup_main : forall p h d, h_main (cleanup_old p h d) = h_main d.
Proof. intros. unfold cleanup_old. destruct (p <=? 1); auto. destruct (mget _ _); auto. Qed.

(* HistoricalRocksDB: with history on, the commit always succeeds and applies the flattened list;
   otherwise it is RocksDb's commit *)
Lemma hist_commit_main : forall p h sc d, csorted (h_main d) ->
  let r := hist_commit p h sc d in
  (snd r = true /\ ceq (h_main (fst r)) (apply_list (sc_sets sc) (h_main d))) \/
  (snd r = snd (spec_commit (h_main d) sc) /\ ceq (h_main (fst r)) (fst (spec_commit (h_main d) sc))).
Proof.
  intros p h sc d Hs. unfold hist_commit.
  pose proof (rocks_commit_spec (h_main d) sc) as [R1 R2].
  destruct h as [h|].
  - destruct (p =? 0).
    + right. destruct (rocks_commit (h_main d) sc). cbn [fst snd h_main] in *. auto.
    + left. cbn [fst snd]. split; auto. unfold hist_commit_history. cbn [h_main].
      rewrite cleanup_main, all_changes_sets.
      eapply ceq_trans. apply apply_merged; auto. apply ceq_sym. apply apply_list_batch.
  - right. destruct (rocks_commit (h_main d) sc). cbn [fst snd h_main] in *. auto.
Qed.

(* ------------------------------------------------------------------ all backends, whole histories *)
Definition cbytes (st : cstate value) : Prop := forall c, Forall (fun kv => is_bytes (fst kv)) (cget c st).
Definition bytes_entries (es : @smap wop) : Prop := Forall (fun e => is_bytes (fst e)) es.
Definition bytes_changes (ch : changes) : Prop := Forall (fun ce => bytes_entries (snd ce)) ch.
Definition bytes_commit (cm : commit) : Prop := Forall bytes_changes (sc_sets (c_sc cm)).

Lemma apply_op_bytes : forall (m : @smap value) k o, is_bytes k ->
  Forall (fun kv => is_bytes (fst kv)) m -> Forall (fun kv => is_bytes (fst kv)) (apply_op k o m).
Proof.
  intros m k o Hk Hm. rewrite Forall_forall in *. intros x Hx. destruct o; cbn in Hx.
  - apply mremove_In in Hx. auto.
  - apply minsert_In in Hx as [->|Hx]; auto.
Qed.
Lemma apply_entries_bytes : forall es (m : @smap value), bytes_entries es ->
  Forall (fun kv => is_bytes (fst kv)) m -> Forall (fun kv => is_bytes (fst kv)) (apply_entries es m).
Proof.
  induction es as [|[k o] es]; cbn; intros; auto. inversion H; subst. apply IHes; auto.
  apply apply_op_bytes; auto.
Qed.
Lemma cbytes_cset : forall st c m, cbytes st -> Forall (fun kv => is_bytes (fst kv)) m -> cbytes (cset c m st).
Proof. intros st c m H Hm c'. rewrite cget_cset. destruct (c =? c'); auto. Qed.
Lemma apply_changes_bytes : forall ch st, bytes_changes ch -> cbytes st -> cbytes (apply_changes ch st).
Proof.
  induction ch as [|[c es] ch]; cbn; intros; auto. inversion H; subst. apply IHch; auto.
  apply cbytes_cset; auto. apply apply_entries_bytes; auto.
Qed.
Lemma apply_list_bytes : forall l st, Forall bytes_changes l -> cbytes st -> cbytes (apply_list l st).
Proof. induction l; cbn; intros; auto. inversion H; subst. apply IHl; auto. apply apply_changes_bytes; auto. Qed.
Lemma cbytes_nil : cbytes [].
Proof. intros c. cbn. constructor. Qed.

Definition spec_inv (st : cstate value) : Prop := csorted st /\ cbytes st.
Lemma spec_commit_inv : forall st cm, spec_inv st -> bytes_commit cm -> spec_inv (fst (spec_commit st (c_sc cm))).
Proof.
  intros st cm [H1 H2] Hb. unfold spec_commit. destruct (conflict_free (c_sc cm)); cbn [fst]; split; auto.
  apply apply_list_sorted; auto. apply apply_list_bytes; auto.
Qed.

(* a backend state agrees with a specification state *)
Definition brel (s : bstate) (st : cstate value) : Prop := ceq (bcontents s) st.

Lemma bcommit_rel : forall s st cm, brel s st -> spec_inv st -> conflict_free (c_sc cm) = true ->
  snd (bcommit s cm) = snd (spec_commit st (c_sc cm)) /\
  brel (fst (bcommit s cm)) (fst (spec_commit st (c_sc cm))).
Proof.
  intros s st cm Hr [Hs Hb] Hc. unfold brel in *.
  assert (Hspec : spec_commit st (c_sc cm) = (apply_list (sc_sets (c_sc cm)) st, true)) by (unfold spec_commit; rewrite Hc; auto).
  assert (Hcong : forall a, ceq a st -> ceq (apply_list (sc_sets (c_sc cm)) a) (apply_list (sc_sets (c_sc cm)) st)).
  { intros a Ha. eapply ceq_trans. apply apply_list_batch. eapply ceq_trans. apply write_batch_ceq. apply Ha.
    apply ceq_sym. apply apply_list_batch. }
  destruct s as [m|m|p d]; cbn [bcommit bcontents] in *.
  - rewrite (mem_commit_spec m _ Hc). unfold spec_commit at 1 3. rewrite Hc. rewrite Hspec. cbn [fst snd bcontents].
    split; auto.
  - pose proof (rocks_commit_spec m (c_sc cm)) as [R1 R2].
    destruct (rocks_commit m (c_sc cm)) as [m' ok]. cbn [fst snd bcontents] in *.
    unfold spec_commit in R1, R2. rewrite Hc in R1, R2. rewrite Hspec. cbn [fst snd] in *. split; auto.
    eapply ceq_trans; eauto.
  - assert (csorted (h_main d)) as Hsd by (eapply csorted_ceq; [apply ceq_sym; eauto | auto]).
    pose proof (hist_commit_main p (c_height cm) (c_sc cm) d Hsd) as H. cbn zeta in H.
    destruct (hist_commit p (c_height cm) (c_sc cm) d) as [d' ok]. cbn [fst snd bcontents] in *.
    rewrite Hspec. cbn [fst snd].
    destruct H as [[H1 H2]|[H1 H2]].
    + split; auto. eapply ceq_trans; eauto.
    + unfold spec_commit in H1, H2. rewrite Hc in H1, H2. cbn [fst snd] in *. split; auto.
      eapply ceq_trans; eauto.
Qed.

Definition history_conflict_free (cms : list commit) : Prop := Forall (fun cm => conflict_free (c_sc cm) = true) cms.

Lemma brun_rel : forall cms s st, brel s st -> spec_inv st ->
  history_conflict_free cms -> Forall bytes_commit cms ->
  snd (brun s cms) = snd (spec_run st cms) /\ brel (fst (brun s cms)) (fst (spec_run st cms)) /\
  spec_inv (fst (spec_run st cms)).
Proof.
  induction cms as [|cm cms]; intros s st Hr Hi Hc Hb; cbn [brun spec_run fst snd]; auto.
  inversion Hc; subst. inversion Hb; subst.
  pose proof (bcommit_rel s st cm Hr Hi H1) as [T R].
  pose proof (spec_commit_inv st cm Hi H3) as Hi'.
  destruct (bcommit s cm) as [s' ok]. destruct (spec_commit st (c_sc cm)) as [st' ok']. cbn [fst snd] in *.
  specialize (IHcms s' st' R Hi' H2 H4) as [T' [R' I']].
  destruct (brun s' cms) as [s'' oks]. destruct (spec_run st' cms) as [st'' oks']. cbn [fst snd] in *.
  subst. auto.
Qed.

Definition query_ok (q : query) : Prop := opt_bytes (q_prefix q).

Lemma biter_spec : forall s st c p start d, brel s st -> spec_inv st -> opt_bytes p ->
  biter s c p start d = iter_spec (cget c st) p start d.
Proof.
  intros s st c p start d Hr [Hs Hb] Hp. unfold brel in Hr.
  destruct s as [m|m|pp h]; cbn [biter bcontents] in *; rewrite (Hr c).
  - apply btree_iter_eq_spec_all. auto.
  - apply rocks_iter_eq_spec_all; auto.
  - apply rocks_iter_eq_spec_all; auto.
Qed.

(* C11: on every conflict-free history over byte-string keys and for every list of queries, every
   backend (MemoryStore, RocksDb, HistoricalRocksDB under every rewind policy) produces exactly the
   observation of the specification: same results, same contents, same lookups, same iteration *)
Theorem all_backends_eq_spec : forall b cms qs,
  history_conflict_free cms -> Forall bytes_commit cms -> Forall query_ok qs ->
  model_obs b cms qs = spec_obs cms qs.
Proof.
  intros b cms qs Hc Hb Hq. unfold model_obs, spec_obs.
  assert (brel (binit b) []) as R0.
  { unfold binit, brel. destruct (b =? 0); [|destruct (b =? 1)]; cbn; apply ceq_refl. }
  pose proof (brun_rel cms (binit b) [] R0 (conj csorted_nil cbytes_nil) Hc Hb) as [T [R I]].
  destruct (brun (binit b) cms) as [s tags]. destruct (spec_run [] cms) as [st tags']. cbn [fst snd] in *.
  subst tags'. unfold obs_of. unfold brel in R. f_equal.
  - apply map_ext. intros c. apply R.
  - apply map_ext. intros x. rewrite (R (fst x)). auto.
  - apply map_ext_in. intros q Hin. f_equal. apply biter_spec; auto.
    rewrite Forall_forall in Hq. apply Hq. auto.
Qed.

(* the contents part on its own: same contents on all backends after the same history *)
Theorem commit_same_contents_all : forall b1 b2 cms,
  history_conflict_free cms -> Forall bytes_commit cms ->
  ceq (bcontents (fst (brun (binit b1) cms))) (bcontents (fst (brun (binit b2) cms))).
Proof.
  intros b1 b2 cms Hc Hb.
  assert (forall b, brel (binit b) []) as R0.
  { intros b. unfold binit, brel. destruct (b =? 0); [|destruct (b =? 1)]; cbn; apply ceq_refl. }
  pose proof (brun_rel cms (binit b1) [] (R0 b1) (conj csorted_nil cbytes_nil) Hc Hb) as [_ [R1 _]].
  pose proof (brun_rel cms (binit b2) [] (R0 b2) (conj csorted_nil cbytes_nil) Hc Hb) as [_ [R2 _]].
  unfold brel in *. eapply ceq_trans; eauto. apply ceq_sym. auto.
Qed.

(* RocksDb (and the historical store without history) agree with the specification on every
   history, also on conflicting change lists *)
Theorem rocks_commit_eq_spec_all : forall st sc,
  snd (rocks_commit st sc) = snd (spec_commit st sc) /\
  ceq (fst (rocks_commit st sc)) (fst (spec_commit st sc)).
Proof. exact rocks_commit_spec. Qed.

(* the known class: one change list that writes a (column,key) twice.  MemoryStore reports the
   conflict but keeps what it wrote before; the historical store with history accepts the list *)
Definition ex_conflict : list commit :=
  [ {| c_height := Some 1;
       c_sc := SList [ [(0, [([1], WInsert [7]); ([3], WInsert [7])])];
                       [(0, [([2], WInsert [9]); ([3], WInsert [9])])] ] |} ].
Lemma conflicting_list_refuted :
  history_conflict_free ex_conflict -> False.
Proof. intros H. inversion H; subst. vm_compute in H2. discriminate. Qed.
Lemma commit_same_contents_refuted_witness :
  exists cms, Forall bytes_commit cms /\
    bcontents (fst (brun (binit 0) cms)) <> bcontents (fst (brun (binit 1) cms)) /\
    bcontents (fst (brun (binit 3) cms)) <> bcontents (fst (brun (binit 1) cms)) /\
    snd (brun (binit 3) cms) <> snd (brun (binit 1) cms).
Proof.
  exists ex_conflict. split.
  - repeat constructor; cbn; lia.
  - vm_compute. repeat split; discriminate.
Qed.

(* what the original flattening did: the earlier change set of a column was dropped *)
Example flatten_collect_orig_drops :
  flatten_collect_orig [ [(0, [([1], WInsert [7])])]; [(0, [([2], WInsert [8])])] ] [] = [(0, [([2], WInsert [8])])] /\
  merge_list [ [(0, [([1], WInsert [7])])]; [(0, [([2], WInsert [8])])] ] [] = [(0, [([1], WInsert [7]); ([2], WInsert [8])])].
Proof. vm_compute. auto. Qed.

(* non-vacuity: a conflict-free history with overlapping columns in one change list *)
Definition ex_history : list commit :=
  [ {| c_height := Some 1;
       c_sc := SList [ [(0, [([1], WInsert [7])]); (1, [([255], WInsert [])])];
                       [(0, [([1; 255], WInsert [8]); ([2], WRemove)])] ] |};
    {| c_height := None; c_sc := SChanges [(0, [([1], WRemove); ([2; 0], WInsert [1])])] |} ].
Example history_nonvacuous :
  history_conflict_free ex_history /\ Forall bytes_commit ex_history /\
  o_contents (model_obs 4 ex_history []) = [ [([1; 255], [8]); ([2; 0], [1])]; [([255], [])]; [] ].
Proof.
  split; [|split].
  - repeat constructor.
  - repeat constructor; cbn; lia.
  - vm_compute. auto.
Qed.

(* ------------------------------------------------------------------ the checker *)
Lemma T_eqb_refl_list : forall (l : list T), (forall x, In x l -> T_eqb x x = true) ->
  (fix go (xs ys : list T) : bool :=
     match xs, ys with
     | [], [] => true
     | x :: xs', y :: ys' => T_eqb x y && go xs' ys'
     | _, _ => false
     end) l l = true.
Proof. induction l; intros; auto. rewrite H by (cbn; auto). cbn. apply IHl. intros. apply H. cbn. auto. Qed.

Fixpoint T_size (t : T) : nat :=
  match t with I _ => 1%nat | L l => S (fold_right (fun x n => (T_size x + n)%nat) 0%nat l) end.

Lemma T_eqb_eq : forall a b, T_eqb a b = true <-> a = b.
Proof.
  assert (forall n a, (T_size a < n)%nat -> forall b, T_eqb a b = true <-> a = b) as H.
  { induction n; intros a Hn b. lia.
    destruct a as [x|xs], b as [y|ys]; cbn [T_eqb].
    - rewrite Z.eqb_eq. split; congruence.
    - split; discriminate.
    - split; discriminate.
    - cbn [T_size] in Hn.
      revert ys. induction xs as [|x xs IHxs]; intros ys; destruct ys as [|y ys].
      + split; auto.
      + split; discriminate.
      + split; discriminate.
      + cbn [fold_right] in Hn. rewrite andb_true_iff. rewrite (IHn x) by lia.
        assert (S (fold_right (fun x n => (T_size x + n)%nat) 0%nat xs) < S n)%nat as Hxs by lia.
        specialize (IHxs Hxs ys). rewrite IHxs. split.
        * intros [-> E]. injection E as ->. auto.
        * intros E. injection E as -> ->. auto. }
  intros a. apply (H (S (T_size a))). lia.
Qed.

Lemma all_eqb_spec : forall ts t, all_eqb ts t = true <-> Forall (fun x => x = t) ts.
Proof.
  induction ts; cbn; intros. split; auto.
  rewrite andb_true_iff, T_eqb_eq, IHts. split.
  - intros [-> H]. constructor; auto.
  - intros H. inversion H; subst. auto.
Qed.

(* Pcheck of C11 = every backend's observation is the specification's *)
Lemma c11_okb_sound : forall nb cms qs observed,
  c11_okb nb cms qs observed = true <->
  length observed = nb /\ Forall (fun o => o = tObs (spec_obs cms qs)) observed.
Proof.
  intros. unfold c11_okb. rewrite andb_true_iff, Nat.eqb_eq, all_eqb_spec. tauto.
Qed.

(* the model's own trace passes the checker on the histories of the theorem *)
Lemma model_passes_c11 : forall bs cms qs,
  history_conflict_free cms -> Forall bytes_commit cms -> Forall query_ok qs ->
  c11_okb (length bs) cms qs (map (fun b => tObs (model_obs b cms qs)) bs) = true.
Proof.
  intros. apply c11_okb_sound. split. apply map_length.
  apply Forall_forall. intros x Hx. apply in_map_iff in Hx as [b [<- _]].
  rewrite all_backends_eq_spec; auto.
Qed.
