(* Order facts about byte strings, sorted association lists, take/drop-while. *)
From FC Require Import Backend.Model.
From Coq Require Import Sorting.Sorted ZifyBool ZifyN ZifyNat Lia.
Open Scope N_scope.

(* ------------------------------------------------------------------ kcmp *)
Lemma kcmp_refl : forall a, kcmp a a = Eq.
Proof. induction a; cbn [kcmp]; auto. rewrite N.compare_refl. auto. Qed.

Lemma kcmp_eq : forall a b, kcmp a b = Eq -> a = b.
Proof.
  induction a; destruct b; cbn [kcmp]; intros H; try discriminate; auto.
  destruct (a ?= n) eqn:E; try discriminate.
  apply N.compare_eq in E. subst. f_equal. auto.
Qed.

Lemma kcmp_antisym : forall a b, kcmp b a = CompOpp (kcmp a b).
Proof.
  induction a; destruct b; cbn [kcmp]; auto.
  rewrite (N.compare_antisym a n). destruct (a ?= n); cbn; auto.
Qed.

Lemma kcmp_lt_trans : forall a b c, kcmp a b = Lt -> kcmp b c = Lt -> kcmp a c = Lt.
Proof.
  induction a; destruct b, c; cbn [kcmp]; intros H1 H2; try discriminate; auto.
  destruct (a ?= n) eqn:E1; try discriminate; destruct (n ?= n0) eqn:E2; try discriminate.
  - apply N.compare_eq in E1, E2. subst. rewrite N.compare_refl. eauto.
  - apply N.compare_eq in E1. subst. rewrite E2. auto.
  - apply N.compare_eq in E2. subst. rewrite E1. auto.
  - rewrite N.compare_lt_iff in *. assert (a ?= n0 = Lt) as -> by (rewrite N.compare_lt_iff; lia). auto.
Qed.

Lemma kltb_lt : forall a b, kltb a b = true <-> kcmp a b = Lt.
Proof. unfold kltb. intros. destruct (kcmp a b); split; congruence. Qed.
Lemma kleb_le : forall a b, kleb a b = true <-> kcmp a b <> Gt.
Proof. unfold kleb. intros. destruct (kcmp a b); split; congruence. Qed.
Lemma kleb_ltb : forall a b, kleb a b = negb (kltb b a).
Proof. intros. unfold kleb, kltb. rewrite (kcmp_antisym a b). destruct (kcmp a b); auto. Qed.
Lemma kltb_irrefl : forall a, kltb a a = false.
Proof. intros. unfold kltb. rewrite kcmp_refl. auto. Qed.
Lemma kleb_refl : forall a, kleb a a = true.
Proof. intros. unfold kleb. rewrite kcmp_refl. auto. Qed.
Lemma kltb_trans : forall a b c, kltb a b = true -> kltb b c = true -> kltb a c = true.
Proof. intros a b c. rewrite !kltb_lt. apply kcmp_lt_trans. Qed.
Lemma kltb_kleb : forall a b, kltb a b = true -> kleb a b = true.
Proof. unfold kltb, kleb. intros. destruct (kcmp a b); congruence. Qed.
Lemma kleb_cases : forall a b, kleb a b = true -> a = b \/ kltb a b = true.
Proof.
  unfold kleb, kltb. intros a b. destruct (kcmp a b) eqn:E; intros; try discriminate; auto.
  left. apply kcmp_eq. auto.
Qed.
Lemma kle_lt_trans : forall a b c, kleb a b = true -> kltb b c = true -> kltb a c = true.
Proof. intros. destruct (kleb_cases _ _ H); subst; eauto using kltb_trans. Qed.
Lemma klt_le_trans : forall a b c, kltb a b = true -> kleb b c = true -> kltb a c = true.
Proof. intros. destruct (kleb_cases _ _ H0); subst; eauto using kltb_trans. Qed.
Lemma kleb_trans : forall a b c, kleb a b = true -> kleb b c = true -> kleb a c = true.
Proof.
  intros. destruct (kleb_cases _ _ H); subst; auto.
  apply kltb_kleb. eapply klt_le_trans; eauto.
Qed.
Lemma kleb_antisym : forall a b, kleb a b = true -> kleb b a = true -> a = b.
Proof.
  intros. destruct (kleb_cases _ _ H); auto.
  rewrite kleb_ltb in H0. rewrite H1 in H0. discriminate.
Qed.
Lemma kltb_total : forall a b, kltb a b = true \/ a = b \/ kltb b a = true.
Proof.
  intros. unfold kltb. rewrite (kcmp_antisym a b). destruct (kcmp a b) eqn:E; cbn; auto.
  right. left. apply kcmp_eq. auto.
Qed.
Lemma keqb_eq : forall a b, keqb a b = true <-> a = b.
Proof.
  unfold keqb. intros. split.
  - destruct (kcmp a b) eqn:E; try discriminate. intros _. apply kcmp_eq. auto.
  - intros ->. rewrite kcmp_refl. auto.
Qed.
Lemma bytes_eqb_eq : forall a b, bytes_eqb a b = true <-> a = b.
Proof. unfold bytes_eqb. intros. destruct (list_eq_dec N.eq_dec a b); split; congruence. Qed.

(* ------------------------------------------------------------------ starts_with *)
Lemma sw_refl : forall p, starts_with p p = true.
Proof. induction p as [|q p IH]; cbn; auto. rewrite N.eqb_refl. auto. Qed.
Lemma sw_nil : forall k, starts_with k [] = true.
Proof. destruct k; auto. Qed.
Lemma sw_app : forall k p, starts_with k p = true <-> exists t, k = p ++ t.
Proof.
  intros k p. revert k. induction p; intros k.
  - rewrite sw_nil. split; auto. intros _. exists k. auto.
  - destruct k; cbn [starts_with].
    + split; [discriminate | intros [t H]; discriminate].
    + rewrite andb_true_iff, N.eqb_eq, IHp. split.
      * intros [-> [t ->]]. exists t. auto.
      * intros [t H]. injection H as -> ->. eauto.
Qed.
(* a key with prefix p is at least p *)
Lemma sw_ge : forall k p, starts_with k p = true -> kleb p k = true.
Proof.
  intros k p. revert k. induction p; intros k H.
  - destruct k; auto.
  - destruct k; cbn in H; try discriminate.
    apply andb_true_iff in H as [E H]. apply N.eqb_eq in E. subst.
    specialize (IHp _ H). unfold kleb in *. cbn [kcmp]. rewrite N.compare_refl. auto.
Qed.
(* the keys with a given prefix are convex in the order *)
Lemma sw_convex : forall p a b c, kleb a b = true -> kleb b c = true ->
  starts_with a p = true -> starts_with c p = true -> starts_with b p = true.
Proof.
  induction p as [|q p IH]; intros a b c Hab Hbc Ha Hc.
  - apply sw_nil.
  - destruct a as [|x a']; cbn in Ha; try discriminate.
    destruct c as [|z c']; cbn in Hc; try discriminate.
    apply andb_true_iff in Ha as [Ex Ha]. apply andb_true_iff in Hc as [Ez Hc].
    apply N.eqb_eq in Ex, Ez. subst x z.
    destruct b as [|y b'].
    + unfold kleb in Hab. cbn in Hab. discriminate.
    + unfold kleb in Hab, Hbc. cbn [kcmp] in Hab, Hbc.
      destruct (q ?= y) eqn:E1; try discriminate; destruct (y ?= q) eqn:E2; try discriminate;
        try (rewrite ?N.compare_lt_iff, ?N.compare_eq_iff, ?N.compare_gt_iff in *; lia).
      apply N.compare_eq in E1. subst y. cbn. rewrite N.eqb_refl. cbn.
      eapply IH; eauto; unfold kleb; auto.
Qed.

(* ------------------------------------------------------------------ lists *)
Section Lists.
Context {A : Type}.

Lemma filter_filter : forall (f g : A -> bool) l,
  filter f (filter g l) = filter (fun x => g x && f x) l.
Proof.
  induction l; cbn; auto. destruct (g a); cbn; [destruct (f a)|]; rewrite ?IHl; auto.
Qed.
Lemma filter_ext_In : forall (f g : A -> bool) l, (forall x, In x l -> f x = g x) -> filter f l = filter g l.
Proof.
  induction l; cbn; intros; auto. rewrite (H a) by auto. rewrite IHl by auto. auto.
Qed.
Lemma filter_rev' : forall (f : A -> bool) l, filter f (rev l) = rev (filter f l).
Proof.
  induction l; cbn; auto. rewrite filter_app, IHl. cbn. destruct (f a); cbn; auto. rewrite app_nil_r. auto.
Qed.

(* f holds on an initial segment of l only *)
Fixpoint dc (f : A -> bool) (l : list A) : Prop :=
  match l with [] => True | x :: r => (f x = false -> Forall (fun y => f y = false) r) /\ dc f r end.

Lemma filter_all_false : forall (f : A -> bool) l, Forall (fun y => f y = false) l -> filter f l = [].
Proof. induction 1; cbn; auto. rewrite H. auto. Qed.
Lemma filter_negb_all_false : forall (f : A -> bool) l, Forall (fun y => f y = false) l -> filter (fun x => negb (f x)) l = l.
Proof. induction 1; cbn; auto. rewrite H. cbn. f_equal. auto. Qed.

Lemma takewhile_filter : forall (f : A -> bool) l, dc f l -> takewhile f l = filter f l.
Proof.
  induction l; cbn; auto. intros [H1 H2]. destruct (f a) eqn:E.
  - f_equal. auto.
  - symmetry. apply filter_all_false. auto.
Qed.
Lemma dropwhile_filter : forall (f : A -> bool) l, dc f l -> dropwhile f l = filter (fun x => negb (f x)) l.
Proof.
  induction l; cbn; auto. intros [H1 H2]. destruct (f a) eqn:E; cbn.
  - auto.
  - f_equal. symmetry. apply filter_negb_all_false. auto.
Qed.

Lemma dc_sorted : forall (R : A -> A -> Prop) (f : A -> bool) l,
  StronglySorted R l ->
  (forall x y, In x l -> In y l -> R x y -> f x = false -> f y = false) -> dc f l.
Proof.
  induction 1; cbn; auto. intros Hm. split.
  - intros Hf. rewrite Forall_forall in *. intros y Hy. eapply (Hm a y); auto.
  - apply IHStronglySorted. intros. eapply (Hm x y); auto.
Qed.

Lemma ss_app : forall (R : A -> A -> Prop) l1 l2,
  StronglySorted R l1 -> StronglySorted R l2 -> (forall x y, In x l1 -> In y l2 -> R x y) ->
  StronglySorted R (l1 ++ l2).
Proof.
  induction l1; cbn; intros; auto. inversion H; subst. constructor.
  - apply IHl1; auto.
  - apply Forall_app. split; auto. apply Forall_forall. intros. apply H1; auto.
Qed.
Lemma ss_rev : forall (R : A -> A -> Prop) l, StronglySorted R l -> StronglySorted (fun x y => R y x) (rev l).
Proof.
  induction 1; cbn. constructor.
  apply ss_app; auto. repeat constructor.
  intros x y Hx Hy. destruct Hy as [<-|[]]. rewrite Forall_forall in H0. apply H0. apply in_rev. auto.
Qed.
Lemma ss_filter : forall (R : A -> A -> Prop) f l, StronglySorted R l -> StronglySorted R (filter f l).
Proof.
  induction 1; cbn. constructor. destruct (f a); auto. constructor; auto.
  rewrite Forall_forall in *. intros x Hx. apply filter_In in Hx as [Hx _]. auto.
Qed.

Lemma skipn_takewhile : forall (f : A -> bool) l, skipn (length (takewhile f l)) l = dropwhile f l.
Proof. induction l; cbn; auto. destruct (f a); cbn; auto. Qed.
Lemma firstn_takewhile : forall (f : A -> bool) l, firstn (length (takewhile f l)) l = takewhile f l.
Proof. induction l; cbn; auto. destruct (f a); cbn; auto. f_equal. auto. Qed.
Lemma takewhile_length_le : forall (f : A -> bool) l, (length (takewhile f l) <= length l)%nat.
Proof. induction l; cbn; auto. destruct (f a); cbn; lia. Qed.
End Lists.

(* ------------------------------------------------------------------ sorted maps *)
Section SMap.
Context {V : Type}.
Notation smap := (@smap V).

Definition klt_kv (a b : key * V) : Prop := kltb (fst a) (fst b) = true.
Definition ssorted (m : smap) : Prop := StronglySorted klt_kv m.

Lemma ssorted_nil : ssorted [].
Proof. constructor. Qed.

Lemma ssorted_tail : forall a m, ssorted (a :: m) -> ssorted m.
Proof. intros. inversion H. auto. Qed.

Lemma ssorted_head : forall a m, ssorted (a :: m) -> forall x, In x m -> kltb (fst a) (fst x) = true.
Proof. intros. inversion H; subst. rewrite Forall_forall in H4. apply H4. auto. Qed.

Lemma mget_In : forall (m : smap) k v, ssorted m -> (mget k m = Some v <-> In (k, v) m).
Proof.
  induction m as [|[k' v'] m]; intros k v Hs; cbn [mget].
  - split; [discriminate | intros []].
  - pose proof (ssorted_head _ _ Hs) as Hh. pose proof (ssorted_tail _ _ Hs) as Ht.
    destruct (kcmp k k') eqn:E.
    + apply kcmp_eq in E. subst. split.
      * intros H. injection H as ->. left. auto.
      * intros [H|H]. congruence. apply Hh in H. cbn in H. rewrite kltb_irrefl in H. discriminate.
    + split; [discriminate|]. intros [H|H].
      * inversion H; subst. rewrite kcmp_refl in E. discriminate.
      * apply Hh in H. cbn in H. apply kltb_lt in H.
        pose proof (kcmp_lt_trans _ _ _ E H) as HH. rewrite kcmp_refl in HH. discriminate.
    + rewrite IHm by auto. cbn [In]. split; auto. intros [H|H]; auto.
      inversion H; subst. rewrite kcmp_refl in E. discriminate.
Qed.

Lemma minsert_In : forall (m : smap) k v x, In x (minsert k v m) -> x = (k, v) \/ In x m.
Proof.
  induction m as [|[k' v'] m]; cbn; intros k v x H.
  - destruct H as [<-|[]]. auto.
  - destruct (kcmp k k'); cbn in H.
    + destruct H as [<-|H]; auto.
    + destruct H as [<-|H]; auto.
    + destruct H as [<-|H]; auto. apply IHm in H. destruct H; auto.
Qed.
Lemma mremove_In : forall (m : smap) k x, In x (mremove k m) -> In x m.
Proof.
  induction m as [|[k' v'] m]; cbn; intros k x H; auto.
  destruct (kcmp k k'); cbn in *; auto. destruct H; auto. right. eauto.
Qed.

Lemma minsert_sorted : forall (m : smap) k v, ssorted m -> ssorted (minsert k v m).
Proof.
  induction m as [|[k' v'] m]; intros k v Hs; cbn [minsert].
  - repeat constructor.
  - pose proof (ssorted_head _ _ Hs) as Hh. pose proof (ssorted_tail _ _ Hs) as Ht.
    destruct (kcmp k k') eqn:E.
    + apply kcmp_eq in E. subst. constructor; auto. apply Forall_forall. intros. apply Hh. auto.
    + constructor; auto. apply Forall_forall. intros x [<-|Hx]; unfold klt_kv; cbn.
      * apply kltb_lt. auto.
      * eapply kltb_trans. apply kltb_lt; eauto. apply Hh in Hx. auto.
    + constructor; [apply IHm; auto|]. apply Forall_forall. intros x Hx. apply minsert_In in Hx as [->|Hx].
      * unfold klt_kv. cbn. apply kltb_lt. rewrite kcmp_antisym, E. auto.
      * apply Hh. auto.
Qed.
Lemma mremove_sorted : forall (m : smap) k, ssorted m -> ssorted (mremove k m).
Proof.
  induction m as [|[k' v'] m]; intros k Hs; cbn [mremove]; auto.
  pose proof (ssorted_head _ _ Hs) as Hh. pose proof (ssorted_tail _ _ Hs) as Ht.
  destruct (kcmp k k'); auto. constructor; [apply IHm; auto|].
  apply Forall_forall. intros x Hx. apply mremove_In in Hx. apply Hh. auto.
Qed.

Lemma mget_minsert : forall (m : smap) k v k', mget k' (minsert k v m) = if keqb k' k then Some v else mget k' m.
Proof.
  induction m as [|[k0 v0] m]; intros k v k'; cbn [minsert mget].
  - unfold keqb. destruct (kcmp k' k); auto.
  - unfold keqb. destruct (kcmp k k0) eqn:E; cbn [mget].
    + apply kcmp_eq in E. subst. destruct (kcmp k' k0); auto.
    + destruct (kcmp k' k) eqn:E2; auto.
      assert (kcmp k' k0 = Lt) as -> by (eapply kcmp_lt_trans; eauto). auto.
    + destruct (kcmp k' k0) eqn:E2.
      * apply kcmp_eq in E2. subst. rewrite (kcmp_antisym k k0), E. cbn. auto.
      * assert (kcmp k' k = Lt) as ->; auto. eapply kcmp_lt_trans; eauto.
        rewrite (kcmp_antisym k k0), E. auto.
      * rewrite IHm. unfold keqb. auto.
Qed.
Lemma mget_mremove : forall (m : smap) k k', ssorted m -> mget k' (mremove k m) = if keqb k' k then None else mget k' m.
Proof.
  induction m as [|[k0 v0] m]; intros k k' Hs; cbn [mremove mget].
  - destruct (keqb k' k); auto.
  - pose proof (ssorted_head _ _ Hs) as Hh. pose proof (ssorted_tail _ _ Hs) as Ht.
    unfold keqb. destruct (kcmp k k0) eqn:E; cbn [mget].
    + apply kcmp_eq in E. subst. destruct (kcmp k' k0) eqn:E2; auto;
        (destruct (mget k' m) eqn:G; auto; apply mget_In in G; auto; apply Hh in G; cbn in G; apply kltb_lt in G).
      * apply kcmp_eq in E2. subst. rewrite kcmp_refl in G. discriminate.
      * pose proof (kcmp_lt_trans _ _ _ E2 G) as HH. rewrite kcmp_refl in HH. discriminate.
    + destruct (kcmp k' k) eqn:E2; auto.
      * apply kcmp_eq in E2. subst. rewrite E. auto.
    + destruct (kcmp k' k0) eqn:E2; auto.
      * apply kcmp_eq in E2. subst. rewrite (kcmp_antisym k k0), E. cbn. auto.
      * assert (kcmp k' k = Lt) as ->; auto. eapply kcmp_lt_trans; eauto.
        rewrite (kcmp_antisym k k0), E. auto.
      * rewrite IHm by auto. unfold keqb. auto.
Qed.

(* sorted maps with the same lookups are equal *)
Lemma mget_head : forall k (v : V) m, mget k ((k, v) :: m) = Some v.
Proof. intros. cbn. rewrite kcmp_refl. auto. Qed.

Lemma sorted_ext : forall m1 m2 : smap, ssorted m1 -> ssorted m2 ->
  (forall k, mget k m1 = mget k m2) -> m1 = m2.
Proof.
  induction m1 as [|[k1 v1] m1]; intros m2 H1 H2 Hext.
  - destruct m2 as [|[k2 v2] m2]; auto. specialize (Hext k2). rewrite mget_head in Hext. discriminate.
  - destruct m2 as [|[k2 v2] m2].
    + specialize (Hext k1). rewrite mget_head in Hext. discriminate.
    + pose proof (ssorted_head _ _ H1) as Hh1. pose proof (ssorted_head _ _ H2) as Hh2.
      assert (k1 = k2).
      { destruct (kltb_total k1 k2) as [L|[E|L]]; auto; apply kltb_lt in L.
        - pose proof (Hext k1) as G. rewrite mget_head in G. cbn [mget] in G. rewrite L in G. discriminate.
        - pose proof (Hext k2) as G. rewrite mget_head in G. cbn [mget] in G. rewrite L in G. discriminate. }
      subst k2. pose proof (Hext k1) as G. rewrite !mget_head in G. injection G as ->.
      f_equal. apply IHm1; eauto using ssorted_tail.
      intros k. specialize (Hext k). cbn [mget] in Hext.
      destruct (kcmp k k1) eqn:E; auto.
      * apply kcmp_eq in E. subst.
        destruct (mget k1 m1) eqn:G1.
        { apply mget_In in G1; eauto using ssorted_tail. apply Hh1 in G1. cbn in G1. rewrite kltb_irrefl in G1. discriminate. }
        destruct (mget k1 m2) eqn:G2; auto.
        apply mget_In in G2; eauto using ssorted_tail. apply Hh2 in G2. cbn in G2. rewrite kltb_irrefl in G2. discriminate.
      * destruct (mget k m1) eqn:G1.
        { apply mget_In in G1; eauto using ssorted_tail. apply Hh1 in G1. cbn in G1.
          apply kltb_lt in G1. pose proof (kcmp_lt_trans _ _ _ E G1) as HH. rewrite kcmp_refl in HH. discriminate. }
        destruct (mget k m2) eqn:G2; auto.
        apply mget_In in G2; eauto using ssorted_tail. apply Hh2 in G2. cbn in G2.
        apply kltb_lt in G2. pose proof (kcmp_lt_trans _ _ _ E G2) as HH. rewrite kcmp_refl in HH. discriminate.
Qed.

End SMap.
