(* Executable model of the storage backends of fuel-core (C11, C12):
     crates/storage/src/iter.rs                      iterator (BTreeMap range + take_while)
     crates/fuel-core/src/state/in_memory/memory_store.rs   _insert_changes, commit_changes
     crates/fuel-core/src/state/rocks_db.rs          _iter_store, reverse_prefix_iter, next_prefix,
                                                     commit_changes / _populate_batch
     crates/fuel-core/src/state/rocks_db_key_iterator.rs   RocksDBKeyIterator over a raw cursor
     crates/fuel-core/src/state/historical_rocksdb.rs      commit_changes, reverse_history_changes,
                                                     store_modifications_history, cleanup_old_changes,
                                                     rollback_block_to, create_view_at
     crates/fuel-core/src/state/historical_rocksdb/view_at_height.rs   ViewAtHeight::get
   RocksDB itself is a cursor (seek, seek_for_prev, seek_to_first/last, next, prev) over the
   sorted contents of a column; a BTreeMap is a sorted association list.  No proofs here. *)
From FC Require Export Common.T.
Open Scope N_scope.

Definition key := list N.      (* bytes *)
Definition value := list N.

(* Ord for Vec<u8> / [u8]: lexicographic *)
Fixpoint kcmp (a b : key) : comparison :=
  match a, b with
  | [], [] => Eq
  | [], _ :: _ => Lt
  | _ :: _, [] => Gt
  | x :: a', y :: b' => match x ?= y with Eq => kcmp a' b' | c => c end
  end.
Definition kltb (a b : key) : bool := match kcmp a b with Lt => true | _ => false end.
Definition kleb (a b : key) : bool := match kcmp a b with Gt => false | _ => true end.
Definition keqb (a b : key) : bool := match kcmp a b with Eq => true | _ => false end.

(* k.starts_with(p) *)
Fixpoint starts_with (k p : key) : bool :=
  match p, k with
  | [], _ => true
  | x :: p', y :: k' => (x =? y) && starts_with k' p'
  | _ :: _, [] => false
  end.

Fixpoint takewhile {A} (f : A -> bool) (l : list A) : list A :=
  match l with [] => [] | x :: r => if f x then x :: takewhile f r else [] end.
Fixpoint dropwhile {A} (f : A -> bool) (l : list A) : list A :=
  match l with [] => [] | x :: r => if f x then dropwhile f r else l end.

(* ---------------------------------------------------------------------------------- *)
(* sorted association lists = BTreeMap<key, V> = the contents of one RocksDB column      *)

Section Maps.
Context {V : Type}.
Definition smap := list (key * V).

Fixpoint minsert (k : key) (v : V) (m : smap) : smap :=
  match m with
  | [] => [(k, v)]
  | (k', v') :: r =>
      match kcmp k k' with
      | Lt => (k, v) :: m
      | Eq => (k, v) :: r
      | Gt => (k', v') :: minsert k v r
      end
  end.
Fixpoint mremove (k : key) (m : smap) : smap :=
  match m with
  | [] => []
  | (k', v') :: r =>
      match kcmp k k' with
      | Lt => m
      | Eq => r
      | Gt => (k', v') :: mremove k r
      end
  end.
Fixpoint mget (k : key) (m : smap) : option V :=
  match m with
  | [] => None
  | (k', v') :: r =>
      match kcmp k k' with
      | Lt => None
      | Eq => Some v'
      | Gt => mget k r
      end
  end.

(* ------------------------------- the specification of iteration -------------------- *)
Inductive dir := Fwd | Rev.

(* the API contract (comment in _iter_store): with both a prefix and a start key, a start key
   outside the prefix selects nothing *)
Definition within (prefix start : option key) : bool :=
  match prefix, start with Some p, Some s => starts_with s p | _, _ => true end.

Definition sel (prefix start : option key) (d : dir) (k : key) : bool :=
  (match prefix with None => true | Some p => starts_with k p end) &&
  (match start with
   | None => true
   | Some s => match d with Fwd => kleb s k | Rev => kleb k s end
   end).

Definition iter_spec (m : smap) (prefix start : option key) (d : dir) : smap :=
  if within prefix start then
    let l := filter (fun kv => sel prefix start d (fst kv)) m in
    match d with Fwd => l | Rev => rev l end
  else [].

(* ------------------------------- iter.rs: iterator --------------------------------- *)
Definition sw (p : key) (kv : key * V) : bool := starts_with (fst kv) p.
Definition range_from (s : key) (m : smap) : smap := dropwhile (fun kv => kltb (fst kv) s) m.     (* tree.range(s..) *)
Definition range_to (s : key) (m : smap) : smap := takewhile (fun kv => kleb (fst kv) s) m.       (* tree.range(..=s) *)

Definition btree_iter (m : smap) (prefix start : option key) (d : dir) : smap :=
  match prefix, start with
  | None, None => match d with Fwd => m | Rev => rev m end
  | Some p, None =>
      match d with
      | Fwd => takewhile (sw p) (range_from p m)
      | Rev => rev (takewhile (sw p) (range_from p m))
      end
  | None, Some s =>
      match d with Fwd => range_from s m | Rev => rev (range_to s m) end
  | Some p, Some s =>
      if negb (starts_with s p) then [] else
      match d with
      | Fwd => takewhile (sw p) (range_from s m)
      | Rev => takewhile (sw p) (rev (range_to s m))
      end
  end.

(* the same function before the alignment with RocksDB (no start-inside-prefix test); kept to
   state what was wrong *)
Definition btree_iter_orig (m : smap) (prefix start : option key) (d : dir) : smap :=
  match prefix, start with
  | Some p, Some s =>
      match d with
      | Fwd => takewhile (sw p) (range_from s m)
      | Rev => takewhile (sw p) (rev (range_to s m))
      end
  | _, _ => btree_iter m prefix start d
  end.

(* ------------------------------- the RocksDB cursor -------------------------------- *)
(* a raw iterator is a position in the sorted column, or invalid *)
Definition cursor := option nat.
Definition c_seek (m : smap) (k : key) : cursor :=
  let i := length (takewhile (fun kv => kltb (fst kv) k) m) in
  if Nat.ltb i (length m) then Some i else None.
Definition c_seek_for_prev (m : smap) (k : key) : cursor :=
  match length (takewhile (fun kv => kleb (fst kv) k) m) with O => None | S i => Some i end.
Definition c_first (m : smap) : cursor := match m with [] => None | _ => Some O end.
Definition c_last (m : smap) : cursor := match length m with O => None | S i => Some i end.
Definition c_next (m : smap) (c : cursor) : cursor :=
  match c with Some i => if Nat.ltb (S i) (length m) then Some (S i) else None | None => None end.
Definition c_prev (c : cursor) : cursor :=
  match c with Some (S i) => Some i | _ => None end.
Definition c_item (m : smap) (c : cursor) : option (key * V) :=
  match c with Some i => nth_error m i | None => None end.

Inductive mode := MStart | MEnd | MFrom (k : key) (d : dir).

(* RocksDBKeyIterator::set_mode *)
Definition set_mode (m : smap) (md : mode) : cursor * dir :=
  match md with
  | MStart => (c_first m, Fwd)
  | MEnd => (c_last m, Rev)
  | MFrom k Fwd => (c_seek m k, Fwd)
  | MFrom k Rev => (c_seek_for_prev m k, Rev)
  end.

(* RocksDBKeyIterator::next, collected *)
Fixpoint key_iter (m : smap) (fuel : nat) (c : cursor) (d : dir) : smap :=
  match fuel with
  | O => []
  | S f =>
      match c_item m c with
      | None => []
      | Some it => it :: key_iter m f (match d with Fwd => c_next m c | Rev => c_prev c end) d
      end
  end.
Definition iterator (m : smap) (md : mode) : smap :=
  let '(c, d) := set_mode m md in key_iter m (S (length m)) c d.

End Maps.

(* rocks_db.rs next_prefix: the successor of the prefix section.  The original kept the bytes
   after the incremented one ([01,FF] -> [02,FF]); the repaired one drops them. *)
Fixpoint next_prefix (p : key) : option key :=
  match p with
  | [] => None
  | b :: r =>
      match next_prefix r with
      | Some r' => Some (b :: r')
      | None => if b <? 255 then Some [b + 1] else None
      end
  end.
Fixpoint next_prefix_orig (p : key) : option key :=
  match p with
  | [] => None
  | b :: r =>
      match next_prefix_orig r with
      | Some r' => Some (b :: r')
      | None => if b <? 255 then Some ((b + 1) :: r) else None
      end
  end.

Section Rocks.
Context {V : Type}.
Notation smap := (@smap V).

Definition reverse_prefix_iter (m : smap) (p : key) : smap :=
  match next_prefix p with
  | Some np => takewhile (sw p) (dropwhile (sw np) (iterator m (MFrom np Rev)))
  | None => takewhile (sw p) (iterator m MEnd)
  end.
(* before the repairs: successor with kept tail, and no skip of a key equal to the successor *)
Definition reverse_prefix_iter_orig (m : smap) (p : key) : smap :=
  match next_prefix_orig p with
  | Some np => takewhile (sw p) (iterator m (MFrom np Rev))
  | None => takewhile (sw p) (iterator m MEnd)
  end.

(* RocksDb::_iter_store *)
Definition rocks_iter (m : smap) (prefix start : option key) (d : dir) : smap :=
  match prefix, start with
  | None, None => iterator m (match d with Fwd => MStart | Rev => MEnd end)
  | Some p, None =>
      match d with
      | Rev => reverse_prefix_iter m p
      | Fwd => takewhile (sw p) (iterator m (MFrom p Fwd))
      end
  | None, Some s => iterator m (MFrom s d)
  | Some p, Some s =>
      if negb (starts_with s p) then [] else takewhile (sw p) (iterator m (MFrom s d))
  end.
End Rocks.

(* ---------------------------------------------------------------------------------- *)
(* columns, change sets, commits                                                        *)

Inductive wop := WRemove | WInsert (v : value).

(* column id -> sorted map; absent = empty *)
Definition cstate (V : Type) := list (N * @smap V).
Fixpoint cget {V} (c : N) (st : cstate V) : @smap V :=
  match st with [] => [] | (c', m) :: r => if c' =? c then m else cget c r end.
Fixpoint cset {V} (c : N) (m : @smap V) (st : cstate V) : cstate V :=
  match st with
  | [] => [(c, m)]
  | (c', m') :: r => if c' =? c then (c, m) :: r else (c', m') :: cset c m r
  end.

(* Changes = HashMap<u32, BTreeMap<key, WriteOperation>>: the columns in the order they are
   visited, each with its sorted entries *)
Definition changes := list (N * @smap wop).
Inductive schanges := SChanges (c : changes) | SList (l : list changes).

Definition apply_op (k : key) (o : wop) (m : @smap value) : @smap value :=
  match o with WInsert v => minsert k v m | WRemove => mremove k m end.

Definition bytes_eqb (a b : list N) : bool := if list_eq_dec N.eq_dec a b then true else false.

Definition ck := (N * key)%type.
Definition ck_eqb (a b : ck) : bool := (fst a =? fst b) && keqb (snd a) (snd b).
Fixpoint ck_mem (x : ck) (l : list ck) : bool :=
  match l with [] => false | y :: r => ck_eqb x y || ck_mem x r end.

(* --- MemoryStore::_insert_changes: writes as it goes; on a conflict everything written so far stays *)
Fixpoint mem_insert_entries (cf : list ck) (c : N) (es : @smap wop) (tree : @smap value)
  : list ck * @smap value * bool :=
  match es with
  | [] => (cf, tree, true)
  | (k, o) :: r =>
      if ck_mem (c, k) cf then (cf, tree, false)
      else mem_insert_entries ((c, k) :: cf) c r (apply_op k o tree)
  end.
Fixpoint mem_insert_changes (cf : list ck) (ch : changes) (st : cstate value)
  : list ck * cstate value * bool :=
  match ch with
  | [] => (cf, st, true)
  | (c, es) :: r =>
      let '(cf', tree, ok) := mem_insert_entries cf c es (cget c st) in
      let st' := cset c tree st in
      if ok then mem_insert_changes cf' r st' else (cf', st', false)
  end.
Fixpoint mem_insert_list (cf : list ck) (l : list changes) (st : cstate value) : cstate value * bool :=
  match l with
  | [] => (st, true)
  | ch :: r =>
      let '(cf', st', ok) := mem_insert_changes cf ch st in
      if ok then mem_insert_list cf' r st' else (st', false)
  end.
Definition mem_commit (st : cstate value) (sc : schanges) : cstate value * bool :=
  match sc with
  | SChanges ch => mem_insert_list [] [ch] st
  | SList l => mem_insert_list [] l st
  end.

(* --- RocksDb::commit_changes: a WriteBatch is filled (conflict finder), then written atomically *)
Definition batch := list (N * key * wop).
Fixpoint populate_entries (cf : list ck) (c : N) (es : @smap wop) (b : batch) : option (list ck * batch) :=
  match es with
  | [] => Some (cf, b)
  | (k, o) :: r =>
      if ck_mem (c, k) cf then None else populate_entries ((c, k) :: cf) c r (b ++ [(c, k, o)])
  end.
Fixpoint populate_batch (cf : list ck) (ch : changes) (b : batch) : option (list ck * batch) :=
  match ch with
  | [] => Some (cf, b)
  | (c, es) :: r =>
      match populate_entries cf c es b with
      | Some (cf', b') => populate_batch cf' r b'
      | None => None
      end
  end.
Fixpoint populate_list (cf : list ck) (l : list changes) (b : batch) : option batch :=
  match l with
  | [] => Some b
  | ch :: r =>
      match populate_batch cf ch b with
      | Some (cf', b') => populate_list cf' r b'
      | None => None
      end
  end.
Fixpoint write_batch (b : batch) (st : cstate value) : cstate value :=
  match b with
  | [] => st
  | (c, k, o) :: r => write_batch r (cset c (apply_op k o (cget c st)) st)
  end.
Definition rocks_commit (st : cstate value) (sc : schanges) : cstate value * bool :=
  match populate_list [] (match sc with SChanges ch => [ch] | SList l => l end) [] with
  | Some b => (write_batch b st, true)
  | None => (st, false)
  end.

(* ---------------------------------------------------------------------------------- *)
(* HistoricalRocksDB                                                                    *)

(* policy: 0 NoRewind, 1 RewindFullRange, 1+k RewindRange{size k} *)
Definition policy := N.

Record hdb := {
  h_main : cstate value;                 (* Column::OriginalColumn(c) *)
  h_hist : @smap changes;                (* ModificationsHistoryV2: be64 height -> reverse changes *)
  h_dup : cstate wop }.                  (* Column::HistoricalDuplicateColumn(c): key ++ be64 height -> reverse op *)
Definition hdb_empty : hdb := {| h_main := []; h_hist := []; h_dup := [] |}.

(* u64::to_be_bytes *)
Fixpoint be (n : nat) (h : N) : key :=
  match n with O => [] | S n' => be n' (h / 256) ++ [h mod 256] end.
Definition be64 (h : N) : key := be 8 h.
Definition height_key (k : key) (h : N) : key := k ++ be64 h.

(* the merge of a ChangesList (commit_changes): column by column, a later set wins on a key.
   The original collected the flattened (column, entries) pairs into a map: the last change set
   of a column replaced the earlier ones. *)
Fixpoint merge_entries (es : @smap wop) (acc : @smap wop) : @smap wop :=
  match es with [] => acc | (k, o) :: r => merge_entries r (minsert k o acc) end.
Fixpoint merge_changes (ch : changes) (acc : cstate wop) : cstate wop :=
  match ch with [] => acc | (c, es) :: r => merge_changes r (cset c (merge_entries es (cget c acc)) acc) end.
Fixpoint merge_list (l : list changes) (acc : cstate wop) : cstate wop :=
  match l with [] => acc | ch :: r => merge_list r (merge_changes ch acc) end.
Fixpoint flatten_collect_orig (l : list changes) (acc : cstate wop) : cstate wop :=
  match l with
  | [] => acc
  | ch :: r => flatten_collect_orig r (fold_left (fun a ce => cset (fst ce) (snd ce) a) ch acc)
  end.
Definition all_changes (sc : schanges) : changes :=
  match sc with SChanges ch => merge_list [ch] [] | SList l => merge_list l [] end.

(* reverse_history_changes: what to write to get the state before [ch] back; reads the database *)
Fixpoint reverse_entries (es : @smap wop) (m : @smap value) : @smap wop :=
  match es with
  | [] => []
  | (k, became) :: r =>
      let rest := reverse_entries r m in
      match mget k m, became with
      | None, WRemove => rest
      | None, WInsert _ => (k, WRemove) :: rest
      | Some old, WRemove => (k, WInsert old) :: rest
      | Some old, WInsert new =>
          if bytes_eqb old new then rest else (k, WInsert old) :: rest
      end
  end.
Definition reverse_history_changes (main : cstate value) (ch : changes) : changes :=
  map (fun ce => (fst ce, reverse_entries (snd ce) (cget (fst ce) main))) ch.

(* the historical duplicate columns are updated entry by entry, column by column *)
Fixpoint upd_entries (g : key -> wop -> @smap wop -> @smap wop) (es : @smap wop) (m : @smap wop) : @smap wop :=
  match es with [] => m | (k, o) :: r => upd_entries g r (g k o m) end.
Fixpoint upd_hist (g : key -> wop -> @smap wop -> @smap wop) (rc : changes) (dup : cstate wop) : cstate wop :=
  match rc with
  | [] => dup
  | (c, es) :: r => upd_hist g r (cset c (upd_entries g es (cget c dup)) dup)
  end.
(* remove_historical_modifications *)
Definition remove_historical (h : N) : changes -> cstate wop -> cstate wop :=
  upd_hist (fun k _ m => mremove (height_key k h) m).
(* the historical_changes of store_modifications_history *)
Definition add_historical (h : N) : changes -> cstate wop -> cstate wop :=
  upd_hist (fun k o m => minsert (height_key k h) o m).

Fixpoint apply_entries (es : @smap wop) (m : @smap value) : @smap value :=
  match es with [] => m | (k, o) :: r => apply_entries r (apply_op k o m) end.
Fixpoint apply_changes (ch : changes) (st : cstate value) : cstate value :=
  match ch with [] => st | (c, es) :: r => apply_changes r (cset c (apply_entries es (cget c st)) st) end.

(* cleanup_old_changes *)
Definition cleanup_old (p : policy) (h : N) (d : hdb) : hdb :=
  if p <=? 1 then d else
  let old := h - (p - 1) in
  match mget (be64 old) (h_hist d) with
  | Some oc => {| h_main := h_main d; h_hist := mremove (be64 old) (h_hist d);
                  h_dup := remove_historical old oc (h_dup d) |}
  | None => d
  end.

(* store_modifications_history + the final commit of the transaction *)
Definition hist_commit_history (p : policy) (h : N) (ch : changes) (d : hdb) : hdb :=
  let reverse := reverse_history_changes (h_main d) ch in
  let d1 := cleanup_old p h d in
  let dup1 := match mget (be64 h) (h_hist d1) with
              | Some old => remove_historical h old (h_dup d1)       (* the same height committed twice *)
              | None => h_dup d1
              end in
  {| h_main := apply_changes ch (h_main d1);
     h_hist := minsert (be64 h) reverse (h_hist d1);
     h_dup := add_historical h reverse dup1 |}.

(* HistoricalRocksDB::commit_changes *)
Definition hist_commit (p : policy) (height : option N) (sc : schanges) (d : hdb) : hdb * bool :=
  match height with
  | Some h =>
      if p =? 0 then
        let '(m, ok) := rocks_commit (h_main d) sc in
        ({| h_main := m; h_hist := h_hist d; h_dup := h_dup d |}, ok)
      else (hist_commit_history p h (all_changes sc) d, true)
  | None =>
      let '(m, ok) := rocks_commit (h_main d) sc in
      ({| h_main := m; h_hist := h_hist d; h_dup := h_dup d |}, ok)
  end.

(* rollback_block_to *)
Definition hist_rollback (h : N) (d : hdb) : hdb * bool :=
  match mget (be64 h) (h_hist d) with
  | None => (d, false)
  | Some lc =>
      ({| h_main := apply_changes lc (h_main d);
          h_hist := mremove (be64 h) (h_hist d);
          h_dup := remove_historical h lc (h_dup d) |}, true)
  end.

(* create_view_at: Some rollback_height, or None = NoHistoryForRequestedHeight *)
Definition hist_has (h : N) (d : hdb) : bool :=
  match mget (be64 h) (h_hist d) with Some _ => true | None => false end.
Definition create_view_at (h : N) (d : hdb) : option N :=
  let rb := sat_add u64max h 1 in
  if hist_has rb d || hist_has h d then Some rb else None.

(* ViewAtHeight::get: nearest modification at or after the rollback height *)
Definition view_get (rb : N) (d : hdb) (c : N) (k : key) : option value :=
  let dupc := cget c (h_dup d) in
  match c_item dupc (c_seek dupc (height_key k rb)) with
  | Some (fk, o) =>
      if Nat.eqb (length fk) (length k + 8) && bytes_eqb (firstn (length k) fk) k
      then match o with WInsert v => Some v | WRemove => None end
      else mget k (cget c (h_main d))
  | None => mget k (cget c (h_main d))
  end.
(* before the repair: only the first |k| bytes of the found key were compared (and the slice
   panics when the found key is shorter): None = panic *)
Definition view_get_orig (rb : N) (d : hdb) (c : N) (k : key) : option (option value) :=
  let dupc := cget c (h_dup d) in
  match c_item dupc (c_seek dupc (height_key k rb)) with
  | Some (fk, o) =>
      if Nat.ltb (length fk) (length k) then None
      else if bytes_eqb (firstn (length k) fk) k
      then Some (match o with WInsert v => Some v | WRemove => None end)
      else Some (mget k (cget c (h_main d)))
  | None => Some (mget k (cget c (h_main d)))
  end.

(* ---------------------------------------------------------------------------------- *)
(* C11: one case = backends x commit history x queries                                  *)

Record commit := { c_height : option N; c_sc : schanges }.
Record query := { q_col : N; q_prefix : option key; q_start : option key; q_dir : dir; q_kv : bool }.

Inductive bstate := BMem (st : cstate value) | BRocks (st : cstate value) | BHist (p : policy) (d : hdb).
Definition binit (b : N) : bstate :=
  if b =? 0 then BMem [] else if b =? 1 then BRocks [] else BHist (b - 2) hdb_empty.
Definition bcommit (s : bstate) (cm : commit) : bstate * bool :=
  match s with
  | BMem st => let '(st', ok) := mem_commit st (c_sc cm) in (BMem st', ok)
  | BRocks st => let '(st', ok) := rocks_commit st (c_sc cm) in (BRocks st', ok)
  | BHist p d => let '(d', ok) := hist_commit p (c_height cm) (c_sc cm) d in (BHist p d', ok)
  end.
Definition bcontents (s : bstate) : cstate value :=
  match s with BMem st => st | BRocks st => st | BHist _ d => h_main d end.
Definition biter (s : bstate) (c : N) (p st : option key) (d : dir) : @smap value :=
  match s with
  | BMem m => btree_iter (cget c m) p st d
  | BRocks m => rocks_iter (cget c m) p st d
  | BHist _ h => rocks_iter (cget c (h_main h)) p st d
  end.

Fixpoint brun (s : bstate) (cms : list commit) : bstate * list bool :=
  match cms with
  | [] => (s, [])
  | cm :: r => let '(s', ok) := bcommit s cm in let '(s'', oks) := brun s' r in (s'', ok :: oks)
  end.

(* every (col,key) the history touches, in order *)
Definition sc_sets (sc : schanges) : list changes := match sc with SChanges ch => [ch] | SList l => l end.
Definition changes_keys (ch : changes) : list ck :=
  flat_map (fun ce => map (fun e => (fst ce, fst e)) (snd ce)) ch.
Definition touched (cms : list commit) : list ck :=
  flat_map (fun cm => flat_map changes_keys (sc_sets (c_sc cm))) cms.

Definition qres := list (key * option value).
Definition project (q : query) (l : @smap value) : qres :=
  map (fun kv => (fst kv, if q_kv q then Some (snd kv) else None)) l.

Record obs := {
  o_tags : list bool;
  o_contents : list (@smap value);
  o_gets : list (option value);
  o_results : list qres }.

Definition ncols : list N := [0; 1; 2].

Definition obs_of (contents : cstate value) (tags : list bool) (cms : list commit)
    (iter : N -> option key -> option key -> dir -> @smap value) (qs : list query) : obs :=
  {| o_tags := tags;
     o_contents := map (fun c => cget c contents) ncols;
     o_gets := map (fun x => mget (snd x) (cget (fst x) contents)) (touched cms);
     o_results := map (fun q => project q (iter (q_col q) (q_prefix q) (q_start q) (q_dir q))) qs |}.

Definition model_obs (b : N) (cms : list commit) (qs : list query) : obs :=
  let '(s, tags) := brun (binit b) cms in
  obs_of (bcontents s) tags cms (biter s) qs.

(* the specification: commits are atomic; a list that touches one (column,key) twice is refused *)
Fixpoint keys_disjoint (seen : list ck) (l : list ck) : bool :=
  match l with [] => true | x :: r => negb (ck_mem x seen) && keys_disjoint (x :: seen) r end.
Definition conflict_free (sc : schanges) : bool := keys_disjoint [] (flat_map changes_keys (sc_sets sc)).
Fixpoint apply_list (l : list changes) (st : cstate value) : cstate value :=
  match l with [] => st | ch :: r => apply_list r (apply_changes ch st) end.
Definition spec_commit (st : cstate value) (sc : schanges) : cstate value * bool :=
  if conflict_free sc then (apply_list (sc_sets sc) st, true) else (st, false).
Fixpoint spec_run (st : cstate value) (cms : list commit) : cstate value * list bool :=
  match cms with
  | [] => (st, [])
  | cm :: r => let '(st', ok) := spec_commit st (c_sc cm) in
               let '(st'', oks) := spec_run st' r in (st'', ok :: oks)
  end.
Definition spec_obs (cms : list commit) (qs : list query) : obs :=
  let '(st, tags) := spec_run [] cms in
  obs_of st tags cms (fun c p s d => iter_spec (cget c st) p s d) qs.

(* ---------------------------------------------------------------------------------- *)
(* C12: histories of commits / rollbacks / restarts on one HistoricalRocksDB            *)

Inductive hop := HCommit (ch : changes) | HRollback | HRestart (p : policy).

Record hstate := { s_db : hdb; s_policy : policy; s_latest : option N }.

Definition next_height (start : N) (latest : option N) : N :=
  match latest with None => start | Some l => l + 1 end.

(* tag: 0 ok, 6 rollback without a history record, 7 rollback with nothing committed *)
Definition hstep (start : N) (s : hstate) (o : hop) : hstate * N :=
  match o with
  | HCommit ch =>
      let h := next_height start (s_latest s) in
      let '(d, _) := hist_commit (s_policy s) (Some h) (SChanges ch) (s_db s) in
      ({| s_db := d; s_policy := s_policy s; s_latest := Some h |}, 0)
  | HRollback =>
      match s_latest s with
      | None => (s, 7)
      | Some l =>
          let '(d, ok) := hist_rollback l (s_db s) in
          if ok then ({| s_db := d; s_policy := s_policy s;
                         s_latest := if l =? start then None else Some (l - 1) |}, 0)
          else (s, 6)
      end
  | HRestart p => ({| s_db := s_db s; s_policy := p; s_latest := s_latest s |}, 0)
  end.

Definition hops_keys (ops : list hop) : list ck :=
  flat_map (fun o => match o with HCommit ch => changes_keys ch | _ => [] end) ops.
Fixpoint dedup_ck (seen : list ck) (l : list ck) : list ck :=
  match l with
  | [] => []
  | x :: r => if ck_mem x seen then dedup_ck seen r else x :: dedup_ck (x :: seen) r
  end.
Definition universe (ops : list hop) : list ck := dedup_ck [] (hops_keys ops).
Definition n_commits (ops : list hop) : N :=
  N.of_nat (length (filter (fun o => match o with HCommit _ => true | _ => false end) ops)).

Fixpoint seqN (lo : N) (n : nat) : list N :=
  match n with O => [] | S n' => lo :: seqN (lo + 1) n' end.
Definition view_heights (start : N) (ops : list hop) : list N :=
  let lo := start - 1 in
  let hi := start + n_commits ops in
  seqN lo (N.to_nat (hi - lo + 1)).

(* a view: None = no history, Some values *)
Definition view_obs := option (list (option value)).
Record hobs := { ho_tag : N; ho_latest : list (option value); ho_views : list view_obs }.

Definition observe (uni : list ck) (hs : list N) (tag : N) (s : hstate) : hobs :=
  {| ho_tag := tag;
     ho_latest := map (fun x => mget (snd x) (cget (fst x) (h_main (s_db s)))) uni;
     ho_views := map (fun h => match create_view_at h (s_db s) with
                               | None => None
                               | Some rb => Some (map (fun x => view_get rb (s_db s) (fst x) (snd x)) uni)
                               end) hs |}.

Fixpoint hrun (start : N) (uni : list ck) (hs : list N) (s : hstate) (ops : list hop) : list hobs :=
  match ops with
  | [] => []
  | o :: r => let '(s', tag) := hstep start s o in observe uni hs tag s' :: hrun start uni hs s' r
  end.

Definition hinit (p : policy) : hstate := {| s_db := hdb_empty; s_policy := p; s_latest := None |}.
Definition hmodel (start : N) (p : policy) (ops : list hop) : list hobs :=
  hrun start (universe ops) (view_heights start ops) (hinit p) ops.

(* the specification side: the chain of snapshots.  [chain] = (height, state right after that
   block) newest first; [base] is the state before the first block *)
Definition chain := list (N * cstate value).
Definition chain_top (ch : chain) : cstate value := match ch with [] => [] | (_, st) :: _ => st end.
Fixpoint chain_get (h : N) (ch : chain) : option (cstate value) :=
  match ch with [] => None | (h', st) :: r => if h' =? h then Some st else chain_get h r end.
Definition snapshot (start : N) (ch : chain) (h : N) : option (cstate value) :=
  match chain_get h ch with
  | Some st => Some st
  | None => if (1 <=? start) && (h =? start - 1) then Some [] else None
  end.
Definition chain_latest (ch : chain) : option N := match ch with [] => None | (h, _) :: _ => Some h end.

Definition ghost_step (start : N) (ch : chain) (o : hop) (tag : N) : chain :=
  match o with
  | HCommit c =>
      if tag =? 0 then (next_height start (chain_latest ch), apply_changes c (chain_top ch)) :: ch else ch
  | HRollback => if tag =? 0 then tl ch else ch
  | HRestart _ => ch
  end.

Definition oveqb (a b : option value) : bool :=
  match a, b with
  | None, None => true
  | Some x, Some y => bytes_eqb x y
  | _, _ => false
  end.
Fixpoint ovlist_eqb (a b : list (option value)) : bool :=
  match a, b with
  | [], [] => true
  | x :: a', y :: b' => oveqb x y && ovlist_eqb a' b'
  | _, _ => false
  end.
Definition lookups (uni : list ck) (st : cstate value) : list (option value) :=
  map (fun x => mget (snd x) (cget (fst x) st)) uni.

(* a view is acceptable: no history, or exactly the snapshot of that height *)
Definition view_okb (start : N) (uni : list ck) (ch : chain) (h : N) (v : view_obs) : bool :=
  match v with
  | None => true
  | Some vals => match snapshot start ch h with
                 | Some st => ovlist_eqb vals (lookups uni st)
                 | None => false
                 end
  end.
Fixpoint views_okb (start : N) (uni : list ck) (ch : chain) (hs : list N) (vs : list view_obs) : bool :=
  match hs, vs with
  | [], [] => true
  | h :: hs', v :: vs' => view_okb start uni ch h v && views_okb start uni ch hs' vs'
  | _, _ => false
  end.
Definition hop_okb (ch : chain) (o : hop) (tag : N) : bool :=
  match o with
  | HCommit _ => tag =? 0
  | HRollback => if tag =? 0 then match ch with [] => false | _ => true end else (tag =? 6) || (tag =? 7)
  | HRestart _ => tag =? 0
  end.
Fixpoint htrace_okb (start : N) (uni : list ck) (hs : list N) (ch : chain) (ops : list hop) (obs : list hobs) : bool :=
  match ops, obs with
  | [], [] => true
  | o :: r, ob :: obs' =>
      let ch' := ghost_step start ch o (ho_tag ob) in
      hop_okb ch o (ho_tag ob) &&
      ovlist_eqb (ho_latest ob) (lookups uni (chain_top ch')) &&
      views_okb start uni ch' hs (ho_views ob) &&
      htrace_okb start uni hs ch' r obs'
  | _, _ => false
  end.
Definition c12_okb (start : N) (ops : list hop) (obs : list hobs) : bool :=
  htrace_okb start (universe ops) (view_heights start ops) [] ops obs.

(* the classes of histories outside the theorem: a key of a column that is a proper prefix of
   another key of that column (H1), retained heights with a hole (H2) *)
Fixpoint prefix_free_in (x : ck) (l : list ck) : bool :=
  match l with
  | [] => true
  | y :: r =>
      (negb (fst x =? fst y) || keqb (snd x) (snd y) ||
       (negb (starts_with (snd x) (snd y)) && negb (starts_with (snd y) (snd x)))) && prefix_free_in x r
  end.
Fixpoint prefix_free (l : list ck) : bool :=
  match l with [] => true | x :: r => prefix_free_in x r && prefix_free r end.

(* retained heights = a run of consecutive heights ending at the latest one *)
Fixpoint consecutive (l : list key) (from : N) : bool :=
  match l with [] => true | k :: r => bytes_eqb k (be64 from) && consecutive r (from + 1) end.
Definition gap_free (s : hstate) : bool :=
  let ks := map fst (h_hist (s_db s)) in
  match ks, s_latest s with
  | [], _ => true
  | _ :: _, Some l => let n := N.of_nat (length ks) in (n <=? l + 1) && consecutive ks (l + 1 - n)
  | _ :: _, None => false
  end.
Fixpoint run_gap_free (start : N) (s : hstate) (ops : list hop) : bool :=
  match ops with
  | [] => true
  | o :: r => let s' := fst (hstep start s o) in gap_free s' && run_gap_free start s' r
  end.

(* ---------------------------------------------------------------------------------- *)
(* T codecs                                                                             *)

Definition tKey (k : key) : T := tListN k.
Definition tOptKey (o : option key) : T := match o with None => L [] | Some k => L [tKey k] end.
Definition getOptKey (t : T) : option (option key) :=
  match t with
  | L [] => Some None
  | L [k] => match getListN k with Some k => Some (Some k) | None => None end
  | _ => None
  end.

Definition T_wop (t : T) : option wop :=
  match t with
  | L [I 0%Z] => Some WRemove
  | L [I 1%Z; v] => match getListN v with Some v => Some (WInsert v) | None => None end
  | _ => None
  end.
Definition T_entry (t : T) : option (key * wop) :=
  match t with
  | L [k; o] => match getListN k, T_wop o with Some k, Some o => Some (k, o) | _, _ => None end
  | _ => None
  end.
(* entries are inserted into a BTreeMap: sorted, a repeated key keeps the last operation *)
Definition T_colset (t : T) : option (N * @smap wop) :=
  match t with
  | L [c; L es] =>
      match getN c, mapM T_entry es with
      | Some c, Some es => Some (c, merge_entries es [])
      | _, _ => None
      end
  | _ => None
  end.
(* columns are inserted into a HashMap: a repeated column keeps the last entry set *)
Definition T_changes (t : T) : option changes :=
  match t with
  | L cs => option_map (fun l => fold_left (fun acc ce => cset (fst ce) (snd ce) acc) l []) (mapM T_colset cs)
  | _ => None
  end.
Definition T_commit (t : T) : option commit :=
  match t with
  | L [h; I 0%Z; L [s]] =>
      match getOptN h, T_changes s with
      | Some h, Some s => Some {| c_height := h; c_sc := SChanges s |}
      | _, _ => None
      end
  | L [h; I 1%Z; L ss] =>
      match getOptN h, mapM T_changes ss with
      | Some h, Some ss => Some {| c_height := h; c_sc := SList ss |}
      | _, _ => None
      end
  | _ => None
  end.
Definition T_query (t : T) : option query :=
  match t with
  | L [c; p; s; d; kv] =>
      match getN c, getOptKey p, getOptKey s, getB d, getB kv with
      | Some c, Some p, Some s, Some d, Some kv =>
          Some {| q_col := c; q_prefix := p; q_start := s; q_dir := if d then Rev else Fwd; q_kv := kv |}
      | _, _, _, _, _ => None
      end
  | _ => None
  end.

Definition tOptVal (o : option value) : T := match o with None => L [] | Some v => L [tListN v] end.
Definition tKV (kv : key * value) : T := L [tKey (fst kv); tListN (snd kv)].
Definition tQres (r : qres) : T :=
  L (map (fun e => match snd e with None => tKey (fst e) | Some v => L [tKey (fst e); tListN v] end) r).
Definition tObs (o : obs) : T :=
  L [ L (map (fun ok : bool => if ok then I 0%Z else I 5%Z) (o_tags o));
      L (map (fun m => L (map tKV m)) (o_contents o));
      L (map tOptVal (o_gets o));
      L (map tQres (o_results o)) ].

(* Pcheck of C11: every backend's observation is exactly the specification's.  The class code
   of a failure: 2 = the history holds a conflicting change list, 0 otherwise *)
Fixpoint all_eqb (ts : list T) (t : T) : bool :=
  match ts with [] => true | x :: r => T_eqb x t && all_eqb r t end.
Definition has_conflict (cms : list commit) : bool := existsb (fun cm => negb (conflict_free (c_sc cm))) cms.
Definition c11_okb (nb : nat) (cms : list commit) (qs : list query) (observed : list T) : bool :=
  Nat.eqb (length observed) nb && all_eqb observed (tObs (spec_obs cms qs)).

Definition main11 (input observed : T) : T :=
  match input with
  | L [bs; L cms; L qs] =>
      match getListN bs, mapM T_commit cms, mapM T_query qs with
      | Some bs, Some cms, Some qs =>
          let model := L (map (fun b => tObs (model_obs b cms qs)) bs) in
          let pc := match observed with
                    | L o => c11_okb (length bs) cms qs o
                    | _ => false
                    end in
          L [model; if pc then I 1%Z else if has_conflict cms then I 2%Z else I 0%Z]
      | _, _, _ => tErr 2
      end
  | _ => tErr 1
  end.

Definition T_hop (t : T) : option hop :=
  match t with
  | L [I 0%Z; s] => option_map HCommit (T_changes s)
  | L [I 1%Z] => Some HRollback
  | L [I 2%Z; p] => option_map HRestart (getN p)
  | _ => None
  end.
Definition tView (v : view_obs) : T :=
  match v with None => L [I 0%Z] | Some vals => L (I 1%Z :: map tOptVal vals) end.
Definition tHobs (o : hobs) : T :=
  L [tN (ho_tag o); L (map tOptVal (ho_latest o)); L (map tView (ho_views o))].

Definition T_optval (t : T) : option (option value) :=
  match t with
  | L [] => Some None
  | L [v] => match getListN v with Some v => Some (Some v) | None => None end
  | _ => None
  end.
(* an observed view with a panicking or failing get (-7 / -9) or another error (9) does not decode *)
Definition T_view (t : T) : option view_obs :=
  match t with
  | L [I 0%Z] => Some None
  | L (I 1%Z :: vals) => option_map Some (mapM T_optval vals)
  | _ => None
  end.
Definition T_hobs (t : T) : option hobs :=
  match t with
  | L [tag; L lat; L views] =>
      match getN tag, mapM T_optval lat, mapM T_view views with
      | Some tag, Some lat, Some views => Some {| ho_tag := tag; ho_latest := lat; ho_views := views |}
      | _, _, _ => None
      end
  | _ => None
  end.

(* failure class of C12: 3 = the model's retained heights have a hole at some step, otherwise
   2 = the key universe is not prefix-free, 0 otherwise *)
Definition main12 (input observed : T) : T :=
  match input with
  | L [start; p; L ops] =>
      match getN start, getN p, mapM T_hop ops with
      | Some start, Some p, Some ops =>
          let model := L (map tHobs (hmodel start p ops)) in
          let pc := match observed with
                    | L o => match mapM T_hobs o with
                             | Some o => c12_okb start ops o
                             | None => false
                             end
                    | _ => false
                    end in
          L [model;
             if pc then I 1%Z
             else if negb (run_gap_free start (hinit p) ops) then I 3%Z
             else if negb (prefix_free (universe ops)) then I 2%Z
             else I 0%Z]
      | _, _, _ => tErr 2
      end
  | _ => tErr 1
  end.

Definition main_T (req : T) : T :=
  match req with
  | L [I 11%Z; input; observed] => main11 input observed
  | L [I 12%Z; input; observed] => main12 input observed
  | _ => tErr 0
  end.
