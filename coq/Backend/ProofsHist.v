(* C12: historical views and rollbacks of HistoricalRocksDB. *)
From FC Require Import Backend.Model Backend.ProofsOrd Backend.ProofsIter Backend.ProofsCommit.
From Coq Require Import Sorting.Sorted ZifyBool ZifyN ZifyNat Lia.
Open Scope N_scope.

(* ------------------------------------------------------------------ big-endian heights *)
Lemma be_length : forall n h, length (be n h) = n.
Proof. induction n; intros; cbn [be]; auto. rewrite app_length, IHn. cbn. lia. Qed.

Lemma kcmp_snoc : forall x y p q, length x = length y ->
  kcmp (x ++ [p]) (y ++ [q]) = match kcmp x y with Eq => p ?= q | c => c end.
Proof.
  induction x as [|a x IH]; destruct y as [|b y]; cbn [length app kcmp]; intros p q H; try discriminate.
  - destruct (p ?= q); auto.
  - injection H as H. destruct (a ?= b); auto.
Qed.

Lemma be_cmp : forall n a b, a < 256 ^ N.of_nat n -> b < 256 ^ N.of_nat n -> kcmp (be n a) (be n b) = (a ?= b).
Proof.
  induction n; intros a b Ha Hb.
  - cbn in *. assert (a = 0) by lia. assert (b = 0) by lia. subst. auto.
  - cbn [be]. rewrite kcmp_snoc by (rewrite !be_length; auto).
    assert (256 ^ N.of_nat (S n) = 256 * 256 ^ N.of_nat n) as E.
    { rewrite Nat2N.inj_succ, N.pow_succ_r'. auto. }
    rewrite E in *.
    pose proof (N.div_mod a 256 ltac:(lia)). pose proof (N.div_mod b 256 ltac:(lia)).
    pose proof (N.mod_lt a 256 ltac:(lia)). pose proof (N.mod_lt b 256 ltac:(lia)).
    assert (a / 256 < 256 ^ N.of_nat n) by (apply N.div_lt_upper_bound; lia).
    assert (b / 256 < 256 ^ N.of_nat n) by (apply N.div_lt_upper_bound; lia).
    rewrite IHn by auto.
    destruct (N.compare_spec (a / 256) (b / 256)); destruct (N.compare_spec a b);
      destruct (N.compare_spec (a mod 256) (b mod 256)); auto; lia.
Qed.

Definition u64 (h : N) : Prop := h < 18446744073709551616.
Lemma be64_cmp : forall a b, u64 a -> u64 b -> kcmp (be64 a) (be64 b) = (a ?= b).
Proof. intros. unfold be64. apply be_cmp; cbn; auto. Qed.
Lemma be64_inj : forall a b, u64 a -> u64 b -> be64 a = be64 b -> a = b.
Proof. intros a b Ha Hb E. pose proof (be64_cmp a b Ha Hb) as C. rewrite E, kcmp_refl in C. symmetry in C. apply N.compare_eq in C. auto. Qed.
Lemma be64_length : forall h, length (be64 h) = 8%nat.
Proof. intros. apply be_length. Qed.

Lemma kcmp_app_same : forall k x y, kcmp (k ++ x) (k ++ y) = kcmp x y.
Proof. induction k; cbn [app kcmp]; intros; auto. rewrite N.compare_refl. auto. Qed.

Lemma height_key_cmp : forall k a b, u64 a -> u64 b -> kcmp (height_key k a) (height_key k b) = (a ?= b).
Proof. intros. unfold height_key. rewrite kcmp_app_same. apply be64_cmp; auto. Qed.
Lemma height_key_inj : forall k1 h1 k2 h2, u64 h1 -> u64 h2 ->
  height_key k1 h1 = height_key k2 h2 -> k1 = k2 /\ h1 = h2.
Proof.
  intros k1 h1 k2 h2 H1 H2 E. unfold height_key in E.
  assert (length k1 = length k2) as L.
  { apply (f_equal (@length N)) in E. rewrite !app_length, !be64_length in E. lia. }
  assert (k1 = k2).
  { apply (f_equal (firstn (length k1))) in E. rewrite firstn_app, Nat.sub_diag, firstn_all in E.
    rewrite L, firstn_app, Nat.sub_diag, firstn_all in E. cbn in E. rewrite !app_nil_r in E. auto. }
  subst. apply app_inv_head in E. split; auto. apply be64_inj; auto.
Qed.
Lemma height_key_sw : forall k h, starts_with (height_key k h) k = true.
Proof. intros. apply sw_app. exists (be64 h). auto. Qed.

(* ------------------------------------------------------------------ seek = first entry at or above *)
Section Seek.
Context {V : Type}.
Notation smap := (@smap V).

Lemma nth_error_hd_skipn : forall (m : smap) i, nth_error m i = hd_error (skipn i m).
Proof. induction m; destruct i; cbn; auto. Qed.
Lemma seek_item : forall (m : smap) k, c_item m (c_seek m k) = hd_error (range_from k m).
Proof.
  intros. unfold c_seek, range_from. rewrite <- skipn_takewhile.
  destruct (Nat.ltb _ _) eqn:L; cbn [c_item].
  - apply nth_error_hd_skipn.
  - apply Nat.ltb_ge in L. rewrite skipn_all2 by lia. auto.
Qed.

Lemma seek_some : forall (m : smap) sk fk o, ssorted m -> c_item m (c_seek m sk) = Some (fk, o) ->
  In (fk, o) m /\ kleb sk fk = true /\
  forall x, In x m -> kleb sk (fst x) = true -> kleb fk (fst x) = true.
Proof.
  intros m sk fk o Hs H. rewrite seek_item, range_from_filter in H by auto.
  induction m as [|[k v] m]; cbn [filter fst] in H; try discriminate.
  pose proof (ssorted_head _ _ Hs) as Hh. pose proof (ssorted_tail _ _ Hs) as Ht.
  destruct (kleb sk k) eqn:E.
  - cbn in H. injection H as -> ->. split; [cbn; auto|]. split; auto.
    intros x [<-|Hx] _. apply kleb_refl. apply kltb_kleb. apply Hh. auto.
  - destruct (IHm Ht H) as [I1 [I2 I3]]. split; [cbn; auto|]. split; auto.
    intros x [<-|Hx] G; auto. cbn in G. congruence.
Qed.
Lemma seek_none : forall (m : smap) sk, ssorted m -> c_item m (c_seek m sk) = None ->
  forall x, In x m -> kleb sk (fst x) = false.
Proof.
  intros m sk Hs H. rewrite seek_item, range_from_filter in H by auto.
  induction m as [|[k v] m]; intros x Hx; [destruct Hx|].
  cbn [filter fst] in H. destruct (kleb sk k) eqn:E; [cbn in H; discriminate|].
  destruct Hx as [<-|Hx]; auto. apply IHm; auto. eapply ssorted_tail; eauto.
Qed.
End Seek.

(* ------------------------------------------------------------------ reading change sets *)
Definition wfM (M : cstate wop) : Prop := csorted M /\ cnodup M.

Lemma lookup_apply_wf : forall (M : cstate wop) st c k, wfM M -> csorted st ->
  lookup (apply_changes M st) c k = match lookup M c k with Some o => opval o | None => lookup st c k end.
Proof.
  intros M st c k [Ms Mn] Hs.
  assert (lookup (apply_changes M st) c k = lookup (write_batch (flat M) st) c k) as ->.
  { unfold lookup. rewrite (apply_changes_batch M st c). auto. }
  rewrite lookup_write_batch by auto.
  rewrite (fold_fapply_W (flat M) (lookup st) (fun _ _ => None) (lookup st)) by auto.
  rewrite fold_flat_wf by auto. destruct (lookup M c k); auto.
Qed.

(* reverse_history_changes *)
Definition rev_entry (old : option value) (became : wop) : option wop :=
  match old, became with
  | None, WRemove => None
  | None, WInsert _ => Some WRemove
  | Some o, WRemove => Some (WInsert o)
  | Some o, WInsert n => if bytes_eqb o n then None else Some (WInsert o)
  end.

Lemma reverse_entries_In : forall es m x, In x (reverse_entries es m) -> exists o, In (fst x, o) es.
Proof.
  induction es as [|[k b] es]; cbn [reverse_entries]; intros m x H. destruct H.
  destruct (mget k m), b; try destruct (bytes_eqb _ _); cbn [In] in H;
    try (destruct H as [<-|H]; [cbn; eauto|]); apply IHes in H as [o Ho]; exists o; cbn; auto.
Qed.
Lemma reverse_entries_sorted : forall es m, ssorted es -> ssorted (reverse_entries es m).
Proof.
  induction es as [|[k b] es]; intros m Hs; cbn [reverse_entries]. constructor.
  pose proof (ssorted_head _ _ Hs) as Hh. pose proof (ssorted_tail _ _ Hs) as Ht.
  assert (forall o, ssorted ((k, o) :: reverse_entries es m)) as C.
  { intros o. constructor; auto. apply IHes; auto. apply Forall_forall. intros x Hx.
    apply reverse_entries_In in Hx as [o' Ho]. apply Hh in Ho. auto. }
  destruct (mget k m), b; try destruct (bytes_eqb _ _); auto.
Qed.
Lemma mget_reverse_entries : forall es m k, ssorted es ->
  mget k (reverse_entries es m) = match mget k es with Some b => rev_entry (mget k m) b | None => None end.
Proof.
  induction es as [|[k0 b] es]; intros m k Hs; cbn [reverse_entries mget]; auto.
  pose proof (ssorted_head _ _ Hs) as Hh. pose proof (ssorted_tail _ _ Hs) as Ht.
  pose proof (reverse_entries_sorted es m Ht) as Hr.
  assert (forall x, In x (reverse_entries es m) -> kltb k0 (fst x) = true) as Hh'.
  { intros x Hx. apply reverse_entries_In in Hx as [o Ho]. apply Hh in Ho. auto. }
  destruct (kcmp k k0) eqn:E.
  - apply kcmp_eq in E. subst k0.
    assert (mget k (reverse_entries es m) = None) as N.
    { destruct (mget k (reverse_entries es m)) eqn:G; auto.
      apply mget_In in G; auto. apply Hh' in G. cbn in G. rewrite kltb_irrefl in G. discriminate. }
    destruct (mget k m), b; cbn [rev_entry]; try destruct (bytes_eqb _ _); cbn [mget]; rewrite ?kcmp_refl; auto.
  - assert (mget k (reverse_entries es m) = None) as N.
    { destruct (mget k (reverse_entries es m)) eqn:G; auto.
      apply mget_In in G; auto. apply Hh' in G. cbn in G. apply kltb_lt in G.
      pose proof (kcmp_lt_trans _ _ _ E G) as HH. rewrite kcmp_refl in HH. discriminate. }
    destruct (mget k0 m), b; try destruct (bytes_eqb _ _); cbn [mget]; rewrite ?E; auto.
  - rewrite <- IHes by auto.
    destruct (mget k0 m), b; try destruct (bytes_eqb _ _); cbn [mget]; rewrite ?E; auto.
Qed.

Lemma reverse_changes_cols : forall main M, map fst (reverse_history_changes main M) = map fst M.
Proof. intros. unfold reverse_history_changes. rewrite map_map. auto. Qed.
Lemma cget_reverse : forall main (M : cstate wop) c,
  cget c (reverse_history_changes main M) = match existsb (fun ce => fst ce =? c) M with
                                            | true => reverse_entries (cget c M) (cget c main)
                                            | false => [] end.
Proof.
  induction M as [|[c0 es] M]; intros c; cbn [reverse_history_changes map cget existsb fst snd]; auto.
  destruct (c0 =? c) eqn:E; cbn [orb].
  - apply N.eqb_eq in E. subst. auto.
  - apply IHM.
Qed.
Lemma cget_nil_notin : forall (M : cstate wop) c, existsb (fun ce => fst ce =? c) M = false -> cget c M = [].
Proof.
  induction M as [|[c0 es] M]; intros c H; cbn [cget existsb fst] in *; auto.
  destruct (c0 =? c); cbn in H; try discriminate. auto.
Qed.
Lemma reverse_wf : forall main M, wfM M -> wfM (reverse_history_changes main M).
Proof.
  intros main M [Ms Mn]. split.
  - intros c. rewrite cget_reverse. destruct (existsb _ M). apply reverse_entries_sorted; auto. constructor.
  - unfold cnodup. rewrite reverse_changes_cols. auto.
Qed.
Lemma lookup_reverse : forall main M c k, wfM M ->
  lookup (reverse_history_changes main M) c k =
  match lookup M c k with Some b => rev_entry (lookup main c k) b | None => None end.
Proof.
  intros main M c k [Ms Mn]. unfold lookup. rewrite cget_reverse.
  destruct (existsb _ M) eqn:E.
  - apply mget_reverse_entries. auto.
  - rewrite (cget_nil_notin _ _ E). auto.
Qed.

(* ------------------------------------------------------------------ rollback undoes a commit *)
Lemma rev_entry_undo : forall old b,
  match rev_entry old b with Some o => opval o | None => opval b end = old.
Proof.
  intros [o|] [|n]; cbn; auto. destruct (bytes_eqb o n) eqn:E; cbn; auto.
  apply bytes_eqb_eq in E. subst. auto.
Qed.

Lemma merged_wf : forall l, wfM (merge_list l []).
Proof. intros. unfold wfM. apply merge_list_inv. apply csorted_nil. constructor. Qed.

Lemma mget_be64_minsert_remove : forall (hist : @smap changes) h rc, ssorted hist ->
  mget (be64 h) (minsert (be64 h) rc hist) = Some rc.
Proof. intros. rewrite mget_minsert. assert (keqb (be64 h) (be64 h) = true) as -> by (apply keqb_eq; auto). auto. Qed.

(* committing block h with history on and then rolling back to h restores every column exactly *)
Theorem rollback_undoes_commit : forall p h sc d, p <> 0 -> csorted (h_main d) -> ssorted (h_hist d) ->
  let d' := fst (hist_commit p (Some h) sc d) in
  snd (hist_rollback h d') = true /\ ceq (h_main (fst (hist_rollback h d'))) (h_main d).
Proof.
  intros p h sc d Hp Hs Hh. cbn zeta. unfold hist_commit.
  destruct (p =? 0) eqn:E; [apply N.eqb_eq in E; congruence|]. cbn [fst].
  unfold hist_commit_history, hist_rollback. cbn [h_hist h_main h_dup].
  assert (ssorted (h_hist (cleanup_old p h d))) as Hh1.
  { unfold cleanup_old. destruct (p <=? 1); auto. destruct (mget _ _); auto. cbn. apply mremove_sorted. auto. }
  rewrite mget_be64_minsert_remove by auto. cbn [fst snd h_main]. split; auto.
  rewrite cleanup_main, all_changes_sets.
  set (M := merge_list (sc_sets sc) []).
  pose proof (merged_wf (sc_sets sc)) as WM. fold M in WM.
  pose proof (reverse_wf (h_main d) M WM) as WR.
  assert (csorted (apply_changes M (h_main d))) as Hs1 by (apply apply_changes_sorted; auto).
  intros c. apply sorted_ext.
  - apply apply_changes_sorted. auto.
  - apply Hs.
  - intros k. change (lookup (apply_changes (reverse_history_changes (h_main d) M) (apply_changes M (h_main d))) c k = lookup (h_main d) c k).
    rewrite lookup_apply_wf by auto. rewrite lookup_reverse by auto. rewrite lookup_apply_wf by auto.
    destruct (lookup M c k) as [b|] eqn:L; auto.
    apply rev_entry_undo.
Qed.

(* ------------------------------------------------------------------ updates of the duplicate columns *)
Section Upd.
Variable h : N.
Hypothesis Hh : u64 h.
Variable g : key -> wop -> @smap wop -> @smap wop.
Variable r : wop -> option wop.
Hypothesis g_mget : forall k o m fk, ssorted m ->
  mget fk (g k o m) = if keqb fk (height_key k h) then r o else mget fk m.
Hypothesis g_sorted : forall k o m, ssorted m -> ssorted (g k o m).

Lemma hk_eqb : forall k k', keqb (height_key k h) (height_key k' h) = keqb k k'.
Proof.
  intros. destruct (keqb k k') eqn:E.
  - apply keqb_eq in E. subst. apply keqb_eq. auto.
  - destruct (keqb (height_key k h) (height_key k' h)) eqn:E2; auto.
    apply keqb_eq in E2. apply height_key_inj in E2 as [-> _]; auto.
    assert (keqb k' k' = true) by (apply keqb_eq; auto). congruence.
Qed.

Lemma upd_entries_sorted : forall es m, ssorted m -> ssorted (upd_entries g es m).
Proof. induction es as [|[k o] es]; cbn; intros; auto. Qed.

Lemma upd_entries_other : forall es m fk, ssorted m -> (forall k, fk <> height_key k h) ->
  mget fk (upd_entries g es m) = mget fk m.
Proof.
  induction es as [|[k o] es]; cbn [upd_entries]; intros m fk Hs Hne; auto.
  rewrite IHes by auto. rewrite g_mget by auto.
  destruct (keqb fk (height_key k h)) eqn:E; auto. apply keqb_eq in E. destruct (Hne k). auto.
Qed.

Lemma upd_entries_hk : forall es m k, ssorted es -> ssorted m ->
  mget (height_key k h) (upd_entries g es m) =
  match mget k es with Some o => r o | None => mget (height_key k h) m end.
Proof.
  induction es as [|[k0 o0] es]; intros m k He Hs; cbn [upd_entries mget]; auto.
  pose proof (ssorted_head _ _ He) as Hd0. pose proof (ssorted_tail _ _ He) as Ht.
  rewrite IHes by auto. rewrite g_mget by auto. rewrite hk_eqb. unfold keqb.
  destruct (kcmp k k0) eqn:E.
  - apply kcmp_eq in E. subst.
    destruct (mget k0 es) eqn:G; auto.
    apply mget_In in G; auto. apply Hd0 in G. cbn in G. rewrite kltb_irrefl in G. discriminate.
  - destruct (mget k es) eqn:G; auto.
    apply mget_In in G; auto. apply Hd0 in G. cbn in G. apply kltb_lt in G.
    pose proof (kcmp_lt_trans _ _ _ E G) as HH. rewrite kcmp_refl in HH. discriminate.
  - auto.
Qed.

Lemma upd_hist_sorted : forall rc dup, csorted dup -> csorted (upd_hist g rc dup).
Proof.
  induction rc as [|[c es] rc]; cbn; intros; auto. apply IHrc. apply csorted_cset; auto.
  apply upd_entries_sorted. auto.
Qed.
Lemma upd_hist_other : forall rc dup c fk, csorted dup -> (forall k, fk <> height_key k h) ->
  mget fk (cget c (upd_hist g rc dup)) = mget fk (cget c dup).
Proof.
  induction rc as [|[c0 es] rc]; cbn [upd_hist]; intros dup c fk Hs Hne; auto.
  rewrite IHrc; auto.
  - rewrite cget_cset. destruct (c0 =? c) eqn:E; auto. apply N.eqb_eq in E. subst.
    apply upd_entries_other; auto.
  - apply csorted_cset; auto. apply upd_entries_sorted. auto.
Qed.

Lemma wfM_tail : forall c0 es (M : cstate wop), wfM ((c0, es) :: M) ->
  ssorted es /\ wfM M /\ ~ In c0 (map fst M).
Proof.
  intros c0 es M [Ms Mn]. inversion Mn; subst. split; [|split]; auto.
  - specialize (Ms c0). cbn [cget] in Ms. rewrite N.eqb_refl in Ms. auto.
  - split; auto. intros x. destruct (N.eq_dec x c0) as [->|Ne].
    + rewrite cget_notin by auto. constructor.
    + specialize (Ms x). cbn [cget] in Ms. destruct (c0 =? x) eqn:E; auto. apply N.eqb_eq in E. congruence.
Qed.

Lemma upd_hist_hk : forall rc dup c k, wfM rc -> csorted dup ->
  mget (height_key k h) (cget c (upd_hist g rc dup)) =
  match lookup rc c k with Some o => r o | None => mget (height_key k h) (cget c dup) end.
Proof.
  induction rc as [|[c0 es] rc]; intros dup c k Hw Hs; cbn [upd_hist]; auto.
  destruct (wfM_tail _ _ _ Hw) as [He [Hw' Hn]].
  rewrite IHrc; auto.
  - unfold lookup. cbn [cget]. rewrite cget_cset. destruct (c0 =? c) eqn:E.
    + apply N.eqb_eq in E. subst. rewrite cget_notin by auto. cbn [mget].
      apply upd_entries_hk; auto.
    + auto.
  - apply csorted_cset; auto. apply upd_entries_sorted. auto.
Qed.
End Upd.

Lemma remove_g_mget : forall h k (o : wop) (m : @smap wop) fk, ssorted m ->
  mget fk (mremove (height_key k h) m) = if keqb fk (height_key k h) then None else mget fk m.
Proof. intros. apply mget_mremove. auto. Qed.
Lemma add_g_mget : forall h k (o : wop) (m : @smap wop) fk, ssorted m ->
  mget fk (minsert (height_key k h) o m) = if keqb fk (height_key k h) then Some o else mget fk m.
Proof. intros. apply mget_minsert. Qed.

Lemma remove_hist_hk : forall h rc dup c k, u64 h -> wfM rc -> csorted dup ->
  mget (height_key k h) (cget c (remove_historical h rc dup)) =
  match lookup rc c k with Some _ => None | None => mget (height_key k h) (cget c dup) end.
Proof.
  intros. unfold remove_historical.
  rewrite (upd_hist_hk h H _ (fun _ => None)); auto; intros;
    try (apply remove_g_mget; auto); try (apply mremove_sorted; auto).
Qed.
Lemma remove_hist_other : forall h rc dup c fk, csorted dup -> (forall k, fk <> height_key k h) ->
  mget fk (cget c (remove_historical h rc dup)) = mget fk (cget c dup).
Proof.
  intros. unfold remove_historical. apply (upd_hist_other h _ (fun _ => None)); auto.
  - intros. apply remove_g_mget; auto.
  - intros. apply mremove_sorted. auto.
Qed.
Lemma remove_hist_sorted : forall h rc dup, csorted dup -> csorted (remove_historical h rc dup).
Proof. intros. apply upd_hist_sorted; auto. intros. apply mremove_sorted. auto. Qed.
Lemma add_hist_hk : forall h rc dup c k, u64 h -> wfM rc -> csorted dup ->
  mget (height_key k h) (cget c (add_historical h rc dup)) =
  match lookup rc c k with Some o => Some o | None => mget (height_key k h) (cget c dup) end.
Proof.
  intros. unfold add_historical.
  apply (upd_hist_hk h H _ (fun o => Some o)); auto.
  - intros. apply add_g_mget; auto.
  - intros. apply minsert_sorted. auto.
Qed.
Lemma add_hist_other : forall h rc dup c fk, csorted dup -> (forall k, fk <> height_key k h) ->
  mget fk (cget c (add_historical h rc dup)) = mget fk (cget c dup).
Proof.
  intros. unfold add_historical. apply (upd_hist_other h _ (fun o => Some o)); auto.
  - intros. apply add_g_mget; auto.
  - intros. apply minsert_sorted. auto.
Qed.
Lemma add_hist_sorted : forall h rc dup, csorted dup -> csorted (add_historical h rc dup).
Proof. intros. apply upd_hist_sorted; auto. intros. apply minsert_sorted. auto. Qed.

(* a found key either is some key followed by the 8 bytes of h, or is not *)
Lemma hk_form_dec : forall fk h, (exists k, fk = height_key k h) \/ (forall k, fk <> height_key k h).
Proof.
  intros fk h.
  destruct (list_eq_dec N.eq_dec (skipn (length fk - 8) fk) (be64 h)) as [E|N];
    [destruct (le_lt_dec 8 (length fk)) as [L|L]|].
  - left. exists (firstn (length fk - 8) fk). unfold height_key. rewrite <- E. symmetry. apply firstn_skipn.
  - right. intros k E2. subst fk. unfold height_key in L. rewrite app_length, be64_length in L. lia.
  - right. intros k E2. apply N. subst fk. unfold height_key.
    rewrite app_length, be64_length. replace (length k + 8 - 8)%nat with (length k) by lia.
    rewrite skipn_app, Nat.sub_diag, skipn_all. cbn. auto.
Qed.

(* ------------------------------------------------------------------ the chain of snapshots *)
Fixpoint chain_wf (start : N) (ch : chain) : Prop :=
  match ch with
  | [] => True
  | (h, sn) :: r => h = start + N.of_nat (length r) /\ csorted sn /\ chain_wf start r
  end.
Definition st_at (ch : chain) (h : N) : cstate value := match chain_get h ch with Some s => s | None => [] end.
Definition prev_state (start : N) (ch : chain) (h : N) : cstate value :=
  if h =? start then [] else st_at ch (h - 1).
Definition in_chain (ch : chain) (h : N) : Prop := chain_get h ch <> None.

Lemma in_chain_range : forall start ch h, chain_wf start ch ->
  (in_chain ch h <-> start <= h < start + N.of_nat (length ch)).
Proof.
  unfold in_chain. induction ch as [|[h0 S] r]; intros h Hw; cbn [chain_get length].
  - split. congruence. lia.
  - destruct Hw as [-> [_ Hw]]. destruct (start + N.of_nat (length r) =? h) eqn:E.
    + split. lia. congruence.
    + rewrite (IHr h Hw). lia.
Qed.
Lemma chain_latest_next : forall start ch, chain_wf start ch ->
  next_height start (chain_latest ch) = start + N.of_nat (length ch).
Proof.
  intros start [|[h S] r] Hw; cbn [chain_latest next_height length]. lia.
  destruct Hw as [-> _]. lia.
Qed.
Lemma st_at_sorted : forall start ch h, chain_wf start ch -> csorted (st_at ch h).
Proof.
  unfold st_at. induction ch as [|[h0 S] r]; intros h Hw; cbn [chain_get]. apply csorted_nil.
  destruct Hw as [_ [HS Hw]]. destruct (h0 =? h); auto.
Qed.
Lemma chain_top_sorted : forall start ch, chain_wf start ch -> csorted (chain_top ch).
Proof. intros start [|[h S] r] Hw; cbn. apply csorted_nil. apply Hw. Qed.

(* pushing / popping the newest snapshot does not change the older ones *)
Lemma st_at_push : forall start ch h0 sn h, chain_wf start ch -> in_chain ch h ->
  h0 = start + N.of_nat (length ch) -> st_at ((h0, sn) :: ch) h = st_at ch h.
Proof.
  intros. unfold st_at. cbn [chain_get]. apply (in_chain_range start) in H0; auto.
  destruct (h0 =? h) eqn:E; auto. lia.
Qed.
Lemma prev_state_push : forall start ch h0 sn h, chain_wf start ch -> in_chain ch h ->
  h0 = start + N.of_nat (length ch) -> prev_state start ((h0, sn) :: ch) h = prev_state start ch h.
Proof.
  intros. unfold prev_state, st_at. destruct (h =? start); auto. cbn [chain_get].
  apply (in_chain_range start) in H0; auto. destruct (h0 =? h - 1) eqn:E; auto. lia.
Qed.

(* ------------------------------------------------------------------ the invariant *)
Definition Hd (d : hdb) (h : N) : option changes := mget (be64 h) (h_hist d).
Definition to_op (o : option value) : wop := match o with Some v => WInsert v | None => WRemove end.
Definition rdiff (old new : option value) : option wop := if oveqb old new then None else Some (to_op old).

Lemma oveqb_eq : forall a b, oveqb a b = true <-> a = b.
Proof.
  intros [a|] [b|]; cbn; try (split; congruence).
  rewrite bytes_eqb_eq. split; congruence.
Qed.
Lemma rev_entry_rdiff : forall old b, rev_entry old b = rdiff old (opval b).
Proof.
  intros [o|] [|n]; cbn; auto.
Qed.
Lemma rdiff_refl : forall a, rdiff a a = None.
Proof. intros. unfold rdiff. assert (oveqb a a = true) as -> by (apply oveqb_eq; auto). auto. Qed.
Lemma rdiff_none : forall a b, rdiff a b = None -> a = b.
Proof. unfold rdiff. intros a b. destruct (oveqb a b) eqn:E; try discriminate. intros _. apply oveqb_eq. auto. Qed.
Lemma rdiff_some : forall a b o, rdiff a b = Some o -> opval o = a.
Proof. unfold rdiff. intros a b o. destruct (oveqb a b); try discriminate. intros H. injection H as <-. destruct a; auto. Qed.

Record Inv (U : list ck) (start : N) (d : hdb) (ch : chain) : Prop := {
  i_main_sorted : csorted (h_main d);
  i_main : ceq (h_main d) (chain_top ch);
  i_chain : chain_wf start ch;
  i_bound : u64 (start + N.of_nat (length ch));
  i_hist_sorted : ssorted (h_hist d);
  i_hist_keys : forall fk rc, In (fk, rc) (h_hist d) -> exists h, fk = be64 h /\ in_chain ch h;
  i_hist : forall h rc, in_chain ch h -> Hd d h = Some rc ->
    wfM rc /\ forall c k, lookup rc c k = rdiff (lookup (prev_state start ch h) c k) (lookup (st_at ch h) c k);
  i_dup_sorted : csorted (h_dup d);
  i_dup_sound : forall c fk o, In (fk, o) (cget c (h_dup d)) ->
    exists k h rc, fk = height_key k h /\ in_chain ch h /\ Hd d h = Some rc /\ lookup rc c k = Some o /\ In (c, k) U;
  i_dup_complete : forall c k h rc o, in_chain ch h -> Hd d h = Some rc -> lookup rc c k = Some o ->
    mget (height_key k h) (cget c (h_dup d)) = Some o }.

Lemma in_chain_u64 : forall U start d ch h, Inv U start d ch -> in_chain ch h -> u64 h.
Proof.
  intros U start d ch h I H. apply (in_chain_range start) in H. 2: apply I.
  pose proof (i_bound _ _ _ _ I). unfold u64 in *. lia.
Qed.

(* no hole above a retained height *)
Definition GF (d : hdb) (ch : chain) : Prop :=
  forall a j, in_chain ch a -> Hd d a <> None -> a <= j -> in_chain ch j -> Hd d j <> None.

Lemma sw_app_cases : forall a b k, starts_with (a ++ b) k = true ->
  starts_with a k = true \/ starts_with k a = true.
Proof.
  induction a as [|x a IH]; intros b k H.
  - right. apply sw_nil.
  - destruct k as [|y k]. left. auto.
    cbn in H. apply andb_true_iff in H as [E H]. apply N.eqb_eq in E. subst.
    destruct (IH _ _ H); [left|right]; cbn; rewrite N.eqb_refl; auto.
Qed.
Lemma prefix_free_in_spec : forall x l, prefix_free_in x l = true -> forall y, In y l ->
  fst x = fst y -> snd x = snd y \/ (starts_with (snd x) (snd y) = false /\ starts_with (snd y) (snd x) = false).
Proof.
  induction l as [|z l]; intros H y Hy E; [destruct Hy|]. cbn [prefix_free_in] in H.
  apply andb_true_iff in H as [H1 H2]. destruct Hy as [<-|Hy]; auto.
  apply orb_true_iff in H1 as [H1|H1].
  - apply orb_true_iff in H1 as [H1|H1].
    + apply negb_true_iff in H1. apply N.eqb_neq in H1. congruence.
    + left. apply keqb_eq. auto.
  - apply andb_true_iff in H1 as [A B]. apply negb_true_iff in A, B. auto.
Qed.
Lemma prefix_free_spec : forall l, prefix_free l = true -> forall c k k', In (c, k) l -> In (c, k') l ->
  starts_with k k' = true -> k = k'.
Proof.
  induction l as [|z l]; intros H c k k' Hk Hk' S; [destruct Hk|].
  cbn [prefix_free] in H. apply andb_true_iff in H as [H1 H2].
  destruct Hk as [->|Hk], Hk' as [E|Hk'].
  - congruence.
  - destruct (prefix_free_in_spec _ _ H1 _ Hk' eq_refl) as [E|[A B]]; cbn [fst snd] in *; auto; congruence.
  - subst z. destruct (prefix_free_in_spec _ _ H1 _ Hk eq_refl) as [E|[A B]]; cbn [fst snd] in *; auto; congruence.
  - eapply IHl; eauto.
Qed.

(* values do not change across heights whose reverse diff does not mention the key *)
Lemma unchanged_run : forall U start d ch c k h n, Inv U start d ch ->
  (forall j, h < j <= h + N.of_nat n -> in_chain ch j /\ exists rc, Hd d j = Some rc /\ lookup rc c k = None) ->
  forall sn, snapshot start ch h = Some sn ->
  n <> O -> lookup (st_at ch (h + N.of_nat n)) c k = lookup sn c k.
Proof.
  intros U start d ch c k h n I. induction n as [|n IH]; intros Hj sn HS Hn. congruence.
  assert (in_chain ch (h + N.of_nat (S n)) /\ exists rc, Hd d (h + N.of_nat (S n)) = Some rc /\ lookup rc c k = None) as [Hin [rc [Hrc Hl]]].
  { apply Hj. lia. }
  destruct (i_hist _ _ _ _ I _ _ Hin Hrc) as [_ Hd']. rewrite Hd' in Hl. apply rdiff_none in Hl.
  rewrite <- Hl. unfold prev_state.
  pose proof (proj1 (in_chain_range start ch _ (i_chain _ _ _ _ I)) Hin) as R.
  destruct n as [|n'].
  - (* the height right above h *)
    replace (h + N.of_nat 1) with (h + 1) in * by lia.
    unfold snapshot in HS. destruct (h + 1 =? start) eqn:E.
    + assert (chain_get h ch = None) as G.
      { destruct (chain_get h ch) eqn:G; auto.
        assert (in_chain ch h) as X by (unfold in_chain; congruence).
        apply (in_chain_range start) in X. lia. apply I. }
      rewrite G in HS. destruct ((1 <=? start) && (h =? start - 1)); try discriminate. injection HS as <-. auto.
    + replace (h + 1 - 1) with h by lia. unfold st_at.
      assert (in_chain ch h) as X by (apply (in_chain_range start); [apply I | lia]).
      unfold in_chain in X. destruct (chain_get h ch); congruence.
  - assert (start <= h + N.of_nat (S n')) as R2.
    { destruct (Hj (h + N.of_nat (S n'))) as [X _]. lia.
      apply (in_chain_range start) in X. lia. apply I. }
    destruct (h + N.of_nat (S (S n')) =? start) eqn:E; [lia|].
    replace (h + N.of_nat (S (S n')) - 1) with (h + N.of_nat (S n')) by lia.
    apply IH; auto. intros j Hjr. apply Hj. lia.
Qed.

(* ------------------------------------------------------------------ a view is the snapshot *)
Lemma Hd_in_chain : forall U start d ch x rc, Inv U start d ch -> u64 x -> Hd d x = Some rc -> in_chain ch x.
Proof.
  intros U start d ch x rc I Hx H. unfold Hd in H. apply mget_In in H. 2: apply I.
  destruct (i_hist_keys _ _ _ _ I _ _ H) as [h' [E Hin]].
  apply be64_inj in E; auto. subst. auto. eapply in_chain_u64; eauto.
Qed.
Lemma hist_has_Hd : forall d x, hist_has x d = true <-> Hd d x <> None.
Proof. intros. unfold hist_has, Hd. destruct (mget (be64 x) (h_hist d)); split; congruence. Qed.

Lemma prev_snapshot : forall start ch h sn, chain_wf start ch -> in_chain ch (h + 1) ->
  snapshot start ch h = Some sn -> prev_state start ch (h + 1) = sn.
Proof.
  intros start ch h sn Hw Hin HS. apply (in_chain_range start) in Hin; auto.
  unfold prev_state, snapshot in *. destruct (h + 1 =? start) eqn:E.
  - assert (chain_get h ch = None) as G.
    { destruct (chain_get h ch) eqn:G; auto.
      assert (in_chain ch h) as X by (unfold in_chain; congruence).
      apply (in_chain_range start) in X; auto. lia. }
    rewrite G in HS. destruct ((1 <=? start) && (h =? start - 1)); try discriminate. congruence.
  - replace (h + 1 - 1) with h by lia. unfold st_at.
    assert (in_chain ch h) as X by (apply (in_chain_range start); auto; lia).
    unfold in_chain in X. destruct (chain_get h ch); congruence.
Qed.

(* the value of (c,k) at the snapshot of h equals the value at a later height when no reverse
   diff in between mentions the key *)
Lemma unchanged_to : forall U start d ch c k h h2 sn, Inv U start d ch ->
  snapshot start ch h = Some sn -> h <= h2 -> (h2 = h \/ in_chain ch h2) ->
  (forall j rc, h < j <= h2 -> Hd d j = Some rc -> lookup rc c k = None) ->
  (forall j, h < j <= h2 -> Hd d j <> None) ->
  (h2 = h -> in_chain ch h) ->
  lookup (st_at ch h2) c k = lookup sn c k.
Proof.
  intros U start d ch c k h h2 sn I HS Hle Hin Hun Hall Hsame.
  destruct (N.eq_dec h2 h) as [->|Ne].
  - specialize (Hsame eq_refl). unfold snapshot in HS. unfold st_at. unfold in_chain in Hsame.
    destruct (chain_get h ch); congruence.
  - destruct Hin as [->|Hin]; [congruence|].
    replace h2 with (h + N.of_nat (N.to_nat (h2 - h))) by lia.
    apply (unchanged_run U start d); auto; try lia.
    intros j Hj. assert (in_chain ch j) as Hjin.
    { apply (in_chain_range start) in Hin. 2: apply I. apply (in_chain_range start). apply I.
      split; [|lia]. unfold snapshot in HS. destruct (chain_get h ch) eqn:G.
      - assert (in_chain ch h) as X by (unfold in_chain; congruence).
        apply (in_chain_range start) in X. lia. apply I.
      - destruct ((1 <=? start) && (h =? start - 1)) eqn:B; try discriminate. lia. }
    split; auto. specialize (Hall j ltac:(lia)).
    destruct (Hd d j) as [rc|] eqn:G; [|congruence]. exists rc. split; auto. apply (Hun j); auto. lia.
Qed.

Lemma view_granted : forall U start d ch h rb,
  Inv U start d ch -> GF d ch -> u64 (h + 1) -> create_view_at h d = Some rb ->
  let L := start + N.of_nat (length ch) in
  rb = h + 1 /\
  exists sn, snapshot start ch h = Some sn /\
          (forall j, h < j < L -> Hd d j <> None) /\ (h + 1 = L -> in_chain ch h) /\ h < L /\ start < L /\ start <= h + 1.
Proof.
  intros U start d ch h rb I G Hb HV.
  pose proof (i_chain _ _ _ _ I) as Hw.
  set (L := start + N.of_nat (length ch)).
  assert (HL : forall x, in_chain ch x <-> start <= x < L) by (intros; apply in_chain_range; auto).
  unfold create_view_at in HV.
  assert (sat_add u64max h 1 = h + 1) as Erb by (unfold sat_add, u64max, u64 in *; lia).
  rewrite Erb in HV.
  destruct (hist_has (h + 1) d || hist_has h d) eqn:HH; try discriminate. injection HV as <-.
  split; auto.
  destruct (hist_has (h + 1) d) eqn:H1.
    - apply hist_has_Hd in H1. destruct (Hd d (h + 1)) as [rc|] eqn:E1; [|congruence].
      pose proof (Hd_in_chain _ _ _ _ _ _ I Hb E1) as Hin. pose proof (proj1 (HL _) Hin) as R.
      assert (exists sn, snapshot start ch h = Some sn) as [sn HS].
      { unfold snapshot. destruct (chain_get h ch) eqn:Gh; eauto.
        assert (~ in_chain ch h) as X by (unfold in_chain; congruence). rewrite HL in X.
        assert ((1 <=? start) && (h =? start - 1) = true) as -> by lia. eauto. }
      exists sn. split; auto. split; [|split; [|lia]].
      + intros j Hj. apply (G (h + 1) j); auto; try lia. congruence. apply HL. lia.
      + intros. lia.
    - cbn [orb] in HH. apply hist_has_Hd in HH. destruct (Hd d h) as [rc|] eqn:E0; [|congruence].
      assert (u64 h) as Hbh by (unfold u64 in *; lia).
      pose proof (Hd_in_chain _ _ _ _ _ _ I Hbh E0) as Hin. pose proof (proj1 (HL _) Hin) as R.
      assert (h + 1 = L) as Etop.
      { destruct (N.eq_dec (h + 1) L); auto. exfalso.
        assert (Hd d (h + 1) <> None) as X.
        { apply (G h (h + 1)); auto; try lia. congruence. apply HL. lia. }
        apply hist_has_Hd in X. congruence. }
      exists (st_at ch h). split; [|split; [|split; [|lia]]]; auto.
      + unfold snapshot, st_at. unfold in_chain in Hin. destruct (chain_get h ch); congruence.
      + intros. lia. 
Qed.

Lemma view_correct : forall U start d ch h rb c k,
  Inv U start d ch -> GF d ch -> prefix_free U = true -> In (c, k) U -> u64 (h + 1) ->
  create_view_at h d = Some rb ->
  exists sn, snapshot start ch h = Some sn /\ view_get rb d c k = lookup sn c k.
Proof.
  intros U start d ch h rb c k I G PF HU Hb HV.
  pose proof (i_chain _ _ _ _ I) as Hw.
  destruct (view_granted U start d ch h rb I G Hb HV) as [-> [sn [HS [Hall [Htop [HhL [HsL Hlow]]]]]]].
  set (L := start + N.of_nat (length ch)) in *.
  assert (HL : forall x, in_chain ch x <-> start <= x < L) by (intros; apply in_chain_range; auto).
  exists sn. split; auto.
  (* when no retained diff above h mentions the key, the latest state has the value *)
  assert (Hfall : (forall j rc, h < j < L -> Hd d j = Some rc -> lookup rc c k = None) ->
                  mget k (cget c (h_main d)) = lookup sn c k).
  { intros Hun. change (lookup (h_main d) c k = lookup sn c k).
    unfold lookup at 1. rewrite (i_main _ _ _ _ I c). fold (lookup (chain_top ch) c k).
    assert (chain_top ch = st_at ch (L - 1)) as ->.
    { destruct ch as [|[h0 s0] r]. subst L. cbn in *. lia.
      cbn [chain_top]. unfold st_at. cbn [chain_get]. destruct Hw as [-> _]. subst L. cbn [length].
      assert (start + N.of_nat (length r) =? start + N.of_nat (S (length r)) - 1 = true) as -> by lia. auto. }
    apply (unchanged_to U start d ch c k h (L - 1) sn); auto; try lia.
    - destruct (N.eq_dec (L - 1) h); auto. right. apply HL. lia.
    - intros j rc Hj. apply Hun. lia.
    - intros j Hj. apply Hall. lia.
    - intros E. apply Htop. lia. }
  unfold view_get.
  pose proof (i_dup_sorted _ _ _ _ I c) as Hds.
  set (dupc := cget c (h_dup d)) in *.
  (* an entry of key k at a retained height j > h sits at or above the seek key *)
  assert (Hentry : forall j rc o, h < j < L -> Hd d j = Some rc -> lookup rc c k = Some o ->
            In (height_key k j, o) dupc /\ kleb (height_key k (h + 1)) (height_key k j) = true).
  { intros j rc o Hj E Hl. assert (in_chain ch j) as Hjin by (apply HL; split; [|lia];
      unfold snapshot in HS; destruct (chain_get h ch) eqn:Gh;
      [assert (in_chain ch h) as X by (unfold in_chain; congruence); apply HL in X; lia |
       destruct ((1 <=? start) && (h =? start - 1)) eqn:B; try discriminate; lia]).
    split.
    - apply mget_In; auto. eapply (i_dup_complete _ _ _ _ I); eauto.
    - unfold kleb. rewrite height_key_cmp; auto.
      + destruct (N.compare_spec (h + 1) j); auto. lia.
      + eapply in_chain_u64; eauto. }
  destruct (c_item dupc (c_seek dupc (height_key k (h + 1)))) as [[fk o]|] eqn:SE.
  - destruct (seek_some _ _ _ _ Hds SE) as [Hin [Hge Hmin]].
    destruct (i_dup_sound _ _ _ _ I _ _ _ Hin) as [k' [h' [rc [Efk [Hin' [Hrc [Hl HU']]]]]]].
    pose proof (in_chain_u64 _ _ _ _ _ I Hin') as Hb'.
    destruct (Nat.eqb (length fk) (length k + 8) && bytes_eqb (firstn (length k) fk) k) eqn:CK.
    + (* the nearest modification of this very key *)
      apply andb_true_iff in CK as [C1 C2]. apply Nat.eqb_eq in C1. apply bytes_eqb_eq in C2.
      assert (k' = k).
      { subst fk. unfold height_key in *. rewrite app_length, be64_length in C1.
        assert (length k' = length k) as EL by lia.
        rewrite <- EL, firstn_app, Nat.sub_diag, firstn_all in C2. cbn in C2. rewrite app_nil_r in C2. auto. }
      subst k' fk.
      assert (h + 1 <= h') as Hh'.
      { unfold kleb in Hge. rewrite height_key_cmp in Hge; auto.
        destruct (N.compare_spec (h + 1) h'); try discriminate; lia. }
      pose proof (proj1 (HL _) Hin') as R'.
      destruct (i_hist _ _ _ _ I _ _ Hin' Hrc) as [_ Hdiff]. rewrite Hdiff in Hl.
      apply rdiff_some in Hl.
      assert (lookup (prev_state start ch h') c k = lookup sn c k) as Eprev.
      { destruct (N.eq_dec h' (h + 1)) as [->|Ne].
        - rewrite (prev_snapshot start ch h sn); auto.
        - unfold prev_state. assert (h' =? start = false) as -> by lia.
          apply (unchanged_to U start d ch c k h (h' - 1) sn); auto; try lia.
          + right. apply HL. lia.
          + intros j rcj Hj Ej. destruct (lookup rcj c k) as [o'|] eqn:El; auto. exfalso.
            destruct (Hentry j rcj o' ltac:(lia) Ej El) as [Hinj Hgej].
            specialize (Hmin _ Hinj Hgej). cbn [fst] in Hmin.
            unfold kleb in Hmin. rewrite height_key_cmp in Hmin; auto.
            * destruct (N.compare_spec h' j); try discriminate; lia.
            * apply (in_chain_u64 _ _ _ _ _ I). apply HL. lia.
          + intros j Hj. apply Hall. lia. }
      rewrite <- Eprev, <- Hl. destruct o; auto.
    + (* another key's entry: this key was not modified above h *)
      apply Hfall. intros j rcj Hj Ej. destruct (lookup rcj c k) as [o'|] eqn:El; auto. exfalso.
      destruct (Hentry j rcj o' Hj Ej El) as [Hinj Hgej].
      pose proof (Hmin _ Hinj Hgej) as Hle. cbn [fst] in Hle.
      assert (starts_with fk k = true) as Hsw.
      { apply (sw_convex k (height_key k (h + 1)) fk (height_key k j)); auto using height_key_sw. }
      assert (k' = k).
      { rewrite Efk in Hsw. unfold height_key in Hsw. apply sw_app_cases in Hsw as [S1|S1].
        - apply (prefix_free_spec U PF c); auto.
        - symmetry. apply (prefix_free_spec U PF c); auto. }
      subst k'. rewrite Efk in CK. unfold height_key in CK.
      rewrite app_length, be64_length, Nat.eqb_refl in CK.
      rewrite firstn_app, Nat.sub_diag, firstn_all in CK. cbn in CK. rewrite app_nil_r in CK.
      assert (bytes_eqb k k = true) by (apply bytes_eqb_eq; auto). congruence.
  - (* nothing at or above the seek key *)
    apply Hfall. intros j rcj Hj Ej. destruct (lookup rcj c k) as [o'|] eqn:El; auto. exfalso.
    destruct (Hentry j rcj o' Hj Ej El) as [Hinj Hgej].
    pose proof (seek_none _ _ Hds SE _ Hinj) as C. cbn [fst] in C. congruence.
Qed.

(* ------------------------------------------------------------------ the invariant is kept *)
Lemma Inv_init : forall U start, u64 start -> Inv U start hdb_empty [].
Proof.
  intros U start Hb. constructor.
  - apply csorted_nil.
  - intros c. auto.
  - cbn. auto.
  - cbn. replace (start + 0) with start by lia. auto.
  - constructor.
  - intros fk rc [].
  - intros h rc Hin. unfold in_chain in Hin. cbn in Hin. congruence.
  - apply csorted_nil.
  - intros c fk o H. cbn in H. destruct H.
  - intros c k h rc o Hin. unfold in_chain in Hin. cbn in Hin. congruence.
Qed.

Lemma mremove_In_neq : forall {V} (m : @smap V) k x, ssorted m -> In x (mremove k m) -> In x m /\ fst x <> k.
Proof.
  intros V m k x Hs H. split. eapply mremove_In; eauto.
  intros E. destruct x as [k' v]. cbn in E. subst k'.
  apply mget_In in H. 2: apply mremove_sorted; auto.
  rewrite mget_mremove in H by auto. assert (keqb k k = true) as X by (apply keqb_eq; auto). rewrite X in H. discriminate.
Qed.

Lemma Hd_other : forall (hist : @smap changes) x h, ssorted hist -> u64 x -> u64 h -> h <> x ->
  mget (be64 h) (mremove (be64 x) hist) = mget (be64 h) hist.
Proof.
  intros. rewrite mget_mremove by auto. destruct (keqb (be64 h) (be64 x)) eqn:E; auto.
  apply keqb_eq in E. apply be64_inj in E; auto. congruence.
Qed.

(* dropping the record of one retained height *)
Lemma remove_height_facts : forall U start d ch x xc, Inv U start d ch -> in_chain ch x -> Hd d x = Some xc ->
  let hist' := mremove (be64 x) (h_hist d) in
  let dup' := remove_historical x xc (h_dup d) in
  ssorted hist' /\
  (forall fk rc, In (fk, rc) hist' -> exists h, fk = be64 h /\ in_chain ch h /\ h <> x) /\
  (forall h, in_chain ch h -> h <> x -> mget (be64 h) hist' = Hd d h) /\
  mget (be64 x) hist' = None /\
  csorted dup' /\
  (forall c fk o, In (fk, o) (cget c dup') ->
     In (fk, o) (cget c (h_dup d)) /\ forall k, fk = height_key k x -> lookup xc c k = None) /\
  (forall c k h, in_chain ch h -> h <> x ->
     mget (height_key k h) (cget c dup') = mget (height_key k h) (cget c (h_dup d))).
Proof.
  intros U start d ch x xc I Hx Hxc. cbn zeta.
  pose proof (i_hist_sorted _ _ _ _ I) as Hs. pose proof (i_dup_sorted _ _ _ _ I) as Hds.
  pose proof (in_chain_u64 _ _ _ _ _ I Hx) as Hbx.
  destruct (i_hist _ _ _ _ I _ _ Hx Hxc) as [Wxc _].
  split; [apply mremove_sorted; auto|]. split; [|split; [|split; [|split; [|split]]]].
  - intros fk rc Hin. apply mremove_In_neq in Hin as [Hin Hne]; auto.
    destruct (i_hist_keys _ _ _ _ I _ _ Hin) as [h [-> Hh]]. exists h. split; auto. split; auto.
    intros ->. apply Hne. auto.
  - intros h Hh Hne. apply Hd_other; auto. eapply in_chain_u64; eauto.
  - rewrite mget_mremove by auto. assert (keqb (be64 x) (be64 x) = true) as -> by (apply keqb_eq; auto). auto.
  - apply remove_hist_sorted. auto.
  - intros c fk o Hin. pose proof (remove_hist_sorted x xc _ Hds c) as Hs'.
    apply mget_In in Hin; auto.
    destruct (hk_form_dec fk x) as [[k ->]|Hne].
    + rewrite remove_hist_hk in Hin by auto. destruct (lookup xc c k) eqn:El; try discriminate.
      split. apply mget_In; auto.
      intros k2 E2. apply height_key_inj in E2 as [<- _]; auto.
    + rewrite remove_hist_other in Hin by auto. split. apply mget_In; auto.
      intros k2 E2. destruct (Hne k2). auto.
  - intros c k h Hh Hne. apply remove_hist_other; auto.
    intros k2 E2. apply height_key_inj in E2 as [_ ->]; auto. eapply in_chain_u64; eauto.
Qed.

(* cleanup_old_changes keeps the invariant *)
Lemma Inv_cleanup : forall U start d ch p h, Inv U start d ch -> u64 h -> Inv U start (cleanup_old p h d) ch.
Proof.
  intros U start d ch p h I Hb. unfold cleanup_old. destruct (p <=? 1); auto.
  set (x := h - (p - 1)). destruct (mget (be64 x) (h_hist d)) as [xc|] eqn:E; auto.
  assert (u64 x) as Hbx by (unfold u64 in *; lia).
  assert (in_chain ch x) as Hx by (eapply Hd_in_chain; eauto).
  destruct (remove_height_facts U start d ch x xc I Hx E) as [F1 [F2 [F3 [F4 [F5 [F6 F7]]]]]].
  constructor; cbn [h_main h_hist h_dup]; try apply I; auto.
  - intros fk rc Hin. destruct (F2 _ _ Hin) as [h' [-> [Hh' _]]]. eauto.
  - intros h' rc Hh' Hrc. unfold Hd in Hrc. cbn [h_hist] in Hrc.
    assert (h' <> x) as Hne by (intros ->; congruence).
    rewrite F3 in Hrc by auto. apply (i_hist _ _ _ _ I); auto.
  - intros c fk o Hin. destruct (F6 _ _ _ Hin) as [Hin0 Hx0].
    destruct (i_dup_sound _ _ _ _ I _ _ _ Hin0) as [k [h' [rc [-> [Hh' [Hrc [Hl HU]]]]]]].
    assert (h' <> x) as Hne.
    { intros ->. unfold Hd in Hrc. rewrite E in Hrc. injection Hrc as <-.
      rewrite (Hx0 k eq_refl) in Hl. discriminate. }
    exists k, h', rc. repeat split; auto. unfold Hd. cbn [h_hist]. rewrite F3; auto.
  - intros c k h' rc o Hh' Hrc Hl. unfold Hd in Hrc. cbn [h_hist] in Hrc.
    assert (h' <> x) as Hne by (intros ->; congruence).
    rewrite F3 in Hrc by auto. rewrite F7 by auto. eapply (i_dup_complete _ _ _ _ I); eauto.
Qed.

Lemma apply_changes_ceq : forall ch a b, ceq a b -> ceq (apply_changes ch a) (apply_changes ch b).
Proof.
  intros. eapply ceq_trans. apply apply_changes_batch. eapply ceq_trans. apply write_batch_ceq. eauto.
  apply ceq_sym. apply apply_changes_batch.
Qed.

(* the chain without its newest element *)
Lemma tl_chain_facts : forall start l sn r h, chain_wf start ((l, sn) :: r) -> in_chain r h ->
  in_chain ((l, sn) :: r) h /\ h <> l /\ st_at r h = st_at ((l, sn) :: r) h /\
  prev_state start r h = prev_state start ((l, sn) :: r) h.
Proof.
  intros start l sn r h Hw Hin. destruct Hw as [-> [_ Hw]].
  pose proof (proj1 (in_chain_range start r h Hw) Hin) as R.
  assert (start + N.of_nat (length r) =? h = false) as E1 by lia.
  split; [|split; [lia|split]].
  - unfold in_chain in *. cbn [chain_get]. rewrite E1. auto.
  - unfold st_at. cbn [chain_get]. rewrite E1. auto.
  - unfold prev_state, st_at. destruct (h =? start) eqn:E; auto. cbn [chain_get].
    assert (start + N.of_nat (length r) =? h - 1 = false) as -> by lia. auto.
Qed.

Lemma prev_top : forall start ch h0 sn (main : cstate value) c k, chain_wf start ch -> ceq main (chain_top ch) ->
  h0 = start + N.of_nat (length ch) ->
  lookup (prev_state start ((h0, sn) :: ch) h0) c k = lookup main c k.
Proof.
  intros start ch h0 sn main c k Hw Hm ->. unfold prev_state, lookup. rewrite (Hm c).
  destruct ch as [|[l s] r]; cbn [length chain_top].
  - replace (start + N.of_nat 0 =? start) with true by lia. auto.
  - destruct Hw as [-> _].
    assert (start + N.of_nat (S (length r)) =? start = false) as -> by lia.
    unfold st_at. cbn [chain_get].
    assert (start + N.of_nat (S (length r)) =? start + N.of_nat (S (length r)) - 1 = false) as -> by lia.
    assert (start + N.of_nat (length r) =? start + N.of_nat (S (length r)) - 1 = true) as -> by lia. auto.
Qed.

Lemma Inv_rollback : forall U start d l sn r lc, Inv U start d ((l, sn) :: r) -> Hd d l = Some lc ->
  Inv U start {| h_main := apply_changes lc (h_main d); h_hist := mremove (be64 l) (h_hist d);
                 h_dup := remove_historical l lc (h_dup d) |} r.
Proof.
  intros U start d l sn r lc I Hlc.
  pose proof (i_chain _ _ _ _ I) as Hw.
  assert (in_chain ((l, sn) :: r) l) as Hl.
  { unfold in_chain. cbn [chain_get]. rewrite N.eqb_refl. congruence. }
  destruct (remove_height_facts U start d _ l lc I Hl Hlc) as [F1 [F2 [F3 [F4 [F5 [F6 F7]]]]]].
  destruct (i_hist _ _ _ _ I _ _ Hl Hlc) as [Wlc Hdiff].
  pose proof (i_main_sorted _ _ _ _ I) as Hms.
  assert (Hw' : chain_wf start r) by (destruct Hw as [_ [_ Hw]]; auto).
  constructor; cbn [h_main h_hist h_dup]; auto.
  - apply apply_changes_sorted. auto.
  - intros c. apply sorted_ext.
    + apply apply_changes_sorted. auto.
    + apply (chain_top_sorted start). auto.
    + intros k. change (lookup (apply_changes lc (h_main d)) c k = lookup (chain_top r) c k).
      rewrite lookup_apply_wf by auto. rewrite Hdiff.
      assert (lookup (st_at ((l, sn) :: r) l) c k = lookup (h_main d) c k) as E1.
      { unfold st_at. cbn [chain_get]. rewrite N.eqb_refl. unfold lookup. rewrite (i_main _ _ _ _ I c). auto. }
      assert (lookup (prev_state start ((l, sn) :: r) l) c k = lookup (chain_top r) c k) as E2.
      { apply (prev_top start r l sn (chain_top r)); auto. apply ceq_refl. destruct Hw as [-> _]. auto. }
      rewrite E1, E2. destruct (rdiff _ _) eqn:R.
      * apply rdiff_some in R. auto.
      * apply rdiff_none in R. auto.
  - pose proof (i_bound _ _ _ _ I) as B. cbn [length] in B. unfold u64 in *. lia.
  - intros fk rc Hin. destruct (F2 _ _ Hin) as [h [-> [Hh Hne]]]. exists h. split; auto.
    unfold in_chain in *. cbn [chain_get] in Hh. destruct (l =? h) eqn:E; auto. lia.
  - intros h rc Hh Hrc. destruct (tl_chain_facts start l sn r h Hw Hh) as [T1 [T2 [T3 T4]]].
    unfold Hd in Hrc. cbn [h_hist] in Hrc. rewrite F3 in Hrc by auto.
    rewrite T3, T4. apply (i_hist _ _ _ _ I); auto.
  - intros c fk o Hin. destruct (F6 _ _ _ Hin) as [Hin0 Hx0].
    destruct (i_dup_sound _ _ _ _ I _ _ _ Hin0) as [k [h' [rc [-> [Hh' [Hrc [Hlk HU]]]]]]].
    assert (h' <> l) as Hne.
    { intros ->. rewrite Hlc in Hrc. injection Hrc as <-. rewrite (Hx0 k eq_refl) in Hlk. discriminate. }
    exists k, h', rc. repeat split; auto.
    + unfold in_chain in *. cbn [chain_get] in Hh'. destruct (l =? h') eqn:E; auto. lia.
    + unfold Hd. cbn [h_hist]. rewrite F3; auto.
  - intros c k h rc o Hh Hrc Hlk. destruct (tl_chain_facts start l sn r h Hw Hh) as [T1 [T2 _]].
    unfold Hd in Hrc. cbn [h_hist] in Hrc. rewrite F3 in Hrc by auto. rewrite F7 by auto.
    eapply (i_dup_complete _ _ _ _ I); eauto.
Qed.

Lemma push_chain_facts : forall start ch h0 sn h, chain_wf start ch -> h0 = start + N.of_nat (length ch) ->
  in_chain ((h0, sn) :: ch) h -> h = h0 \/ in_chain ch h.
Proof.
  intros. unfold in_chain in *. cbn [chain_get] in *. destruct (h0 =? h) eqn:E; auto. left. lia.
Qed.
Lemma in_chain_push : forall ch h0 sn (h : N), in_chain ch h -> in_chain ((h0, sn) :: ch) h.
Proof. intros. unfold in_chain in *. cbn [chain_get]. destruct (h0 =? h); auto. congruence. Qed.
Lemma not_in_chain_next : forall start ch, chain_wf start ch -> ~ in_chain ch (start + N.of_nat (length ch)).
Proof. intros start ch Hw H. apply (in_chain_range start) in H; auto. lia. Qed.

(* a commit that stores no history (NoRewind) *)
Lemma Inv_commit_plain : forall U start d ch ch0 m', Inv U start d ch ->
  u64 (start + N.of_nat (S (length ch))) ->
  ceq m' (apply_changes ch0 (h_main d)) ->
  Inv U start {| h_main := m'; h_hist := h_hist d; h_dup := h_dup d |}
      ((start + N.of_nat (length ch), apply_changes ch0 (chain_top ch)) :: ch).
Proof.
  intros U start d ch ch0 m' I Hb Hm.
  pose proof (i_chain _ _ _ _ I) as Hw. pose proof (i_main_sorted _ _ _ _ I) as Hms.
  set (h0 := start + N.of_nat (length ch)).
  assert (Hold : forall h rc, in_chain ((h0, apply_changes ch0 (chain_top ch)) :: ch) h -> Hd d h = Some rc -> in_chain ch h).
  { intros h rc Hh Hrc. destruct (push_chain_facts start ch h0 _ h Hw eq_refl Hh) as [->|]; auto.
    eapply Hd_in_chain; eauto. unfold u64, h0 in *. lia. }
  constructor; cbn [h_main h_hist h_dup chain_top length]; try apply I; auto.
  - eapply csorted_ceq. apply ceq_sym. eauto. apply apply_changes_sorted. auto.
  - eapply ceq_trans. eauto. apply apply_changes_ceq. apply I.
  - cbn. split; auto. split; auto. apply apply_changes_sorted. apply (chain_top_sorted start). auto.
  - intros fk rc Hin. destruct (i_hist_keys _ _ _ _ I _ _ Hin) as [h [-> Hh]]. exists h. split; auto.
    apply in_chain_push. auto.
  - intros h rc Hh Hrc. pose proof (Hold _ _ Hh Hrc) as Hh0.
    rewrite (st_at_push start), (prev_state_push start); auto. apply (i_hist _ _ _ _ I); auto.
  - intros c fk o Hin. destruct (i_dup_sound _ _ _ _ I _ _ _ Hin) as [k [h [rc [E [Hh R]]]]].
    exists k, h, rc. split; auto. split; auto. apply in_chain_push. auto.
  - intros c k h rc o Hh Hrc Hl. pose proof (Hold _ _ Hh Hrc) as Hh0.
    eapply (i_dup_complete _ _ _ _ I); eauto.
Qed.

Lemma flat_keys : forall ch c k o, In (c, k, o) (flat ch) -> In (c, k) (changes_keys ch).
Proof.
  intros ch c k o H. unfold flat in H. apply in_flat_map in H as [[c0 es] [H1 H2]].
  unfold tag_entries in H2. cbn [fst snd] in H2. apply in_map_iff in H2 as [[k' o'] [E H2]].
  cbn in E. injection E as -> -> ->. unfold changes_keys. apply in_flat_map. exists (c, es). split; auto.
  cbn [fst snd]. apply in_map_iff. exists (k, o). auto.
Qed.
Lemma fold_fapplyW_some : forall b g c k o, fold_left fapplyW b g c k = Some o ->
  g c k = Some o \/ exists k' o', In (c, k', o') b /\ keqb k k' = true.
Proof.
  induction b as [|[[c0 k0] o0] b]; cbn [fold_left]; intros g c k o H; auto.
  apply IHb in H as [H|[k' [o' [H1 H2]]]].
  - unfold fapplyW in H. cbn [fst snd] in H. destruct ((c =? c0) && keqb k k0) eqn:E; auto.
    apply andb_true_iff in E as [E1 E2]. apply N.eqb_eq in E1. subst. right. exists k0, o0. split; cbn; auto.
  - right. exists k', o'. split; cbn; auto.
Qed.
Lemma merged_keys : forall ch0 c k b, lookup (merge_list [ch0] []) c k = Some b -> In (c, k) (changes_keys ch0).
Proof.
  intros ch0 c k b H. rewrite lookup_merge_list in H. apply fold_fapplyW_some in H as [H|[k' [o' [H1 H2]]]].
  - unfold lookup in H. destruct c; discriminate.
  - apply keqb_eq in H2. subst. unfold flat_list in H1. cbn [flat_map] in H1. rewrite app_nil_r in H1.
    eapply flat_keys; eauto.
Qed.

(* a commit with history *)
Lemma Inv_commit_hist : forall U start d ch p ch0, Inv U start d ch -> p <> 0 ->
  u64 (start + N.of_nat (S (length ch))) -> incl (changes_keys ch0) U ->
  Inv U start (hist_commit_history p (start + N.of_nat (length ch)) (merge_list [ch0] []) d)
      ((start + N.of_nat (length ch), apply_changes ch0 (chain_top ch)) :: ch).
Proof.
  intros U start d ch p ch0 I0 Hp Hb HU.
  set (h0 := start + N.of_nat (length ch)).
  assert (Hb0 : u64 h0) by (unfold u64, h0 in *; lia).
  pose proof (Inv_cleanup U start d ch p h0 I0 Hb0) as I.
  unfold hist_commit_history. set (d1 := cleanup_old p h0 d) in *.
  set (M := merge_list [ch0] []). pose proof (merged_wf [ch0]) as WM. fold M in WM.
  assert (Em : h_main d1 = h_main d) by apply cleanup_main.
  set (reverse := reverse_history_changes (h_main d) M).
  pose proof (reverse_wf (h_main d) M WM) as WR. fold reverse in WR.
  pose proof (i_chain _ _ _ _ I) as Hw. pose proof (i_main_sorted _ _ _ _ I) as Hms.
  assert (Hfresh : Hd d1 h0 = None).
  { destruct (Hd d1 h0) eqn:E; auto. exfalso. apply (not_in_chain_next start ch Hw). eapply Hd_in_chain; eauto. }
  unfold Hd in Hfresh. rewrite Hfresh.
  set (sn := apply_changes ch0 (chain_top ch)).
  assert (Hmain : ceq (apply_changes M (h_main d1)) sn).
  { eapply ceq_trans. apply apply_merged. auto. unfold flat_list. cbn [flat_map]. rewrite app_nil_r.
    eapply ceq_trans. apply ceq_sym. apply apply_changes_batch. apply apply_changes_ceq. apply I. }
  assert (Hkeq : forall h, u64 h -> h <> h0 -> keqb (be64 h) (be64 h0) = false).
  { intros h Hbh Hne. destruct (keqb (be64 h) (be64 h0)) eqn:E; auto. apply keqb_eq in E. apply be64_inj in E; auto. congruence. }
  assert (Hself : keqb (be64 h0) (be64 h0) = true) by (apply keqb_eq; auto).
  assert (Hold : forall h, in_chain ((h0, sn) :: ch) h -> h <> h0 -> in_chain ch h).
  { intros h Hh Hne. destruct (push_chain_facts start ch h0 _ h Hw eq_refl Hh); auto. congruence. }
  assert (Hbnd : forall h, in_chain ((h0, sn) :: ch) h -> u64 h).
  { intros h Hh. destruct (push_chain_facts start ch h0 _ h Hw eq_refl Hh) as [->|]; auto. eapply in_chain_u64; eauto. }
  assert (Hnew : in_chain ((h0, sn) :: ch) h0).
  { unfold in_chain. cbn [chain_get]. rewrite N.eqb_refl. congruence. }
  constructor; cbn [h_main h_hist h_dup chain_top length].
  - apply apply_changes_sorted. auto.
  - auto.
  - cbn. split; auto. split; auto. apply apply_changes_sorted. apply (chain_top_sorted start). auto.
  - auto.
  - apply minsert_sorted. apply I.
  - intros fk rc Hin. apply minsert_In in Hin as [E|Hin].
    + injection E as -> ->. exists h0. auto.
    + destruct (i_hist_keys _ _ _ _ I _ _ Hin) as [h [-> Hh]]. exists h. split; auto. apply in_chain_push. auto.
  - intros h rc Hh Hrc. unfold Hd in Hrc. cbn [h_hist] in Hrc. rewrite mget_minsert in Hrc.
    destruct (N.eq_dec h h0) as [->|Hne].
    + rewrite Hself in Hrc. injection Hrc as <-. split; auto. intros c k.
      unfold reverse. rewrite lookup_reverse by auto.
      rewrite (prev_top start ch h0 sn (h_main d)); auto. 2: rewrite <- Em; apply I.
      assert (lookup (st_at ((h0, sn) :: ch) h0) c k = lookup (apply_changes M (h_main d)) c k) as ->.
      { unfold st_at. cbn [chain_get]. rewrite N.eqb_refl. unfold lookup. rewrite <- Em, (Hmain c). auto. }
      rewrite lookup_apply_wf by (auto; rewrite <- Em; auto).
      destruct (lookup M c k). apply rev_entry_rdiff. symmetry. apply rdiff_refl.
    + rewrite Hkeq in Hrc by auto. pose proof (Hold _ Hh Hne) as Hh0.
      rewrite (st_at_push start), (prev_state_push start); auto. apply (i_hist _ _ _ _ I); auto.
  - apply add_hist_sorted. apply I.
  - intros c fk o Hin. pose proof (add_hist_sorted h0 reverse _ (i_dup_sorted _ _ _ _ I) c) as Hs'.
    apply mget_In in Hin; auto.
    assert (Hfrom1 : mget fk (cget c (h_dup d1)) = Some o -> (forall k, fk <> height_key k h0) \/ True ->
            exists k h rc, fk = height_key k h /\ in_chain ((h0, sn) :: ch) h /\
              Hd {| h_main := apply_changes M (h_main d1); h_hist := minsert (be64 h0) reverse (h_hist d1);
                    h_dup := add_historical h0 reverse (h_dup d1) |} h = Some rc /\ lookup rc c k = Some o /\ In (c, k) U).
    { intros G _. apply mget_In in G. 2: apply I.
      destruct (i_dup_sound _ _ _ _ I _ _ _ G) as [k [h [rc [-> [Hh [Hrc [Hl HUk]]]]]]].
      exists k, h, rc. split; auto. split. apply in_chain_push; auto. split; auto.
      unfold Hd. cbn [h_hist]. rewrite mget_minsert. rewrite Hkeq; auto.
      eapply in_chain_u64; eauto. intros ->. apply (not_in_chain_next start ch Hw). auto. }
    destruct (hk_form_dec fk h0) as [[k ->]|Hne].
    + rewrite add_hist_hk in Hin; auto. 2: apply I.
      destruct (lookup reverse c k) as [o'|] eqn:El.
      * injection Hin as ->. exists k, h0, reverse. split; auto. split; auto. split.
        unfold Hd. cbn [h_hist]. rewrite mget_minsert, Hself. auto.
        split; auto. unfold reverse in El. rewrite lookup_reverse in El by auto.
        destruct (lookup M c k) eqn:ElM; try discriminate. apply HU. eapply merged_keys; eauto.
      * apply Hfrom1; auto.
    + rewrite add_hist_other in Hin; auto. apply I.
  - intros c k h rc o Hh Hrc Hl. unfold Hd in Hrc. cbn [h_hist] in Hrc. rewrite mget_minsert in Hrc.
    destruct (N.eq_dec h h0) as [->|Hne].
    + rewrite Hself in Hrc. injection Hrc as <-. rewrite add_hist_hk; auto. rewrite Hl. auto. apply I.
    + rewrite Hkeq in Hrc by auto. pose proof (Hold _ Hh Hne) as Hh0.
      rewrite add_hist_other. eapply (i_dup_complete _ _ _ _ I); eauto. apply I.
      intros k2 E2. apply height_key_inj in E2 as [_ ->]; auto.
Qed.

(* ------------------------------------------------------------------ whole histories *)
Fixpoint grun (start : N) (s : hstate) (ch : chain) (ops : list hop) : hstate * chain :=
  match ops with
  | [] => (s, ch)
  | o :: r => grun start (fst (hstep start s o)) (ghost_step start ch o (snd (hstep start s o))) r
  end.

(* what a HashMap of BTreeMaps guarantees: one change set never writes a (column,key) twice *)
Definition op_wf (U : list ck) (o : hop) : Prop :=
  match o with
  | HCommit ch0 => conflict_free (SChanges ch0) = true /\ incl (changes_keys ch0) U
  | _ => True
  end.
Definition ops_wf (U : list ck) (ops : list hop) : Prop := Forall (op_wf U) ops.

Definition RInv (U : list ck) (start : N) (s : hstate) (ch : chain) : Prop :=
  Inv U start (s_db s) ch /\ s_latest s = chain_latest ch.

Lemma RInv_step : forall U start s ch o, RInv U start s ch -> op_wf U o ->
  u64 (start + N.of_nat (S (length ch))) ->
  RInv U start (fst (hstep start s o)) (ghost_step start ch o (snd (hstep start s o))).
Proof.
  intros U start s ch o [I Hl] Hwf Hb. pose proof (i_chain _ _ _ _ I) as Hw.
  destruct o as [ch0| |p']; cbn [hstep].
  - (* commit *)
    destruct Hwf as [Hcf HU]. rewrite Hl. rewrite (chain_latest_next start ch Hw).
    set (h0 := start + N.of_nat (length ch)).
    destruct (hist_commit (s_policy s) (Some h0) (SChanges ch0) (s_db s)) as [d' ok] eqn:E.
    cbn [fst snd ghost_step]. rewrite N.eqb_refl. rewrite (chain_latest_next start ch Hw). fold h0.
    split; [|cbn; auto]. cbn [s_db]. unfold hist_commit in E.
    destruct (s_policy s =? 0) eqn:Ep.
    + pose proof (rocks_commit_spec (h_main (s_db s)) (SChanges ch0)) as [_ R2].
      destruct (rocks_commit (h_main (s_db s)) (SChanges ch0)) as [m ok']. injection E as <- _.
      apply Inv_commit_plain; auto. unfold spec_commit in R2. rewrite Hcf in R2. cbn in R2. auto.
    + injection E as <- _. apply Inv_commit_hist; auto. apply N.eqb_neq. auto.
  - (* rollback *)
    rewrite Hl. destruct ch as [|[l sn] r]; cbn [chain_latest].
    + cbn [fst snd ghost_step]. split; auto.
    + unfold hist_rollback. destruct (mget (be64 l) (h_hist (s_db s))) as [lc|] eqn:E.
      * cbn [fst snd ghost_step tl]. replace (0 =? 0) with true by auto. cbn [tl]. split; cbn [s_db s_latest].
        -- apply (Inv_rollback U start (s_db s) l sn r lc); auto.
        -- destruct Hw as [-> [_ Hw']]. destruct r as [|[l' s'] r']; cbn [chain_latest length].
           ++ replace (start + N.of_nat 0 =? start) with true by lia. auto.
           ++ destruct Hw' as [-> _]. assert (start + N.of_nat (S (length r')) =? start = false) as -> by lia.
              f_equal. lia.
      * cbn [fst snd ghost_step]. replace (6 =? 0) with false by auto. split; auto.
  - (* restart *)
    cbn [fst snd ghost_step]. split; auto.
Qed.

Lemma ghost_step_length : forall start ch o tag, (length (ghost_step start ch o tag) <= S (length ch))%nat.
Proof. intros. destruct o; cbn [ghost_step]; try lia; destruct (tag =? 0); cbn; try lia. destruct ch; cbn; lia. Qed.

Lemma RInv_run : forall U start ops s ch, RInv U start s ch -> ops_wf U ops ->
  u64 (start + N.of_nat (length ch + length ops)) ->
  RInv U start (fst (grun start s ch ops)) (snd (grun start s ch ops)).
Proof.
  induction ops as [|o ops IH]; intros s ch R Hwf Hb; cbn [grun fst snd]; auto.
  inversion Hwf; subst. apply IH; auto.
  - apply RInv_step; auto. unfold u64 in *. cbn [length] in Hb. lia.
  - pose proof (ghost_step_length start ch o (snd (hstep start s o))). unfold u64 in *. cbn [length] in Hb. lia.
Qed.

(* the boolean gap test means: no hole above a retained height *)
Lemma consecutive_In : forall ks lo, consecutive ks lo = true ->
  forall x, In x ks <-> exists i, (i < length ks)%nat /\ x = be64 (lo + N.of_nat i).
Proof.
  induction ks as [|k ks IH]; intros lo H x; cbn [consecutive In length] in *.
  - split. intros []. intros [i [Hi _]]. lia.
  - apply andb_true_iff in H as [E H]. apply bytes_eqb_eq in E. subst k. rewrite (IH _ H). split.
    + intros [<-|[i [Hi ->]]]. exists O. split. lia. f_equal. lia.
      exists (S i). split. lia. f_equal. lia.
    + intros [[|i] [Hi ->]]. left. f_equal. lia.
      right. exists i. split. lia. f_equal. lia.
Qed.

Lemma gap_free_GF : forall U start s ch, RInv U start s ch -> gap_free s = true -> GF (s_db s) ch.
Proof.
  intros U start s ch [I Hl] Hg a j Ha Hda Haj Hj.
  pose proof (i_chain _ _ _ _ I) as Hw. pose proof (i_hist_sorted _ _ _ _ I) as Hs.
  unfold gap_free in Hg. unfold Hd in *.
  destruct (mget (be64 a) (h_hist (s_db s))) as [rca|] eqn:Ea; [|congruence].
  apply mget_In in Ea; auto.
  assert (In (be64 a) (map fst (h_hist (s_db s)))) as Hina by (apply in_map_iff; exists (be64 a, rca); auto).
  destruct (map fst (h_hist (s_db s))) as [|k0 ks] eqn:Eks; [destruct Hina|].
  rewrite Hl in Hg. destruct (chain_latest ch) as [l|] eqn:El; [|discriminate].
  apply andb_true_iff in Hg as [Hn Hc].
  set (n := N.of_nat (length (k0 :: ks))) in *.
  assert (l = start + N.of_nat (length ch) - 1 /\ (length ch > 0)%nat) as [El' Hlen].
  { destruct ch as [|[l0 s0] r]; cbn in El; try discriminate. injection El as <-. destruct Hw as [-> _]. cbn [length]. lia. }
  pose proof (proj1 (in_chain_range start ch a Hw) Ha) as Ra.
  pose proof (proj1 (in_chain_range start ch j Hw) Hj) as Rj.
  pose proof (i_bound _ _ _ _ I) as B.
  apply (consecutive_In _ _ Hc) in Hina as [i [Hi Ei]].
  apply be64_inj in Ei; try (unfold u64 in *; lia). 
  assert (In (be64 j) (k0 :: ks)) as Hinj.
  { apply (consecutive_In _ _ Hc). exists (N.to_nat (j - (l + 1 - n))). split.
    - subst n. lia.
    - f_equal. lia. }
  rewrite <- Eks in Hinj. apply in_map_iff in Hinj as [[kj rcj] [E Hin]]. cbn [fst] in E. subst kj.
  apply mget_In in Hin; auto. rewrite Hin. congruence.
Qed.

Lemma RInv_init : forall U start p, u64 start -> RInv U start (hinit p) [].
Proof. intros. split; cbn; auto. apply Inv_init. auto. Qed.

(* C12, views: after ANY history of commits, rollbacks and restarts with any policies, a view at
   height h is refused (no history) or returns, for every key, exactly the value of the snapshot
   taken right after block h - provided the keys written to one column are prefix-free (H1) and the
   retained heights have no hole (H2) *)
Theorem view_exact_or_nohistory_all : forall U start p ops,
  ops_wf U ops -> prefix_free U = true -> u64 (start + N.of_nat (length ops)) ->
  gap_free (fst (grun start (hinit p) [] ops)) = true ->
  forall h c k, u64 (h + 1) -> In (c, k) U ->
  match create_view_at h (s_db (fst (grun start (hinit p) [] ops))) with
  | None => True
  | Some rb => exists sn, snapshot start (snd (grun start (hinit p) [] ops)) h = Some sn /\
               view_get rb (s_db (fst (grun start (hinit p) [] ops))) c k = lookup sn c k
  end.
Proof.
  intros U start p ops Hwf PF Hb Hg h c k Hh HU.
  assert (u64 start) as Hbs by (unfold u64 in *; lia).
  pose proof (RInv_run U start ops (hinit p) [] (RInv_init U start p Hbs) Hwf Hb) as R.
  destruct (create_view_at h _) as [rb|] eqn:E; auto.
  eapply view_correct; eauto. apply R. eapply gap_free_GF; eauto.
Qed.

(* C12, rollbacks and commits: after ANY history the database holds exactly the newest snapshot of
   the ghost chain: a commit applies exactly its change set, a successful rollback restores exactly
   the state of the previous height, again and again; a rollback succeeds exactly when the record
   of the latest height is retained *)
Theorem rollback_restores_prev_all : forall U start p ops,
  ops_wf U ops -> u64 (start + N.of_nat (length ops)) ->
  let s := fst (grun start (hinit p) [] ops) in
  let ch := snd (grun start (hinit p) [] ops) in
  ceq (h_main (s_db s)) (chain_top ch) /\ s_latest s = chain_latest ch /\
  (forall l, s_latest s = Some l -> (snd (hist_rollback l (s_db s)) = true <-> Hd (s_db s) l <> None)).
Proof.
  intros U start p ops Hwf Hb. cbn zeta.
  assert (u64 start) as Hbs by (unfold u64 in *; lia).
  pose proof (RInv_run U start ops (hinit p) [] (RInv_init U start p Hbs) Hwf Hb) as [I Hl].
  split; [apply I|]. split; auto.
  intros l _. unfold hist_rollback, Hd. destruct (mget (be64 l) _); cbn; split; congruence.
Qed.

(* the two classes outside the view theorem are real *)
Definition ex_s7_ops : list hop :=
  [ HCommit [(0, [([1; 0], WInsert [1])])]; HCommit [(0, [([1; 0], WInsert [2])])];
    HCommit [(0, [([1; 0], WInsert [3])])]; HCommit [(0, [([1; 0], WInsert [4])])];
    HCommit [(0, [([1; 0], WInsert [5])])]; HRestart 2; HCommit [(0, [([1; 0], WInsert [6])])] ].
(* S7: RewindRange{3} for five blocks, restart with RewindRange{1}, one more block: the view at
   height 4 returns the value of height 5 *)
Lemma view_gap_refuted :
  let s := fst (grun 1 (hinit 4) [] ex_s7_ops) in
  gap_free s = false /\
  create_view_at 4 (s_db s) = Some 5 /\ view_get 5 (s_db s) 0 [1; 0] = Some [5] /\
  exists sn, snapshot 1 (snd (grun 1 (hinit 4) [] ex_s7_ops)) 4 = Some sn /\ lookup sn 0 [1; 0] = Some [4].
Proof. vm_compute. repeat split; auto. eexists. split; reflexivity. Qed.

(* S6 (repaired): with keys [1] and [1,0] in one column the original comparison of only the first
   |key| bytes returned the history of [1] for [1,0]; the repaired lookup is right here, but a
   column whose keys are not prefix-free stays outside the theorem *)
Definition ex_s6_ops : list hop :=
  [ HCommit [(0, [([1], WInsert [7]); ([1; 0], WInsert [5])])]; HCommit [(0, [([1], WInsert [8])])] ].
Lemma view_mixed_lengths_orig_refuted :
  let s := fst (grun 1 (hinit 1) [] ex_s6_ops) in
  view_get_orig 2 (s_db s) 0 [1; 0] = Some None /\ view_get 2 (s_db s) 0 [1; 0] = Some [5] /\
  prefix_free (universe ex_s6_ops) = false.
Proof. vm_compute. auto. Qed.

(* non-vacuity: a history with a growing window, rollbacks and re-commits that satisfies every
   hypothesis and has views that are not refused *)
Definition ex_ok_ops : list hop :=
  [ HCommit [(0, [([1; 0], WInsert [1]); ([254; 1], WInsert [9])])]; HCommit [(0, [([1; 0], WRemove)])];
    HRestart 4; HCommit [(0, [([1; 0], WInsert [3])]); (1, [([0; 0], WInsert [])])]; HRollback;
    HCommit [(0, [([254; 1], WInsert [9])])]; HCommit [(1, [([0; 0], WRemove)])] ].
Example view_nonvacuous :
  let U := universe ex_ok_ops in
  ops_wf U ex_ok_ops /\ prefix_free U = true /\
  gap_free (fst (grun 1 (hinit 3) [] ex_ok_ops)) = true /\
  create_view_at 2 (s_db (fst (grun 1 (hinit 3) [] ex_ok_ops))) = Some 3 /\
  view_get 3 (s_db (fst (grun 1 (hinit 3) [] ex_ok_ops))) 0 [1; 0] = None /\
  view_get 2 (s_db (fst (grun 1 (hinit 3) [] ex_ok_ops))) 0 [1; 0] = Some [1].
Proof.
  cbn zeta. split; [|vm_compute; auto].
  unfold ops_wf, ex_ok_ops.
  repeat (apply Forall_cons; [try exact Logic.I; try (split; [vm_compute; reflexivity | intros x Hx; vm_compute in Hx; vm_compute; tauto]) |]).
  apply Forall_nil.
Qed.

(* ------------------------------------------------------------------ the checker of C12 *)
Definition view_ok (start : N) (uni : list ck) (ch : chain) (h : N) (v : view_obs) : Prop :=
  match v with
  | None => True
  | Some vals => exists sn, snapshot start ch h = Some sn /\ vals = lookups uni sn
  end.
Fixpoint HTrace (start : N) (uni : list ck) (hs : list N) (ch : chain) (ops : list hop) (obs : list hobs) : Prop :=
  match ops, obs with
  | [], [] => True
  | o :: r, ob :: obs' =>
      let ch' := ghost_step start ch o (ho_tag ob) in
      hop_okb ch o (ho_tag ob) = true /\
      ho_latest ob = lookups uni (chain_top ch') /\
      Forall2 (view_ok start uni ch') hs (ho_views ob) /\
      HTrace start uni hs ch' r obs'
  | _, _ => False
  end.

Lemma ovlist_eqb_eq : forall a b, ovlist_eqb a b = true <-> a = b.
Proof.
  induction a as [|x a IH]; destruct b as [|y b]; cbn; try (split; congruence).
  rewrite andb_true_iff, oveqb_eq, IH. split. intros [-> ->]; auto. intros E. injection E as -> ->. auto.
Qed.
Lemma view_okb_ok : forall start uni ch h v, view_okb start uni ch h v = true <-> view_ok start uni ch h v.
Proof.
  intros. destruct v as [vals|]; cbn; [|tauto].
  destruct (snapshot start ch h) as [sn|].
  - rewrite ovlist_eqb_eq. split. intros ->. eauto. intros [sn' [E ->]]. congruence.
  - split. discriminate. intros [sn' [E _]]. discriminate.
Qed.
Lemma views_okb_ok : forall start uni ch hs vs,
  views_okb start uni ch hs vs = true <-> Forall2 (view_ok start uni ch) hs vs.
Proof.
  induction hs as [|h hs IH]; destruct vs as [|v vs]; cbn [views_okb].
  - split; auto.
  - split. discriminate. intros H. inversion H.
  - split. discriminate. intros H. inversion H.
  - rewrite andb_true_iff, view_okb_ok, IH. split.
    + intros [A B]. constructor; auto.
    + intros H. inversion H; subst. auto.
Qed.
Lemma htrace_okb_ok : forall start uni hs ops ch obs,
  htrace_okb start uni hs ch ops obs = true <-> HTrace start uni hs ch ops obs.
Proof.
  induction ops as [|o ops IH]; intros ch obs; destruct obs as [|ob obs]; cbn [htrace_okb HTrace]; try tauto;
    try (split; [discriminate | tauto]).
  cbn zeta. rewrite !andb_true_iff, ovlist_eqb_eq, views_okb_ok, IH. tauto.
Qed.
Lemma c12_okb_sound : forall start ops obs,
  c12_okb start ops obs = true <-> HTrace start (universe ops) (view_heights start ops) [] ops obs.
Proof. intros. apply htrace_okb_ok. Qed.


(* ------------------------------------------------------------------ the model's own trace passes the checker *)
Lemma lookups_ceq : forall uni (a b : cstate value), ceq a b -> lookups uni a = lookups uni b.
Proof. intros. unfold lookups. apply map_ext. intros x. rewrite (H (fst x)). auto. Qed.

Lemma hstep_tag_ok : forall U start s ch o, RInv U start s ch -> hop_okb ch o (snd (hstep start s o)) = true.
Proof.
  intros U start s ch o [I Hl]. destruct o as [ch0| |p']; cbn [hstep hop_okb].
  - destruct (hist_commit _ _ _ _). auto.
  - rewrite Hl. destruct ch as [|[l sn] r]; cbn [chain_latest snd]; auto.
    destruct (hist_rollback l (s_db s)) as [d ok]. destruct ok; auto.
  - auto.
Qed.

Lemma hrun_passes : forall U start uni hs ops s ch,
  RInv U start s ch -> ops_wf U ops -> u64 (start + N.of_nat (length ch + length ops)) ->
  run_gap_free start s ops = true -> prefix_free U = true -> incl uni U ->
  Forall (fun h => u64 (h + 1)) hs ->
  htrace_okb start uni hs ch ops (hrun start uni hs s ops) = true.
Proof.
  induction ops as [|o ops IH]; intros s ch R Hwf Hb Hg PF Hinc Hhs; cbn [hrun htrace_okb]; auto.
  inversion Hwf; subst. cbn [run_gap_free] in Hg. apply andb_true_iff in Hg as [Hg1 Hg2].
  assert (u64 (start + N.of_nat (S (length ch)))) as Hb1 by (unfold u64 in *; cbn [length] in Hb; lia).
  pose proof (RInv_step U start s ch o R H1 Hb1) as R'.
  pose proof (hstep_tag_ok U start s ch o R) as Htag.
  destruct (hstep start s o) as [s' tag] eqn:E. cbn [fst snd] in *.
  cbn [htrace_okb observe ho_tag ho_latest ho_views].
  rewrite Htag. cbn [andb].
  destruct R' as [I' Hl'].
  assert (ovlist_eqb (map (fun x : N * key => mget (snd x) (cget (fst x) (h_main (s_db s')))) uni)
                     (lookups uni (chain_top (ghost_step start ch o tag))) = true) as ->.
  { apply ovlist_eqb_eq. apply (lookups_ceq uni). apply I'. }
  cbn [andb]. rewrite andb_true_iff. split.
  - apply views_okb_ok. pose proof (gap_free_GF U start s' _ (conj I' Hl') Hg1) as G.
    clear IH Hg2 Hwf H2. induction Hhs as [|h hs Hh Hhs IHh]; cbn [map]; constructor; auto.
    unfold view_ok. destruct (create_view_at h (s_db s')) as [rb|] eqn:Ev; auto.
    destruct (view_granted U start (s_db s') _ h rb I' G Hh Ev) as [_ [sn [Es _]]].
    exists sn. split; auto. unfold lookups. apply map_ext_in. intros [c k] Hx. cbn [fst snd].
    destruct (view_correct U start (s_db s') _ h rb c k I' G PF (Hinc _ Hx) Hh Ev) as [sn' [Es' Ev']].
    rewrite Es in Es'. injection Es' as <-. auto.
  - apply IH; auto.
    + split; auto.
    + pose proof (ghost_step_length start ch o tag). unfold u64 in *. cbn [length] in Hb. lia.
Qed.

Lemma filter_len_le : forall {A} (f : A -> bool) l, (length (filter f l) <= length l)%nat.
Proof. induction l; cbn; auto. destruct (f a); cbn; lia. Qed.
Lemma seqN_bound : forall n lo x, In x (seqN lo n) -> lo <= x < lo + N.of_nat n.
Proof. induction n; cbn; intros lo x H. destruct H. destruct H as [<-|H]. lia. apply IHn in H. lia. Qed.

(* the trace the model computes (the one compared with the implementation's on every case) passes
   the checker whenever the history is outside the two classes *)
Theorem model_passes_c12 : forall U start p ops,
  ops_wf U ops -> prefix_free U = true -> incl (universe ops) U ->
  u64 (start + N.of_nat (length ops) + 2) ->
  run_gap_free start (hinit p) ops = true ->
  c12_okb start ops (hmodel start p ops) = true.
Proof.
  intros U start p ops Hwf PF Hinc Hb Hg. unfold c12_okb, hmodel.
  apply (hrun_passes U); auto.
  - apply RInv_init. unfold u64 in *. lia.
  - unfold u64 in *. cbn [length]. lia.
  - apply Forall_forall. intros h Hh. unfold view_heights in Hh. apply seqN_bound in Hh.
    assert (n_commits ops <= N.of_nat (length ops)).
    { unfold n_commits. pose proof (filter_len_le (fun o => match o with HCommit _ => true | _ => false end) ops). lia. }
    unfold u64 in *. lia.
Qed.
