(* C12: historical views and rollbacks of HistoricalRocksDB. *)
From FC Require Import Backend.Model Backend.ProofsOrd Backend.ProofsIter Backend.ProofsCommit.
From Coq Require Import Sorting.Sorted ZifyBool ZifyN ZifyNat Lia.
Open Scope N_scope.

(* ------------------------------------------------------------------ big-endian heights *)
Lemma be_length : forall n h, length (be n h) = n.
Proof. induction n; intros; cbn [be]; auto. rewrite app_length, IHn. cbn. lia. Qed.

Lemma kcmp_snoc : forall x y p q, length x = length y ->
  kcmp (x ++ [p]) (y ++ [q]) = match kcmp x y with Eq => p ?= q | c => c end.
Proof.
  induction x as [|a x IH]; destruct y as [|b y]; cbn [length app kcmp]; intros p q H; try discriminate.
  - destruct (p ?= q); auto.
  - injection H as H. destruct (a ?= b); auto.
Qed.

Lemma be_cmp : forall n a b, a < 256 ^ N.of_nat n -> b < 256 ^ N.of_nat n -> kcmp (be n a) (be n b) = (a ?= b).
Proof.
  induction n; intros a b Ha Hb.
  - cbn in *. assert (a = 0) by lia. assert (b = 0) by lia. subst. auto.
  - cbn [be]. rewrite kcmp_snoc by (rewrite !be_length; auto).
    assert (256 ^ N.of_nat (S n) = 256 * 256 ^ N.of_nat n) as E.
    { rewrite Nat2N.inj_succ, N.pow_succ_r'. auto. }
    rewrite E in *.
    pose proof (N.div_mod a 256 ltac:(lia)). pose proof (N.div_mod b 256 ltac:(lia)).
    pose proof (N.mod_lt a 256 ltac:(lia)). pose proof (N.mod_lt b 256 ltac:(lia)).
    assert (a / 256 < 256 ^ N.of_nat n) by (apply N.div_lt_upper_bound; lia).
    assert (b / 256 < 256 ^ N.of_nat n) by (apply N.div_lt_upper_bound; lia).
    rewrite IHn by auto.
    destruct (N.compare_spec (a / 256) (b / 256)); destruct (N.compare_spec a b);
      destruct (N.compare_spec (a mod 256) (b mod 256)); auto; lia.
Qed.

Definition u64 (h : N) : Prop := h < 18446744073709551616.
Lemma be64_cmp : forall a b, u64 a -> u64 b -> kcmp (be64 a) (be64 b) = (a ?= b).
Proof. intros. unfold be64. apply be_cmp; cbn; auto. Qed.
Lemma be64_inj : forall a b, u64 a -> u64 b -> be64 a = be64 b -> a = b.
Proof. intros a b Ha Hb E. pose proof (be64_cmp a b Ha Hb) as C. rewrite E, kcmp_refl in C. symmetry in C. apply N.compare_eq in C. auto. Qed.
Lemma be64_length : forall h, length (be64 h) = 8%nat.
Proof. intros. apply be_length. Qed.

Lemma kcmp_app_same : forall k x y, kcmp (k ++ x) (k ++ y) = kcmp x y.
Proof. induction k; cbn [app kcmp]; intros; auto. rewrite N.compare_refl. auto. Qed.

Lemma height_key_cmp : forall k a b, u64 a -> u64 b -> kcmp (height_key k a) (height_key k b) = (a ?= b).
Proof. intros. unfold height_key. rewrite kcmp_app_same. apply be64_cmp; auto. Qed.
Lemma height_key_inj : forall k1 h1 k2 h2, u64 h1 -> u64 h2 ->
  height_key k1 h1 = height_key k2 h2 -> k1 = k2 /\ h1 = h2.
Proof.
  intros k1 h1 k2 h2 H1 H2 E. unfold height_key in E.
  assert (length k1 = length k2) as L.
  { apply (f_equal (@length N)) in E. rewrite !app_length, !be64_length in E. lia. }
  assert (k1 = k2).
  { apply (f_equal (firstn (length k1))) in E. rewrite firstn_app, Nat.sub_diag, firstn_all in E.
    rewrite L, firstn_app, Nat.sub_diag, firstn_all in E. cbn in E. rewrite !app_nil_r in E. auto. }
  subst. apply app_inv_head in E. split; auto. apply be64_inj; auto.
Qed.
Lemma height_key_sw : forall k h, starts_with (height_key k h) k = true.
Proof. intros. apply sw_app. exists (be64 h). auto. Qed.

(* ------------------------------------------------------------------ seek = first entry at or above *)
Section Seek.
Context {V : Type}.
Notation smap := (@smap V).

Lemma nth_error_hd_skipn : forall (m : smap) i, nth_error m i = hd_error (skipn i m).
Proof. induction m; destruct i; cbn; auto. Qed.
Lemma seek_item : forall (m : smap) k, c_item m (c_seek m k) = hd_error (range_from k m).
Proof.
  intros. unfold c_seek, range_from. rewrite <- skipn_takewhile.
  destruct (Nat.ltb _ _) eqn:L; cbn [c_item].
  - apply nth_error_hd_skipn.
  - apply Nat.ltb_ge in L. rewrite skipn_all2 by lia. auto.
Qed.

Lemma seek_some : forall (m : smap) sk fk o, ssorted m -> c_item m (c_seek m sk) = Some (fk, o) ->
  In (fk, o) m /\ kleb sk fk = true /\
  forall x, In x m -> kleb sk (fst x) = true -> kleb fk (fst x) = true.
Proof.
  intros m sk fk o Hs H. rewrite seek_item, range_from_filter in H by auto.
  induction m as [|[k v] m]; cbn [filter fst] in H; try discriminate.
  pose proof (ssorted_head _ _ Hs) as Hh. pose proof (ssorted_tail _ _ Hs) as Ht.
  destruct (kleb sk k) eqn:E.
  - cbn in H. injection H as -> ->. split; [cbn; auto|]. split; auto.
    intros x [<-|Hx] _. apply kleb_refl. apply kltb_kleb. apply Hh. auto.
  - destruct (IHm Ht H) as [I1 [I2 I3]]. split; [cbn; auto|]. split; auto.
    intros x [<-|Hx] G; auto. cbn in G. congruence.
Qed.
Lemma seek_none : forall (m : smap) sk, ssorted m -> c_item m (c_seek m sk) = None ->
  forall x, In x m -> kleb sk (fst x) = false.
Proof.
  intros m sk Hs H. rewrite seek_item, range_from_filter in H by auto.
  induction m as [|[k v] m]; intros x Hx; [destruct Hx|].
  cbn [filter fst] in H. destruct (kleb sk k) eqn:E; [cbn in H; discriminate|].
  destruct Hx as [<-|Hx]; auto. apply IHm; auto. eapply ssorted_tail; eauto.
Qed.
End Seek.

(* ------------------------------------------------------------------ reading change sets *)
Definition wfM (M : cstate wop) : Prop := csorted M /\ cnodup M.

Lemma lookup_apply_wf : forall (M : cstate wop) st c k, wfM M -> csorted st ->
  lookup (apply_changes M st) c k = match lookup M c k with Some o => opval o | None => lookup st c k end.
Proof.
  intros M st c k [Ms Mn] Hs.
  assert (lookup (apply_changes M st) c k = lookup (write_batch (flat M) st) c k) as ->.
  { unfold lookup. rewrite (apply_changes_batch M st c). auto. }
  rewrite lookup_write_batch by auto.
  rewrite (fold_fapply_W (flat M) (lookup st) (fun _ _ => None) (lookup st)) by auto.
  rewrite fold_flat_wf by auto. destruct (lookup M c k); auto.
Qed.

(* reverse_history_changes *)
Definition rev_entry (old : option value) (became : wop) : option wop :=
  match old, became with
  | None, WRemove => None
  | None, WInsert _ => Some WRemove
  | Some o, WRemove => Some (WInsert o)
  | Some o, WInsert n => if bytes_eqb o n then None else Some (WInsert o)
  end.

Lemma reverse_entries_In : forall es m x, In x (reverse_entries es m) -> exists o, In (fst x, o) es.
Proof.
  induction es as [|[k b] es]; cbn [reverse_entries]; intros m x H. destruct H.
  destruct (mget k m), b; try destruct (bytes_eqb _ _); cbn [In] in H;
    try (destruct H as [<-|H]; [cbn; eauto|]); apply IHes in H as [o Ho]; exists o; cbn; auto.
Qed.
Lemma reverse_entries_sorted : forall es m, ssorted es -> ssorted (reverse_entries es m).
Proof.
  induction es as [|[k b] es]; intros m Hs; cbn [reverse_entries]. constructor.
  pose proof (ssorted_head _ _ Hs) as Hh. pose proof (ssorted_tail _ _ Hs) as Ht.
  assert (forall o, ssorted ((k, o) :: reverse_entries es m)) as C.
  { intros o. constructor; auto. apply IHes; auto. apply Forall_forall. intros x Hx.
    apply reverse_entries_In in Hx as [o' Ho]. apply Hh in Ho. auto. }
  destruct (mget k m), b; try destruct (bytes_eqb _ _); auto.
Qed.
Lemma mget_reverse_entries : forall es m k, ssorted es ->
  mget k (reverse_entries es m) = match mget k es with Some b => rev_entry (mget k m) b | None => None end.
Proof.
  induction es as [|[k0 b] es]; intros m k Hs; cbn [reverse_entries mget]; auto.
  pose proof (ssorted_head _ _ Hs) as Hh. pose proof (ssorted_tail _ _ Hs) as Ht.
  pose proof (reverse_entries_sorted es m Ht) as Hr.
  assert (forall x, In x (reverse_entries es m) -> kltb k0 (fst x) = true) as Hh'.
  { intros x Hx. apply reverse_entries_In in Hx as [o Ho]. apply Hh in Ho. auto. }
  destruct (kcmp k k0) eqn:E.
  - apply kcmp_eq in E. subst k0.
    assert (mget k (reverse_entries es m) = None) as N.
    { destruct (mget k (reverse_entries es m)) eqn:G; auto.
      apply mget_In in G; auto. apply Hh' in G. cbn in G. rewrite kltb_irrefl in G. discriminate. }
    destruct (mget k m), b; cbn [rev_entry]; try destruct (bytes_eqb _ _); cbn [mget]; rewrite ?kcmp_refl; auto.
  - assert (mget k (reverse_entries es m) = None) as N.
    { destruct (mget k (reverse_entries es m)) eqn:G; auto.
      apply mget_In in G; auto. apply Hh' in G. cbn in G. apply kltb_lt in G.
      pose proof (kcmp_lt_trans _ _ _ E G) as HH. rewrite kcmp_refl in HH. discriminate. }
    destruct (mget k0 m), b; try destruct (bytes_eqb _ _); cbn [mget]; rewrite ?E; auto.
  - rewrite <- IHes by auto.
    destruct (mget k0 m), b; try destruct (bytes_eqb _ _); cbn [mget]; rewrite ?E; auto.
Qed.

Lemma reverse_changes_cols : forall main M, map fst (reverse_history_changes main M) = map fst M.
Proof. intros. unfold reverse_history_changes. rewrite map_map. auto. Qed.
Lemma cget_reverse : forall main (M : cstate wop) c,
  cget c (reverse_history_changes main M) = match existsb (fun ce => fst ce =? c) M with
                                            | true => reverse_entries (cget c M) (cget c main)
                                            | false => [] end.
Proof.
  induction M as [|[c0 es] M]; intros c; cbn [reverse_history_changes map cget existsb fst snd]; auto.
  destruct (c0 =? c) eqn:E; cbn [orb].
  - apply N.eqb_eq in E. subst. auto.
  - apply IHM.
Qed.
Lemma cget_nil_notin : forall (M : cstate wop) c, existsb (fun ce => fst ce =? c) M = false -> cget c M = [].
Proof.
  induction M as [|[c0 es] M]; intros c H; cbn [cget existsb fst] in *; auto.
  destruct (c0 =? c); cbn in H; try discriminate. auto.
Qed.
Lemma reverse_wf : forall main M, wfM M -> wfM (reverse_history_changes main M).
Proof.
  intros main M [Ms Mn]. split.
  - intros c. rewrite cget_reverse. destruct (existsb _ M). apply reverse_entries_sorted; auto. constructor.
  - unfold cnodup. rewrite reverse_changes_cols. auto.
Qed.
Lemma lookup_reverse : forall main M c k, wfM M ->
  lookup (reverse_history_changes main M) c k =
  match lookup M c k with Some b => rev_entry (lookup main c k) b | None => None end.
Proof.
  intros main M c k [Ms Mn]. unfold lookup. rewrite cget_reverse.
  destruct (existsb _ M) eqn:E.
  - apply mget_reverse_entries. auto.
  - rewrite (cget_nil_notin _ _ E). auto.
Qed.

(* ------------------------------------------------------------------ rollback undoes a commit *)
Lemma rev_entry_undo : forall old b,
  match rev_entry old b with Some o => opval o | None => opval b end = old.
Proof.
  intros [o|] [|n]; cbn; auto. destruct (bytes_eqb o n) eqn:E; cbn; auto.
  apply bytes_eqb_eq in E. subst. auto.
Qed.

Lemma merged_wf : forall l, wfM (merge_list l []).
Proof. intros. unfold wfM. apply merge_list_inv. apply csorted_nil. constructor. Qed.

Lemma mget_be64_minsert_remove : forall (hist : @smap changes) h rc, ssorted hist ->
  mget (be64 h) (minsert (be64 h) rc hist) = Some rc.
Proof. intros. rewrite mget_minsert. assert (keqb (be64 h) (be64 h) = true) as -> by (apply keqb_eq; auto). auto. Qed.

(* committing block h with history on and then rolling back to h restores every column exactly *)
Theorem rollback_undoes_commit : forall p h sc d, p <> 0 -> csorted (h_main d) -> ssorted (h_hist d) ->
  let d' := fst (hist_commit p (Some h) sc d) in
  snd (hist_rollback h d') = true /\ ceq (h_main (fst (hist_rollback h d'))) (h_main d).
Proof.
  intros p h sc d Hp Hs Hh. cbn zeta. unfold hist_commit.
  destruct (p =? 0) eqn:E; [apply N.eqb_eq in E; congruence|]. cbn [fst].
  unfold hist_commit_history, hist_rollback. cbn [h_hist h_main h_dup].
  assert (ssorted (h_hist (cleanup_old p h d))) as Hh1.
  { unfold cleanup_old. destruct (p <=? 1); auto. destruct (mget _ _); auto. cbn. apply mremove_sorted. auto. }
  rewrite mget_be64_minsert_remove by auto. cbn [fst snd h_main]. split; auto.
  rewrite cleanup_main, all_changes_sets.
  set (M := merge_list (sc_sets sc) []).
  pose proof (merged_wf (sc_sets sc)) as WM. fold M in WM.
  pose proof (reverse_wf (h_main d) M WM) as WR.
  assert (csorted (apply_changes M (h_main d))) as Hs1 by (apply apply_changes_sorted; auto).
  intros c. apply sorted_ext.
  - apply apply_changes_sorted. auto.
  - apply Hs.
  - intros k. change (lookup (apply_changes (reverse_history_changes (h_main d) M) (apply_changes M (h_main d))) c k = lookup (h_main d) c k).
    rewrite lookup_apply_wf by auto. rewrite lookup_reverse by auto. rewrite lookup_apply_wf by auto.
    destruct (lookup M c k) as [b|] eqn:L; auto.
    apply rev_entry_undo.
Qed.
