From FC Require Import Backend.Model.
Require Extraction.
Require Import ExtrOcamlBasic.
Extraction "backend_model.ml" main_T.
