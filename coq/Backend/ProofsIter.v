(* C11, iteration: the BTreeMap iterator and the RocksDB iterator return exactly iter_spec. *)
From FC Require Import Backend.Model Backend.ProofsOrd.
From Coq Require Import Sorting.Sorted ZifyBool ZifyN ZifyNat Lia.
Open Scope N_scope.

Definition is_bytes (k : key) : Prop := Forall (fun b => b <= 255) k.
Definition opt_bytes (o : option key) : Prop := match o with Some p => is_bytes p | None => True end.

(* ------------------------------------------------------------------ next_prefix *)
(* no successor: the prefix is all 0xFF; every byte string at or above it has it as a prefix *)
Lemma next_prefix_none : forall p, is_bytes p -> next_prefix p = None ->
  forall k, is_bytes k -> kleb p k = true -> starts_with k p = true.
Proof.
  induction p as [|b p IH]; intros Hp Hn k Hk Hle.
  - apply sw_nil.
  - cbn [next_prefix] in Hn. inversion Hp; subst.
    destruct (next_prefix p) eqn:E; try discriminate.
    destruct (b <? 255) eqn:Eb; try discriminate.
    assert (b = 255) by lia. subst b.
    destruct k as [|x k]; [unfold kleb in Hle; cbn in Hle; discriminate|].
    inversion Hk; subst. unfold kleb in Hle. cbn [kcmp] in Hle.
    destruct (255 ?= x) eqn:Ex.
    + apply N.compare_eq in Ex. subst x. cbn. apply IH; auto.
    + rewrite N.compare_lt_iff in Ex. lia.
    + discriminate.
Qed.

(* the successor bounds the prefix section from above, strictly ... *)
Lemma next_prefix_upper : forall p q, next_prefix p = Some q ->
  forall k, starts_with k p = true -> kltb k q = true.
Proof.
  induction p as [|b p IH]; intros q Hn k Hk; cbn [next_prefix] in Hn; try discriminate.
  destruct k as [|x k]; cbn in Hk; try discriminate.
  apply andb_true_iff in Hk as [Ex Hk]. apply N.eqb_eq in Ex. subst x.
  destruct (next_prefix p) eqn:E.
  - injection Hn as <-. specialize (IH _ eq_refl _ Hk). unfold kltb in *. cbn [kcmp].
    rewrite N.compare_refl. auto.
  - destruct (b <? 255) eqn:Eb; try discriminate. injection Hn as <-.
    unfold kltb. cbn [kcmp]. assert (b ?= b + 1 = Lt) as -> by (rewrite N.compare_lt_iff; lia). auto.
Qed.
(* ... and everything between the prefix and its successor is in the section *)
Lemma next_prefix_between : forall p q, is_bytes p -> next_prefix p = Some q ->
  forall k, is_bytes k -> kleb p k = true -> kltb k q = true -> starts_with k p = true.
Proof.
  induction p as [|b p IH]; intros q Hp Hn k Hk Hle Hlt; cbn [next_prefix] in Hn; try discriminate.
  inversion Hp; subst.
  destruct k as [|x k]; [unfold kleb in Hle; cbn in Hle; discriminate|].
  inversion Hk; subst.
  unfold kleb in Hle. cbn [kcmp] in Hle.
  destruct (next_prefix p) eqn:E.
  - injection Hn as <-. unfold kltb in Hlt. cbn [kcmp] in Hlt.
    destruct (b ?= x) eqn:Ex; try discriminate.
    + apply N.compare_eq in Ex. subst x. rewrite N.compare_refl in Hlt. cbn. rewrite N.eqb_refl. cbn.
      eapply IH; eauto; unfold kleb; auto.
    + rewrite (N.compare_antisym b x), Ex in Hlt. cbn in Hlt. discriminate.
  - destruct (b <? 255) eqn:Eb; try discriminate. injection Hn as <-.
    unfold kltb in Hlt. cbn [kcmp] in Hlt.
    destruct (b ?= x) eqn:Ex; try discriminate.
    + apply N.compare_eq in Ex. subst x. cbn. rewrite N.eqb_refl. cbn.
      apply next_prefix_none; auto; unfold kleb; auto.
    + rewrite N.compare_lt_iff in Ex.
      destruct (x ?= b + 1) eqn:Ex2; try discriminate.
      * apply N.compare_eq in Ex2. subst x. destruct k; discriminate.
      * rewrite N.compare_lt_iff in Ex2. lia.
Qed.

(* what the original did wrong: the successor of [01,FF] was [02,FF] *)
Example next_prefix_orig_keeps_tail :
  next_prefix_orig [1; 255] = Some [2; 255] /\ next_prefix [1; 255] = Some [2].
Proof. vm_compute. auto. Qed.

(* ------------------------------------------------------------------ the cursor *)
Section Cursor.
Context {V : Type}.
Notation smap := (@smap V).

Lemma nth_error_skipn_cons : forall (m : smap) i x, nth_error m i = Some x -> skipn i m = x :: skipn (S i) m.
Proof.
  induction m; destruct i; cbn; intros; try discriminate.
  - injection H as ->. auto.
  - apply IHm in H. auto.
Qed.
Lemma key_iter_fwd : forall (m : smap) fuel i,
  (length m - i < fuel)%nat -> (i < length m)%nat -> key_iter m fuel (Some i) Fwd = skipn i m.
Proof.
  induction fuel; intros i Hf Hi. lia.
  cbn [key_iter c_item]. destruct (nth_error m i) eqn:E.
  - rewrite (nth_error_skipn_cons _ _ _ E). f_equal. cbn [c_next].
    destruct (Nat.ltb (S i) (length m)) eqn:L.
    + apply Nat.ltb_lt in L. apply IHfuel; lia.
    + apply Nat.ltb_ge in L. rewrite skipn_all2 by lia. destruct fuel; auto.
  - apply nth_error_None in E. lia.
Qed.
Lemma firstn_S_nth : forall (m : smap) i x, nth_error m i = Some x -> firstn (S i) m = firstn i m ++ [x].
Proof.
  induction m; destruct i; cbn; intros; try discriminate.
  - injection H as ->. auto.
  - f_equal. apply IHm. auto.
Qed.
Lemma key_iter_rev : forall (m : smap) i fuel,
  (i < fuel)%nat -> (i < length m)%nat -> key_iter m fuel (Some i) Rev = rev (firstn (S i) m).
Proof.
  induction i; intros fuel Hf Hi; (destruct fuel; [lia|]); cbn [key_iter c_item].
  - destruct m; cbn in *; [lia|]. destruct fuel; auto.
  - destruct (nth_error m (S i)) eqn:E.
    + rewrite (firstn_S_nth _ _ _ E), rev_app_distr. cbn [rev app c_prev]. f_equal.
      apply IHi; lia.
    + apply nth_error_None in E. lia.
Qed.

Lemma iterator_start : forall m : smap, iterator m MStart = m.
Proof.
  intros. unfold iterator, set_mode, c_first. destruct m; auto.
  rewrite key_iter_fwd; cbn; auto; lia.
Qed.
Lemma iterator_end : forall m : smap, iterator m MEnd = rev m.
Proof.
  intros. unfold iterator, set_mode, c_last. destruct (length m) eqn:E.
  - destruct m; auto. discriminate.
  - rewrite key_iter_rev by lia. rewrite <- E, firstn_all. auto.
Qed.
Lemma iterator_from_fwd : forall (m : smap) k, iterator m (MFrom k Fwd) = range_from k m.
Proof.
  intros. unfold iterator, set_mode, c_seek, range_from.
  destruct (Nat.ltb _ _) eqn:L.
  - apply Nat.ltb_lt in L. rewrite key_iter_fwd by lia. apply skipn_takewhile.
  - apply Nat.ltb_ge in L. rewrite <- skipn_takewhile. rewrite skipn_all2 by lia. auto.
Qed.
Lemma iterator_from_rev : forall (m : smap) k, iterator m (MFrom k Rev) = rev (range_to k m).
Proof.
  intros. unfold iterator, set_mode, c_seek_for_prev, range_to.
  pose proof (takewhile_length_le (fun kv : key * V => kleb (fst kv) k) m) as Hl.
  destruct (length (takewhile _ m)) eqn:E.
  - destruct (takewhile _ m); auto. discriminate.
  - rewrite key_iter_rev by lia. rewrite <- E, firstn_takewhile. auto.
Qed.

(* ------------------------------------------------------------------ ranges of a sorted map *)
Lemma sorted_lt_In : forall (m : smap), ssorted m ->
  StronglySorted (fun a b : key * V => kltb (fst a) (fst b) = true) m.
Proof. auto. Qed.

Lemma range_from_filter : forall (m : smap) s, ssorted m ->
  range_from s m = filter (fun kv => kleb s (fst kv)) m.
Proof.
  intros m s Hs. unfold range_from. rewrite dropwhile_filter.
  - apply filter_ext_In. intros. rewrite kleb_ltb. auto.
  - eapply dc_sorted; eauto. unfold klt_kv. intros x y _ _ R Hx.
    cbn beta in *. destruct (kltb (fst y) s) eqn:F; auto.
    rewrite (kltb_trans _ _ _ R F) in Hx. discriminate.
Qed.
Lemma range_to_filter : forall (m : smap) s, ssorted m ->
  range_to s m = filter (fun kv => kleb (fst kv) s) m.
Proof.
  intros m s Hs. unfold range_to. apply takewhile_filter.
  eapply dc_sorted; eauto. unfold klt_kv. intros x y _ _ R Hx.
  cbn beta in *. destruct (kleb (fst y) s) eqn:F; auto.
  rewrite (kleb_trans _ _ _ (kltb_kleb _ _ R) F) in Hx. discriminate.
Qed.

Lemma In_filter_rev : forall (f : key * V -> bool) (m : smap) x, In x (rev (filter f m)) -> In x m /\ f x = true.
Proof. intros. apply in_rev in H. apply filter_In in H. auto. Qed.

(* take_while(starts_with p) over an ascending run that starts at or above p *)
Lemma takewhile_sw_asc : forall (m : smap) p (g : key * V -> bool), ssorted m ->
  (forall x, In x m -> g x = true -> kleb p (fst x) = true) ->
  takewhile (sw p) (filter g m) = filter (fun kv => g kv && sw p kv) m.
Proof.
  intros m p g Hs Hg. rewrite takewhile_filter, filter_filter; auto.
  eapply dc_sorted. apply ss_filter. apply Hs.
  unfold klt_kv, sw. intros x y Hx Hy R Fx.
  apply filter_In in Hx as [Hx Gx]. apply filter_In in Hy as [Hy Gy].
  destruct (starts_with (fst y) p) eqn:Fy; auto.
  rewrite <- Fx. symmetry. eapply (sw_convex p p (fst x) (fst y)); auto using sw_refl, kltb_kleb.
Qed.
(* take_while(starts_with p) over a descending run that ends at or below a key inside p, or
   more generally one on which "not in p" propagates downwards *)
Lemma takewhile_sw_desc : forall (m : smap) p (g : key * V -> bool), ssorted m ->
  (forall x y, In x m -> In y m -> g x = true -> g y = true -> kltb (fst y) (fst x) = true ->
     starts_with (fst x) p = false -> starts_with (fst y) p = false) ->
  takewhile (sw p) (rev (filter g m)) = rev (filter (fun kv => g kv && sw p kv) m).
Proof.
  intros m p g Hs Hg. rewrite takewhile_filter, filter_rev', filter_filter; auto.
  eapply dc_sorted. apply ss_rev. apply ss_filter. apply Hs.
  unfold klt_kv, sw. cbn beta. intros x y Hx Hy R Fx.
  apply In_filter_rev in Hx as [Hx Gx]. apply In_filter_rev in Hy as [Hy Gy].
  apply (Hg x y); auto.
Qed.

(* ------------------------------------------------------------------ the BTreeMap iterator *)
Lemma btree_prefix_fwd : forall (m : smap) p, ssorted m ->
  takewhile (sw p) (range_from p m) = filter (sw p) m.
Proof.
  intros. rewrite range_from_filter by auto. rewrite takewhile_sw_asc; auto.
  apply filter_ext_In. intros x _. unfold sw. destruct (starts_with (fst x) p) eqn:E.
  - rewrite (sw_ge _ _ E). auto.
  - apply andb_false_r.
Qed.

Theorem btree_iter_eq_spec_all : forall (m : smap) prefix start d, ssorted m ->
  btree_iter m prefix start d = iter_spec m prefix start d.
Proof.
  intros m prefix start d Hs. unfold btree_iter, iter_spec, within.
  destruct prefix as [p|], start as [s|].
  - (* prefix and start *)
    destruct (starts_with s p) eqn:W; cbn [negb]; auto.
    destruct d.
    + rewrite range_from_filter by auto. rewrite takewhile_sw_asc; auto.
      * apply filter_ext_In. intros x _. unfold sel, sw. apply andb_comm.
      * intros x _ G. eapply kleb_trans; eauto. apply sw_ge. auto.
    + rewrite range_to_filter by auto. rewrite takewhile_sw_desc; auto.
      * f_equal. apply filter_ext_In. intros x _. unfold sel, sw. apply andb_comm.
      * intros x y _ _ Gx Gy L Fx. destruct (starts_with (fst y) p) eqn:Fy; auto.
        rewrite <- Fx. symmetry. eapply (sw_convex p (fst y) (fst x) s); auto using kltb_kleb.
  - (* prefix only *)
    rewrite btree_prefix_fwd by auto.
    assert (filter (sw p) m = filter (fun kv => sel (Some p) None d (fst kv)) m) as ->.
    { apply filter_ext_In. intros. unfold sel, sw. rewrite andb_true_r. auto. }
    assert (forall d', filter (fun kv : key * V => sel (Some p) None d (fst kv)) m =
                       filter (fun kv => sel (Some p) None d' (fst kv)) m) as E by (intros; auto).
    destruct d; auto.
  - (* start only *)
    destruct d.
    + rewrite range_from_filter by auto. apply filter_ext_In. intros. unfold sel. auto.
    + rewrite range_to_filter by auto. f_equal.
  - (* neither *)
    assert (filter (fun kv : key * V => sel None None d (fst kv)) m = m) as ->.
    { clear Hs. induction m; cbn; auto. f_equal. auto. }
    destruct d; auto.
Qed.

(* ------------------------------------------------------------------ the RocksDB iterator *)
Lemma all_bytes_In : forall (m : smap), Forall (fun kv => is_bytes (fst kv)) m ->
  forall x, In x m -> is_bytes (fst x).
Proof. intros m H. rewrite Forall_forall in H. auto. Qed.

Lemma reverse_prefix_iter_spec : forall (m : smap) p, ssorted m ->
  Forall (fun kv => is_bytes (fst kv)) m -> is_bytes p ->
  reverse_prefix_iter m p = rev (filter (sw p) m).
Proof.
  intros m p Hs Hb Hp. unfold reverse_prefix_iter.
  pose proof (all_bytes_In _ Hb) as HB.
  destruct (next_prefix p) as [q|] eqn:E.
  - rewrite iterator_from_rev, range_to_filter by auto.
    (* the key equal to the successor is skipped *)
    assert (dropwhile (sw q) (rev (filter (fun kv : key * V => kleb (fst kv) q) m)) =
            rev (filter (fun kv => kltb (fst kv) q) m)) as ->.
    { rewrite dropwhile_filter, filter_rev', filter_filter.
      - f_equal. apply filter_ext_In. intros x _. unfold sw.
        destruct (kleb (fst x) q) eqn:L; cbn.
        + destruct (starts_with (fst x) q) eqn:F; cbn.
          * apply sw_ge in F. rewrite (kleb_antisym _ _ L F). rewrite kltb_irrefl. auto.
          * destruct (kleb_cases _ _ L) as [EQ|]; auto. rewrite EQ, sw_refl in F. discriminate.
        + rewrite kleb_ltb in L. apply negb_false_iff in L.
          destruct (kltb (fst x) q) eqn:L2; auto.
          pose proof (kltb_trans _ _ _ L L2) as C. rewrite kltb_irrefl in C. discriminate.
      - eapply dc_sorted. apply ss_rev. apply ss_filter. apply Hs.
        unfold klt_kv, sw. cbn beta. intros x y Hx Hy R Fx.
        apply In_filter_rev in Hx as [Hx Gx]. apply In_filter_rev in Hy as [Hy Gy].
        destruct (starts_with (fst y) q) eqn:Fy; auto. apply sw_ge in Fy.
        rewrite (kleb_antisym _ _ Gy Fy) in R.
        pose proof (kle_lt_trans _ _ _ Gx R) as C. rewrite kltb_irrefl in C. discriminate. }
    rewrite takewhile_sw_desc; auto.
    + f_equal. apply filter_ext_In. intros x _. unfold sw.
      destruct (starts_with (fst x) p) eqn:F.
      * rewrite (next_prefix_upper _ _ E _ F). auto.
      * apply andb_false_r.
    + intros x y Hx Hy Gx Gy L Fx. destruct (starts_with (fst y) p) eqn:Fy; auto.
      rewrite <- Fx. symmetry. apply (next_prefix_between p q); auto.
      eapply kleb_trans. apply sw_ge. eauto. apply kltb_kleb. auto.
  - rewrite iterator_end.
    assert (rev m = rev (filter (fun _ => true) m)) as ->.
    { f_equal. clear. induction m; cbn; auto. f_equal. auto. }
    rewrite takewhile_sw_desc; auto.
    intros x y Hx Hy _ _ L Fx. destruct (starts_with (fst y) p) eqn:Fy; auto.
    rewrite <- Fx. symmetry. apply next_prefix_none; auto.
    eapply kleb_trans. apply sw_ge. eauto. apply kltb_kleb. auto.
Qed.

Theorem rocks_iter_eq_btree : forall (m : smap) prefix start d, ssorted m ->
  Forall (fun kv => is_bytes (fst kv)) m -> opt_bytes prefix ->
  rocks_iter m prefix start d = btree_iter m prefix start d.
Proof.
  intros m prefix start d Hs Hb Hp. unfold rocks_iter, btree_iter.
  destruct prefix as [p|], start as [s|].
  - destruct (negb (starts_with s p)); auto.
    destruct d; rewrite ?iterator_from_fwd, ?iterator_from_rev; auto.
  - destruct d.
    + rewrite iterator_from_fwd. auto.
    + rewrite reverse_prefix_iter_spec by auto. rewrite btree_prefix_fwd by auto. auto.
  - destruct d; rewrite ?iterator_from_fwd, ?iterator_from_rev; auto.
  - destruct d; rewrite ?iterator_start, ?iterator_end; auto.
Qed.

Theorem rocks_iter_eq_spec_all : forall (m : smap) prefix start d, ssorted m ->
  Forall (fun kv => is_bytes (fst kv)) m -> opt_bytes prefix ->
  rocks_iter m prefix start d = iter_spec m prefix start d.
Proof. intros. rewrite rocks_iter_eq_btree by auto. apply btree_iter_eq_spec_all. auto. Qed.

(* iter_spec is the plain selection whenever the start key is inside the prefix *)
Lemma iter_spec_natural : forall (m : smap) prefix start d, within prefix start = true ->
  iter_spec m prefix start d =
  let l := filter (fun kv => sel prefix start d (fst kv)) m in match d with Fwd => l | Rev => rev l end.
Proof. intros. unfold iter_spec. rewrite H. auto. Qed.

End Cursor.

(* ------------------------------------------------------------------ what was wrong before *)
Definition ex_s1 : @smap value := [([1; 255; 0], [7]); ([2; 0], [8])].
Definition ex_s2 : @smap value := [([1; 0], [7]); ([2], [8])].
Definition ex_s3 : @smap value := [([1; 0], [7])].
(* S1: successor with the 0xFF tail kept; S2: a key equal to the successor; S3: start outside
   the prefix *)
Lemma original_iterators_refuted :
  (iter_spec ex_s1 (Some [1; 255]) None Rev = [([1; 255; 0], [7])] /\
   takewhile (sw [1; 255]) (iterator ex_s1 (MFrom [2; 255] Rev)) = []) /\
  (iter_spec ex_s2 (Some [1]) None Rev = [([1; 0], [7])] /\
   takewhile (sw [1]) (iterator ex_s2 (MFrom [2] Rev)) = []) /\
  (btree_iter_orig ex_s3 (Some [1]) (Some [0]) Fwd = [([1; 0], [7])] /\
   rocks_iter ex_s3 (Some [1]) (Some [0]) Fwd = []).
Proof. vm_compute. repeat split; reflexivity. Qed.

(* non-vacuity: a sorted byte-keyed map on which the reverse prefix iteration is not trivial *)
Example iter_nonvacuous :
  ssorted ex_s1 /\ Forall (fun kv => is_bytes (fst kv)) ex_s1 /\
  rocks_iter ex_s1 (Some [1; 255]) None Rev = [([1; 255; 0], [7])] /\
  btree_iter ex_s2 (Some [1]) None Rev = [([1; 0], [7])] /\
  rocks_iter ex_s2 (Some [1]) None Rev = [([1; 0], [7])].
Proof.
  split; [|split].
  - repeat constructor.
  - repeat constructor; lia.
  - vm_compute. auto.
Qed.
