From FC Require Import Exec.Model.
Require Extraction.
Require Import ExtrOcamlBasic.
Extraction "exec_model.ml" main_T.
