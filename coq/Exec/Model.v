(* Executable bookkeeping-level model of the block executor:
     crates/services/executor/src/executor.rs
       ExecutionData, process_l2_txs, execute_transaction_and_commit, execute_transaction,
       execute_mint, execute_chargeable_transaction, verify_inputs_exist_and_values_match,
       spend_input_utxos, persist_output_utxos / insert_coin, update_execution_data,
       store_mint_tx, produce_mint_tx, produce_block, validate_block, check_block_matches,
       process_da / process_relayed_txs, dry_run_block
     crates/services/upgradable-executor/src/executor.rs  (Executor::dry_run wrapper)
   The FuelVM, transaction validity checks (into_checked_basic, predicates, signatures,
   into_ready) and total_fee_paid are oracles: every attempt [Att] carries the outcome the
   real components produced for it (recorded by the harness through the `verif` hooks).
   32-byte identifiers are interned to small naturals by the harness; 0 is the all-zero
   identifier.  ExecutionData is threaded as mutated in place: functions return the data
   as it is left behind also when they fail. *)
From FC Require Export Common.T.
From FC Require Import Common.Sha256 Common.Merkle.
Open Scope N_scope.

(* ------------------------------------------------------------------ *)
(* association lists (storage tables)                                   *)

Section Map.
  Context {K V : Type}.
  Variable eqb : K -> K -> bool.
  Fixpoint lookup (k : K) (l : list (K * V)) : option V :=
    match l with
    | [] => None
    | (k', v) :: r => if eqb k' k then Some v else lookup k r
    end.
  Fixpoint remove (k : K) (l : list (K * V)) : list (K * V) :=
    match l with
    | [] => []
    | (k', v) :: r => if eqb k' k then remove k r else (k', v) :: remove k r
    end.
  Definition insert (k : K) (v : V) (l : list (K * V)) : list (K * V) :=
    (k, v) :: remove k l.
End Map.

Definition UtxoId := (N * N)%type.           (* (transaction id, output index) *)
Definition utxo_eqb (a b : UtxoId) : bool := (fst a =? fst b) && (snd a =? snd b).

Record Coin := mkCoin { c_owner : N; c_amount : N; c_asset : N; c_h : N; c_i : N }.
Definition coin_eqb (a b : Coin) : bool :=
  (c_owner a =? c_owner b) && (c_amount a =? c_amount b) && (c_asset a =? c_asset b) &&
  (c_h a =? c_h b) && (c_i a =? c_i b).

(* m_data = 0 stands for empty data (a "message coin"), otherwise the interned payload *)
Record Msg := mkMsg { m_sender : N; m_recipient : N; m_amount : N; m_data : N; m_da : N }.
Definition msg_eqb (a b : Msg) : bool :=
  (m_sender a =? m_sender b) && (m_recipient a =? m_recipient b) &&
  (m_amount a =? m_amount b) && (m_data a =? m_data b) && (m_da a =? m_da b).

(* ContractsLatestUtxo value: utxo id and tx pointer *)
Definition CUtxo := (UtxoId * (N * N))%type.

Inductive Input :=
| InCoin (k : UtxoId) (owner amount asset : N)
| InMsg (nonce sender recipient amount data : N) (retryable : bool)
| InContract (cid : N).

Inductive Output :=
| OutCoin (to amount asset : N)
| OutChange (to amount asset : N)
| OutVariable (to amount asset : N)
| OutContract (input_index roots : N)
| OutContractCreated (cid roots : N).

Definition output_eqb (a b : Output) : bool :=
  match a, b with
  | OutCoin t a s, OutCoin t' a' s' | OutChange t a s, OutChange t' a' s'
  | OutVariable t a s, OutVariable t' a' s' => (t =? t') && (a =? a') && (s =? s')
  | OutContract i r, OutContract i' r' | OutContractCreated i r, OutContractCreated i' r' =>
      (i =? i') && (r =? r')
  | _, _ => false
  end.
Fixpoint outputs_eqb (a b : list Output) : bool :=
  match a, b with
  | [], [] => true
  | x :: a', y :: b' => output_eqb x y && outputs_eqb a' b'
  | _, _ => false
  end.

(* A transaction as given to the executor / stored in a block.  [t_mall] is the interned
   digest of the malleable input fields (tx pointers, contract utxo ids and roots,
   predicate gas), which the executor recomputes. *)
Record Tx := mkTx {
  t_id : N;
  t_mint : bool;
  t_inputs : list Input;
  t_outputs : list Output;
  t_mall : N;
  t_max_gas : N;           (* chargeable: TransactionExt::max_gas *)
  t_size : N;              (* chargeable: metered_bytes_size *)
  t_mint_index : N;        (* mint: tx_pointer.tx_index *)
  t_mint_price : N;
  t_mint_amount : N;
  t_mint_cid : N;          (* mint: input contract id, 0 = zeroed *)
  t_mint_default_io : bool (* mint: input/output contract equal the all-zero defaults *)
}.

(* what the VM phase (attempt_tx_execution_with_vm) and total_fee_paid returned *)
Record VmOut := mkVmOut {
  v_reverted : bool;
  v_outputs : list Output;      (* outputs after execution *)
  v_mall : N;                   (* malleable input digest after compute_inputs *)
  v_msg_ids : list N;           (* message ids of the receipts *)
  v_changes : N;                (* interned digest of the VM's storage writes, 0 = none *)
  v_fee : option (N * N)        (* total_fee_paid = Ok (used_gas, fee) *)
}.

(* one attempt to execute a transaction, with the oracle answers for this attempt *)
Record Att := mkAtt {
  a_tx : Tx;
  a_checked : bool;             (* MaybeCheckedTransaction::CheckedTransaction *)
  a_expiration : N;
  a_basic_ok : bool;            (* into_checked_basic at this height *)
  a_pred_ok : bool;             (* check_predicates *)
  a_sig_ok : bool;              (* check_signatures *)
  a_vm : option VmOut;          (* None: into_ready / the VM returned an error *)
  a_vm_err : N;                 (* ... namely this one (InvalidTransaction or VmExecution) *)
  a_mint_vm_ok : bool           (* mint: balance_increase succeeded *)
}.

Inductive Event :=
| CoinCreated (k : UtxoId) (c : Coin)
| CoinConsumed (k : UtxoId) (c : Coin)
| MsgImported (n : N) (m : Msg)
| MsgConsumed (n : N) (m : Msg)
| ForcedFailed (id : N).

Record Status := mkStatus { s_id : N; s_failed : bool; s_has_result : bool; s_gas : N; s_fee : N }.

(* the modelled part of the on-chain storage *)
Record St := mkSt {
  coins : list (UtxoId * Coin);
  msgs : list (N * Msg);
  processed : list N;                 (* ProcessedTransactions, as a key list *)
  contracts : list (N * CUtxo);       (* ContractsLatestUtxo *)
  cstate : list N                     (* committed VM write sets, in order *)
}.

Record Data := mkData {
  coinbase : N; used_gas : N; used_size : N; tx_count : N; found_mint : bool;
  message_ids : list N; tx_status : list Status; events : list Event;
  skipped : list (N * N);              (* (tx id, error tag) *)
  inbox_root : list N
}.
Definition data_new : Data := mkData 0 0 0 0 false [] [] [] [] (repeat 0 32).

Definition set_coins st x := mkSt x (msgs st) (processed st) (contracts st) (cstate st).
Definition set_msgs st x := mkSt (coins st) x (processed st) (contracts st) (cstate st).
Definition set_processed st x := mkSt (coins st) (msgs st) x (contracts st) (cstate st).
Definition set_contracts st x := mkSt (coins st) (msgs st) (processed st) x (cstate st).
Definition set_cstate st x := mkSt (coins st) (msgs st) (processed st) (contracts st) x.

Definition add_events d ev :=
  mkData (coinbase d) (used_gas d) (used_size d) (tx_count d) (found_mint d)
         (message_ids d) (tx_status d) (events d ++ ev) (skipped d) (inbox_root d).
Definition add_skipped d id e :=
  mkData (coinbase d) (used_gas d) (used_size d) (tx_count d) (found_mint d)
         (message_ids d) (tx_status d) (events d) (skipped d ++ [(id, e)]) (inbox_root d).
Definition set_found_mint d :=
  mkData (coinbase d) (used_gas d) (used_size d) (tx_count d) true
         (message_ids d) (tx_status d) (events d) (skipped d) (inbox_root d).
Definition set_tx_count d n :=
  mkData (coinbase d) (used_gas d) (used_size d) n (found_mint d)
         (message_ids d) (tx_status d) (events d) (skipped d) (inbox_root d).
Definition set_coinbase d n :=
  mkData n (used_gas d) (used_size d) (tx_count d) (found_mint d)
         (message_ids d) (tx_status d) (events d) (skipped d) (inbox_root d).
Definition set_used_gas d n :=
  mkData (coinbase d) n (used_size d) (tx_count d) (found_mint d)
         (message_ids d) (tx_status d) (events d) (skipped d) (inbox_root d).
Definition set_used_size d n :=
  mkData (coinbase d) (used_gas d) n (tx_count d) (found_mint d)
         (message_ids d) (tx_status d) (events d) (skipped d) (inbox_root d).
Definition add_status d (ids : list N) s :=
  mkData (coinbase d) (used_gas d) (used_size d) (tx_count d) (found_mint d)
         (message_ids d ++ ids) (tx_status d ++ [s]) (events d) (skipped d) (inbox_root d).
Definition set_inbox_root d r :=
  mkData (coinbase d) (used_gas d) (used_size d) (tx_count d) (found_mint d)
         (message_ids d) (tx_status d) (events d) (skipped d) r.

(* ------------------------------------------------------------------ *)
(* error variant tags                                                   *)
Definition E_MintIsNotLast := 1.        Definition E_Collision := 2.
Definition E_InvalidTransaction := 3.   Definition E_Expired := 4.
Definition E_Predicate := 5.            Definition E_CoinMismatch := 6.
Definition E_CoinDoesNotExist := 7.     Definition E_ContractDoesNotExist := 8.
Definition E_MessageSpendTooEarly := 9. Definition E_MessageMismatch := 10.
Definition E_MessageDoesNotExistV := 11.
(* check_signatures: CheckError is mapped to TransactionValidityError::Validation as well *)
Definition E_Signature := 5.
Definition E_Vm := 13.                  Definition E_MessageDoesNotExist := 14.
Definition E_OutputAlreadyExists := 15. Definition E_TooManyOutputs := 16.
Definition E_InvalidContractInputIndex := 17. Definition E_FeeOverflow := 18.
Definition E_GasOverflow := 19.         Definition E_TxSizeOverflow := 20.
Definition E_TooManyTransactions := 21. Definition E_MintHasUnexpectedIndex := 22.
Definition E_CoinbaseGasPriceMismatch := 23. Definition E_CoinbaseAmountMismatch := 24.
Definition E_MintMismatch := 25.        Definition E_CoinbaseCannotIncreaseBalance := 26.
Definition E_MintMissing := 27.         Definition E_InvalidTransactionOutcome := 28.
Definition E_BlockMismatch := 29.       Definition E_Other := 30.
Definition E_GasPrecheck := 31.         (* GasOverflow pushed by process_l2_txs before execution *)
Definition E_ExecutingGenesisBlock := 32. Definition E_PreviousBlockIsNotFound := 33.
Definition E_DaHeightExceededItsLimit := 34. Definition E_RelayerGivesIncorrectMessages := 36.
Definition E_ContractUtxoMissing := 37.
(* TransactionValidity(CoinDoesNotExist) raised by spend_input_utxos, i.e. after the VM ran *)
Definition E_CoinDoesNotExistLate := 41.

(* errors raised after spend_input_utxos started to push events (class E1) *)
Definition late (e : N) : bool :=
  existsb (N.eqb e) [E_MessageDoesNotExist; E_OutputAlreadyExists; E_TooManyOutputs;
                     E_InvalidContractInputIndex; E_FeeOverflow; E_GasOverflow; E_TxSizeOverflow;
                     E_TooManyTransactions; E_CoinDoesNotExistLate].

(* consensus limits and execution options *)
Record Params := mkParams {
  p_gas_limit : N;          (* block_gas_limit *)
  p_size_limit : N;         (* block_transaction_size_limit (u64) *)
  p_max_tx_count : N;       (* max_tx_count() *)
  p_forbid : bool           (* forbid_fake_coins *)
}.
Record Header := mkHeader { h_height : N; h_da : N }.

(* ------------------------------------------------------------------ *)
(* verify_inputs_exist_and_values_match                                  *)
Fixpoint verify_inputs (st : St) (da : N) (ins : list Input) : option N :=
  match ins with
  | [] => None
  | InCoin k o a s :: r =>
      match lookup utxo_eqb k (coins st) with
      | Some c => if (o =? c_owner c) && (a =? c_amount c) && (s =? c_asset c)
                  then verify_inputs st da r else Some E_CoinMismatch
      | None => Some E_CoinDoesNotExist
      end
  | InContract cid :: r =>
      match lookup N.eqb cid (contracts st) with
      | Some _ => verify_inputs st da r
      | None => Some E_ContractDoesNotExist
      end
  | InMsg n sd rc am dt _ :: r =>
      match lookup N.eqb n (msgs st) with
      | Some m =>
          if da <? m_da m then Some E_MessageSpendTooEarly
          else if (m_sender m =? sd) && (m_recipient m =? rc) && (m_amount m =? am) &&
                  (m_data m =? dt)
               then verify_inputs st da r else Some E_MessageMismatch
      | None => Some E_MessageDoesNotExistV
      end
  end.

(* compute_inputs: only its failure modes are modelled (the computed fields are v_mall) *)
Fixpoint compute_inputs (forbid : bool) (st : St) (ins : list Input) : option N :=
  match ins with
  | [] => None
  | InCoin k _ _ _ :: r =>
      if forbid then
        match lookup utxo_eqb k (coins st) with
        | Some _ => compute_inputs forbid st r
        | None => Some E_CoinDoesNotExist
        end
      else compute_inputs forbid st r
  | InContract cid :: r =>
      if forbid then
        match lookup N.eqb cid (contracts st) with
        | Some _ => compute_inputs forbid st r
        | None => Some E_ContractUtxoMissing
        end
      else compute_inputs forbid st r
  | InMsg _ _ _ _ _ _ :: r => compute_inputs forbid st r
  end.

(* spend_input_utxos: returns the storage, the events pushed so far, and the error *)
Fixpoint spend (forbid reverted : bool) (ins : list Input) (st : St)
  : St * list Event * option N :=
  match ins with
  | [] => (st, [], None)
  | InCoin k o a s :: r =>
      match lookup utxo_eqb k (coins st) with
      | Some c =>
          let '(st', ev, e) := spend forbid reverted r (set_coins st (remove utxo_eqb k (coins st))) in
          (st', CoinConsumed k c :: ev, e)
      | None =>
          if forbid then (st, [], Some E_CoinDoesNotExistLate)
          else let '(st', ev, e) := spend forbid reverted r st in
               (st', CoinConsumed k (mkCoin o a s 0 0) :: ev, e)
      end
  | InMsg n _ _ _ _ retry :: r =>
      if retry && reverted then spend forbid reverted r st
      else match lookup N.eqb n (msgs st) with
           | Some m =>
               let '(st', ev, e) := spend forbid reverted r (set_msgs st (remove N.eqb n (msgs st))) in
               (st', MsgConsumed n m :: ev, e)
           | None => (st, [], Some E_MessageDoesNotExist)
           end
  | InContract _ :: r => spend forbid reverted r st
  end.

(* persist_output_utxos / insert_coin; [idx] is the output index, [txc] = data.tx_count *)
Definition coin_output (o : Output) : option (N * N * N) :=
  match o with
  | OutCoin t a s | OutChange t a s | OutVariable t a s => Some (t, a, s)
  | _ => None
  end.

Fixpoint persist (h txc id : N) (ins : list Input) (outs : list Output) (idx : N) (st : St)
  : St * list Event * option N :=
  match outs with
  | [] => (st, [], None)
  | o :: r =>
      if u16max <? idx then (st, [], Some E_TooManyOutputs) else
      let k := (id, idx) in
      match o with
      | OutCoin t a s | OutChange t a s | OutVariable t a s =>
          if 0 <? a then
            let c := mkCoin t a s h txc in
            match lookup utxo_eqb k (coins st) with
            | Some _ => (st, [], Some E_OutputAlreadyExists)
            | None =>
                let '(st', ev, e) :=
                  persist h txc id ins r (idx + 1) (set_coins st (insert utxo_eqb k c (coins st))) in
                (st', CoinCreated k c :: ev, e)
            end
          else persist h txc id ins r (idx + 1) st
      | OutContract ii _ =>
          match nth_error ins (N.to_nat ii) with
          | Some (InContract cid) =>
              persist h txc id ins r (idx + 1)
                      (set_contracts st (insert N.eqb cid (k, (h, txc)) (contracts st)))
          | _ => (st, [], Some E_InvalidContractInputIndex)
          end
      | OutContractCreated cid _ =>
          persist h txc id ins r (idx + 1)
                  (set_contracts st (insert N.eqb cid (k, (h, txc)) (contracts st)))
      end
  end.

(* update_execution_data *)
Definition update_execution_data (d : Data) (o : VmOut) (id size : N) : Data * option N :=
  match v_fee o with
  | None => (d, Some E_FeeOverflow)
  | Some (ug, fee) =>
      match checked_add u64max (coinbase d) fee with
      | None => (d, Some E_FeeOverflow)
      | Some cb =>
          let d1 := set_coinbase d cb in
          match checked_add u64max (used_gas d1) ug with
          | None => (d1, Some E_GasOverflow)
          | Some g =>
              let d2 := set_used_gas d1 g in
              match checked_add u32max (used_size d2) (N.min size u32max) with
              | None => (d2, Some E_TxSizeOverflow)
              | Some sz =>
                  let d3 := set_used_size d2 sz in
                  (add_status d3 (if v_reverted o then [] else v_msg_ids o)
                              (mkStatus id (v_reverted o) true ug fee), None)
              end
          end
      end
  end.

Definition mem (x : N) (l : list N) : bool := existsb (N.eqb x) l.

(* the transaction as it is pushed into the block after execution *)
Definition executed_tx (tx : Tx) (o : VmOut) : Tx :=
  mkTx (t_id tx) (t_mint tx) (t_inputs tx) (v_outputs o) (v_mall o) (t_max_gas tx) (t_size tx)
       (t_mint_index tx) (t_mint_price tx) (t_mint_amount tx) (t_mint_cid tx) (t_mint_default_io tx).

(* execute_chargeable_transaction on the tx-level storage transaction [st].
   Result: data as left behind, and either the new storage + executed tx or an error. *)
Definition execute_chargeable (P : Params) (hdr : Header) (a : Att) (st : St) (d : Data)
  : Data * (St * Tx + N) :=
  let tx := a_tx a in
  let pre :=
    if p_forbid P then
      if negb (a_pred_ok a) then Some E_Predicate
      else match verify_inputs st (h_da hdr) (t_inputs tx) with
           | Some e => Some e
           | None => if negb (a_sig_ok a) then Some E_Signature else None
           end
    else None in
  match pre with
  | Some e => (d, inr e)
  | None =>
      match a_vm a with
      | None => (d, inr (a_vm_err a))
      | Some o =>
          match compute_inputs (p_forbid P) st (t_inputs tx) with
          | Some e => (d, inr e)
          | None =>
              let st0 := if v_reverted o then st
                         else if v_changes o =? 0 then st
                              else set_cstate st (cstate st ++ [v_changes o]) in
              let '(st1, ev1, e1) := spend (p_forbid P) (v_reverted o) (t_inputs tx) st0 in
              let d1 := add_events d ev1 in
              match e1 with
              | Some e => (d1, inr e)
              | None =>
                  let '(st2, ev2, e2) :=
                    persist (h_height hdr) (tx_count d1) (t_id tx) (t_inputs tx) (v_outputs o) 0 st1 in
                  let d2 := add_events d1 ev2 in
                  match e2 with
                  | Some e => (d2, inr e)
                  | None =>
                      let st3 := set_processed st2 (t_id tx :: processed st2) in
                      let '(d3, e3) := update_execution_data d2 o (t_id tx) (t_size tx) in
                      match e3 with
                      | Some e => (d3, inr e)
                      | None => (d3, inl (st3, executed_tx tx o))
                      end
                  end
              end
          end
      end
  end.

(* execute_mint (+ execute_mint_with_vm + store_mint_tx) *)
Definition execute_mint (P : Params) (hdr : Header) (gas_price : N) (a : Att) (st : St) (d : Data)
  : Data * (St * Tx + N) :=
  let tx := a_tx a in
  let d := set_found_mint d in
  if negb (t_mint_index tx =? tx_count d) then (d, inr E_MintHasUnexpectedIndex) else
  if negb (t_mint_price tx =? gas_price) then (d, inr E_CoinbaseGasPriceMismatch) else
  let body : St + N :=
    if t_mint_cid tx =? 0 then
      if negb (t_mint_amount tx =? 0) then inr E_CoinbaseAmountMismatch
      else if negb (t_mint_default_io tx) then inr E_MintMismatch
      else inl st
    else
      if negb (t_mint_amount tx =? coinbase d) then inr E_CoinbaseAmountMismatch
      else if p_forbid P && negb (match lookup N.eqb (t_mint_cid tx) (contracts st) with
                                  | Some _ => true | None => false end)
           then inr E_ContractDoesNotExist
      else if negb (a_mint_vm_ok a) then inr E_CoinbaseCannotIncreaseBalance
      else inl (set_contracts st (insert N.eqb (t_mint_cid tx)
                                         ((t_id tx, 0), (h_height hdr, tx_count d)) (contracts st))) in
  match body with
  | inr e => (d, inr e)
  | inl st1 =>
      let d1 := add_status d [] (mkStatus (t_id tx) false false 0 0) in
      if mem (t_id tx) (processed st1) then (d1, inr E_Collision)
      else (d1, inl (set_processed st1 (t_id tx :: processed st1),
                     match a_vm a with
                     | Some o => executed_tx tx o
                     | None => tx
                     end))
  end.

Definition convert_tx (hdr : Header) (a : Att) : option N :=
  if a_checked a then
    if a_expiration a <? h_height hdr then Some E_Expired else None
  else if a_basic_ok a then None else Some E_InvalidTransaction.

(* execute_transaction *)
Definition execute_transaction (P : Params) (hdr : Header) (gas_price : N) (a : Att) (st : St) (d : Data)
  : Data * (St * Tx + N) :=
  if found_mint d then (d, inr E_MintIsNotLast) else
  if mem (t_id (a_tx a)) (processed st) then (d, inr E_Collision) else
  match convert_tx hdr a with
  | Some e => (d, inr e)
  | None =>
      if t_mint (a_tx a) then execute_mint P hdr gas_price a st d
      else execute_chargeable P hdr a st d
  end.

(* block-level execution state: storage, ExecutionData, transactions pushed so far *)
(* [r_inc] is a ghost: the attempts that were committed, in order (used to state C01) *)
Record Run := mkRun { r_st : St; r_d : Data; r_blk : list Tx; r_inc : list Att }.

(* execute_transaction_and_commit: (state left behind, error) *)
Definition execute_transaction_and_commit (P : Params) (hdr : Header) (gas_price : N) (a : Att) (s : Run)
  : Run * option N :=
  let txc := tx_count (r_d s) in
  match execute_transaction P hdr gas_price a (r_st s) (r_d s) with
  | (d', inr e) => (mkRun (r_st s) d' (r_blk s) (r_inc s), Some e)
  | (d', inl (st', tx')) =>
      match checked_add u16max txc 1 with
      | None => (mkRun st' d' (r_blk s ++ [tx']) (r_inc s ++ [a]), Some E_TooManyTransactions)
      | Some n => (mkRun st' (set_tx_count d' n) (r_blk s ++ [tx']) (r_inc s ++ [a]), None)
      end
  end.

(* ------------------------------------------------------------------ *)
(* process_l2_txs                                                       *)
Definition size_limit32 (P : Params) : N := if p_size_limit P <=? u32max then p_size_limit P else u32max.
Definition remaining_gas (P : Params) (d : Data) : N := p_gas_limit P - used_gas d.
Definition remaining_size (P : Params) (d : Data) : N := size_limit32 P - used_size d.
Definition remaining_count (P : Params) (d : Data) : N := p_max_tx_count P - tx_count d.

(* the inner [for] loop over one batch; [None] = max_gas failed (mint from the source) *)
Fixpoint process_batch (P : Params) (hdr : Header) (gas_price : N) (b : list Att) (s : Run)
  : Run * option N :=
  match b with
  | [] => (s, None)
  | a :: r =>
      if t_mint (a_tx a) then (s, Some E_Other) else
      if remaining_gas P (r_d s) <? t_max_gas (a_tx a) then
        process_batch P hdr gas_price r
          (mkRun (r_st s) (add_skipped (r_d s) (t_id (a_tx a)) E_GasPrecheck) (r_blk s) (r_inc s))
      else
        match execute_transaction_and_commit P hdr gas_price a s with
        | (s', None) => process_batch P hdr gas_price r s'
        | (s', Some e) =>
            process_batch P hdr gas_price r
              (mkRun (r_st s') (add_skipped (r_d s') (t_id (a_tx a)) e) (r_blk s') (r_inc s'))
        end
  end.

(* [bs] are the answers of the successive TransactionsSource::next calls; the second
   component collects the arguments of every call *)
Definition Hint := (N * N * N)%type.
Definition hint (P : Params) (d : Data) : Hint :=
  (remaining_gas P d, remaining_count P d, remaining_size P d).

Fixpoint process_l2 (P : Params) (hdr : Header) (gas_price : N) (bs : list (list Att)) (s : Run)
  : Run * list Hint * option N :=
  let hn := hint P (r_d s) in
  match bs with
  | [] => (s, [hn], None)
  | b :: r =>
      match firstn (N.to_nat (remaining_count P (r_d s))) b with
      | [] => (s, [hn], None)
      | b' =>
          match process_batch P hdr gas_price b' s with
          | (s', Some e) => (s', [hn], Some e)
          | (s', None) =>
              let '(s'', hs, e) := process_l2 P hdr gas_price r s' in
              (s'', hn :: hs, e)
          end
      end
  end.

(* ------------------------------------------------------------------ *)
(* relayer / process_da                                                 *)
Inductive REvent :=
| RMsg (hash : list N) (nonce : N) (m : Msg)
| RTx (hash : list N) (id : N) (parse_ok is_mint : bool) (claimed actual : N) (check_ok : bool) (a : Att).

Definition rhash (e : REvent) : list N :=
  match e with RMsg h _ _ => h | RTx h _ _ _ _ _ _ _ => h end.

(* validate_forced_tx: parse, variant, claimed gas, checks *)
Definition forced_ok (parse_ok is_mint : bool) (claimed actual : N) (check_ok : bool) : bool :=
  parse_ok && negb is_mint && negb (claimed <? actual) && check_ok.

(* events of one DA height; result: storage, events, forced txs, hashes, error *)
Fixpoint da_events (da : N) (evs : list REvent) (st : St)
  : St * list Event * list Att * list (list N) * option N :=
  match evs with
  | [] => (st, [], [], [], None)
  | RMsg h n m :: r =>
      if negb (m_da m =? da) then (st, [], [], [h], Some E_RelayerGivesIncorrectMessages)
      else
        let '(st', ev, fs, hs, e) := da_events da r (set_msgs st (insert N.eqb n m (msgs st))) in
        (st', MsgImported n m :: ev, fs, h :: hs, e)
  | RTx h id p mt cl ac ck a :: r =>
      let '(st', ev, fs, hs, e) := da_events da r st in
      if forced_ok p mt cl ac ck then (st', ev, a :: fs, h :: hs, e)
      else (st', ForcedFailed id :: ev, fs, h :: hs, e)
  end.

Fixpoint da_range (n : nat) (da : N) (relayer : list (N * list REvent)) (st : St)
  : St * list Event * list Att * list (list N) * option N :=
  match n with
  | O => (st, [], [], [], None)
  | S n' =>
      let evs := match lookup N.eqb da relayer with Some l => l | None => [] end in
      match da_events da evs st with
      | (st1, ev1, f1, h1, Some e) => (st1, ev1, f1, h1, Some e)
      | (st1, ev1, f1, h1, None) =>
          let '(st2, ev2, f2, h2, e) := da_range n' (da + 1) relayer st1 in
          (st2, ev1 ++ ev2, f1 ++ f2, h1 ++ h2, e)
      end
  end.

Record L1 := mkL1 {
  l_enabled : bool;
  l_prev_da : option N;                (* da height of FuelBlocks[height - 1], if present *)
  l_relayer : list (N * list REvent)
}.

(* process_da; the storage is the block-level transaction (kept on error, the whole
   execution fails then) *)
Definition process_da (hdr : Header) (l : L1) (s : Run) : Run * list Att * option N :=
  if h_height hdr =? 0 then (s, [], Some E_ExecutingGenesisBlock) else
  match l_prev_da l with
  | None => (s, [], Some E_PreviousBlockIsNotFound)
  | Some p =>
      if p =? u64max then (s, [], Some E_DaHeightExceededItsLimit) else
      let '(st', ev, fs, hs, e) :=
        da_range (N.to_nat (h_da hdr - p)) (p + 1) (l_relayer l) (r_st s) in
      let d' := add_events (r_d s) ev in
      match e with
      | Some e => (mkRun st' d' (r_blk s) (r_inc s), [], Some e)
      | None => (mkRun st' (set_inbox_root d' (binary_root256 hs)) (r_blk s) (r_inc s), fs, None)
      end
  end.

(* process_relayed_txs: failures become ForcedTransactionFailed events *)
Fixpoint process_relayed (P : Params) (hdr : Header) (fs : list Att) (s : Run) : Run :=
  match fs with
  | [] => s
  | a :: r =>
      match execute_transaction_and_commit P hdr 0 a s with
      | (s', None) => process_relayed P hdr r s'
      | (s', Some _) =>
          process_relayed P hdr r
            (mkRun (r_st s') (add_events (r_d s') [ForcedFailed (t_id (a_tx a))]) (r_blk s') (r_inc s'))
      end
  end.

Definition process_l1 (P : Params) (hdr : Header) (l : L1) (s : Run) : Run * option N :=
  if l_enabled l then
    match process_da hdr l s with
    | (s', _, Some e) => (s', Some e)
    | (s', fs, None) => (process_relayed P hdr fs s', None)
    end
  else (s, None).

(* ------------------------------------------------------------------ *)
(* produce_block                                                        *)
Record Components := mkComp { c_recipient : N; c_gas_price : N }.

(* the mint built by produce_mint_tx; its id and the VM-side answers come with [ma] *)
Definition mint_att (P : Params) (c : Components) (d : Data) (ma : Att) : Att :=
  let tx := a_tx ma in
  mkAtt (mkTx (t_id tx) true [] [] (t_mall tx) 0 0 (tx_count d) (c_gas_price c)
              (if c_recipient c =? 0 then 0 else coinbase d) (c_recipient c) true)
        false u32max (a_basic_ok ma) true true (a_vm ma) (a_vm_err ma) (a_mint_vm_ok ma).

Record Produced := mkProduced { pr_run : Run; pr_hints : list Hint }.

Definition produce_block (P : Params) (hdr : Header) (c : Components) (l : L1)
           (bs : list (list Att)) (ma : Att) (st : St) : Produced * option N :=
  let s0 := mkRun st data_new [] [] in
  match process_l1 P hdr l s0 with
  | (s1, Some e) => (mkProduced s1 [], Some e)
  | (s1, None) =>
      match process_l2 P hdr (c_gas_price c) bs s1 with
      | (s2, hs, Some e) => (mkProduced s2 hs, Some e)
      | (s2, hs, None) =>
          match execute_transaction_and_commit P hdr (c_gas_price c) (mint_att P c (r_d s2) ma) s2 with
          | (s3, Some e) => (mkProduced s3 hs, Some e)
          | (s3, None) => (mkProduced s3 hs, None)
          end
      end
  end.

(* dry_run_block: process_l2_txs only *)
Definition dry_run_block (P : Params) (hdr : Header) (c : Components) (bs : list (list Att)) (st : St)
  : Produced * option N :=
  match process_l2 P hdr (c_gas_price c) bs (mkRun st data_new [] []) with
  | (s, hs, e) => (mkProduced s hs, e)
  end.

(* Executor::dry_run: the first skipped transaction's error, else the statuses *)
Definition dry_run (P : Params) (hdr : Header) (c : Components) (txs : list Att) (st : St)
  : list Status + N :=
  match dry_run_block P hdr c [txs] st with
  | (_, Some e) => inr e
  | (p, None) =>
      match skipped (r_d (pr_run p)) with
      | (_, e) :: _ => inr e
      | [] => inl (tx_status (r_d (pr_run p)))
      end
  end.

(* ------------------------------------------------------------------ *)
(* validate_block                                                       *)
Definition tx_eqb (a b : Tx) : bool :=
  (t_id a =? t_id b) && outputs_eqb (t_outputs a) (t_outputs b) && (t_mall a =? t_mall b).

Fixpoint validate_txs (P : Params) (hdr : Header) (gas_price : N) (atts : list Att) (s : Run)
  : Run * option N :=
  match atts with
  | [] => (s, None)
  | a :: r =>
      match execute_transaction_and_commit P hdr gas_price a s with
      | (s', Some e) => (s', Some e)
      | (s', None) => validate_txs P hdr gas_price r s'
      end
  end.

Fixpoint txs_match (new old : list Tx) : option N :=
  match new, old with
  | n :: new', o :: old' => if tx_eqb n o then txs_match new' old' else Some E_InvalidTransactionOutcome
  | _, _ => None
  end.

Fixpoint listN_eqb (x y : list N) : bool :=
  match x, y with
  | [], [] => true
  | a :: x', b :: y' => (a =? b) && listN_eqb x' y'
  | _, _ => false
  end.

(* a block as seen by validation: the transactions (with the oracle answers of the
   validating run) and the header fields derived from ExecutionData *)
Record Block := mkBlock {
  b_txs : list Att;
  b_msg_ids : list N;        (* stands for message_outbox_root / message_receipt_count *)
  b_inbox_root : list N;
  b_root_ok : bool           (* the header's transaction root / count belong to [b_txs] *)
}.

Definition check_block_matches (new : list Tx) (blk : Block) (d : Data) : option N :=
  match txs_match new (map a_tx (b_txs blk)) with
  | Some e => Some e
  | None =>
      if (length new =? length (b_txs blk))%nat && b_root_ok blk &&
         listN_eqb (message_ids d) (b_msg_ids blk) &&
         listN_eqb (inbox_root d) (b_inbox_root blk)
      then None else Some E_BlockMismatch
  end.

Definition validate_block (P : Params) (hdr : Header) (l : L1) (blk : Block) (st : St)
  : Run * option N :=
  let s0 := mkRun st data_new [] [] in
  match last (map Some (b_txs blk)) None with
  | Some m =>
      if t_mint (a_tx m) then
        let gas_price := t_mint_price (a_tx m) in
        match process_l1 P hdr l s0 with
        | (s1, Some e) => (s1, Some e)
        | (s1, None) =>
            match validate_txs P hdr gas_price (skipn (length (r_blk s1)) (b_txs blk)) s1 with
            | (s2, Some e) => (s2, Some e)
            | (s2, None) => (s2, check_block_matches (r_blk s2) blk (r_d s2))
            end
        end
      else (s0, Some E_MintMissing)
  | None => (s0, Some E_MintMissing)
  end.

(* the attempt as the validating run sees it when the VM, the signature / predicate checks
   and total_fee_paid answer as they did during production: the transaction in its executed
   form, as a plain (unchecked) transaction that passes into_checked_basic *)
Definition exec_form (a : Att) : Tx :=
  match a_vm a with Some o => executed_tx (a_tx a) o | None => a_tx a end.
Definition vatt (a : Att) : Att :=
  mkAtt (exec_form a) false (a_expiration a) true (a_pred_ok a) (a_sig_ok a) (a_vm a) (a_vm_err a)
        (a_mint_vm_ok a).

(* the block a successful production describes, given the oracle answers [vatts] that the
   validating run will see for the included transactions *)
Definition block_of (s : Run) (vatts : list Att) : Block :=
  mkBlock vatts (message_ids (r_d s)) (inbox_root (r_d s)) true.

(* ------------------------------------------------------------------ *)
(* event replay and the decidable checkers (Pcheck)                     *)

Definition Tables := (list (UtxoId * Coin) * list (N * Msg))%type.

(* strict replay: a consumed entry must be present with exactly that value, a created coin
   must have a positive amount and a free key; MessageImported overwrites as the code does *)
Definition apply_event (tb : Tables) (e : Event) : option Tables :=
  let '(cs, ms) := tb in
  match e with
  | CoinCreated k c =>
      match lookup utxo_eqb k cs with
      | Some _ => None
      | None => if 0 <? c_amount c then Some (insert utxo_eqb k c cs, ms) else None
      end
  | CoinConsumed k c =>
      match lookup utxo_eqb k cs with
      | Some c' => if coin_eqb c c' then Some (remove utxo_eqb k cs, ms) else None
      | None => None
      end
  | MsgImported n m => Some (cs, insert N.eqb n m ms)
  | MsgConsumed n m =>
      match lookup N.eqb n ms with
      | Some m' => if msg_eqb m m' then Some (cs, remove N.eqb n ms) else None
      | None => None
      end
  | ForcedFailed _ => Some tb
  end.

Fixpoint replay (tb : Tables) (evs : list Event) : option Tables :=
  match evs with
  | [] => Some tb
  | e :: r => match apply_event tb e with Some tb' => replay tb' r | None => None end
  end.

(* extensional equality of two tables *)
Definition ocoin_eqb (a b : option Coin) : bool :=
  match a, b with Some x, Some y => coin_eqb x y | None, None => true | _, _ => false end.
Definition omsg_eqb (a b : option Msg) : bool :=
  match a, b with Some x, Some y => msg_eqb x y | None, None => true | _, _ => false end.
Definition coins_eqb (a b : list (UtxoId * Coin)) : bool :=
  forallb (fun k => ocoin_eqb (lookup utxo_eqb k a) (lookup utxo_eqb k b)) (map fst a ++ map fst b).
Definition msgs_eqb (a b : list (N * Msg)) : bool :=
  forallb (fun k => omsg_eqb (lookup N.eqb k a) (lookup N.eqb k b)) (map fst a ++ map fst b).
Definition tables_eqb (a b : Tables) : bool :=
  coins_eqb (fst a) (fst b) && msgs_eqb (snd a) (snd b).

Definition created_keys (evs : list Event) : list UtxoId :=
  flat_map (fun e => match e with CoinCreated k _ => [k] | _ => [] end) evs.
Definition consumed_keys (evs : list Event) : list UtxoId :=
  flat_map (fun e => match e with CoinConsumed k _ => [k] | _ => [] end) evs.
Definition consumed_msgs (evs : list Event) : list N :=
  flat_map (fun e => match e with MsgConsumed n _ => [n] | _ => [] end) evs.

Fixpoint nodup_utxo (l : list UtxoId) : bool :=
  match l with
  | [] => true
  | x :: r => negb (existsb (utxo_eqb x) r) && nodup_utxo r
  end.
Fixpoint nodupN (l : list N) : bool :=
  match l with
  | [] => true
  | x :: r => negb (mem x r) && nodupN r
  end.

(* C02 checker for one accepted block: pre tables, reported events, post tables,
   transaction ids processed before the block *)
Definition conserve_okb (pre : Tables) (evs : list Event) (post : Tables) (proc : list N) : bool :=
  match replay pre evs with
  | Some tb => tables_eqb tb post
  | None => false
  end &&
  nodup_utxo (created_keys evs) &&
  forallb (fun k => negb (mem (fst k) proc)) (created_keys evs).

(* ------------------------------------------------------------------ *)
(* canonical dumps                                                      *)
Definition utxo_ltb (a b : UtxoId) : bool :=
  (fst a <? fst b) || ((fst a =? fst b) && (snd a <? snd b)).
Section Sort.
  Context {K V : Type}.
  Variable ltb : K -> K -> bool.
  Fixpoint sinsert (kv : K * V) (l : list (K * V)) : list (K * V) :=
    match l with
    | [] => [kv]
    | x :: r => if ltb (fst kv) (fst x) then kv :: l else x :: sinsert kv r
    end.
  Definition ssort (l : list (K * V)) : list (K * V) := fold_right sinsert [] l.
End Sort.
Fixpoint sinsertN (x : N) (l : list N) : list N :=
  match l with [] => [x] | y :: r => if x <? y then x :: l else y :: sinsertN x r end.
Definition ssortN (l : list N) : list N := fold_right sinsertN [] l.

(* ------------------------------------------------------------------ *)
(* T codecs                                                             *)
Definition tUtxoCoin (kc : UtxoId * Coin) : T :=
  let '(k, c) := kc in
  L [tN (fst k); tN (snd k); tN (c_owner c); tN (c_amount c); tN (c_asset c); tN (c_h c); tN (c_i c)].
Definition tMsg (nm : N * Msg) : T :=
  let '(n, m) := nm in
  L [tN n; tN (m_sender m); tN (m_recipient m); tN (m_amount m); tN (m_data m); tN (m_da m)].
Definition tContract (x : N * CUtxo) : T :=
  let '(cid, (k, (h, i))) := x in L [tN cid; tN (fst k); tN (snd k); tN h; tN i].
Definition tSt (st : St) : T :=
  L [L (map tUtxoCoin (ssort utxo_ltb (coins st)));
     L (map tMsg (ssort N.ltb (msgs st)));
     tListN (ssortN (processed st));
     L (map tContract (ssort N.ltb (contracts st)))].
Definition tEvent (e : Event) : T :=
  match e with
  | CoinCreated k c => L (I 0 :: match tUtxoCoin (k, c) with L l => l | x => [x] end)
  | CoinConsumed k c => L (I 1 :: match tUtxoCoin (k, c) with L l => l | x => [x] end)
  | MsgImported n m => L (I 2 :: match tMsg (n, m) with L l => l | x => [x] end)
  | MsgConsumed n m => L (I 3 :: match tMsg (n, m) with L l => l | x => [x] end)
  | ForcedFailed id => L [I 4; tN id]
  end.
Definition tStatus (s : Status) : T :=
  L [tN (s_id s); tB (s_failed s); tB (s_has_result s); tN (s_gas s); tN (s_fee s)].
Definition tErrOpt (e : option N) : T := match e with None => I 0 | Some n => tN n end.
Definition tHint (h : Hint) : T := let '(g, c, s) := h in L [tN g; tN c; tN s].
Definition tData (d : Data) : T :=
  L [tN (coinbase d); tN (used_gas d); tN (used_size d); tN (N.of_nat (length (message_ids d)))].

Definition get2 {A B} (f : T -> option A) (g : T -> option B) (a b : T) : option (A * B) :=
  match f a, g b with Some x, Some y => Some (x, y) | _, _ => None end.

Definition gCoinEntry (t : T) : option (UtxoId * Coin) :=
  match t with
  | L [a; b; o; am; s; h; i] =>
      match getN a, getN b, getN o, getN am, getN s, getN h, getN i with
      | Some a, Some b, Some o, Some am, Some s, Some h, Some i => Some ((a, b), mkCoin o am s h i)
      | _, _, _, _, _, _, _ => None
      end
  | _ => None
  end.
Definition gMsgEntry (t : T) : option (N * Msg) :=
  match t with
  | L [n; sd; rc; am; dt; da] =>
      match getN n, getN sd, getN rc, getN am, getN dt, getN da with
      | Some n, Some sd, Some rc, Some am, Some dt, Some da => Some (n, mkMsg sd rc am dt da)
      | _, _, _, _, _, _ => None
      end
  | _ => None
  end.
Definition gContract (t : T) : option (N * CUtxo) :=
  match t with
  | L [c; a; b; h; i] =>
      match getN c, getN a, getN b, getN h, getN i with
      | Some c, Some a, Some b, Some h, Some i => Some (c, ((a, b), (h, i)))
      | _, _, _, _, _ => None
      end
  | _ => None
  end.
Definition gSt (t : T) : option St :=
  match t with
  | L [L cs; L ms; ps; L ks] =>
      match mapM gCoinEntry cs, mapM gMsgEntry ms, getListN ps, mapM gContract ks with
      | Some cs, Some ms, Some ps, Some ks => Some (mkSt cs ms ps ks [])
      | _, _, _, _ => None
      end
  | _ => None
  end.
Definition gEvent (t : T) : option Event :=
  match t with
  | L (I 0%Z :: r) => option_map (fun kc => CoinCreated (fst kc) (snd kc)) (gCoinEntry (L r))
  | L (I 1%Z :: r) => option_map (fun kc => CoinConsumed (fst kc) (snd kc)) (gCoinEntry (L r))
  | L (I 2%Z :: r) => option_map (fun nm => MsgImported (fst nm) (snd nm)) (gMsgEntry (L r))
  | L (I 3%Z :: r) => option_map (fun nm => MsgConsumed (fst nm) (snd nm)) (gMsgEntry (L r))
  | L [I 4%Z; id] => option_map ForcedFailed (getN id)
  | _ => None
  end.
Definition gInput (t : T) : option Input :=
  match t with
  (* the last field tells CoinSigned / CoinPredicate (Message...Signed / ...Predicate)
     apart; the executor's bookkeeping does not look at it, so the model drops it *)
  | L [I 0%Z; a; b; o; am; s; pr] =>
      match getN a, getN b, getN o, getN am, getN s, getB pr with
      | Some a, Some b, Some o, Some am, Some s, Some _ => Some (InCoin (a, b) o am s)
      | _, _, _, _, _, _ => None
      end
  | L [I 1%Z; n; sd; rc; am; dt; rt; pr] =>
      match getN n, getN sd, getN rc, getN am, getN dt, getB rt, getB pr with
      | Some n, Some sd, Some rc, Some am, Some dt, Some rt, Some _ => Some (InMsg n sd rc am dt rt)
      | _, _, _, _, _, _, _ => None
      end
  | L [I 2%Z; c] => option_map InContract (getN c)
  | _ => None
  end.
Definition gOutput (t : T) : option Output :=
  match t with
  | L [I k; a; b; c] =>
      match getN a, getN b, getN c with
      | Some a, Some b, Some c =>
          match k with
          | 0%Z => Some (OutCoin a b c) | 1%Z => Some (OutChange a b c)
          | 2%Z => Some (OutVariable a b c) | _ => None
          end
      | _, _, _ => None
      end
  | L [I 3%Z; a; b] => match getN a, getN b with Some a, Some b => Some (OutContract a b) | _, _ => None end
  | L [I 4%Z; a; b] => match getN a, getN b with Some a, Some b => Some (OutContractCreated a b) | _, _ => None end
  | _ => None
  end.
Definition gTx (t : T) : option Tx :=
  match t with
  | L [id; mt; L ins; L outs; mall; mg; sz; mi; mp; ma; mc; dio] =>
      match getN id, getB mt, mapM gInput ins, mapM gOutput outs, getN mall, getN mg with
      | Some id, Some mt, Some ins, Some outs, Some mall, Some mg =>
          match getN sz, getN mi, getN mp, getN ma, getN mc, getB dio with
          | Some sz, Some mi, Some mp, Some ma, Some mc, Some dio =>
              Some (mkTx id mt ins outs mall mg sz mi mp ma mc dio)
          | _, _, _, _, _, _ => None
          end
      | _, _, _, _, _, _ => None
      end
  | _ => None
  end.
Definition gVm (t : T) : option (option VmOut) :=
  match t with
  | L [] => Some None
  | L [rv; L outs; mall; ids; ch; fee] =>
      match getB rv, mapM gOutput outs, getN mall, getListN ids, getN ch with
      | Some rv, Some outs, Some mall, Some ids, Some ch =>
          match fee with
          | L [] => Some (Some (mkVmOut rv outs mall ids ch None))
          | L [g; f] => match getN g, getN f with
                        | Some g, Some f => Some (Some (mkVmOut rv outs mall ids ch (Some (g, f))))
                        | _, _ => None
                        end
          | _ => None
          end
      | _, _, _, _, _ => None
      end
  | _ => None
  end.
Definition gAtt (t : T) : option Att :=
  match t with
  | L [tx; ck; ex; bo; po; so; vm; ve; mv] =>
      match gTx tx, getB ck, getN ex, getB bo, getB po, getB so with
      | Some tx, Some ck, Some ex, Some bo, Some po, Some so =>
          match gVm vm, getN ve, getB mv with
          | Some vm, Some ve, Some mv => Some (mkAtt tx ck ex bo po so vm ve mv)
          | _, _, _ => None
          end
      | _, _, _, _, _, _ => None
      end
  | _ => None
  end.
Definition gAtts (t : T) : option (list Att) := match t with L l => mapM gAtt l | _ => None end.
Definition gBatches (t : T) : option (list (list Att)) := match t with L l => mapM gAtts l | _ => None end.
Definition gBytes (t : T) : option (list N) := getListN t.
Definition gREvent (t : T) : option REvent :=
  match t with
  | L [I 0%Z; h; m] =>
      match gBytes h, gMsgEntry m with
      | Some h, Some (n, m) => Some (RMsg h n m)
      | _, _ => None
      end
  | L [I 1%Z; h; id; p; mt; cl; ac; ck; a] =>
      match gBytes h, getN id, getB p, getB mt with
      | Some h, Some id, Some p, Some mt =>
          match getN cl, getN ac, getB ck, gAtt a with
          | Some cl, Some ac, Some ck, Some a => Some (RTx h id p mt cl ac ck a)
          | _, _, _, _ => None
          end
      | _, _, _, _ => None
      end
  | _ => None
  end.
Definition gRelayerEntry (t : T) : option (N * list REvent) :=
  match t with
  | L [h; L evs] => match getN h, mapM gREvent evs with Some h, Some evs => Some (h, evs) | _, _ => None end
  | _ => None
  end.
Definition gL1 (t : T) : option L1 :=
  match t with
  | L [en; pd; L rel] =>
      match getB en, getOptN pd, mapM gRelayerEntry rel with
      | Some en, Some pd, Some rel => Some (mkL1 en pd rel)
      | _, _, _ => None
      end
  | _ => None
  end.
Definition gParams (t : T) : option Params :=
  match t with
  | L [g; s; c; f] =>
      match getN g, getN s, getN c, getB f with
      | Some g, Some s, Some c, Some f => Some (mkParams g s c f)
      | _, _, _, _ => None
      end
  | _ => None
  end.

(* ------------------------------------------------------------------ *)
(* histories                                                            *)
(* One block of a history as driven by the harness: produce with the recorded source
   answers, validate the produced block (oracle answers [bi_vatts] of the validating run),
   commit the production changes iff both succeed; then validate the tampered variants
   [bi_tampered] (never committed), and dry-run [bi_dry] on the state before the block. *)
Record BlockIn := mkBlockIn {
  bi_hdr : Header; bi_comp : Components; bi_l1 : L1;
  bi_batches : list (list Att); bi_mint : Att; bi_vatts : list Att;
  bi_tampered : list (N * bool * list Att);   (* mutation kind, header still fits, transactions *)
  bi_dry : list (bool * list Att);            (* forbid_fake_coins of the request, transactions *)
  bi_extra : T                    (* implementation-only oracle values, echoed *)
}.

Definition gTam (t : T) : option (N * bool * list Att) :=
  match t with
  | L [k; ok; atts] => match getN k, getB ok, gAtts atts with
                       | Some k, Some ok, Some atts => Some (k, ok, atts) | _, _, _ => None end
  | _ => None
  end.
Definition gDry (t : T) : option (bool * list Att) :=
  match t with
  | L [f; atts] => match getB f, gAtts atts with Some f, Some atts => Some (f, atts) | _, _ => None end
  | _ => None
  end.
Definition gBlockIn (t : T) : option BlockIn :=
  match t with
  | L [L [h; da]; L [rc; gp]; l1; bs; ma; va; L tam; L dry; extra] =>
      match getN h, getN da, getN rc, getN gp, gL1 l1, gBatches bs with
      | Some h, Some da, Some rc, Some gp, Some l1, Some bs =>
          match gAtt ma, gAtts va, mapM gTam tam, mapM gDry dry with
          | Some ma, Some va, Some tam, Some dry =>
              Some (mkBlockIn (mkHeader h da) (mkComp rc gp) l1 bs ma va tam dry extra)
          | _, _, _, _ => None
          end
      | _, _, _, _, _, _ => None
      end
  | _ => None
  end.

Definition tRunOut (s : Run) (e : option N) : T :=
  match e with
  | Some n => L [tN n]
  | None =>
      L [I 0; tListN (map t_id (r_blk s));
         L (map (fun x => L [tN (fst x); tN (snd x)]) (skipped (r_d s)));
         L (map tStatus (tx_status (r_d s))); L (map tEvent (events (r_d s))); tData (r_d s);
         tListN (inbox_root (r_d s))]
  end.

Definition tDry (r : list Status + N) : T :=
  match r with inr e => L [tN e; L []] | inl ss => L [I 0; L (map tStatus ss)] end.

(* result of one block: (T dump, storage after) *)
Definition run_block (P : Params) (bi : BlockIn) (st : St) : T * St :=
  let '(p, pe) := produce_block P (bi_hdr bi) (bi_comp bi) (bi_l1 bi) (bi_batches bi) (bi_mint bi) st in
  let tp := L [tRunOut (pr_run p) pe; L (map tHint (pr_hints p))] in
  let blk := block_of (pr_run p) (bi_vatts bi) in
  let '(tv, st') :=
    match pe with
    | Some _ => (L [], st)
    | None =>
        let '(v, ve) := validate_block P (bi_hdr bi) (bi_l1 bi) blk st in
        (tRunOut v ve, match ve with None => r_st (pr_run p) | Some _ => st end)
    end in
  let tt := map (fun x : N * bool * list Att =>
                   let '(_, ok, atts) := x in
                   tErrOpt (snd (validate_block P (bi_hdr bi) (bi_l1 bi)
                                                (mkBlock atts (b_msg_ids blk) (b_inbox_root blk) ok) st)))
                (bi_tampered bi) in
  let td := map (fun x : bool * list Att =>
                   let '(f, txs) := x in
                   tDry (dry_run (mkParams (p_gas_limit P) (p_size_limit P) (p_max_tx_count P) f)
                                 (bi_hdr bi) (bi_comp bi) txs st))
                (bi_dry bi) in
  (L [tp; tv; L tt; L td; tSt st'], st').

Fixpoint run_history (P : Params) (bis : list BlockIn) (st : St) : list T :=
  match bis with
  | [] => []
  | bi :: r => let '(t, st') := run_block P bi st in t :: run_history P r st'
  end.

(* ---- Pcheck on the implementation's observation ---- *)
(* decoded implementation result of one block *)
Record RunObs := mkRunObs {
  o_err : N; o_ids : list N; o_skipped : list (N * N); o_status : list T; o_events : list Event;
  o_data : T; o_inbox : list N; o_events_t : list T
}.
Definition gPair (t : T) : option (N * N) :=
  match t with L [a; b] => get2 getN getN a b | _ => None end.
Definition gRunObs (t : T) : option RunObs :=
  match t with
  | L [e] => option_map (fun e => mkRunObs e [] [] [] [] (L []) [] []) (getN e)
  | L [e; ids; L sk; L ss; L evs; d; ib] =>
      match getN e, getListN ids, mapM gPair sk, mapM gEvent evs, getListN ib with
      | Some e, Some ids, Some sk, Some evs', Some ib => Some (mkRunObs e ids sk ss evs' d ib evs)
      | _, _, _, _, _ => None
      end
  | _ => None
  end.

Record BlockObs := mkBlockObs {
  bo_prod : RunObs; bo_hints : list T; bo_val : option RunObs; bo_tam : list N;
  bo_dry : list T; bo_post : St
}.
Definition gBlockObs (t : T) : option BlockObs :=
  match t with
  | L [L [p; L hs]; v; tam; L dry; post] =>
      match gRunObs p, getListN tam, gSt post with
      | Some p, Some tam, Some post =>
          match v with
          | L [] => Some (mkBlockObs p hs None tam dry post)
          | _ => match gRunObs v with
                 | Some v => Some (mkBlockObs p hs (Some v) tam dry post)
                 | None => None
                 end
          end
      | _, _, _ => None
      end
  | _ => None
  end.

Definition tables_of (st : St) : Tables := (coins st, msgs st).

(* C02 on a history: every committed block conserves, judged on the events reported by
   the production AND by the validation of that block *)
Fixpoint pcheck02 (pre : St) (obs : list BlockObs) : bool :=
  match obs with
  | [] => true
  | b :: r =>
      match bo_val b with
      | Some v =>
          if (o_err (bo_prod b) =? 0) && (o_err v =? 0) then
            conserve_okb (tables_of pre) (o_events v) (tables_of (bo_post b)) (processed pre) &&
            conserve_okb (tables_of pre) (o_events (bo_prod b)) (tables_of (bo_post b)) (processed pre)
          else tables_eqb (tables_of pre) (tables_of (bo_post b))
      | None => tables_eqb (tables_of pre) (tables_of (bo_post b))
      end && pcheck02 (bo_post b) r
  end.

(* ---- further checkers on the implementation's observation ---- *)
Definition gStatus (t : T) : option Status :=
  match t with
  | L [id; f; h; g; fe] =>
      match getN id, getB f, getB h, getN g, getN fe with
      | Some id, Some f, Some h, Some g, Some fe => Some (mkStatus id f h g fe)
      | _, _, _, _, _ => None
      end
  | _ => None
  end.
Definition statuses_of (o : RunObs) : list Status :=
  match mapM gStatus (o_status o) with Some l => l | None => [] end.
Definition sum_fee (l : list Status) : N := fold_right (fun s acc => s_fee s + acc) 0 l.
Definition sum_gas (l : list Status) : N := fold_right (fun s acc => s_gas s + acc) 0 l.
Definition data_nth (o : RunObs) (k : nat) : N :=
  match o_data o with L l => match nth_error l k with Some t => match getN t with Some n => n | None => 0 end | None => 0 end | _ => 0 end.

Definition committed (b : BlockObs) : option RunObs :=
  match bo_val b with
  | Some v => if (o_err (bo_prod b) =? 0) && (o_err v =? 0) then Some v else None
  | None => None
  end.
Definition ids_of (atts : list Att) : list N := map (fun a => t_id (a_tx a)) atts.
Definition same_set (a b : list N) : bool :=
  forallb (fun x => mem x b) a && forallb (fun x => mem x a) b && (length a =? length b)%nat.
Definition clean_obs (o : RunObs) : bool := forallb (fun x => negb (late (snd x))) (o_skipped o).

Fixpoint forall2b {A B} (f : A -> B -> bool) (l : list A) (m : list B) : bool :=
  match l, m with
  | [], [] => true
  | x :: l', y :: m' => f x y && forall2b f l' m'
  | _, _ => false
  end.

(* C06: ids of a committed block are new and distinct, the processed table grows by exactly
   them; tampered blocks carrying a repeated or already processed id are rejected *)
Definition dup_or_seen (ids proc : list N) : bool :=
  negb (nodupN ids) || existsb (fun x => mem x proc) ids.
Fixpoint pcheck06 (pre : St) (l : list (BlockIn * BlockObs)) : bool :=
  match l with
  | [] => true
  | (bi, b) :: r =>
      match committed b with
      | Some v =>
          let ids := o_ids v in
          nodupN ids && forallb (fun x => negb (mem x (processed pre))) ids &&
          same_set (processed (bo_post b)) (ids ++ processed pre) &&
          listN_eqb ids (o_ids (bo_prod b)) && listN_eqb ids (ids_of (bi_vatts bi))
      | None => same_set (processed (bo_post b)) (processed pre)
      end &&
      forall2b (fun (x : N * bool * list Att) (err : N) =>
                  if dup_or_seen (ids_of (snd x)) (processed pre) then negb (err =? 0) else true)
               (bi_tampered bi) (bo_tam b) &&
      pcheck06 (bo_post b) r
  end.

(* C03 *)
Definition shape_ok (atts : list Att) : bool :=
  match rev atts with
  | m :: r => t_mint (a_tx m) && forallb (fun a => negb (t_mint (a_tx a))) r &&
              (t_mint_index (a_tx m) =? N.of_nat (length r))
  | [] => false
  end.
Definition block_size (atts : list Att) : N :=
  fold_right (fun a acc => (if t_mint (a_tx a) then 0 else N.min (t_size (a_tx a)) u32max) + acc) 0 atts.
Definition pc03_block (P : Params) (bi : BlockIn) (b : BlockObs) : bool :=
  let prod := bo_prod b in
  (if o_err prod =? 0 then
     let atts := bi_vatts bi in
     let ss := statuses_of prod in
     shape_ok atts &&
     match rev atts with
     | m :: _ =>
         (t_mint_price (a_tx m) =? c_gas_price (bi_comp bi)) &&
         (t_mint_cid (a_tx m) =? c_recipient (bi_comp bi)) &&
         (if clean_obs prod
          then t_mint_amount (a_tx m) =? (if c_recipient (bi_comp bi) =? 0 then 0 else sum_fee ss)
          else true)
     | [] => false
     end &&
     (sum_gas ss <=? p_gas_limit P) && (N.of_nat (length atts) <=? u16max) &&
     (block_size atts <=? size_limit32 P)
   else true) &&
  forall2b (fun (x : N * bool * list Att) (err : N) =>
              let k := fst (fst x) in
              if k =? 0 then match committed b with Some _ => err =? 0 | None => true end
              else if existsb (N.eqb k) [1; 3; 4; 5; 8] then negb (err =? 0) else true)
           (bi_tampered bi) (bo_tam b).
Fixpoint pcheck03 (P : Params) (l : list (BlockIn * BlockObs)) : bool :=
  match l with [] => true | (bi, b) :: r => pc03_block P bi b && pcheck03 P r end.

(* C01: production and validation of the produced block report the same *)
Fixpoint listT_eqb (a b : list T) : bool :=
  match a, b with
  | [], [] => true
  | x :: a', y :: b' => T_eqb x y && listT_eqb a' b'
  | _, _ => false
  end.
Definition extra_flag (bi : BlockIn) (k : nat) : bool :=
  match bi_extra bi with L l => match nth_error l k with Some (I 1%Z) => true | _ => false end | _ => false end.
Definition same_results (bi : BlockIn) (b : BlockObs) : bool :=
  if o_err (bo_prod b) =? 0 then
    match bo_val b with
    | Some v =>
        (o_err v =? 0) && listN_eqb (o_ids v) (o_ids (bo_prod b)) &&
        listT_eqb (o_status v) (o_status (bo_prod b)) &&
        listT_eqb (o_events_t v) (o_events_t (bo_prod b)) &&
        T_eqb (o_data v) (o_data (bo_prod b)) && listN_eqb (o_inbox v) (o_inbox (bo_prod b)) &&
        extra_flag bi 0
    | None => false
    end
  else true.
Fixpoint pcheck01 (l : list (BlockIn * BlockObs)) : bool :=
  match l with [] => true | (bi, b) :: r => same_results bi b && pcheck01 r end.

(* C04: skipped transactions leave nothing behind (production = validation, which never
   sees them); reverted scripts consume their coin and non-retryable message inputs, keep
   the retryable ones, emit no outbox message and pay their fee *)
Definition att_reverted (a : Att) : bool :=
  match a_vm a with Some o => v_reverted o | None => false end.
Definition att_msg_ids (a : Att) : list N :=
  match a_vm a with Some o => if v_reverted o then [] else v_msg_ids o | None => [] end.
Definition consumes (a : Att) (n : N) : bool :=
  existsb (fun i => match i with
                    | InMsg n' _ _ _ _ rt => (n' =? n) && negb (rt && att_reverted a)
                    | _ => false end) (t_inputs (a_tx a)).
(* every coin input and every message input that is not (retryable and reverted) of an
   included transaction is reported consumed; a message is reported consumed only through
   such an input *)
Definition inputs_consumed_ok (vatts : list Att) (evs : list Event) : bool :=
  let atts := filter (fun a => negb (t_mint (a_tx a))) vatts in
  forallb (fun a =>
    forallb (fun i => match i with
                      | InCoin k _ _ _ => existsb (utxo_eqb k) (consumed_keys evs)
                      | InMsg n _ _ _ _ rt =>
                          if rt && att_reverted a then true else mem n (consumed_msgs evs)
                      | InContract _ => true end) (t_inputs (a_tx a))) atts &&
  forallb (fun n => existsb (fun a => consumes a n) atts) (consumed_msgs evs).
Fixpoint pcheck02_inputs (l : list (BlockIn * BlockObs)) : bool :=
  match l with
  | [] => true
  | (bi, b) :: r =>
      match committed b with
      | Some v => inputs_consumed_ok (bi_vatts bi) (o_events v)
      | None => true
      end && pcheck02_inputs r
  end.

Definition pc04_block (bi : BlockIn) (b : BlockObs) : bool :=
  same_results bi b &&
  match committed b with
  | Some v =>
      let atts := filter (fun a => negb (t_mint (a_tx a))) (bi_vatts bi) in
      let evs := o_events v in
      forallb (fun a =>
        forallb (fun i => match i with
                          | InCoin k _ _ _ => existsb (utxo_eqb k) (consumed_keys evs)
                          | InMsg n _ _ _ _ rt =>
                              if rt && att_reverted a then true else mem n (consumed_msgs evs)
                          | InContract _ => true end) (t_inputs (a_tx a))) atts &&
      forallb (fun n => existsb (fun a => consumes a n) atts) (consumed_msgs evs) &&
      (data_nth v 3 =? N.of_nat (length (flat_map att_msg_ids atts))) &&
      (data_nth v 0 =? sum_fee (statuses_of v)) &&
      forall2b (fun a s => Bool.eqb (att_reverted a) (s_failed s) && (t_id (a_tx a) =? s_id s))
               (bi_vatts bi) (statuses_of v) &&
      extra_flag bi 1
  | None => true
  end.
Fixpoint pcheck04 (l : list (BlockIn * BlockObs)) : bool :=
  match l with [] => true | (bi, b) :: r => pc04_block bi b && pcheck04 r end.

(* C05: what process_da must import for this block, or None when it must fail *)
Definition l1_expected (hdr : Header) (l : L1) : option (list Event * list (list N) * list Att) :=
  if l_enabled l then
    if h_height hdr =? 0 then None else
    match l_prev_da l with
    | None => None
    | Some p =>
        if p =? u64max then None else
        match da_range (N.to_nat (h_da hdr - p)) (p + 1) (l_relayer l) (mkSt [] [] [] [] []) with
        | (_, ev, fs, hs, None) => Some (ev, hs, fs)
        | _ => None
        end
    end
  else Some ([], [], []).
Definition is_import (e : Event) : bool := match e with MsgImported _ _ => true | _ => false end.
Definition is_forced_failed (id : N) (e : Event) : bool :=
  match e with ForcedFailed i => i =? id | _ => false end.
Definition pc05_block (bi : BlockIn) (b : BlockObs) : bool :=
  let prod := bo_prod b in
  let l := bi_l1 bi in
  if o_err prod =? 0 then
    match l1_expected (bi_hdr bi) l with
    | None => false
    | Some (ev, hs, fs) =>
        listT_eqb (map tEvent (firstn (length ev) (o_events prod))) (map tEvent ev) &&
        listT_eqb (map tEvent (filter is_import (o_events prod))) (map tEvent (filter is_import ev)) &&
        listN_eqb (o_inbox prod) (if l_enabled l then binary_root256 hs else repeat 0 32) &&
        forallb (fun a => mem (t_id (a_tx a)) (o_ids prod) ||
                          existsb (is_forced_failed (t_id (a_tx a))) (o_events prod)) fs
    end
  else if existsb (N.eqb (o_err prod)) [E_ExecutingGenesisBlock; E_PreviousBlockIsNotFound;
                                        E_DaHeightExceededItsLimit; E_RelayerGivesIncorrectMessages]
       then match l1_expected (bi_hdr bi) l with None => true | Some _ => false end
       else true.
Fixpoint pcheck05 (l : list (BlockIn * BlockObs)) : bool :=
  match l with [] => true | (bi, b) :: r => pc05_block bi b && same_results bi b && pcheck05 r end.

(* C45: dry runs changed no column of any database and answered identically when repeated
   (flags computed by the harness over ALL columns) *)
Fixpoint pcheck45 (l : list (BlockIn * BlockObs)) : bool :=
  match l with [] => true | (bi, b) :: r => extra_flag bi 2 && extra_flag bi 3 && pcheck45 r end.

Definition main_hist (tag : Z) (observed : T) : T :=
  match observed with
  | L [L [params; genesis; L bis]; L res] =>
      match gParams params, gSt genesis, mapM gBlockIn bis with
      | Some P, Some st, Some bis' =>
          let model := L [L [params; genesis; L bis]; L (run_history P bis' st)] in
          let pc :=
            match mapM gBlockObs res with
            | Some obs =>
                match tag with
                | 2%Z => pcheck02 st obs && pcheck02_inputs (combine bis' obs)
                | 6%Z => pcheck06 st (combine bis' obs)
                | 3%Z => pcheck03 P (combine bis' obs)
                | 1%Z => pcheck01 (combine bis' obs)
                | 4%Z => pcheck04 (combine bis' obs)
                | 5%Z => pcheck05 (combine bis' obs)
                | 45%Z => pcheck45 (combine bis' obs)
                | _ => false
                end && (length bis' =? length obs)%nat
            | None => false
            end in
          L [model; tB pc]
      | _, _, _ => tErr 3
      end
  | _ => tErr 2
  end.

Definition main_T (req : T) : T :=
  match req with
  | L [I tag; _; observed] => main_hist tag observed
  | _ => tErr 1
  end.

(* the block described by a successful production when validation sees the same oracle *)
Definition block_of_run (s : Run) : Block := block_of s (map vatt (r_inc s)).
