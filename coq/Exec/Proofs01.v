(* C01: a produced block validates with identical effects (relayer disabled), provided no
   skipped transaction failed after spend_input_utxos had started (class E1). *)
From FC Require Import Exec.Model Exec.ProofsMap Exec.Proofs02 Exec.Proofs04 Exec.Proofs03.
From Coq Require Import ZifyBool ZifyN ZifyNat.
Open Scope N_scope.

(* ExecutionData without the skipped list: what validation accumulates *)
Definition noskip (d : Data) : Data :=
  mkData (coinbase d) (used_gas d) (used_size d) (tx_count d) (found_mint d)
         (message_ids d) (tx_status d) (events d) [] (inbox_root d).

Definition Sim (s v : Run) : Prop :=
  r_st v = r_st s /\ r_blk v = r_blk s /\ r_d v = noskip (r_d s).

(* ---- the skipped list is a pure accumulator ---- *)
Lemma update_noskip : forall d o id sz,
  update_execution_data (noskip d) o id sz =
  let '(d', e) := update_execution_data d o id sz in (noskip d', e).
Proof.
  intros. unfold update_execution_data. cbn [coinbase noskip used_gas used_size set_coinbase set_used_gas].
  destruct (v_fee o) as [[ug fee]|]; [|reflexivity].
  destruct (checked_add u64max (coinbase d) fee); [|reflexivity]. cbn.
  destruct (checked_add u64max (used_gas d) ug); [|reflexivity]. cbn.
  destruct (checked_add u32max (used_size d) (N.min sz u32max)); reflexivity.
Qed.

Lemma execute_chargeable_noskip : forall P hdr a st d,
  execute_chargeable P hdr a st (noskip d) =
  let '(d', r) := execute_chargeable P hdr a st d in (noskip d', r).
Proof.
  intros. unfold execute_chargeable.
  match goal with |- context [match ?b with Some e => _ | None => _ end] =>
    destruct b; [reflexivity|] end.
  destruct (a_vm a) as [o|]; [|reflexivity].
  destruct (compute_inputs (p_forbid P) st (t_inputs (a_tx a))); [reflexivity|].
  match goal with |- context [spend ?f ?r ?i ?s] => destruct (spend f r i s) as [[st1 ev1] [e1|]] end;
    [reflexivity|].
  cbn [tx_count add_events noskip].
  destruct (persist _ _ _ _ _ 0 st1) as [[st2 ev2] [e2|]]; [reflexivity|].
  change (add_events (add_events (noskip d) ev1) ev2) with (noskip (add_events (add_events d ev1) ev2)).
  rewrite update_noskip.
  destruct (update_execution_data (add_events (add_events d ev1) ev2) o _ _) as [d3 [e3|]]; reflexivity.
Qed.

Lemma execute_mint_noskip : forall P hdr gp a st d,
  execute_mint P hdr gp a st (noskip d) =
  let '(d', r) := execute_mint P hdr gp a st d in (noskip d', r).
Proof.
  intros. unfold execute_mint. cbn [tx_count set_found_mint noskip coinbase].
  destruct (negb (t_mint_index (a_tx a) =? tx_count d)); [reflexivity|].
  destruct (negb (t_mint_price (a_tx a) =? gp)); [reflexivity|].
  match goal with |- context [match ?b with inl _ => _ | inr _ => _ end] => destruct b as [st1|e] end;
    [|reflexivity].
  destruct (mem (t_id (a_tx a)) (processed st1)); reflexivity.
Qed.

Lemma execute_transaction_noskip : forall P hdr gp a st d,
  execute_transaction P hdr gp a st (noskip d) =
  let '(d', r) := execute_transaction P hdr gp a st d in (noskip d', r).
Proof.
  intros. unfold execute_transaction. cbn [found_mint noskip].
  destruct (found_mint d); [reflexivity|].
  destruct (mem _ _); [reflexivity|].
  destruct (convert_tx hdr a); [reflexivity|].
  destruct (t_mint (a_tx a)); [apply execute_mint_noskip | apply execute_chargeable_noskip].
Qed.

(* ---- the validating attempt behaves like the producing one ---- *)
Lemma executed_tx_idem : forall tx o, executed_tx (executed_tx tx o) o = executed_tx tx o.
Proof. reflexivity. Qed.

Lemma execute_transaction_vatt : forall P hdr gp a st d,
  convert_tx hdr a = None ->
  execute_transaction P hdr gp (vatt a) st d = execute_transaction P hdr gp a st d.
Proof.
  intros P hdr gp a st d HC. unfold execute_transaction. rewrite HC.
  assert (HC' : convert_tx hdr (vatt a) = None) by reflexivity. rewrite HC'.
  unfold vatt, exec_form. cbn [a_tx].
  destruct (a_vm a) as [o|] eqn:EV.
  - cbn [t_id executed_tx t_mint].
    destruct (found_mint d); [reflexivity|]. destruct (mem _ _); [reflexivity|].
    destruct (t_mint (a_tx a)).
    + unfold execute_mint. cbn. rewrite EV. reflexivity.
    + unfold execute_chargeable. cbn. rewrite EV. reflexivity.
  - destruct (found_mint d); [reflexivity|]. destruct (mem _ _); [reflexivity|].
    destruct (t_mint (a_tx a)).
    + unfold execute_mint. cbn. rewrite EV. reflexivity.
    + unfold execute_chargeable. cbn. rewrite EV. reflexivity.
Qed.

Lemma execute_transaction_ok_form : forall P hdr gp a st d d' st' tx',
  execute_transaction P hdr gp a st d = (d', inl (st', tx')) ->
  convert_tx hdr a = None /\ tx' = exec_form a.
Proof.
  intros P hdr gp a st d d' st' tx' H. unfold execute_transaction in H.
  destruct (found_mint d); [inversion H|]. destruct (mem _ _); [inversion H|].
  destruct (convert_tx hdr a); [inversion H|]. split; auto.
  unfold exec_form. destruct (t_mint (a_tx a)).
  - unfold execute_mint in H.
    destruct (negb _); [inversion H|]. destruct (negb _); [inversion H|].
    match type of H with (match ?b with _ => _ end) = _ => destruct b as [st1|e] end; [|inversion H].
    destruct (mem _ _); inversion H; subst. reflexivity.
  - unfold execute_chargeable in H.
    match type of H with (match ?b with _ => _ end) = _ => destruct b end; [inversion H|].
    destruct (a_vm a) as [o|]; [|inversion H].
    destruct (compute_inputs _ _ _); [inversion H|].
    match type of H with context [spend ?f ?r ?i ?s] => destruct (spend f r i s) as [[st1 ev1] [e1|]] end;
      [inversion H|].
    destruct (persist _ _ _ _ _ 0 st1) as [[st2 ev2] [e2|]]; [inversion H|].
    destruct (update_execution_data _ o _ _) as [d3 [e3|]]; inversion H; subst. reflexivity.
Qed.

Definition BlkInv (s : Run) : Prop := r_blk s = map exec_form (r_inc s).

Lemma etc_sim : forall P hdr gp a s s' v,
  execute_transaction_and_commit P hdr gp a s = (s', None) -> Sim s v ->
  exists v', execute_transaction_and_commit P hdr gp (vatt a) v = (v', None) /\ Sim s' v' /\
             r_inc s' = r_inc s ++ [a] /\ (BlkInv s -> BlkInv s').
Proof.
  intros P hdr gp a s s' v H (S1 & S2 & S3). unfold execute_transaction_and_commit in *.
  rewrite S1, S3. cbn [tx_count noskip].
  destruct (execute_transaction P hdr gp a (r_st s) (r_d s)) as [d' [[st' tx']|e0]] eqn:E; [|inversion H].
  pose proof (execute_transaction_ok_form _ _ _ _ _ _ _ _ _ E) as [HC HT].
  rewrite execute_transaction_noskip, execute_transaction_vatt, E by exact HC.
  destruct (checked_add u16max (tx_count (r_d s)) 1); inversion H; subst. clear H.
  eexists. split; [reflexivity|]. cbn. split; [|split; auto].
  - unfold Sim. cbn. rewrite S2. auto.
  - unfold BlkInv. cbn. intro HB. rewrite HB, map_app. reflexivity.
Qed.

Lemma validate_txs_app : forall P hdr gp l1 l2 v v1,
  validate_txs P hdr gp l1 v = (v1, None) ->
  validate_txs P hdr gp (l1 ++ l2) v = validate_txs P hdr gp l2 v1.
Proof.
  induction l1 as [|a r IH]; cbn; intros l2 v v1 H.
  - inversion H; subst. reflexivity.
  - destruct (execute_transaction_and_commit P hdr gp a v) as [v2 [e|]]; [inversion H|].
    apply IH. exact H.
Qed.

Lemma Sim_skip : forall s v id e,
  Sim s v -> Sim (mkRun (r_st s) (add_skipped (r_d s) id e) (r_blk s) (r_inc s)) v.
Proof. intros s v id e (A & B & C). unfold Sim. cbn. auto. Qed.

Lemma process_batch_sim : forall P hdr gp b s s' v,
  found_mint (r_d s) = false ->
  process_batch P hdr gp b s = (s', None) -> clean (r_d s') = true -> Sim s v ->
  exists inc v', r_inc s' = r_inc s ++ inc /\
    validate_txs P hdr gp (map vatt inc) v = (v', None) /\ Sim s' v' /\ (BlkInv s -> BlkInv s').
Proof.
  induction b as [|a r IH]; intros s s' v HF H HC HS; cbn [process_batch] in H.
  - inversion H; subst. exists [], v. rewrite app_nil_r. cbn. auto.
  - destruct (t_mint (a_tx a)) eqn:HM; [inversion H|].
    destruct (remaining_gas P (r_d s) <? t_max_gas (a_tx a)).
    + eapply IH in H; eauto using Sim_skip.
    + destruct (execute_transaction_and_commit P hdr gp a s) as [s1 e1] eqn:E1.
      pose proof (etc_chargeable_facts _ _ _ _ _ _ _ HM HF E1) as (T1 & T2 & T3 & T4 & T5 & T6 & T7 & T8).
      destruct e1 as [e1|].
      * pose proof (process_batch_clean _ _ _ _ (mkRun (r_st s1) (add_skipped (r_d s1) (t_id (a_tx a)) e1) (r_blk s1) (r_inc s1)) _ _ T2 H HC) as HC1.
        cbn [r_d] in HC1. rewrite clean_add_skipped in HC1. apply andb_prop in HC1.
        destruct HC1 as [_ HL]. apply negb_true_iff in HL.
        destruct (T8 e1 eq_refl) as (_ & _ & T9). specialize (T9 HL). subst s1.
        eapply IH in H; eauto using Sim_skip.
      * destruct (etc_sim _ _ _ _ _ _ _ E1 HS) as (v1 & V1 & V2 & V3 & V4).
        eapply IH in H; eauto. destruct H as (inc & v' & I1 & I2 & I3 & I4).
        exists (a :: inc), v'. splits; auto.
        -- rewrite I1, V3, <- app_assoc. reflexivity.
        -- cbn [map validate_txs]. rewrite V1. exact I2.
Qed.

Lemma process_l2_sim : forall P hdr gp bs s s' hs v,
  found_mint (r_d s) = false ->
  process_l2 P hdr gp bs s = (s', hs, None) -> clean (r_d s') = true -> Sim s v ->
  exists inc v', r_inc s' = r_inc s ++ inc /\
    validate_txs P hdr gp (map vatt inc) v = (v', None) /\ Sim s' v' /\ (BlkInv s -> BlkInv s') /\
    found_mint (r_d s') = false.
Proof.
  induction bs as [|b r IH]; intros s s' hs v HF H HC HS; cbn [process_l2] in H.
  - inversion H; subst. exists [], v. rewrite app_nil_r. cbn. auto.
  - destruct (firstn (N.to_nat (remaining_count P (r_d s))) b) as [|a b'] eqn:EF.
    + inversion H; subst. exists [], v. rewrite app_nil_r. cbn. auto.
    + destruct (process_batch P hdr gp (a :: b') s) as [s1 [e1|]] eqn:E1; [inversion H|].
      destruct (process_l2 P hdr gp r s1) as [[s2 hs2] e2] eqn:E2. inversion H; subst. clear H.
      pose proof (process_batch_basic _ _ _ _ _ _ _ HF E1) as (B1 & _).
      pose proof (process_l2_facts _ _ _ _ _ _ _ _ B1 E2) as (_ & _ & _ & _ & _ & C6 & _).
      destruct (process_batch_sim _ _ _ _ _ _ _ HF E1 (C6 HC) HS) as (inc1 & v1 & I1 & I2 & I3 & I4).
      destruct (IH _ _ _ _ B1 E2 HC I3) as (inc2 & v2 & J1 & J2 & J3 & J4 & J5).
      exists (inc1 ++ inc2), v2. splits; auto.
      * rewrite J1, I1, <- app_assoc. reflexivity.
      * rewrite map_app. rewrite (validate_txs_app _ _ _ _ _ _ _ I2). exact J2.
Qed.

Lemma tx_eqb_refl : forall t, tx_eqb t t = true.
Proof.
  intro t. unfold tx_eqb. rewrite !N.eqb_refl. cbn.
  assert (forall l, outputs_eqb l l = true).
  { induction l as [|o r IH]; cbn; auto. rewrite IH, andb_true_r.
    destruct o; cbn; rewrite !N.eqb_refl; reflexivity. }
  rewrite H. reflexivity.
Qed.
Lemma txs_match_refl : forall l, txs_match l l = None.
Proof. induction l; cbn; auto. rewrite tx_eqb_refl. auto. Qed.
Lemma listN_eqb_refl : forall l, listN_eqb l l = true.
Proof. induction l; cbn; auto. rewrite N.eqb_refl. auto. Qed.

(* C01 (partial): production followed by validation of the produced block on the same
   state - when the oracles answer in validation as they did in production - is accepted
   and leaves the same storage, block, statuses, events and counters *)
Theorem produce_then_validate_partial_all : forall P hdr c l bs ma st p,
  l_enabled l = false ->
  produce_block P hdr c l bs ma st = (p, None) ->
  clean (r_d (pr_run p)) = true ->
  exists v, validate_block P hdr l (block_of_run (pr_run p)) st = (v, None) /\
            r_st v = r_st (pr_run p) /\ r_blk v = r_blk (pr_run p) /\
            r_d v = noskip (r_d (pr_run p)).
Proof.
  intros P hdr c l bs ma st p HL H HC. unfold produce_block, process_l1 in H. rewrite HL in H.
  destruct (process_l2 P hdr (c_gas_price c) bs (mkRun st data_new [] [])) as [[s2 hs] [e2|]] eqn:E2;
    [inversion H|].
  destruct (execute_transaction_and_commit _ _ _ _ s2) as [s3 [e3|]] eqn:E3; inversion H; subst. clear H.
  cbn [pr_run] in *.
  pose proof (etc_mint_facts P hdr (c_gas_price c) (mint_att P c (r_d s2) ma) s2 s3 eq_refl E3) as (_ & _ & _ & _ & _ & _ & _ & _ & _ & _ & _ & M12 & _).
  assert (HC2 : clean (r_d s2) = true) by (unfold clean in *; rewrite <- M12; exact HC).
  set (v0 := mkRun st data_new [] []).
  assert (S0 : Sim v0 v0) by (unfold Sim; auto).
  destruct (process_l2_sim P hdr (c_gas_price c) bs v0 s2 hs v0 eq_refl E2 HC2 S0) as (inc & v2 & I1 & I2 & I3 & I4 & I5).
  destruct (etc_sim _ _ _ _ _ _ _ E3 I3) as (v3 & V1 & V2 & V3 & V4).
  cbn in I1. set (m := mint_att P c (r_d s2) ma) in *.
  assert (HB : BlkInv s3) by (apply V4, I4; reflexivity).
  exists v3. destruct V2 as (W1 & W2 & W3). splits; auto.
  unfold validate_block, block_of_run, block_of. cbn [b_txs b_msg_ids b_inbox_root b_root_ok].
  rewrite V3, I1, map_app. cbn [map]. rewrite map_app. cbn [map]. rewrite last_last.
  assert (HMt : t_mint (a_tx (vatt m)) = true).
  { unfold vatt, exec_form, m, mint_att. cbn. destruct (a_vm ma); reflexivity. }
  rewrite HMt. unfold process_l1. rewrite HL. cbn [r_blk length skipn].
  assert (HP : t_mint_price (a_tx (vatt m)) = c_gas_price c).
  { unfold vatt, exec_form, m, mint_att. cbn. destruct (a_vm ma); reflexivity. }
  rewrite HP.
  rewrite (validate_txs_app _ _ _ _ _ _ _ I2). cbn [validate_txs]. fold m. rewrite V1.
  unfold check_block_matches. cbn [b_txs b_msg_ids b_inbox_root b_root_ok].
  rewrite W2. unfold BlkInv in HB. rewrite HB, V3, I1.
  rewrite !map_app. cbn [map]. rewrite !map_map.
  assert (HE : map (fun x => a_tx (vatt x)) inc = map exec_form inc) by reflexivity.
  rewrite HE. change (a_tx (vatt m)) with (exec_form m).
  rewrite txs_match_refl, !app_length, !map_length, Nat.eqb_refl. cbn [length].
  rewrite W3. cbn [message_ids inbox_root noskip]. rewrite !listN_eqb_refl. reflexivity.
Qed.

(* ... and without the cleanliness hypothesis the statement is false: the skipped
   transaction of Proofs04 (output colliding with an existing utxo id) leaves its
   CoinConsumed event in the production result, while validation of the produced block
   reports no event *)
Definition ex_mint := mkAtt (mkTx 9 true [] [] 0 0 0 0 0 0 0 true) false u32max true true true None 13 true.

Theorem produce_then_validate_refuted_all :
  exists P hdr c l bs ma st p v,
    l_enabled l = false /\
    produce_block P hdr c l bs ma st = (p, None) /\
    validate_block P hdr l (block_of_run (pr_run p)) st = (v, None) /\
    events (r_d v) <> events (r_d (pr_run p)).
Proof.
  exists ex_P, ex_hdr, (mkComp 0 1), (mkL1 false None []), [[ex_att]], ex_mint, ex_st.
  eexists. eexists. split; [reflexivity|]. split; [vm_compute; reflexivity|].
  split; [vm_compute; reflexivity|]. vm_compute. discriminate.
Qed.

(* C45 (call-graph argument only): the model's dry run is a function of the view and the
   request and has no storage output *)
Lemma dry_run_function_all : forall P hdr c txs st1 st2,
  st1 = st2 -> dry_run P hdr c txs st1 = dry_run P hdr c txs st2.
Proof. intros. subst. reflexivity. Qed.

(* non-vacuity: a block with one executed script (coin spent, change created) and its mint
   is produced and then accepted by validation *)
Definition nv_st := mkSt [((100, 0), ex_coinA)] [] [] [] [].
Definition nv_tx := mkTx 7 false [InCoin (100, 0) 5 100 0] [OutChange 5 0 0] 50 1000 200 0 0 0 0 true.
Definition nv_att := mkAtt nv_tx false u32max true true true
                           (Some (mkVmOut false [OutChange 5 90 0] 51 [] 0 (Some (10, 10)))) 13 true.
Example produce_validate_nonvacuous :
  exists p v, produce_block ex_P ex_hdr (mkComp 0 1) (mkL1 false None []) [[nv_att]] ex_mint nv_st = (p, None) /\
              clean (r_d (pr_run p)) = true /\ length (r_blk (pr_run p)) = 2%nat /\
              validate_block ex_P ex_hdr (mkL1 false None []) (block_of_run (pr_run p)) nv_st = (v, None) /\
              events (r_d v) = [CoinConsumed (100, 0) ex_coinA; CoinCreated (7, 0) (mkCoin 5 90 0 1 0)].
Proof. eexists. eexists. repeat split; vm_compute; reflexivity. Qed.
