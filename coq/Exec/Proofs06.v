(* C06: the processed-ids invariant.  Holds for every option setting (forbid_fake_coins on
   or off, relayer on or off), for production and for validation, and whatever the outcome
   of a run is (also for runs that end in an error). *)
From FC Require Import Exec.Model Exec.ProofsMap.
From Coq Require Import ZifyBool ZifyN.
Open Scope N_scope.

Lemma spend_processed : forall f rev ins st st' ev e,
  spend f rev ins st = (st', ev, e) -> processed st' = processed st.
Proof.
  induction ins as [|i r IH]; cbn; intros st st' ev e H.
  - inversion H; auto.
  - destruct i as [k o a s|n sd rc am dt rt|cid].
    + destruct (lookup utxo_eqb k (coins st)).
      * destruct (spend f rev r _) as [[st1 ev1] e1] eqn:E1. inversion H; subst.
        apply IH in E1. auto.
      * destruct f; [inversion H; auto|].
        destruct (spend false rev r st) as [[st1 ev1] e1] eqn:E1. inversion H; subst.
        apply IH in E1. auto.
    + destruct (rt && rev); [eapply IH; eauto|].
      destruct (lookup N.eqb n (msgs st)); [|inversion H; auto].
      destruct (spend f rev r _) as [[st1 ev1] e1] eqn:E1. inversion H; subst.
      apply IH in E1. auto.
    + eapply IH; eauto.
Qed.

Lemma persist_processed : forall h txc id ins outs idx st st' ev e,
  persist h txc id ins outs idx st = (st', ev, e) -> processed st' = processed st.
Proof.
  induction outs as [|o r IH]; cbn; intros idx st st' ev e H.
  - inversion H; auto.
  - destruct (u16max <? idx); [inversion H; auto|].
    assert (Hcoin : forall t a s,
      (if 0 <? a
       then match lookup utxo_eqb (id, idx) (coins st) with
            | Some _ => (st, [], Some E_OutputAlreadyExists)
            | None =>
                let '(st'0, ev0, e) :=
                  persist h txc id ins r (idx + 1)
                    (set_coins st (insert utxo_eqb (id, idx) (mkCoin t a s h txc) (coins st))) in
                (st'0, CoinCreated (id, idx) (mkCoin t a s h txc) :: ev0, e)
            end
       else persist h txc id ins r (idx + 1) st) = (st', ev, e) -> processed st' = processed st).
    { intros t a s H0. destruct (0 <? a).
      - destruct (lookup utxo_eqb (id, idx) (coins st)); [inversion H0; auto|].
        destruct (persist h txc id ins r (idx + 1)
                    (set_coins st (insert utxo_eqb (id, idx) (mkCoin t a s h txc) (coins st)))) as [[st1 ev1] e1] eqn:E1.
        inversion H0; subst. apply IH in E1. auto.
      - eapply IH; eauto. }
    destruct o as [t a s|t a s|t a s|ii rt|cid rt]; try (apply (Hcoin t a s); exact H).
    + destruct (nth_error ins (N.to_nat ii)) as [[| |cid]|]; try (inversion H; auto; fail).
      apply IH in H. auto.
    + apply IH in H. auto.
Qed.

Lemma execute_transaction_ids : forall P hdr gp a st d d' st' tx',
  execute_transaction P hdr gp a st d = (d', inl (st', tx')) ->
  ~ In (t_id (a_tx a)) (processed st) /\
  processed st' = t_id (a_tx a) :: processed st /\ t_id tx' = t_id (a_tx a).
Proof.
  intros P hdr gp a st d d' st' tx' H. unfold execute_transaction in H.
  destruct (found_mint d); [inversion H|].
  destruct (mem (t_id (a_tx a)) (processed st)) eqn:EM; [inversion H|].
  apply mem_false in EM. split; auto.
  destruct (convert_tx hdr a); [inversion H|].
  destruct (t_mint (a_tx a)).
  - unfold execute_mint in H.
    destruct (negb (t_mint_index (a_tx a) =? tx_count (set_found_mint d))); [inversion H|].
    destruct (negb (t_mint_price (a_tx a) =? gp)); [inversion H|].
    match type of H with (match ?b with _ => _ end) = _ => destruct b as [st1|e] eqn:EB end; [|inversion H].
    assert (T1 : processed st1 = processed st).
    { destruct (t_mint_cid (a_tx a) =? 0).
      - destruct (negb (t_mint_amount (a_tx a) =? 0)); [discriminate|].
        destruct (negb (t_mint_default_io (a_tx a))); inversion EB; subst; auto.
      - destruct (negb (t_mint_amount (a_tx a) =? coinbase (set_found_mint d))); [discriminate|].
        destruct (p_forbid P && _); [discriminate|].
        destruct (negb (a_mint_vm_ok a)); inversion EB; subst; auto. }
    destruct (mem (t_id (a_tx a)) (processed st1)); inversion H; subst. cbn. rewrite T1.
    split; auto. destruct (a_vm a); auto.
  - unfold execute_chargeable in H.
    match type of H with (match ?b with _ => _ end) = _ => destruct b end; [inversion H|].
    destruct (a_vm a) as [o|]; [|inversion H].
    destruct (compute_inputs (p_forbid P) st (t_inputs (a_tx a))); [inversion H|].
    set (st0 := if v_reverted o then st else if v_changes o =? 0 then st else set_cstate st (cstate st ++ [v_changes o])) in *.
    assert (T0 : processed st0 = processed st).
    { unfold st0. destruct (v_reverted o); auto. destruct (v_changes o =? 0); auto. }
    destruct (spend (p_forbid P) (v_reverted o) (t_inputs (a_tx a)) st0) as [[st1 ev1] e1] eqn:E1.
    destruct e1; [inversion H|].
    destruct (persist _ _ _ _ _ 0 st1) as [[st2 ev2] e2] eqn:E2.
    destruct e2; [inversion H|].
    destruct (update_execution_data _ o _ _) as [d3 e3] eqn:E3.
    destruct e3; inversion H; subst. cbn.
    apply spend_processed in E1. apply persist_processed in E2. rewrite E2, E1, T0. auto.
Qed.

Definition IdInv (st0 : St) (s : Run) : Prop :=
  processed (r_st s) = rev (map t_id (r_blk s)) ++ processed st0 /\
  NoDup (map t_id (r_blk s)) /\
  (forall x, In x (map t_id (r_blk s)) -> ~ In x (processed st0)).

Lemma IdInv_init : forall st d, IdInv st (mkRun st d [] []).
Proof. intros. repeat split; cbn; auto. constructor. Qed.

(* same storage and block, other data: the invariant does not look at the data *)
Lemma IdInv_data : forall st0 s d i, IdInv st0 s -> IdInv st0 (mkRun (r_st s) d (r_blk s) i).
Proof. intros st0 s d i H. exact H. Qed.

Lemma etc_idinv : forall P hdr gp a s s' e st0,
  IdInv st0 s -> execute_transaction_and_commit P hdr gp a s = (s', e) -> IdInv st0 s'.
Proof.
  intros P hdr gp a s s' e st0 (IP & II & IF) H. unfold execute_transaction_and_commit in H.
  destruct (execute_transaction P hdr gp a (r_st s) (r_d s)) as [d' [[st' tx']|e0]] eqn:E.
  - apply execute_transaction_ids in E. destruct E as (Fr & Pp & Tid).
    assert (Hnew : ~ In (t_id (a_tx a)) (map t_id (r_blk s))).
    { intro Hin. apply Fr. rewrite IP. apply in_or_app. left. apply -> in_rev. exact Hin. }
    assert (Inv' : forall d'' i, IdInv st0 (mkRun st' d'' (r_blk s ++ [tx']) i)).
    { intros d'' i. unfold IdInv. cbn. rewrite map_app. cbn. rewrite Tid. split; [|split].
      - rewrite Pp, IP, rev_app_distr. reflexivity.
      - apply NoDup_app_intro; auto. constructor; auto. constructor.
        intros x Hx [Hx'|[]]. subst. contradiction.
      - intros x Hx. apply in_app_or in Hx. destruct Hx as [Hx|[Hx|[]]]; auto.
        subst. intro Hin. apply Fr. rewrite IP. apply in_or_app. right. exact Hin. }
    destruct (checked_add u16max (tx_count (r_d s)) 1); inversion H; subst; apply Inv'.
  - inversion H; subst. unfold IdInv. cbn. auto.
Qed.

Lemma process_batch_idinv : forall P hdr gp b s s' e st0,
  IdInv st0 s -> process_batch P hdr gp b s = (s', e) -> IdInv st0 s'.
Proof.
  induction b as [|a r IH]; cbn; intros s s' e st0 Inv H.
  - inversion H; subst; auto.
  - destruct (t_mint (a_tx a)); [inversion H; subst; auto|].
    destruct (remaining_gas P (r_d s) <? t_max_gas (a_tx a)).
    + eapply IH; [|eauto]. apply IdInv_data. auto.
    + destruct (execute_transaction_and_commit P hdr gp a s) as [s1 [e1|]] eqn:E;
        (eapply IH; [|eauto]); eapply etc_idinv in E; eauto.
Qed.

Lemma process_l2_idinv : forall P hdr gp bs s s' hs e st0,
  IdInv st0 s -> process_l2 P hdr gp bs s = (s', hs, e) -> IdInv st0 s'.
Proof.
  induction bs as [|b r IH]; intros s s' hs e st0 Inv H; cbn [process_l2] in H.
  - inversion H; subst; auto.
  - destruct (firstn (N.to_nat (remaining_count P (r_d s))) b) as [|a b'] eqn:EF.
    + inversion H; subst; auto.
    + destruct (process_batch P hdr gp (a :: b') s) as [s1 [e1|]] eqn:E.
      * inversion H; subst. eapply process_batch_idinv; eauto.
      * destruct (process_l2 P hdr gp r s1) as [[s2 hs2] e2] eqn:E2. inversion H; subst.
        eapply IH; [|eauto]. eapply process_batch_idinv; eauto.
Qed.

Lemma da_events_processed : forall da evs st st' ev fs hs e,
  da_events da evs st = (st', ev, fs, hs, e) -> processed st' = processed st.
Proof.
  induction evs as [|x r IH]; cbn; intros st st' ev fs hs e H.
  - inversion H; auto.
  - destruct x as [h n m|h id p mt cl ac ck a].
    + destruct (negb (m_da m =? da)); [inversion H; auto|].
      destruct (da_events da r _) as [[[[st1 ev1] f1] h1] e1] eqn:E1. inversion H; subst.
      apply IH in E1. auto.
    + destruct (da_events da r st) as [[[[st1 ev1] f1] h1] e1] eqn:E1.
      destruct (forced_ok p mt cl ac ck); inversion H; subst; apply IH in E1; auto.
Qed.

Lemma da_range_processed : forall n da rel st st' ev fs hs e,
  da_range n da rel st = (st', ev, fs, hs, e) -> processed st' = processed st.
Proof.
  induction n as [|n IH]; cbn; intros da rel st st' ev fs hs e H.
  - inversion H; auto.
  - destruct (da_events da _ st) as [[[[st1 ev1] f1] h1] [e1|]] eqn:E1.
    + inversion H; subst. eapply da_events_processed; eauto.
    + destruct (da_range n (da + 1) rel st1) as [[[[st2 ev2] f2] h2] e2] eqn:E2.
      inversion H; subst. apply IH in E2. apply da_events_processed in E1. congruence.
Qed.

Lemma process_relayed_idinv : forall P hdr fs s st0,
  IdInv st0 s -> IdInv st0 (process_relayed P hdr fs s).
Proof.
  induction fs as [|a r IH]; cbn; intros s st0 Inv; auto.
  destruct (execute_transaction_and_commit P hdr 0 a s) as [s1 [e1|]] eqn:E;
    apply IH; eapply etc_idinv in E; eauto.
Qed.

Lemma process_l1_idinv : forall P hdr l s s' e st0,
  IdInv st0 s -> process_l1 P hdr l s = (s', e) -> IdInv st0 s'.
Proof.
  intros P hdr l s s' e st0 Inv H. unfold process_l1 in H.
  destruct (l_enabled l); [|inversion H; subst; auto].
  destruct (process_da hdr l s) as [[s1 fs] e1] eqn:E.
  assert (Inv1 : IdInv st0 s1).
  { unfold process_da in E.
    destruct (h_height hdr =? 0); [inversion E; subst; auto|].
    destruct (l_prev_da l) as [p|]; [|inversion E; subst; auto].
    destruct (p =? u64max); [inversion E; subst; auto|].
    destruct (da_range _ _ _ (r_st s)) as [[[[st1 ev1] f1] h1] e2] eqn:E2.
    apply da_range_processed in E2.
    destruct Inv as (IP & II & IF).
    destruct e2; inversion E; subst; unfold IdInv; cbn; rewrite E2; auto. }
  destruct e1; inversion H; subst; auto. apply process_relayed_idinv; auto.
Qed.

(* production: whatever the source, the options and the outcome *)
Theorem produce_block_ids_all : forall P hdr c l bs ma st p e,
  produce_block P hdr c l bs ma st = (p, e) -> IdInv st (pr_run p).
Proof.
  intros P hdr c l bs ma st p e H. unfold produce_block in H.
  destruct (process_l1 P hdr l _) as [s1 [e1|]] eqn:E1.
  - inversion H; subst. cbn. eapply process_l1_idinv; eauto using IdInv_init.
  - destruct (process_l2 P hdr (c_gas_price c) bs s1) as [[s2 hs] [e2|]] eqn:E2.
    + inversion H; subst. cbn. eapply process_l2_idinv; [|eauto]. eapply process_l1_idinv; eauto using IdInv_init.
    + destruct (execute_transaction_and_commit _ _ _ _ s2) as [s3 e3] eqn:E3.
      assert (IdInv st s3).
      { eapply etc_idinv; [|eauto]. eapply process_l2_idinv; [|eauto].
        eapply process_l1_idinv; eauto using IdInv_init. }
      destruct e3; inversion H; subst; auto.
Qed.

Lemma validate_txs_idinv : forall P hdr gp atts s s' e st0,
  IdInv st0 s -> validate_txs P hdr gp atts s = (s', e) -> IdInv st0 s'.
Proof.
  induction atts as [|a r IH]; cbn; intros s s' e st0 Inv H.
  - inversion H; subst; auto.
  - destruct (execute_transaction_and_commit P hdr gp a s) as [s1 [e1|]] eqn:E.
    + inversion H; subst. eapply etc_idinv; eauto.
    + eapply IH; [|eauto]. eapply etc_idinv; eauto.
Qed.

Theorem validate_block_ids_all : forall P hdr l blk st s e,
  validate_block P hdr l blk st = (s, e) -> IdInv st s.
Proof.
  intros P hdr l blk st s e H. unfold validate_block in H.
  destruct (last (map Some (b_txs blk)) None) as [m|]; [|inversion H; subst; apply IdInv_init].
  destruct (t_mint (a_tx m)); [|inversion H; subst; apply IdInv_init].
  destruct (process_l1 P hdr l _) as [s1 [e1|]] eqn:E1.
  - inversion H; subst. eapply process_l1_idinv; eauto using IdInv_init.
  - destruct (validate_txs _ _ _ _ s1) as [s2 [e2|]] eqn:E2; inversion H; subst;
      (eapply validate_txs_idinv; [|eauto]); eapply process_l1_idinv; eauto using IdInv_init.
Qed.

(* an accepted block carries exactly the ids that were executed *)
Lemma txs_match_ids : forall new old,
  txs_match new old = None -> length new = length old -> map t_id new = map t_id old.
Proof.
  induction new as [|n r IH]; destruct old as [|o r']; cbn; intros H L; try discriminate; auto.
  destruct (tx_eqb n o) eqn:E; [|discriminate].
  unfold tx_eqb in E. apply andb_prop in E. destruct E as [E _]. apply andb_prop in E. destruct E as [E _].
  apply N.eqb_eq in E. rewrite E. f_equal. apply IH; auto.
Qed.

Lemma validate_block_ok_ids : forall P hdr l blk st s,
  validate_block P hdr l blk st = (s, None) ->
  map t_id (r_blk s) = map (fun a => t_id (a_tx a)) (b_txs blk).
Proof.
  intros P hdr l blk st s H. unfold validate_block in H.
  destruct (last (map Some (b_txs blk)) None) as [m|]; [|inversion H].
  destruct (t_mint (a_tx m)); [|inversion H].
  destruct (process_l1 P hdr l _) as [s1 [e1|]]; [inversion H|].
  destruct (validate_txs _ _ _ _ s1) as [s2 [e2|]]; [inversion H|].
  inversion H; subst. clear H. unfold check_block_matches in H2.
  destruct (txs_match (r_blk s) (map a_tx (b_txs blk))) eqn:E; [discriminate|].
  destruct (Nat.eqb (length (r_blk s)) (length (b_txs blk))) eqn:EL; [|discriminate].
  apply Nat.eqb_eq in EL.
  rewrite (txs_match_ids _ _ E); [rewrite map_map; reflexivity|].
  rewrite map_length. exact EL.
Qed.

(* C06, validation: duplicates are rejected *)
Theorem validate_rejects_duplicate_all : forall P hdr l blk st s,
  validate_block P hdr l blk st = (s, None) ->
  NoDup (map (fun a => t_id (a_tx a)) (b_txs blk)) /\
  (forall x, In x (map (fun a => t_id (a_tx a)) (b_txs blk)) -> ~ In x (processed st)) /\
  processed (r_st s) = rev (map (fun a => t_id (a_tx a)) (b_txs blk)) ++ processed st.
Proof.
  intros P hdr l blk st s H.
  pose proof (validate_block_ids_all _ _ _ _ _ _ _ H) as (IP & II & IF).
  rewrite (validate_block_ok_ids _ _ _ _ _ _ H) in *. auto.
Qed.

(* histories of accepted blocks, any relayer setting *)
Fixpoint accept_chain (P : Params) (bs : list (Header * L1 * Block)) (st : St)
  : option (St * list N) :=
  match bs with
  | [] => Some (st, [])
  | (hdr, l, blk) :: r =>
      match validate_block P hdr l blk st with
      | (s, None) =>
          match accept_chain P r (r_st s) with
          | Some (st', ids) => Some (st', map (fun a => t_id (a_tx a)) (b_txs blk) ++ ids)
          | None => None
          end
      | (_, Some _) => None
      end
  end.

Theorem no_reexecution_all : forall P bs st st' ids,
  accept_chain P bs st = Some (st', ids) ->
  NoDup ids /\ (forall x, In x ids -> ~ In x (processed st)) /\
  processed st' = rev ids ++ processed st.
Proof.
  induction bs as [|[[hdr l] blk] r IH]; cbn; intros st st' ids H.
  - inversion H; subst. cbn. repeat split; auto. constructor.
  - destruct (validate_block P hdr l blk st) as [s [e|]] eqn:E; [inversion H|].
    destruct (accept_chain P r (r_st s)) as [[st2 ids2]|] eqn:E2; [|inversion H].
    inversion H; subst. clear H.
    apply validate_rejects_duplicate_all in E. destruct E as (N1 & F1 & P1).
    apply IH in E2. destruct E2 as (N2 & F2 & P2).
    split; [|split].
    + apply NoDup_app_intro; auto. intros x H1 H2. apply (F2 x H2). rewrite P1.
      apply in_or_app. left. apply -> in_rev. auto.
    + intros x Hx. apply in_app_or in Hx. destruct Hx as [Hx|Hx]; auto.
      intro Hin. apply (F2 x Hx). rewrite P1. apply in_or_app. right. auto.
    + rewrite P2, P1, rev_app_distr, app_assoc. reflexivity.
Qed.
