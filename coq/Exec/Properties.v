(* Property theorems of the Exec cluster (C02, C06, ...).  Nothing but statements, [exact]
   and Print Assumptions.  Scope of the model: see the header of Exec/Model.v. *)
From FC Require Import Exec.Model Exec.ProofsMap Exec.Proofs02 Exec.Proofs06.
Open Scope N_scope.

(* ------------------------------------------------------------------ C02 *)
(* For every block accepted by validation (utxo validation on, relayer off): the strict
   replay of the reported events - a consumed coin / message must be present with exactly
   the reported value, a created coin must have a positive amount and an unused utxo id -
   transforms the coin and message tables before the block into the tables after it; the
   created utxo ids are pairwise distinct and belong to transaction ids never processed
   before the block. *)
Theorem block_conserves : forall P hdr l blk st s,
  p_forbid P = true -> l_enabled l = false ->
  validate_block P hdr l blk st = (s, None) ->
  ConserveSpec (tables_of st) (events (r_d s)) (tables_of (r_st s)) (processed st).
Proof. exact block_conserves_all. Qed.
Print Assumptions block_conserves.

(* Lifted over any sequence of accepted blocks: the concatenated events replay the genesis
   tables into the final tables; no message nonce is consumed twice; no utxo id is consumed
   twice provided no genesis coin sits on a utxo id that a later transaction creates. *)
Theorem history_conserves : forall P bs st st' ev ids,
  p_forbid P = true -> Forall (fun b => l_enabled (snd (fst b)) = false) bs ->
  accept_history P bs st = Some (st', ev, ids) ->
  ConserveSpec (tables_of st) ev (tables_of st') (processed st) /\
  NoDup (consumed_msgs ev) /\
  ((forall k, lookup utxo_eqb k (coins st) <> None -> ~ In k (created_keys ev)) ->
   NoDup (consumed_keys ev)).
Proof. exact history_conserves_all. Qed.
Print Assumptions history_conserves.

(* the decidable checker evaluated on the implementation's tables and events *)
Theorem conserve_okb_sound : forall pre evs post proc,
  conserve_okb pre evs post proc = true <-> ConserveSpec pre evs post proc.
Proof. exact conserve_okb_sound_all. Qed.
Print Assumptions conserve_okb_sound.

(* ------------------------------------------------------------------ C06 *)
(* Production, any source / options / relayer setting / outcome: the ids of the transactions
   put into the block are pairwise distinct, none was processed before, and the processed
   set grows by exactly these ids. *)
Theorem produce_block_ids : forall P hdr c l bs ma st p e,
  produce_block P hdr c l bs ma st = (p, e) -> IdInv st (pr_run p).
Proof. exact produce_block_ids_all. Qed.
Print Assumptions produce_block_ids.

(* Validation accepts a block only if its transaction ids (mint included) are pairwise
   distinct and none of them has been processed before. *)
Theorem validate_rejects_duplicate : forall P hdr l blk st s,
  validate_block P hdr l blk st = (s, None) ->
  NoDup (map (fun a => t_id (a_tx a)) (b_txs blk)) /\
  (forall x, In x (map (fun a => t_id (a_tx a)) (b_txs blk)) -> ~ In x (processed st)) /\
  processed (r_st s) = rev (map (fun a => t_id (a_tx a)) (b_txs blk)) ++ processed st.
Proof. exact validate_rejects_duplicate_all. Qed.
Print Assumptions validate_rejects_duplicate.

(* In any history of accepted blocks no transaction id occurs twice. *)
Theorem no_reexecution : forall P bs st st' ids,
  accept_chain P bs st = Some (st', ids) ->
  NoDup ids /\ (forall x, In x ids -> ~ In x (processed st)) /\
  processed st' = rev ids ++ processed st.
Proof. exact no_reexecution_all. Qed.
Print Assumptions no_reexecution.
