(* Property theorems of the Exec cluster (C02, C06, ...).  Nothing but statements, [exact]
   and Print Assumptions.  Scope of the model: see the header of Exec/Model.v. *)
From FC Require Import Exec.Model Exec.ProofsMap Exec.Proofs02 Exec.Proofs06 Exec.Proofs04 Exec.Proofs03
  Exec.Proofs01 Exec.Proofs05.
From FC Require Import Common.Sha256 Common.Merkle.
Open Scope N_scope.

(* ------------------------------------------------------------------ C02 *)
(* For every block accepted by validation (utxo validation on, relayer off): the strict
   replay of the reported events - a consumed coin / message must be present with exactly
   the reported value, a created coin must have a positive amount and an unused utxo id -
   transforms the coin and message tables before the block into the tables after it; the
   created utxo ids are pairwise distinct and belong to transaction ids never processed
   before the block. *)
Theorem block_conserves : forall P hdr l blk st s,
  p_forbid P = true -> l_enabled l = false ->
  validate_block P hdr l blk st = (s, None) ->
  ConserveSpec (tables_of st) (events (r_d s)) (tables_of (r_st s)) (processed st).
Proof. exact block_conserves_all. Qed.
Print Assumptions block_conserves.

(* Lifted over any sequence of accepted blocks: the concatenated events replay the genesis
   tables into the final tables; no message nonce is consumed twice; no utxo id is consumed
   twice provided no genesis coin sits on a utxo id that a later transaction creates. *)
Theorem history_conserves : forall P bs st st' ev ids,
  p_forbid P = true -> Forall (fun b => l_enabled (snd (fst b)) = false) bs ->
  accept_history P bs st = Some (st', ev, ids) ->
  ConserveSpec (tables_of st) ev (tables_of st') (processed st) /\
  NoDup (consumed_msgs ev) /\
  ((forall k, lookup utxo_eqb k (coins st) <> None -> ~ In k (created_keys ev)) ->
   NoDup (consumed_keys ev)).
Proof. exact history_conserves_all. Qed.
Print Assumptions history_conserves.

(* the decidable checker evaluated on the implementation's tables and events *)
Theorem conserve_okb_sound : forall pre evs post proc,
  conserve_okb pre evs post proc = true <-> ConserveSpec pre evs post proc.
Proof. exact conserve_okb_sound_all. Qed.
Print Assumptions conserve_okb_sound.

(* ------------------------------------------------------------------ C06 *)
(* Production, any source / options / relayer setting / outcome: the ids of the transactions
   put into the block are pairwise distinct, none was processed before, and the processed
   set grows by exactly these ids. *)
Theorem produce_block_ids : forall P hdr c l bs ma st p e,
  produce_block P hdr c l bs ma st = (p, e) -> IdInv st (pr_run p).
Proof. exact produce_block_ids_all. Qed.
Print Assumptions produce_block_ids.

(* Validation accepts a block only if its transaction ids (mint included) are pairwise
   distinct and none of them has been processed before. *)
Theorem validate_rejects_duplicate : forall P hdr l blk st s,
  validate_block P hdr l blk st = (s, None) ->
  NoDup (map (fun a => t_id (a_tx a)) (b_txs blk)) /\
  (forall x, In x (map (fun a => t_id (a_tx a)) (b_txs blk)) -> ~ In x (processed st)) /\
  processed (r_st s) = rev (map (fun a => t_id (a_tx a)) (b_txs blk)) ++ processed st.
Proof. exact validate_rejects_duplicate_all. Qed.
Print Assumptions validate_rejects_duplicate.

(* In any history of accepted blocks no transaction id occurs twice. *)
Theorem no_reexecution : forall P bs st st' ids,
  accept_chain P bs st = Some (st', ids) ->
  NoDup ids /\ (forall x, In x ids -> ~ In x (processed st)) /\
  processed st' = rev ids ++ processed st.
Proof. exact no_reexecution_all. Qed.
Print Assumptions no_reexecution.

(* ------------------------------------------------------------------ C03 *)
(* Production (relayer disabled): the block is  non-mint transactions ++ [one mint]; the
   mint's index is the number of preceding transactions, its gas price the block's, its
   recipient the configured one; on runs without a late failure (class E1) its amount is
   the sum of the fees of the included transactions, 0 for the zero recipient. *)
Theorem mint_last_and_exact : forall P hdr c l bs ma st p,
  l_enabled l = false -> p_max_tx_count P < u16max ->
  produce_block P hdr c l bs ma st = (p, None) ->
  exists txs m,
    r_blk (pr_run p) = txs ++ [m] /\ Forall nonmint txs /\ t_mint m = true /\
    t_mint_index m = N.of_nat (length txs) /\ t_mint_price m = c_gas_price c /\
    t_mint_cid m = c_recipient c /\
    (clean (r_d (pr_run p)) = true ->
     t_mint_amount m = if c_recipient c =? 0 then 0 else sumfee (tx_status (r_d (pr_run p)))).
Proof. exact mint_last_and_exact_all. Qed.
Print Assumptions mint_last_and_exact.

(* Limits, for ANY sequence of source answers [bs] (the source may ignore every hint):
   under the VM-oracle hypothesis used gas <= max_gas, the gas of the included
   transactions stays within block_gas_limit and the transaction count within u16::MAX.
   For the size only the u32 bound of the checked addition holds ... *)
Theorem limits_respected : forall P hdr c l bs ma st p,
  l_enabled l = false -> p_max_tx_count P < u16max ->
  Forall (Forall gas_ok) bs ->
  produce_block P hdr c l bs ma st = (p, None) ->
  sumgas (tx_status (r_d (pr_run p))) <= p_gas_limit P /\
  N.of_nat (length (r_blk (pr_run p))) <= u16max /\
  tx_count (r_d (pr_run p)) = N.of_nat (length (r_blk (pr_run p))) /\
  used_size (r_d (pr_run p)) <= u32max.
Proof. exact limits_respected_all. Qed.
Print Assumptions limits_respected.

(* ... and block_transaction_size_limit itself is not enforced (class E2). *)
Theorem size_limit_refuted :
  exists P hdr c l bs ma st p,
    l_enabled l = false /\ Forall (Forall gas_ok) bs /\
    produce_block P hdr c l bs ma st = (p, None) /\
    size_limit32 P < used_size (r_d (pr_run p)).
Proof. exact size_limit_refuted_all. Qed.
Print Assumptions size_limit_refuted.

(* Validation (relayer disabled) accepts only blocks of the shape  non-mint ++ [mint]  whose
   mint has the expected index and the amount = sum of the fees charged in the block at the
   mint's own gas price (0 for the zero recipient). *)
Theorem validate_rejects_bad_mint : forall P hdr l blk st s,
  l_enabled l = false ->
  validate_block P hdr l blk st = (s, None) ->
  exists txs m, b_txs blk = txs ++ [m] /\ Forall (fun a => nonmint (a_tx a)) txs /\
    t_mint (a_tx m) = true /\ t_mint_index (a_tx m) = N.of_nat (length txs) /\
    t_mint_amount (a_tx m) =
      (if t_mint_cid (a_tx m) =? 0 then 0 else sumfee (tx_status (r_d s))) /\
    coinbase (r_d s) = sumfee (tx_status (r_d s)).
Proof. exact validate_rejects_bad_mint_all. Qed.
Print Assumptions validate_rejects_bad_mint.

(* ------------------------------------------------------------------ C04 *)
(* A reverted script (utxo validation on): contract-state log and outbox untouched, fee
   charged, Failed status; all coin inputs and non-retryable message inputs consumed,
   message nonces consumed only through non-retryable inputs. *)
Theorem reverted_effects : forall P hdr a st d d' st' tx' o,
  p_forbid P = true ->
  execute_chargeable P hdr a st d = (d', inl (st', tx')) ->
  a_vm a = Some o -> v_reverted o = true ->
  cstate st' = cstate st /\
  message_ids d' = message_ids d /\
  (exists ug fee, v_fee o = Some (ug, fee) /\ coinbase d' = coinbase d + fee /\
                  tx_status d' = tx_status d ++ [mkStatus (t_id (a_tx a)) true true ug fee]) /\
  exists delta, events d' = events d ++ delta /\
    (forall k ow am s, In (InCoin k ow am s) (t_inputs (a_tx a)) -> In k (consumed_keys delta)) /\
    (forall n sd rc am dt, In (InMsg n sd rc am dt false) (t_inputs (a_tx a)) -> In n (consumed_msgs delta)) /\
    (forall n, In n (consumed_msgs delta) ->
       exists sd rc am dt, In (InMsg n sd rc am dt false) (t_inputs (a_tx a))).
Proof. exact reverted_effects_all. Qed.
Print Assumptions reverted_effects.

(* A skipped transaction: storage and block are never changed ... *)
Theorem skipped_storage_unchanged : forall P hdr gp a s s' e,
  execute_transaction_and_commit P hdr gp a s = (s', Some e) ->
  e <> E_TooManyTransactions -> r_st s' = r_st s /\ r_blk s' = r_blk s.
Proof. exact skipped_storage_unchanged_all. Qed.
Print Assumptions skipped_storage_unchanged.

(* ... and nothing at all changes when the failure is not a late one ... *)
Theorem skipped_changes_nothing_partial : forall P hdr gp a s s' e,
  t_mint (a_tx a) = false ->
  execute_transaction_and_commit P hdr gp a s = (s', Some e) ->
  late e = false -> s' = s.
Proof. exact skipped_changes_nothing_partial_all. Qed.
Print Assumptions skipped_changes_nothing_partial.

(* ... but a late failure leaves events behind (class E1). *)
Theorem skipped_changes_nothing_refuted :
  exists P hdr gp a s s' e,
    t_mint (a_tx a) = false /\
    execute_transaction_and_commit P hdr gp a s = (s', Some e) /\
    events (r_d s') <> events (r_d s).
Proof. exact skipped_changes_nothing_refuted_all. Qed.
Print Assumptions skipped_changes_nothing_refuted.

(* ------------------------------------------------------------------ C01 *)
Theorem produce_then_validate_partial : forall P hdr c l bs ma st p,
  l_enabled l = false ->
  produce_block P hdr c l bs ma st = (p, None) ->
  clean (r_d (pr_run p)) = true ->
  exists v, validate_block P hdr l (block_of_run (pr_run p)) st = (v, None) /\
            r_st v = r_st (pr_run p) /\ r_blk v = r_blk (pr_run p) /\
            r_d v = noskip (r_d (pr_run p)).
Proof. exact produce_then_validate_partial_all. Qed.
Print Assumptions produce_then_validate_partial.

Theorem produce_then_validate_refuted :
  exists P hdr c l bs ma st p v,
    l_enabled l = false /\
    produce_block P hdr c l bs ma st = (p, None) /\
    validate_block P hdr l (block_of_run (pr_run p)) st = (v, None) /\
    events (r_d v) <> events (r_d (pr_run p)).
Proof. exact produce_then_validate_refuted_all. Qed.
Print Assumptions produce_then_validate_refuted.

(* ------------------------------------------------------------------ C45 *)
(* true by construction of a functional model; the weight of C45 is on the tie (digest of
   every database column before/after real dry runs, repeated requests) *)
Theorem dry_run_function : forall P hdr c txs st1 st2,
  st1 = st2 -> dry_run P hdr c txs st1 = dry_run P hdr c txs st2.
Proof. exact dry_run_function_all. Qed.
Print Assumptions dry_run_function.

(* ------------------------------------------------------------------ C05 *)
(* process_da either fails with exactly the code's error cases, or imports - in order - the
   events of the DA heights p+1 .. d (p = DA height of the parent block, d = of this block):
   MessageImported for every message, ForcedTransactionFailed for every invalid forced
   transaction, the valid forced transactions [fs] for execution; the messages are inserted
   into the Messages table and event_inbox_root is the binary Merkle root (SHA-256) of the
   hashes of exactly these events in this order. *)
Theorem da_range_exact : forall hdr l s s' fs e,
  process_da hdr l s = (s', fs, e) ->
  match e with
  | Some e =>
      (h_height hdr = 0 /\ e = E_ExecutingGenesisBlock) \/
      (h_height hdr <> 0 /\ l_prev_da l = None /\ e = E_PreviousBlockIsNotFound) \/
      (h_height hdr <> 0 /\ l_prev_da l = Some u64max /\ e = E_DaHeightExceededItsLimit) \/
      (exists p, h_height hdr <> 0 /\ l_prev_da l = Some p /\ p <> u64max /\
                 range_ok (da_span hdr p) (p + 1) (l_relayer l) = false /\
                 e = E_RelayerGivesIncorrectMessages)
  | None =>
      exists p, h_height hdr <> 0 /\ l_prev_da l = Some p /\ p <> u64max /\
        let R := range_events (da_span hdr p) (p + 1) (l_relayer l) in
        range_ok (da_span hdr p) (p + 1) (l_relayer l) = true /\
        events (r_d s') = events (r_d s) ++ flat_map ev_of R /\
        fs = flat_map forced_of R /\
        inbox_root (r_d s') = binary_root256 (map rhash R) /\
        r_st s' = import_msgs R (r_st s) /\ r_blk s' = r_blk s
  end.
Proof. exact da_range_exact_all. Qed.
Print Assumptions da_range_exact.

(* the imported range is exactly the heights (p, d]; it is empty when d <= p *)
Theorem da_heights : forall hdr p rel e,
  In e (range_events (da_span hdr p) (p + 1) rel) <->
  exists h, p < h /\ h <= h_da hdr /\ In e (events_at rel h).
Proof. exact da_heights_all. Qed.
Print Assumptions da_heights.

Theorem da_no_advance : forall hdr p rel,
  h_da hdr <= p -> range_events (da_span hdr p) (p + 1) rel = [].
Proof. exact da_no_advance_all. Qed.
Print Assumptions da_no_advance.

(* each message of the range is in the Messages table afterwards (inserted once) when the
   relayer delivers every nonce once *)
Theorem imported_once : forall evs st h n m,
  In (RMsg h n m) evs -> NoDup (flat_map nonce_of evs) ->
  lookup N.eqb n (msgs (import_msgs evs st)) = Some m.
Proof. exact imported_once_all. Qed.
Print Assumptions imported_once.

(* every valid forced transaction is executed (its id is in the block) or reported *)
Theorem forced_executed_or_reported : forall P hdr fs s,
  let s' := process_relayed P hdr fs s in
  (forall a, In a fs ->
     In (t_id (a_tx a)) (map t_id (r_blk s')) \/ In (ForcedFailed (t_id (a_tx a))) (events (r_d s'))) /\
  (exists delta, events (r_d s') = events (r_d s) ++ delta) /\
  (exists more, map t_id (r_blk s') = map t_id (r_blk s) ++ more).
Proof. exact forced_executed_or_reported_all. Qed.
Print Assumptions forced_executed_or_reported.

Theorem relayer_disabled : forall P hdr l s,
  l_enabled l = false -> process_l1 P hdr l s = (s, None).
Proof. exact relayer_disabled_all. Qed.
Print Assumptions relayer_disabled.
