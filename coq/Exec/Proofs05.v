(* C05: process_da imports exactly the relayer events of the DA heights (prev, new]. *)
From FC Require Import Exec.Model Exec.ProofsMap Exec.Proofs02.
From FC Require Import Common.Sha256 Common.Merkle.
From Coq Require Import ZifyBool ZifyN ZifyNat.
Open Scope N_scope.

Opaque binary_root256.

Definition events_at (rel : list (N * list REvent)) (da : N) : list REvent :=
  match lookup N.eqb da rel with Some l => l | None => [] end.

(* the events of the [n] DA heights da, da+1, ..., in order *)
Fixpoint range_events (n : nat) (da : N) (rel : list (N * list REvent)) : list REvent :=
  match n with O => [] | S n' => events_at rel da ++ range_events n' (da + 1) rel end.

Definition msg_ok (da : N) (e : REvent) : bool :=
  match e with RMsg _ _ m => m_da m =? da | RTx _ _ _ _ _ _ _ _ => true end.
Fixpoint range_ok (n : nat) (da : N) (rel : list (N * list REvent)) : bool :=
  match n with
  | O => true
  | S n' => forallb (msg_ok da) (events_at rel da) && range_ok n' (da + 1) rel
  end.

Definition ev_of (e : REvent) : list Event :=
  match e with
  | RMsg _ n m => [MsgImported n m]
  | RTx _ id p mt cl ac ck _ => if forced_ok p mt cl ac ck then [] else [ForcedFailed id]
  end.
Definition forced_of (e : REvent) : list Att :=
  match e with
  | RMsg _ _ _ => []
  | RTx _ _ p mt cl ac ck a => if forced_ok p mt cl ac ck then [a] else []
  end.
Definition import_one (st : St) (e : REvent) : St :=
  match e with
  | RMsg _ n m => set_msgs st (insert N.eqb n m (msgs st))
  | RTx _ _ _ _ _ _ _ _ => st
  end.
Definition import_msgs (evs : list REvent) (st : St) : St := fold_left import_one evs st.

Lemma da_events_ok : forall da evs st,
  forallb (msg_ok da) evs = true ->
  da_events da evs st =
  (import_msgs evs st, flat_map ev_of evs, flat_map forced_of evs, map rhash evs, None).
Proof.
  induction evs as [|x r IH]; cbn [da_events forallb]; intros st H; [reflexivity|].
  apply andb_prop in H. destruct H as [H1 H2].
  destruct x as [h n m|h id p mt cl ac ck a]; cbn [msg_ok] in H1.
  - rewrite H1. cbn [negb]. rewrite (IH _ H2). reflexivity.
  - rewrite (IH _ H2). cbn [flat_map ev_of forced_of map rhash import_msgs fold_left import_one].
    destruct (forced_ok p mt cl ac ck); reflexivity.
Qed.

Lemma da_events_bad : forall da evs st,
  forallb (msg_ok da) evs = false ->
  exists st' ev fs hs, da_events da evs st = (st', ev, fs, hs, Some E_RelayerGivesIncorrectMessages).
Proof.
  induction evs as [|x r IH]; cbn [da_events forallb]; intros st H; [discriminate|].
  destruct x as [h n m|h id p mt cl ac ck a]; cbn [msg_ok] in H.
  - destruct (m_da m =? da) eqn:E; cbn [negb andb] in *.
    + destruct (IH (set_msgs st (insert N.eqb n m (msgs st))) H) as (st' & ev & fs & hs & HH).
      rewrite HH. eauto 10.
    + eauto 10.
  - cbn [andb] in H. destruct (IH st H) as (st' & ev & fs & hs & HH). rewrite HH.
    destruct (forced_ok p mt cl ac ck); eauto 10.
Qed.

Lemma import_msgs_app : forall a b st, import_msgs (a ++ b) st = import_msgs b (import_msgs a st).
Proof. intros. unfold import_msgs. apply fold_left_app. Qed.

Lemma da_range_ok : forall n da rel st,
  range_ok n da rel = true ->
  da_range n da rel st =
  (import_msgs (range_events n da rel) st, flat_map ev_of (range_events n da rel),
   flat_map forced_of (range_events n da rel), map rhash (range_events n da rel), None).
Proof.
  induction n as [|n IH]; intros da rel st H; cbn [da_range range_events range_ok] in *; [reflexivity|].
  apply andb_prop in H. destruct H as [H1 H2].
  fold (events_at rel da). rewrite (da_events_ok _ _ _ H1). rewrite (IH _ _ _ H2).
  rewrite import_msgs_app, !flat_map_app, map_app. reflexivity.
Qed.

Lemma da_range_bad : forall n da rel st,
  range_ok n da rel = false ->
  exists st' ev fs hs, da_range n da rel st = (st', ev, fs, hs, Some E_RelayerGivesIncorrectMessages).
Proof.
  induction n as [|n IH]; intros da rel st H; cbn [da_range range_ok] in *; [discriminate|].
  fold (events_at rel da).
  destruct (forallb (msg_ok da) (events_at rel da)) eqn:E1.
  - cbn [andb] in H. rewrite (da_events_ok _ _ _ E1).
    destruct (IH (da + 1) rel (import_msgs (events_at rel da) st) H) as (st' & ev & fs & hs & HH).
    rewrite HH. eauto 10.
  - destruct (da_events_bad _ _ st E1) as (st' & ev & fs & hs & HH). rewrite HH. eauto 10.
Qed.

(* which heights contribute *)
Lemma range_events_in : forall n da rel e,
  In e (range_events n da rel) <->
  exists h, da <= h /\ h < da + N.of_nat n /\ In e (events_at rel h).
Proof.
  induction n as [|n IH]; intros da rel e; cbn [range_events].
  - split; [intros []|]. intros (h & A & B & _). lia.
  - rewrite in_app_iff, IH. split.
    + intros [H|(h & A & B & C)].
      * exists da. split; [lia|]. split; [lia|auto].
      * exists h. split; [lia|]. split; [lia|auto].
    + intros (h & A & B & C). destruct (N.eq_dec h da) as [->|Hne]; [left; auto|].
      right. exists h. split; [lia|]. split; [lia|auto].
Qed.

(* ---- process_da ---- *)
Definition da_span (hdr : Header) (p : N) : nat := N.to_nat (h_da hdr - p).

Theorem da_range_exact_all : forall hdr l s s' fs e,
  process_da hdr l s = (s', fs, e) ->
  match e with
  | Some e =>
      (h_height hdr = 0 /\ e = E_ExecutingGenesisBlock) \/
      (h_height hdr <> 0 /\ l_prev_da l = None /\ e = E_PreviousBlockIsNotFound) \/
      (h_height hdr <> 0 /\ l_prev_da l = Some u64max /\ e = E_DaHeightExceededItsLimit) \/
      (exists p, h_height hdr <> 0 /\ l_prev_da l = Some p /\ p <> u64max /\
                 range_ok (da_span hdr p) (p + 1) (l_relayer l) = false /\
                 e = E_RelayerGivesIncorrectMessages)
  | None =>
      exists p, h_height hdr <> 0 /\ l_prev_da l = Some p /\ p <> u64max /\
        let R := range_events (da_span hdr p) (p + 1) (l_relayer l) in
        range_ok (da_span hdr p) (p + 1) (l_relayer l) = true /\
        events (r_d s') = events (r_d s) ++ flat_map ev_of R /\
        fs = flat_map forced_of R /\
        inbox_root (r_d s') = binary_root256 (map rhash R) /\
        r_st s' = import_msgs R (r_st s) /\ r_blk s' = r_blk s
  end.
Proof.
  intros hdr l s s' fs e H. unfold process_da in H.
  destruct (h_height hdr =? 0) eqn:EH.
  { inversion H; subst. left. split; auto. lia. }
  assert (HH : h_height hdr <> 0) by lia.
  destruct (l_prev_da l) as [p|] eqn:EP.
  2:{ inversion H; subst. right. left. auto. }
  destruct (p =? u64max) eqn:EM.
  { inversion H; subst. right. right. left. assert (p = u64max) by lia. subst. auto. }
  assert (HP : p <> u64max) by lia.
  destruct (range_ok (da_span hdr p) (p + 1) (l_relayer l)) eqn:ER.
  - unfold da_span in *. rewrite (da_range_ok _ _ _ _ ER) in H. inversion H; subst. clear H.
    exists p. cbn [r_d r_st r_blk events inbox_root add_events set_inbox_root]. splits; auto.
  - unfold da_span in *. destruct (da_range_bad _ _ _ (r_st s) ER) as (st' & ev & fs' & hs & HB).
    rewrite HB in H. inversion H; subst. right. right. right. exists p. splits; auto.
Qed.

(* no DA advance (or a DA height below the parent's): nothing is imported *)
Corollary da_no_advance_all : forall hdr p rel,
  h_da hdr <= p -> range_events (da_span hdr p) (p + 1) rel = [].
Proof.
  intros. unfold da_span. replace (h_da hdr - p) with 0 by lia. reflexivity.
Qed.

(* exactly the heights p+1 .. d *)
Corollary da_heights_all : forall hdr p rel e,
  In e (range_events (da_span hdr p) (p + 1) rel) <->
  exists h, p < h /\ h <= h_da hdr /\ In e (events_at rel h).
Proof.
  intros. rewrite range_events_in. unfold da_span. split; intros (h & A & B & C); exists h; splits; auto; lia.
Qed.

(* every imported message is in the table afterwards when its nonce occurs once *)
Definition nonce_of (e : REvent) : list N :=
  match e with RMsg _ n _ => [n] | RTx _ _ _ _ _ _ _ _ => [] end.

Lemma import_msgs_other : forall evs st k,
  ~ In k (flat_map nonce_of evs) ->
  lookup N.eqb k (msgs (import_msgs evs st)) = lookup N.eqb k (msgs st).
Proof.
  induction evs as [|x r IH]; intros st k H; cbn [import_msgs fold_left]; [reflexivity|].
  fold (import_msgs r (import_one st x)). cbn [flat_map] in H. rewrite in_app_iff in H.
  rewrite IH by tauto. destruct x as [h n m|]; cbn [import_one msgs set_msgs nonce_of] in *; auto.
  apply (lookup_insert_other N.eqb Neqb_spec). intro; subst. apply H. left. left. auto.
Qed.

Theorem imported_once_all : forall evs st h n m,
  In (RMsg h n m) evs -> NoDup (flat_map nonce_of evs) ->
  lookup N.eqb n (msgs (import_msgs evs st)) = Some m.
Proof.
  induction evs as [|x r IH]; intros st h n m HI HN; [inversion HI|].
  cbn [import_msgs fold_left]. fold (import_msgs r (import_one st x)).
  cbn [flat_map] in HN. destruct HI as [HI|HI].
  - subst x. cbn [nonce_of app] in HN. inversion HN; subst.
    rewrite import_msgs_other by auto. cbn [import_one msgs set_msgs].
    apply (lookup_insert_same N.eqb Neqb_spec).
  - apply (IH _ h); auto. destruct x; cbn [nonce_of app] in HN; auto. inversion HN; auto.
Qed.

(* ---- forced transactions: executed or reported ---- *)
Lemma update_events_any : forall d o id sz d' e,
  update_execution_data d o id sz = (d', e) -> events d' = events d.
Proof. exact update_events. Qed.

Lemma execute_transaction_events_prefix : forall P hdr gp a st d d' r,
  execute_transaction P hdr gp a st d = (d', r) -> exists delta, events d' = events d ++ delta.
Proof.
  intros P hdr gp a st d d' r H. unfold execute_transaction in H.
  assert (Z : exists delta, events d = events d ++ delta) by (exists []; rewrite app_nil_r; auto).
  destruct (found_mint d); [inversion H; subst; auto|].
  destruct (mem _ _); [inversion H; subst; auto|].
  destruct (convert_tx hdr a); [inversion H; subst; auto|].
  destruct (t_mint (a_tx a)).
  - unfold execute_mint in H.
    destruct (negb _); [inversion H; subst; auto|]. destruct (negb _); [inversion H; subst; auto|].
    match type of H with (match ?b with _ => _ end) = _ => destruct b as [st1|e] end;
      [|inversion H; subst; auto].
    destruct (mem _ _); inversion H; subst; auto.
  - unfold execute_chargeable in H.
    match type of H with (match ?b with _ => _ end) = _ => destruct b end; [inversion H; subst; auto|].
    destruct (a_vm a) as [o|]; [|inversion H; subst; auto].
    destruct (compute_inputs _ _ _); [inversion H; subst; auto|].
    match type of H with context [spend ?f ?r ?i ?s] => destruct (spend f r i s) as [[st1 ev1] [e1|]] end.
    { inversion H; subst. cbn. eauto. }
    destruct (persist _ _ _ _ _ 0 st1) as [[st2 ev2] [e2|]].
    { inversion H; subst. cbn. exists (ev1 ++ ev2). rewrite app_assoc. auto. }
    destruct (update_execution_data _ o _ _) as [d3 e3] eqn:E3. apply update_events in E3. cbn in E3.
    destruct e3; inversion H; subst; exists (ev1 ++ ev2); rewrite E3, app_assoc; auto.
Qed.

Lemma etc_monotone : forall P hdr gp a s s' e,
  execute_transaction_and_commit P hdr gp a s = (s', e) ->
  (exists delta, events (r_d s') = events (r_d s) ++ delta) /\
  (exists more, map t_id (r_blk s') = map t_id (r_blk s) ++ more) /\
  (e = None -> In (t_id (a_tx a)) (map t_id (r_blk s'))).
Proof.
  intros P hdr gp a s s' e H. unfold execute_transaction_and_commit in H.
  destruct (execute_transaction P hdr gp a (r_st s) (r_d s)) as [d' r] eqn:E.
  pose proof (execute_transaction_events_prefix _ _ _ _ _ _ _ _ E) as HP.
  destruct r as [[st' tx']|e0].
  - assert (t_id tx' = t_id (a_tx a)).
    { unfold execute_transaction in E.
      destruct (found_mint (r_d s)); [inversion E|]. destruct (mem _ _); [inversion E|].
      destruct (convert_tx hdr a); [inversion E|].
      destruct (t_mint (a_tx a)).
      - unfold execute_mint in E. destruct (negb _); [inversion E|]. destruct (negb _); [inversion E|].
        match type of E with (match ?b with _ => _ end) = _ => destruct b as [st1|e1] end; [|inversion E].
        destruct (mem _ _); inversion E; subst. destruct (a_vm a); reflexivity.
      - unfold execute_chargeable in E.
        match type of E with (match ?b with _ => _ end) = _ => destruct b end; [inversion E|].
        destruct (a_vm a) as [o|]; [|inversion E].
        destruct (compute_inputs _ _ _); [inversion E|].
        match type of E with context [spend ?f ?r ?i ?s] => destruct (spend f r i s) as [[st1 ev1] [e1|]] end;
          [inversion E|].
        destruct (persist _ _ _ _ _ 0 st1) as [[st2 ev2] [e2|]]; [inversion E|].
        destruct (update_execution_data _ o _ _) as [d3 [e3|]]; inversion E; subst. reflexivity. }
    destruct (checked_add u16max (tx_count (r_d s)) 1); inversion H; subst; cbn; splits; auto;
      try (exists [t_id tx']; rewrite map_app; reflexivity);
      try (intros _; rewrite map_app, in_app_iff; right; left; auto); try (intro; discriminate).
  - inversion H; subst. cbn. splits; auto; try (exists []; rewrite app_nil_r; auto; fail);
      try (intro; discriminate).
Qed.

(* every valid forced transaction ends up in the block or in a ForcedTransactionFailed event *)
Theorem forced_executed_or_reported_all : forall P hdr fs s,
  let s' := process_relayed P hdr fs s in
  (forall a, In a fs ->
     In (t_id (a_tx a)) (map t_id (r_blk s')) \/ In (ForcedFailed (t_id (a_tx a))) (events (r_d s'))) /\
  (exists delta, events (r_d s') = events (r_d s) ++ delta) /\
  (exists more, map t_id (r_blk s') = map t_id (r_blk s) ++ more).
Proof.
  induction fs as [|a r IH]; intros s; cbn [process_relayed].
  - splits; [intros a []| exists []; rewrite app_nil_r; auto | exists []; rewrite app_nil_r; auto].
  - destruct (execute_transaction_and_commit P hdr 0 a s) as [s1 [e1|]] eqn:E1;
      pose proof (etc_monotone _ _ _ _ _ _ _ E1) as ((d1 & M1) & (m1 & M2) & M3).
    + set (s2 := mkRun (r_st s1) (add_events (r_d s1) [ForcedFailed (t_id (a_tx a))]) (r_blk s1) (r_inc s1)).
      destruct (IH s2) as (A & (d2 & B) & (m2 & C)). cbn zeta in *. splits.
      * intros x [Hx|Hx]; [subst x|auto]. right. rewrite B. unfold s2. cbn.
        rewrite in_app_iff. left. rewrite in_app_iff. right. left. auto.
      * exists (d1 ++ [ForcedFailed (t_id (a_tx a))] ++ d2). rewrite B. unfold s2. cbn.
        rewrite M1, <- !app_assoc. reflexivity.
      * exists (m1 ++ m2). rewrite C. unfold s2. cbn. rewrite M2, <- app_assoc. reflexivity.
    + destruct (IH s1) as (A & (d2 & B) & (m2 & C)). cbn zeta in *. splits.
      * intros x [Hx|Hx]; [subst x|auto]. left. rewrite C, in_app_iff. left. auto.
      * exists (d1 ++ d2). rewrite B, M1, <- app_assoc. reflexivity.
      * exists (m1 ++ m2). rewrite C, M2, <- app_assoc. reflexivity.
Qed.

(* relayer disabled: nothing is imported, the inbox root keeps its default *)
Theorem relayer_disabled_all : forall P hdr l s,
  l_enabled l = false -> process_l1 P hdr l s = (s, None).
Proof. intros. unfold process_l1. rewrite H. reflexivity. Qed.
