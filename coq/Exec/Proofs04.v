(* C04: what a skipped and what a reverted transaction may change. *)
From FC Require Import Exec.Model Exec.ProofsMap Exec.Proofs02.
From Coq Require Import ZifyBool ZifyN.
Open Scope N_scope.

(* ---- a failed attempt never touches the block-level storage nor the block ---- *)
Lemma etc_err_state : forall P hdr gp a s s' e,
  execute_transaction_and_commit P hdr gp a s = (s', Some e) ->
  e <> E_TooManyTransactions ->
  r_st s' = r_st s /\ r_blk s' = r_blk s /\ r_inc s' = r_inc s.
Proof.
  intros P hdr gp a s s' e H Hne. unfold execute_transaction_and_commit in H.
  destruct (execute_transaction P hdr gp a (r_st s) (r_d s)) as [d' [[st' tx']|e0]].
  - destruct (checked_add u16max (tx_count (r_d s)) 1); inversion H; subst. contradiction.
  - inversion H; subst. auto.
Qed.

(* ---- early failures of a chargeable transaction leave ExecutionData untouched ---- *)
Lemma spend_err_late : forall rev ins st st' ev e,
  spend true rev ins st = (st', ev, Some e) -> late e = true.
Proof.
  induction ins as [|i r IH]; cbn; intros st st' ev e H.
  - inversion H.
  - destruct i as [k o a s|n sd rc am dt rt|cid].
    + destruct (lookup utxo_eqb k (coins st)).
      * destruct (spend true rev r _) as [[st1 ev1] e1] eqn:E1. inversion H; subst.
        eapply IH; eauto.
      * inversion H; subst. reflexivity.
    + destruct (rt && rev); [eapply IH; eauto|].
      destruct (lookup N.eqb n (msgs st)).
      * destruct (spend true rev r _) as [[st1 ev1] e1] eqn:E1. inversion H; subst.
        eapply IH; eauto.
      * inversion H; subst. reflexivity.
    + eapply IH; eauto.
Qed.

Lemma spend_err_late_any : forall f rev ins st st' ev e,
  spend f rev ins st = (st', ev, Some e) -> late e = true.
Proof.
  induction ins as [|i r IH]; cbn; intros st st' ev e H.
  - inversion H.
  - destruct i as [k o a s|n sd rc am dt rt|cid].
    + destruct (lookup utxo_eqb k (coins st)).
      * destruct (spend f rev r _) as [[st1 ev1] e1] eqn:E1. inversion H; subst.
        eapply IH; eauto.
      * destruct f; [inversion H; subst; reflexivity|].
        destruct (spend false rev r st) as [[st1 ev1] e1] eqn:E1. inversion H; subst.
        eapply IH; eauto.
    + destruct (rt && rev); [eapply IH; eauto|].
      destruct (lookup N.eqb n (msgs st)).
      * destruct (spend f rev r _) as [[st1 ev1] e1] eqn:E1. inversion H; subst.
        eapply IH; eauto.
      * inversion H; subst. reflexivity.
    + eapply IH; eauto.
Qed.

Lemma persist_err_late : forall h txc id ins outs idx st st' ev e,
  persist h txc id ins outs idx st = (st', ev, Some e) -> late e = true.
Proof.
  induction outs as [|o r IH]; cbn; intros idx st st' ev e H.
  - inversion H.
  - destruct (u16max <? idx); [inversion H; subst; reflexivity|].
    assert (Hcoin : forall t a s,
      (if 0 <? a
       then match lookup utxo_eqb (id, idx) (coins st) with
            | Some _ => (st, [], Some E_OutputAlreadyExists)
            | None =>
                let '(st'0, ev0, e) :=
                  persist h txc id ins r (idx + 1)
                    (set_coins st (insert utxo_eqb (id, idx) (mkCoin t a s h txc) (coins st))) in
                (st'0, CoinCreated (id, idx) (mkCoin t a s h txc) :: ev0, e)
            end
       else persist h txc id ins r (idx + 1) st) = (st', ev, Some e) -> late e = true).
    { intros t a s H0. destruct (0 <? a).
      - destruct (lookup utxo_eqb (id, idx) (coins st)); [inversion H0; subst; reflexivity|].
        destruct (persist h txc id ins r (idx + 1)
                    (set_coins st (insert utxo_eqb (id, idx) (mkCoin t a s h txc) (coins st)))) as [[st1 ev1] e1] eqn:E1.
        inversion H0; subst. eapply IH; eauto.
      - eapply IH; eauto. }
    destruct o as [t a s|t a s|t a s|ii rt|cid rt]; try (apply (Hcoin t a s); exact H).
    + destruct (nth_error ins (N.to_nat ii)) as [[| |cid]|]; try (inversion H; subst; reflexivity).
      eapply IH; eauto.
    + eapply IH; eauto.
Qed.

Lemma update_err_late : forall d o id sz d' e,
  update_execution_data d o id sz = (d', Some e) -> late e = true.
Proof.
  unfold update_execution_data. intros d o id sz d' e H.
  destruct (v_fee o) as [[ug fee]|]; [|inversion H; subst; reflexivity].
  destruct (checked_add u64max (coinbase d) fee); [|inversion H; subst; reflexivity].
  destruct (checked_add u64max _ ug); [|inversion H; subst; reflexivity].
  destruct (checked_add u32max _ _); inversion H; subst; reflexivity.
Qed.

Lemma execute_chargeable_early : forall P hdr a st d d' e,
  execute_chargeable P hdr a st d = (d', inr e) -> late e = false -> d' = d.
Proof.
  intros P hdr a st d d' e H HL. unfold execute_chargeable in H.
  match type of H with (match ?b with _ => _ end) = _ => destruct b end; [inversion H; auto|].
  destruct (a_vm a) as [o|]; [|inversion H; auto].
  destruct (compute_inputs (p_forbid P) st (t_inputs (a_tx a))); [inversion H; auto|].
  match type of H with context [spend ?f ?r ?i ?s] => destruct (spend f r i s) as [[st1 ev1] e1] eqn:E1 end.
  destruct e1 as [e1|].
  { inversion H; subst. apply spend_err_late_any in E1. congruence. }
  destruct (persist _ _ _ _ _ 0 st1) as [[st2 ev2] e2] eqn:E2.
  destruct e2 as [e2|].
  { inversion H; subst. apply persist_err_late in E2. congruence. }
  destruct (update_execution_data _ o _ _) as [d3 e3] eqn:E3.
  destruct e3 as [e3|]; inversion H; subst.
  apply update_err_late in E3. congruence.
Qed.

(* C04, skipped transactions: a chargeable transaction that fails before spend_input_utxos
   leaves storage, block and ExecutionData exactly as they were *)
Theorem skipped_changes_nothing_partial_all : forall P hdr gp a s s' e,
  t_mint (a_tx a) = false ->
  execute_transaction_and_commit P hdr gp a s = (s', Some e) ->
  late e = false -> s' = s.
Proof.
  intros P hdr gp a s s' e HM H HL. unfold execute_transaction_and_commit in H.
  destruct (execute_transaction P hdr gp a (r_st s) (r_d s)) as [d' [[st' tx']|e0]] eqn:E.
  - destruct (checked_add u16max (tx_count (r_d s)) 1); inversion H; subst. discriminate.
  - inversion H; subst. clear H. unfold execute_transaction in E.
    assert (d' = r_d s).
    { destruct (found_mint (r_d s)); [inversion E; auto|].
      destruct (mem _ _); [inversion E; auto|].
      destruct (convert_tx hdr a); [inversion E; auto|].
      rewrite HM in E. eapply execute_chargeable_early; eauto. }
    subst. destruct s; reflexivity.
Qed.

(* the storage part holds for every failure except the transaction-count overflow *)
Theorem skipped_storage_unchanged_all : forall P hdr gp a s s' e,
  execute_transaction_and_commit P hdr gp a s = (s', Some e) ->
  e <> E_TooManyTransactions -> r_st s' = r_st s /\ r_blk s' = r_blk s.
Proof. intros. eapply etc_err_state in H; eauto. tauto. Qed.

(* ... and the full statement (ExecutionData unchanged for EVERY failure) is false: a
   transaction whose coin output collides with an existing utxo id leaves its CoinConsumed
   event behind *)
Definition ex_P := mkParams 1000000 1000000 65534 true.
Definition ex_hdr := mkHeader 1 0.
Definition ex_coinA := mkCoin 5 100 0 0 0.
Definition ex_st := mkSt [((100, 0), ex_coinA); ((7, 0), mkCoin 5 3 0 0 9)] [] [] [] [].
Definition ex_tx := mkTx 7 false [InCoin (100, 0) 5 100 0] [OutCoin 6 10 0; OutChange 5 0 0] 50 1000 200 0 0 0 0 true.
Definition ex_vm := mkVmOut false [OutCoin 6 10 0; OutChange 5 90 0] 51 [] 0 (Some (10, 0)).
Definition ex_att := mkAtt ex_tx false u32max true true true (Some ex_vm) 13 true.
Definition ex_run := mkRun ex_st data_new [] [].

Theorem skipped_changes_nothing_refuted_all :
  exists P hdr gp a s s' e,
    t_mint (a_tx a) = false /\
    execute_transaction_and_commit P hdr gp a s = (s', Some e) /\
    events (r_d s') <> events (r_d s).
Proof.
  exists ex_P, ex_hdr, 1, ex_att, ex_run.
  eexists. eexists. split; [reflexivity|]. split.
  - vm_compute. reflexivity.
  - vm_compute. discriminate.
Qed.

(* ---- reverted scripts ---- *)
Lemma spend_consumes : forall rev ins st st' ev,
  spend true rev ins st = (st', ev, None) ->
  (forall k o a s, In (InCoin k o a s) ins -> In k (consumed_keys ev)) /\
  (forall n sd rc am dt, In (InMsg n sd rc am dt false) ins -> In n (consumed_msgs ev)) /\
  (rev = false -> forall n sd rc am dt rt, In (InMsg n sd rc am dt rt) ins -> In n (consumed_msgs ev)) /\
  (forall n, In n (consumed_msgs ev) ->
     exists sd rc am dt rt, In (InMsg n sd rc am dt rt) ins /\ (rt && rev = false)).
Proof.
  induction ins as [|i r IH]; cbn; intros st st' ev H.
  - inversion H; subst. cbn. repeat split; intros; try contradiction.
  - destruct i as [k o a s|n sd rc am dt rt|cid].
    + destruct (lookup utxo_eqb k (coins st)); [|discriminate].
      destruct (spend true rev r _) as [[st1 ev1] e1] eqn:E1. inversion H; subst.
      apply IH in E1. destruct E1 as (A & B & C & D). cbn. repeat split.
      * intros k0 o0 a0 s0 [Hi|Hi]; [inversion Hi; subst; auto | right; eapply A; eauto].
      * intros n sd rc am dt [Hi|Hi]; [discriminate | eapply B; eauto].
      * intros Hr n sd rc am dt rt [Hi|Hi]; [discriminate | eapply C; eauto].
      * intros n Hn. apply D in Hn. destruct Hn as (sd & rc & am & dt & rt & Hi & Hb).
        exists sd, rc, am, dt, rt. auto.
    + destruct (rt && rev) eqn:ER.
      * apply IH in H. destruct H as (A & B & C & D). repeat split.
        -- intros k0 o0 a0 s0 [Hi|Hi]; [discriminate | eapply A; eauto].
        -- intros n0 sd0 rc0 am0 dt0 [Hi|Hi]; [|eapply B; eauto].
           inversion Hi; subst. cbn in ER. discriminate.
        -- intros Hr n0 sd0 rc0 am0 dt0 rt0 [Hi|Hi]; [|eapply C; eauto].
           subst. rewrite andb_false_r in ER. discriminate.
        -- intros n0 Hn. apply D in Hn. destruct Hn as (sd0 & rc0 & am0 & dt0 & rt0 & Hi & Hb).
           exists sd0, rc0, am0, dt0, rt0. auto.
      * destruct (lookup N.eqb n (msgs st)); [|discriminate].
        destruct (spend true rev r _) as [[st1 ev1] e1] eqn:E1. inversion H; subst.
        apply IH in E1. destruct E1 as (A & B & C & D). cbn. repeat split.
        -- intros k0 o0 a0 s0 [Hi|Hi]; [discriminate | eapply A; eauto].
        -- intros n0 sd0 rc0 am0 dt0 [Hi|Hi]; [inversion Hi; subst; auto | right; eapply B; eauto].
        -- intros Hr n0 sd0 rc0 am0 dt0 rt0 [Hi|Hi]; [inversion Hi; subst; auto | right; eapply C; eauto].
        -- intros n0 [Hn|Hn].
           ++ subst. exists sd, rc, am, dt, rt. auto.
           ++ apply D in Hn. destruct Hn as (sd0 & rc0 & am0 & dt0 & rt0 & Hi & Hb).
              exists sd0, rc0, am0, dt0, rt0. auto.
    + apply IH in H. destruct H as (A & B & C & D). repeat split.
      * intros k0 o0 a0 s0 [Hi|Hi]; [discriminate | eapply A; eauto].
      * intros n0 sd0 rc0 am0 dt0 [Hi|Hi]; [discriminate | eapply B; eauto].
      * intros Hr n0 sd0 rc0 am0 dt0 rt0 [Hi|Hi]; [discriminate | eapply C; eauto].
      * intros n0 Hn. apply D in Hn. destruct Hn as (sd0 & rc0 & am0 & dt0 & rt0 & Hi & Hb).
        exists sd0, rc0, am0, dt0, rt0. auto.
Qed.

Lemma persist_no_consume : forall h txc id ins outs idx st st' ev e,
  persist h txc id ins outs idx st = (st', ev, e) ->
  consumed_keys ev = [] /\ consumed_msgs ev = [] /\ msgs st' = msgs st.
Proof.
  induction outs as [|o r IH]; cbn; intros idx st st' ev e H.
  - inversion H; subst. auto.
  - destruct (u16max <? idx); [inversion H; subst; auto|].
    assert (Hcoin : forall t a s,
      (if 0 <? a
       then match lookup utxo_eqb (id, idx) (coins st) with
            | Some _ => (st, [], Some E_OutputAlreadyExists)
            | None =>
                let '(st'0, ev0, e) :=
                  persist h txc id ins r (idx + 1)
                    (set_coins st (insert utxo_eqb (id, idx) (mkCoin t a s h txc) (coins st))) in
                (st'0, CoinCreated (id, idx) (mkCoin t a s h txc) :: ev0, e)
            end
       else persist h txc id ins r (idx + 1) st) = (st', ev, e) ->
      consumed_keys ev = [] /\ consumed_msgs ev = [] /\ msgs st' = msgs st).
    { intros t a s H0. destruct (0 <? a).
      - destruct (lookup utxo_eqb (id, idx) (coins st)); [inversion H0; subst; auto|].
        destruct (persist h txc id ins r (idx + 1)
                    (set_coins st (insert utxo_eqb (id, idx) (mkCoin t a s h txc) (coins st)))) as [[st1 ev1] e1] eqn:E1.
        inversion H0; subst. apply IH in E1. cbn in *. tauto.
      - eapply IH; eauto. }
    destruct o as [t a s|t a s|t a s|ii rt|cid rt]; try (apply (Hcoin t a s); exact H).
    + destruct (nth_error ins (N.to_nat ii)) as [[| |cid]|]; try (inversion H; subst; auto; fail).
      apply IH in H. cbn in *. tauto.
    + apply IH in H. cbn in *. tauto.
Qed.

(* C04, reverted scripts (utxo validation on): the contract-state log and the outbox are
   untouched, the fee is charged and a Failed status is recorded; every coin input and every
   non-retryable message input is consumed (an event is reported for it), and a message
   nonce is consumed only through a non-retryable input - retryable ones are kept *)
Theorem reverted_effects_all : forall P hdr a st d d' st' tx' o,
  p_forbid P = true ->
  execute_chargeable P hdr a st d = (d', inl (st', tx')) ->
  a_vm a = Some o -> v_reverted o = true ->
  cstate st' = cstate st /\
  message_ids d' = message_ids d /\
  (exists ug fee, v_fee o = Some (ug, fee) /\ coinbase d' = coinbase d + fee /\
                  tx_status d' = tx_status d ++ [mkStatus (t_id (a_tx a)) true true ug fee]) /\
  exists delta, events d' = events d ++ delta /\
    (forall k ow am s, In (InCoin k ow am s) (t_inputs (a_tx a)) -> In k (consumed_keys delta)) /\
    (forall n sd rc am dt, In (InMsg n sd rc am dt false) (t_inputs (a_tx a)) -> In n (consumed_msgs delta)) /\
    (forall n, In n (consumed_msgs delta) ->
       exists sd rc am dt, In (InMsg n sd rc am dt false) (t_inputs (a_tx a))).
Proof.
  intros P hdr a st d d' st' tx' o HF H HV HR. unfold execute_chargeable in H. rewrite HF, HV, HR in H.
  match type of H with (match ?b with _ => _ end) = _ => destruct b end; [inversion H|].
  destruct (compute_inputs true st (t_inputs (a_tx a))); [inversion H|].
  destruct (spend true true (t_inputs (a_tx a)) st) as [[st1 ev1] e1] eqn:E1.
  destruct e1; [inversion H|].
  destruct (persist _ _ _ _ _ 0 st1) as [[st2 ev2] e2] eqn:E2.
  destruct e2; [inversion H|].
  destruct (update_execution_data _ o _ _) as [d3 e3] eqn:E3.
  destruct e3; inversion H; subst. clear H.
  pose proof (spend_replay _ _ _ _ _ E1) as (_ & _ & _ & _ & _ & Cs1).
  pose proof (persist_replay _ _ _ _ _ _ _ _ _ E2) as (_ & _ & _ & _ & _ & Cs2).
  pose proof (spend_consumes _ _ _ _ _ E1) as (A & B & _ & D).
  pose proof (persist_no_consume _ _ _ _ _ _ _ _ _ _ E2) as (K2 & M2 & _).
  unfold update_execution_data in E3.
  destruct (v_fee o) as [[ug fee]|]; [|inversion E3].
  destruct (checked_add u64max _ fee) as [cb|] eqn:EC; [|inversion E3].
  destruct (checked_add u64max _ ug); [|inversion E3].
  destruct (checked_add u32max _ _); inversion E3; subst. clear E3.
  unfold checked_add in EC. cbn in EC. destruct (coinbase d + fee <=? u64max); inversion EC; subst.
  rewrite HR. cbn. rewrite app_nil_r.
  split; [congruence|]. split; [reflexivity|]. split.
  - exists ug, fee. auto.
  - exists (ev1 ++ ev2). split; [rewrite app_assoc; reflexivity|].
    rewrite consumed_keys_app, consumed_msgs_app, K2, M2, !app_nil_r. split; [exact A|]. split; [exact B|].
    intros nn Hn. apply D in Hn. destruct Hn as (sd & rc & am & dt & rt & Hi & Hb).
    rewrite andb_true_r in Hb. subst. exists sd, rc, am, dt. exact Hi.
Qed.
