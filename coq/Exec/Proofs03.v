(* C03: the mint, the fee sum and the block limits. *)
From FC Require Import Exec.Model Exec.ProofsMap Exec.Proofs02 Exec.Proofs04.
From Coq Require Import ZifyBool ZifyN ZifyNat.
Open Scope N_scope.

Fixpoint sumfee (l : list Status) : N :=
  match l with [] => 0 | s :: r => s_fee s + sumfee r end.
Fixpoint sumgas (l : list Status) : N :=
  match l with [] => 0 | s :: r => s_gas s + sumgas r end.

Lemma sumfee_app : forall a b, sumfee (a ++ b) = sumfee a + sumfee b.
Proof. induction a as [|x a IH]; intros; cbn [app sumfee]; [reflexivity|]. rewrite IH. lia. Qed.
Lemma sumgas_app : forall a b, sumgas (a ++ b) = sumgas a + sumgas b.
Proof. induction a as [|x a IH]; intros; cbn [app sumgas]; [reflexivity|]. rewrite IH. lia. Qed.

(* the oracle hypothesis of the gas bound: the VM never reports more gas than max_gas *)
Definition gas_ok (a : Att) : Prop :=
  forall o ug fee, a_vm a = Some o -> v_fee o = Some (ug, fee) -> ug <= t_max_gas (a_tx a).

(* ---- scalar effect of update_execution_data ---- *)
Lemma update_scalars : forall d o id sz d' e,
  update_execution_data d o id sz = (d', e) ->
  tx_count d' = tx_count d /\ found_mint d' = found_mint d /\ skipped d' = skipped d /\
  inbox_root d' = inbox_root d /\ used_size d' <= N.max (used_size d) u32max /\
  match e with
  | None => exists ug fee, v_fee o = Some (ug, fee) /\
              used_gas d' = used_gas d + ug /\ coinbase d' = coinbase d + fee /\
              tx_status d' = tx_status d ++ [mkStatus id (v_reverted o) true ug fee]
  | Some _ => tx_status d' = tx_status d /\ message_ids d' = message_ids d /\
              coinbase d <= coinbase d' /\
              (used_gas d' = used_gas d \/
               exists ug fee, v_fee o = Some (ug, fee) /\ used_gas d' = used_gas d + ug)
  end.
Proof.
  unfold update_execution_data. intros d o id sz d' e H.
  destruct (v_fee o) as [[ug fee]|]; [|inversion H; subst; cbn; repeat split; auto; lia].
  unfold checked_add in H.
  destruct (coinbase d + fee <=? u64max) eqn:E1; [|inversion H; subst; cbn; repeat split; auto; lia].
  cbn in H.
  destruct (used_gas d + ug <=? u64max) eqn:E2.
  2:{ inversion H; subst; cbn. repeat split; auto; lia. }
  cbn in H.
  destruct (used_size d + N.min sz u32max <=? u32max) eqn:E3.
  - inversion H; subst; cbn. repeat split; auto; try lia. exists ug, fee. auto.
  - inversion H; subst; cbn. repeat split; auto; try lia. right. exists ug, fee. auto.
Qed.

Lemma execute_chargeable_scalars : forall P hdr a st d d' r,
  execute_chargeable P hdr a st d = (d', r) ->
  tx_count d' = tx_count d /\ found_mint d' = found_mint d /\ skipped d' = skipped d /\
  inbox_root d' = inbox_root d /\ used_size d' <= N.max (used_size d) u32max /\
  match r with
  | inl (_, tx') => t_mint tx' = t_mint (a_tx a) /\
        exists o ug fee, a_vm a = Some o /\ v_fee o = Some (ug, fee) /\
          used_gas d' = used_gas d + ug /\ coinbase d' = coinbase d + fee /\
          tx_status d' = tx_status d ++ [mkStatus (t_id (a_tx a)) (v_reverted o) true ug fee]
  | inr _ => tx_status d' = tx_status d /\ message_ids d' = message_ids d /\
             coinbase d <= coinbase d' /\
             (used_gas d' = used_gas d \/
              exists o ug fee, a_vm a = Some o /\ v_fee o = Some (ug, fee) /\ used_gas d' = used_gas d + ug)
  end.
Proof.
  intros P hdr a st d d' r H. unfold execute_chargeable in H.
  match type of H with (match ?b with _ => _ end) = _ => destruct b end;
    [inversion H; subst; repeat split; auto; lia|].
  destruct (a_vm a) as [o|] eqn:EV; [|inversion H; subst; repeat split; auto; lia].
  destruct (compute_inputs (p_forbid P) st (t_inputs (a_tx a)));
    [inversion H; subst; repeat split; auto; lia|].
  match type of H with context [spend ?f ?r ?i ?s] => destruct (spend f r i s) as [[st1 ev1] e1] end.
  destruct e1 as [e1|]; [inversion H; subst; cbn; repeat split; auto; lia|].
  destruct (persist _ _ _ _ _ 0 st1) as [[st2 ev2] e2].
  destruct e2 as [e2|]; [inversion H; subst; cbn; repeat split; auto; lia|].
  destruct (update_execution_data _ o _ _) as [d3 e3] eqn:E3.
  apply update_scalars in E3. cbn in E3. destruct E3 as (A & B & C & D & E & F).
  destruct e3 as [e3|]; inversion H; subst; repeat split; auto.
  - tauto.
  - tauto.
  - tauto.
  - destruct F as (_ & _ & _ & [F|(ug & fee & F1 & F2)]); auto. right. exists o, ug, fee. auto.
  - destruct F as (ug & fee & F1 & F2 & F3 & F4). exists o, ug, fee. auto.
Qed.

(* ---- block invariants ---- *)
Definition CountInv (s : Run) : Prop := tx_count (r_d s) = N.of_nat (length (r_blk s)).
Definition NoMint (s : Run) : Prop := Forall (fun t => t_mint t = false) (r_blk s).
Definition FeeInv (d : Data) : Prop := coinbase d = sumfee (tx_status d).
Definition GasInv (P : Params) (d : Data) : Prop :=
  used_gas d <= p_gas_limit P /\ sumgas (tx_status d) <= used_gas d.
Definition clean (d : Data) : bool := forallb (fun x => negb (late (snd x))) (skipped d).

Lemma clean_add_skipped : forall d id e,
  clean (add_skipped d id e) = clean d && negb (late e).
Proof.
  intros. unfold clean, add_skipped. cbn. rewrite forallb_app. cbn. rewrite andb_true_r. reflexivity.
Qed.

(* one chargeable attempt inside process_l2_txs *)
Lemma etc_chargeable_facts : forall P hdr gp a s s' e,
  t_mint (a_tx a) = false -> found_mint (r_d s) = false ->
  execute_transaction_and_commit P hdr gp a s = (s', e) ->
  skipped (r_d s') = skipped (r_d s) /\ found_mint (r_d s') = false /\
  inbox_root (r_d s') = inbox_root (r_d s) /\
  (used_size (r_d s') <= N.max (used_size (r_d s)) u32max) /\
  (tx_count (r_d s) <= tx_count (r_d s') <= tx_count (r_d s) + 1) /\
  (gas_ok a -> t_max_gas (a_tx a) <= p_gas_limit P - used_gas (r_d s) ->
   GasInv P (r_d s) -> GasInv P (r_d s')) /\
  (e = None -> (CountInv s -> CountInv s') /\ (NoMint s -> NoMint s') /\
               (FeeInv (r_d s) -> FeeInv (r_d s'))) /\
  (forall e1, e = Some e1 ->
     tx_count (r_d s') = tx_count (r_d s) /\
     (tx_count (r_d s) + 1 <= u16max -> r_blk s' = r_blk s) /\
     (late e1 = false -> s' = s)).
Proof.
  intros P hdr gp a s s' e HM HF H.
  pose proof H as H0. unfold execute_transaction_and_commit in H.
  destruct (execute_transaction P hdr gp a (r_st s) (r_d s)) as [d' r] eqn:E.
  assert (S : tx_count d' = tx_count (r_d s) /\ found_mint d' = found_mint (r_d s) /\
              skipped d' = skipped (r_d s) /\ inbox_root d' = inbox_root (r_d s) /\
              used_size d' <= N.max (used_size (r_d s)) u32max /\
              match r with
              | inl (_, tx') => t_mint tx' = false /\
                    exists o ug fee, a_vm a = Some o /\ v_fee o = Some (ug, fee) /\
                      used_gas d' = used_gas (r_d s) + ug /\ coinbase d' = coinbase (r_d s) + fee /\
                      tx_status d' = tx_status (r_d s) ++ [mkStatus (t_id (a_tx a)) (v_reverted o) true ug fee]
              | inr _ => tx_status d' = tx_status (r_d s) /\
                         (used_gas d' = used_gas (r_d s) \/
                          exists o ug fee, a_vm a = Some o /\ v_fee o = Some (ug, fee) /\
                                           used_gas d' = used_gas (r_d s) + ug)
              end).
  { unfold execute_transaction in E. rewrite HF, HM in E.
    destruct (mem _ _); [inversion E; subst; repeat split; auto; lia|].
    destruct (convert_tx hdr a); [inversion E; subst; repeat split; auto; lia|].
    apply execute_chargeable_scalars in E. destruct E as (A & B & C & D & F & G).
    repeat split; auto. destruct r as [[st' tx']|e0].
    - destruct G as (G1 & G2). split; [congruence|auto].
    - tauto. }
  destruct S as (A & B & C & D & F & G).
  assert (Gas : gas_ok a -> t_max_gas (a_tx a) <= p_gas_limit P - used_gas (r_d s) ->
                GasInv P (r_d s) -> GasInv P d').
  { intros HG HM' (G1 & G2). unfold GasInv. destruct r as [[st' tx']|e0].
    - destruct G as (_ & o & ug & fee & V1 & V2 & V3 & V4 & V5).
      specialize (HG o ug fee V1 V2). rewrite V5, sumgas_app. cbn. lia.
    - destruct G as (G3 & [G4|(o & ug & fee & V1 & V2 & V3)]); rewrite G3.
      + lia.
      + specialize (HG o ug fee V1 V2). lia. }
  rewrite HF in B.
  destruct r as [[st' tx']|e0].
  - destruct G as (G0 & o & ug & fee & V1 & V2 & V3 & V4 & V5).
    unfold checked_add in H.
    destruct (tx_count (r_d s) + 1 <=? u16max) eqn:EC; inversion H; subst; cbn;
      splits; auto; try lia.
    + intros _. unfold CountInv, NoMint, FeeInv. cbn. splits.
      * intro HC. rewrite app_length. cbn. lia.
      * intro HN. apply Forall_app. split; auto.
      * intro HFe. rewrite V4, V5, sumfee_app. cbn. lia.
    + intros e1 He. inversion He.
    + intros He. discriminate.
    + intros e1 He. inversion He; subst. splits; auto.
      * intro. lia.
      * intro HL. discriminate.
  - inversion H; subst; cbn. splits; auto; try lia.
    + intro He. discriminate.
    + intros e1 He. inversion He; subst. splits; auto.
      intro HL. eapply skipped_changes_nothing_partial_all; eauto.
Qed.

Ltac etc_facts HM HF E1 :=
  let S1 := fresh "S1" in let S2 := fresh "S2" in let S3 := fresh "S3" in let S4 := fresh "S4" in
  let S5 := fresh "S5" in let S6 := fresh "S6" in let S7 := fresh "S7" in let S8 := fresh "S8" in
  pose proof (etc_chargeable_facts _ _ _ _ _ _ _ HM HF E1) as (S1 & S2 & S3 & S4 & S5 & S6 & S7 & S8).

(* L1: bookkeeping that never fails *)
Lemma process_batch_basic : forall P hdr gp b s s' e,
  found_mint (r_d s) = false ->
  process_batch P hdr gp b s = (s', e) ->
  found_mint (r_d s') = false /\ inbox_root (r_d s') = inbox_root (r_d s) /\
  (used_size (r_d s) <= u32max -> used_size (r_d s') <= u32max) /\
  (tx_count (r_d s) <= tx_count (r_d s') <= tx_count (r_d s) + N.of_nat (length b)).
Proof.
  induction b as [|a r IH]; intros s s' e HF H; cbn [process_batch] in H.
  - inversion H; subst. cbn. splits; auto; lia.
  - destruct (t_mint (a_tx a)) eqn:HM.
    { inversion H; subst. cbn [length]. splits; auto; lia. }
    destruct (remaining_gas P (r_d s) <? t_max_gas (a_tx a)).
    + apply IH in H; [|exact HF]. cbn in H. destruct H as (A & B & C & D).
      cbn [length]. splits; auto; lia.
    + destruct (execute_transaction_and_commit P hdr gp a s) as [s1 e1] eqn:E1.
      etc_facts HM HF E1.
      destruct e1 as [e1|]; (apply IH in H; [|exact S2]); cbn in H; destruct H as (A & B & C & D);
        cbn [length]; splits; auto; try lia; try (rewrite B; auto).
Qed.

(* L2: the gas bound, for any source *)
Lemma process_batch_gas : forall P hdr gp b s s' e,
  found_mint (r_d s) = false -> Forall gas_ok b -> GasInv P (r_d s) ->
  process_batch P hdr gp b s = (s', e) -> GasInv P (r_d s').
Proof.
  induction b as [|a r IH]; intros s s' e HF HG HI H; cbn [process_batch] in H.
  - inversion H; subst. auto.
  - inversion HG; subst.
    destruct (t_mint (a_tx a)) eqn:HM; [inversion H; subst; auto|].
    destruct (remaining_gas P (r_d s) <? t_max_gas (a_tx a)) eqn:EG.
    + eapply IH in H; eauto.
    + destruct (execute_transaction_and_commit P hdr gp a s) as [s1 e1] eqn:E1.
      etc_facts HM HF E1.
      assert (GasInv P (r_d s1)). { apply S6; auto. unfold remaining_gas in EG. lia. }
      destruct e1 as [e1|]; eapply IH in H; eauto.
Qed.

(* L3: cleanliness propagates backwards (skipped only grows) *)
Lemma process_batch_clean : forall P hdr gp b s s' e,
  found_mint (r_d s) = false ->
  process_batch P hdr gp b s = (s', e) -> clean (r_d s') = true -> clean (r_d s) = true.
Proof.
  induction b as [|a r IH]; intros s s' e HF H HC; cbn [process_batch] in H.
  - inversion H; subst. auto.
  - destruct (t_mint (a_tx a)) eqn:HM; [inversion H; subst; auto|].
    destruct (remaining_gas P (r_d s) <? t_max_gas (a_tx a)).
    + eapply IH in H; eauto. cbn [r_d] in H. rewrite clean_add_skipped in H. apply andb_prop in H. tauto.
    + destruct (execute_transaction_and_commit P hdr gp a s) as [s1 e1] eqn:E1.
      etc_facts HM HF E1.
      destruct e1 as [e1|].
      * eapply IH in H; eauto. cbn [r_d] in H. rewrite clean_add_skipped in H. apply andb_prop in H.
        destruct H as [H HL]. apply negb_true_iff in HL.
        destruct (S8 e1 eq_refl) as (_ & _ & S9). rewrite (S9 HL) in H. exact H.
      * eapply IH in H; eauto. unfold clean in *. rewrite S1 in H. exact H.
Qed.

(* L4: count and mint-freeness on success *)
Lemma process_batch_count : forall P hdr gp b s s',
  found_mint (r_d s) = false ->
  process_batch P hdr gp b s = (s', None) ->
  tx_count (r_d s) + N.of_nat (length b) <= u16max ->
  CountInv s -> NoMint s -> CountInv s' /\ NoMint s'.
Proof.
  induction b as [|a r IH]; intros s s' HF H HB HC HN; cbn [process_batch] in H.
  - inversion H; subst. auto.
  - cbn [length] in HB.
    destruct (t_mint (a_tx a)) eqn:HM; [inversion H|].
    destruct (remaining_gas P (r_d s) <? t_max_gas (a_tx a)).
    + eapply IH in H; eauto. cbn. lia.
    + destruct (execute_transaction_and_commit P hdr gp a s) as [s1 e1] eqn:E1.
      etc_facts HM HF E1.
      destruct e1 as [e1|].
      * destruct (S8 e1 eq_refl) as (T1 & T2 & _).
        eapply IH in H; eauto.
        -- cbn. lia.
        -- unfold CountInv in *. cbn. rewrite T1, T2 by lia. exact HC.
        -- unfold NoMint in *. cbn. rewrite T2 by lia. exact HN.
      * destruct (S7 eq_refl) as (T1 & T2 & _).
        eapply IH in H; eauto. lia.
Qed.

(* L5: the fee sum, on clean runs *)
Lemma process_batch_fee : forall P hdr gp b s s' e,
  found_mint (r_d s) = false ->
  process_batch P hdr gp b s = (s', e) -> clean (r_d s') = true ->
  FeeInv (r_d s) -> FeeInv (r_d s').
Proof.
  induction b as [|a r IH]; intros s s' e HF H HC HI; cbn [process_batch] in H.
  - inversion H; subst. auto.
  - destruct (t_mint (a_tx a)) eqn:HM; [inversion H; subst; auto|].
    destruct (remaining_gas P (r_d s) <? t_max_gas (a_tx a)).
    + eapply IH in H; eauto.
    + destruct (execute_transaction_and_commit P hdr gp a s) as [s1 e1] eqn:E1.
      etc_facts HM HF E1.
      destruct e1 as [e1|].
      * pose proof (process_batch_clean _ _ _ _ (mkRun (r_st s1) (add_skipped (r_d s1) (t_id (a_tx a)) e1) (r_blk s1) (r_inc s1)) _ _ S2 H HC) as HC1. cbn [r_d] in HC1.
        rewrite clean_add_skipped in HC1. apply andb_prop in HC1. destruct HC1 as [_ HL].
        apply negb_true_iff in HL. destruct (S8 e1 eq_refl) as (_ & _ & S9).
        eapply IH in H; eauto. cbn. rewrite (S9 HL). exact HI.
      * destruct (S7 eq_refl) as (_ & _ & T3). eapply IH in H; eauto.
Qed.

Lemma Forall_firstn' : forall {A} (Q : A -> Prop) n l, Forall Q l -> Forall Q (firstn n l).
Proof.
  induction n; intros l H; cbn; [constructor|]. destruct l; [constructor|].
  inversion H; subst. constructor; auto.
Qed.

Lemma firstn_len : forall {A} n (l : list A), (length (firstn n l) <= n)%nat.
Proof. intros. apply firstn_le_length. Qed.

(* ---- process_l2_txs ---- *)
Lemma process_l2_facts : forall P hdr gp bs s s' hs e,
  found_mint (r_d s) = false ->
  process_l2 P hdr gp bs s = (s', hs, e) ->
  found_mint (r_d s') = false /\ inbox_root (r_d s') = inbox_root (r_d s) /\
  (used_size (r_d s) <= u32max -> used_size (r_d s') <= u32max) /\
  (tx_count (r_d s) <= p_max_tx_count P -> tx_count (r_d s') <= p_max_tx_count P) /\
  (Forall (Forall gas_ok) bs -> GasInv P (r_d s) -> GasInv P (r_d s')) /\
  (clean (r_d s') = true -> clean (r_d s) = true) /\
  (e = None -> p_max_tx_count P < u16max -> tx_count (r_d s) <= p_max_tx_count P ->
   CountInv s -> NoMint s -> CountInv s' /\ NoMint s') /\
  (clean (r_d s') = true -> FeeInv (r_d s) -> FeeInv (r_d s')).
Proof.
  induction bs as [|b r IH]; intros s s' hs e HF H; cbn [process_l2] in H.
  - inversion H; subst. splits; auto.
  - destruct (firstn (N.to_nat (remaining_count P (r_d s))) b) as [|a b'] eqn:EF.
    + inversion H; subst. splits; auto.
    + assert (HL : N.of_nat (length (a :: b')) <= remaining_count P (r_d s)).
      { rewrite <- EF. pose proof (firstn_len (N.to_nat (remaining_count P (r_d s))) b). lia. }
      destruct (process_batch P hdr gp (a :: b') s) as [s1 e1] eqn:E1.
      pose proof (process_batch_basic _ _ _ _ _ _ _ HF E1) as (B1 & B2 & B3 & B4).
      assert (HCnt : tx_count (r_d s) <= p_max_tx_count P -> tx_count (r_d s1) <= p_max_tx_count P).
      { unfold remaining_count in HL. lia. }
      assert (HGas : Forall (Forall gas_ok) (b :: r) -> GasInv P (r_d s) -> GasInv P (r_d s1)).
      { intros HG HI. inversion HG; subst.
        assert (HGb : Forall gas_ok (a :: b')) by (rewrite <- EF; apply Forall_firstn'; auto).
        exact (process_batch_gas P hdr gp (a :: b') s s1 e1 HF HGb HI E1). }
      destruct e1 as [e1|].
      * inversion H; subst. splits; auto.
        -- intro HC. exact (process_batch_clean P hdr gp (a :: b') s s' (Some e1) HF E1 HC).
        -- intro He. discriminate.
        -- intros HC HI. exact (process_batch_fee P hdr gp (a :: b') s s' (Some e1) HF E1 HC HI).
      * destruct (process_l2 P hdr gp r s1) as [[s2 hs2] e2] eqn:E2. inversion H; subst.
        apply IH in E2; [|exact B1]. destruct E2 as (C1 & C2 & C3 & C4 & C5 & C6 & C7 & C8).
        splits; auto.
        -- congruence.
        -- intros HG HI. inversion HG; subst. auto.
        -- intro HC. exact (process_batch_clean P hdr gp (a :: b') s s1 None HF E1 (C6 HC)).
        -- intros He HM HC HCI HNM.
           assert (tx_count (r_d s) + N.of_nat (length (a :: b')) <= u16max).
           { unfold remaining_count in HL. lia. }
           destruct (process_batch_count _ _ _ _ _ _ HF E1 H0 HCI HNM).
           apply C7; auto.
        -- intros HC HI. apply C8; auto.
           exact (process_batch_fee P hdr gp (a :: b') s s1 None HF E1 (C6 HC) HI).
Qed.

(* ---- the mint ---- *)
Lemma etc_mint_facts : forall P hdr gp a s s',
  t_mint (a_tx a) = true ->
  execute_transaction_and_commit P hdr gp a s = (s', None) ->
  found_mint (r_d s) = false /\ found_mint (r_d s') = true /\
  t_mint_index (a_tx a) = tx_count (r_d s) /\ t_mint_price (a_tx a) = gp /\
  t_mint_amount (a_tx a) = (if t_mint_cid (a_tx a) =? 0 then 0 else coinbase (r_d s)) /\
  (exists tx', r_blk s' = r_blk s ++ [tx'] /\ t_mint tx' = true) /\
  tx_count (r_d s') = tx_count (r_d s) + 1 /\ tx_count (r_d s) + 1 <= u16max /\
  coinbase (r_d s') = coinbase (r_d s) /\ used_gas (r_d s') = used_gas (r_d s) /\
  used_size (r_d s') = used_size (r_d s) /\ skipped (r_d s') = skipped (r_d s) /\
  tx_status (r_d s') = tx_status (r_d s) ++ [mkStatus (t_id (a_tx a)) false false 0 0].
Proof.
  intros P hdr gp a s s' HM H. unfold execute_transaction_and_commit in H.
  destruct (execute_transaction P hdr gp a (r_st s) (r_d s)) as [d' [[st' tx']|e0]] eqn:E; [|inversion H].
  unfold checked_add in H.
  destruct (tx_count (r_d s) + 1 <=? u16max) eqn:EC; inversion H; subst. clear H. cbn.
  unfold execute_transaction in E.
  destruct (found_mint (r_d s)) eqn:HF; [inversion E|].
  destruct (mem _ _); [inversion E|].
  destruct (convert_tx hdr a); [inversion E|].
  rewrite HM in E. unfold execute_mint in E. cbn [tx_count set_found_mint coinbase] in E.
  destruct (t_mint_index (a_tx a) =? tx_count (r_d s)) eqn:E1; [|inversion E]. cbn [negb] in E.
  destruct (t_mint_price (a_tx a) =? gp) eqn:E2; [|inversion E]. cbn [negb] in E.
  match type of E with (match ?b with _ => _ end) = _ => destruct b as [st1|e] eqn:EB end; [|inversion E].
  destruct (mem (t_id (a_tx a)) (processed st1)); inversion E; subst. clear E. cbn.
  assert (HA : t_mint_amount (a_tx a) = (if t_mint_cid (a_tx a) =? 0 then 0 else coinbase (r_d s))).
  { destruct (t_mint_cid (a_tx a) =? 0).
    - destruct (t_mint_amount (a_tx a) =? 0) eqn:EA; [|discriminate]. lia.
    - destruct (t_mint_amount (a_tx a) =? coinbase (r_d s)) eqn:EA; [|discriminate]. lia. }
  splits; auto; try lia.
  eexists. split; [reflexivity|]. destruct (a_vm a); cbn; auto.
Qed.

Definition nonmint (t : Tx) : Prop := t_mint t = false.

(* C03, production (relayer disabled): the block ends with exactly one mint, built from the
   block's gas price, the recipient and the collected fees *)
Theorem mint_last_and_exact_all : forall P hdr c l bs ma st p,
  l_enabled l = false -> p_max_tx_count P < u16max ->
  produce_block P hdr c l bs ma st = (p, None) ->
  exists txs m,
    r_blk (pr_run p) = txs ++ [m] /\ Forall nonmint txs /\ t_mint m = true /\
    t_mint_index m = N.of_nat (length txs) /\ t_mint_price m = c_gas_price c /\
    t_mint_cid m = c_recipient c /\
    (clean (r_d (pr_run p)) = true ->
     t_mint_amount m = if c_recipient c =? 0 then 0 else sumfee (tx_status (r_d (pr_run p)))).
Proof.
  intros P hdr c l bs ma st p HL HM H. unfold produce_block, process_l1 in H. rewrite HL in H.
  destruct (process_l2 P hdr (c_gas_price c) bs (mkRun st data_new [] [])) as [[s2 hs] [e2|]] eqn:E2;
    [inversion H|].
  destruct (execute_transaction_and_commit _ _ _ _ s2) as [s3 [e3|]] eqn:E3; inversion H; subst. clear H.
  apply process_l2_facts in E2; [|reflexivity]. cbn in E2.
  destruct E2 as (C1 & C2 & C3 & C4 & C5 & C6 & C7 & C8).
  assert (CN : CountInv s2 /\ NoMint s2).
  { apply C7; auto; try lia; try reflexivity. constructor. }
  destruct CN as [CI NM].
  pose proof E3 as E3'. apply etc_mint_facts in E3; [|reflexivity].
  cbn [a_tx mint_att t_mint_index t_mint_price t_mint_amount t_mint_cid t_id] in E3.
  destruct E3 as (M1 & M2 & M3 & M4 & M5 & (tx' & M6 & M6') & M7 & M8 & M9 & M10 & M11 & M12 & M13).
  (* the pushed transaction is the executed form of the built mint *)
  unfold execute_transaction_and_commit in E3'.
  destruct (execute_transaction _ _ _ _ (r_st s2) (r_d s2)) as [d' [[st' tx'']|e0]] eqn:E; [|inversion E3'].
  destruct (checked_add u16max (tx_count (r_d s2)) 1); inversion E3'; subst. clear E3'.
  cbn in M6. apply app_inj_tail in M6. destruct M6 as [_ M6]. subst tx''.
  assert (TX : t_mint_index tx' = tx_count (r_d s2) /\ t_mint_price tx' = c_gas_price c /\
               t_mint_cid tx' = c_recipient c /\
               t_mint_amount tx' = (if c_recipient c =? 0 then 0 else coinbase (r_d s2))).
  { unfold execute_transaction in E.
    destruct (found_mint (r_d s2)); [inversion E|]. destruct (mem _ _); [inversion E|].
    destruct (convert_tx hdr _); [inversion E|]. cbn [a_tx mint_att t_mint] in E.
    unfold execute_mint in E.
    destruct (negb _); [inversion E|]. destruct (negb _); [inversion E|].
    match type of E with (match ?b with _ => _ end) = _ => destruct b as [st1|e] end; [|inversion E].
    destruct (mem _ _); inversion E; subst. cbn [a_vm mint_att].
    destruct (a_vm ma); cbn; auto. }
  destruct TX as (T1 & T2 & T3 & T4).
  exists (r_blk s2), tx'. cbn. splits; auto.
  - rewrite T1. exact CI.
  - intro HC. rewrite T4. destruct (c_recipient c =? 0); auto.
    assert (HC2 : clean (r_d s2) = true).
    { unfold clean in *. cbn [r_d pr_run] in *. rewrite <- M12. exact HC. }
    cbn [r_d pr_run tx_status set_tx_count] in *. rewrite M13, sumfee_app. cbn. rewrite (C8 HC2); [lia|reflexivity].
Qed.

(* C03, limits (relayer disabled): for ANY source whose transactions satisfy the VM oracle
   hypothesis, the gas used by the included transactions stays within block_gas_limit and
   the number of transactions (mint included) within u16::MAX; for the size only the u32
   bound of the checked addition is guaranteed *)
Theorem limits_respected_all : forall P hdr c l bs ma st p,
  l_enabled l = false -> p_max_tx_count P < u16max ->
  Forall (Forall gas_ok) bs ->
  produce_block P hdr c l bs ma st = (p, None) ->
  sumgas (tx_status (r_d (pr_run p))) <= p_gas_limit P /\
  N.of_nat (length (r_blk (pr_run p))) <= u16max /\
  tx_count (r_d (pr_run p)) = N.of_nat (length (r_blk (pr_run p))) /\
  used_size (r_d (pr_run p)) <= u32max.
Proof.
  intros P hdr c l bs ma st p HL HM HG H. unfold produce_block, process_l1 in H. rewrite HL in H.
  destruct (process_l2 P hdr (c_gas_price c) bs (mkRun st data_new [] [])) as [[s2 hs] [e2|]] eqn:E2;
    [inversion H|].
  destruct (execute_transaction_and_commit _ _ _ _ s2) as [s3 [e3|]] eqn:E3; inversion H; subst. clear H.
  apply process_l2_facts in E2; [|reflexivity]. cbn in E2.
  destruct E2 as (C1 & C2 & C3 & C4 & C5 & C6 & C7 & C8).
  assert (CN : CountInv s2 /\ NoMint s2).
  { apply C7; auto; try lia; try reflexivity. constructor. }
  destruct CN as [CI NM].
  assert (GI : GasInv P data_new) by (split; cbn; lia).
  destruct (C5 HG GI) as [G1 G2].
  apply etc_mint_facts in E3; [|reflexivity].
  destruct E3 as (M1 & M2 & M3 & M4 & M5 & (tx' & M6 & M6') & M7 & M8 & M9 & M10 & M11 & M12 & M13).
  change (pr_run (mkProduced s3 hs)) with s3. unfold CountInv in CI. rewrite M6, app_length. cbn [length].
  splits; try lia.
  rewrite M13, sumgas_app. cbn [sumgas s_gas]. lia.
Qed.

(* the size limit itself is NOT enforced: a source that ignores the size hint fills the
   block beyond block_transaction_size_limit (class E2) *)
Definition e2_P := mkParams 1000000 300 65534 true.
Definition e2_coin (k : N) := ((100 + k, 0), mkCoin 5 100 0 0 0).
Definition e2_st := mkSt [e2_coin 1; e2_coin 2] [] [] [] [].
Definition e2_att (k : N) :=
  mkAtt (mkTx k false [InCoin (100 + k, 0) 5 100 0] [OutChange 5 0 0] 50 1000 200 0 0 0 0 true)
        false u32max true true true
        (Some (mkVmOut false [OutChange 5 100 0] 51 [] 0 (Some (10, 0)))) 13 true.
Definition e2_mint :=
  mkAtt (mkTx 9 true [] [] 0 0 0 0 0 0 0 true) false u32max true true true None 13 true.

Theorem size_limit_refuted_all :
  exists P hdr c l bs ma st p,
    l_enabled l = false /\ Forall (Forall gas_ok) bs /\
    produce_block P hdr c l bs ma st = (p, None) /\
    size_limit32 P < used_size (r_d (pr_run p)).
Proof.
  exists e2_P, (mkHeader 1 0), (mkComp 0 0), (mkL1 false None []), [[e2_att 1; e2_att 2]], e2_mint, e2_st.
  eexists. split; [reflexivity|]. split.
  - repeat constructor; intros o ug fee H1 H2; inversion H1; subst; inversion H2; subst; vm_compute; discriminate.
  - split; [vm_compute; reflexivity|]. vm_compute. reflexivity.
Qed.

(* ---- validation ---- *)
Lemma validate_txs_shape : forall P hdr gp atts s s',
  found_mint (r_d s) = false ->
  validate_txs P hdr gp atts s = (s', None) ->
  CountInv s -> FeeInv (r_d s) ->
  CountInv s' /\ FeeInv (r_d s') /\
  ((Forall (fun a => nonmint (a_tx a)) atts /\ found_mint (r_d s') = false) \/
   exists txs m, atts = txs ++ [m] /\ Forall (fun a => nonmint (a_tx a)) txs /\
     t_mint (a_tx m) = true /\
     t_mint_index (a_tx m) = tx_count (r_d s) + N.of_nat (length txs) /\
     t_mint_price (a_tx m) = gp /\
     t_mint_amount (a_tx m) =
       (if t_mint_cid (a_tx m) =? 0 then 0 else sumfee (tx_status (r_d s')))).
Proof.
  induction atts as [|a r IH]; intros s s' HF H HC HI; cbn [validate_txs] in H.
  - inversion H; subst. splits; auto.
  - destruct (execute_transaction_and_commit P hdr gp a s) as [s1 [e1|]] eqn:E1; [inversion H|].
    destruct (t_mint (a_tx a)) eqn:HM.
    + pose proof (etc_mint_facts _ _ _ _ _ _ HM E1)
        as (M1 & M2 & M3 & M4 & M5 & (tx' & M6 & M6') & M7 & M8 & M9 & M10 & M11 & M12 & M13).
      destruct r as [|b r'].
      * cbn in H. inversion H; subst.
        assert (FI : FeeInv (r_d s')).
        { unfold FeeInv in *. rewrite M9, M13, sumfee_app. cbn. lia. }
        splits; auto.
        -- unfold CountInv in *. rewrite M7, M6, app_length. cbn. lia.
        -- right. exists [], a. cbn. splits; auto; try lia.
           rewrite M5. destruct (t_mint_cid (a_tx a) =? 0); auto.
           unfold FeeInv in FI. rewrite <- FI, M9. reflexivity.
      * cbn [validate_txs] in H. unfold execute_transaction_and_commit, execute_transaction in H.
        rewrite M2 in H. inversion H.
    + etc_facts HM HF E1. destruct (S7 eq_refl) as (T1 & T2 & T3).
      eapply IH in H; eauto. destruct H as (A & B & [[C1 C2]|(txs & m & C1 & C2 & C3 & C4 & C5 & C6)]).
      * splits; auto; try (left; split; auto; constructor; auto; fail).
      * assert (HT : tx_count (r_d s1) = tx_count (r_d s) + 1).
        { unfold CountInv in *. pose proof (T1 HC) as HT1.
          unfold execute_transaction_and_commit in E1.
          destruct (execute_transaction P hdr gp a (r_st s) (r_d s)) as [d' [[st' tx']|e0]]; [|inversion E1].
          destruct (checked_add u16max (tx_count (r_d s)) 1); inversion E1; subst. cbn in *.
          rewrite app_length in HT1. cbn in HT1. lia. }
        splits; auto. right. exists (a :: txs), m. subst r. cbn [length app].
        splits; auto; try (constructor; auto; fail); try lia.
Qed.

Lemma last_some_app : forall {A} (l : list A) m,
  last (map Some l) None = Some m -> exists txs, l = txs ++ [m].
Proof.
  intros A l m H. destruct l as [|x xs] using rev_ind; [discriminate|].
  rewrite map_app in H. cbn [map] in H. rewrite last_last in H. inversion H; subst. eauto.
Qed.

(* C03, validation (relayer disabled): an accepted block consists of non-mint transactions
   followed by exactly one mint whose index is the number of preceding transactions and
   whose amount is the sum of the fees charged in this block at the mint's gas price
   (0 when the recipient is the zero contract id).  A block without a mint, with a mint that
   is not last, or whose mint deviates in index or amount is rejected. *)
Theorem validate_rejects_bad_mint_all : forall P hdr l blk st s,
  l_enabled l = false ->
  validate_block P hdr l blk st = (s, None) ->
  exists txs m, b_txs blk = txs ++ [m] /\ Forall (fun a => nonmint (a_tx a)) txs /\
    t_mint (a_tx m) = true /\ t_mint_index (a_tx m) = N.of_nat (length txs) /\
    t_mint_amount (a_tx m) =
      (if t_mint_cid (a_tx m) =? 0 then 0 else sumfee (tx_status (r_d s))) /\
    coinbase (r_d s) = sumfee (tx_status (r_d s)).
Proof.
  intros P hdr l blk st s HL H. unfold validate_block in H.
  destruct (last (map Some (b_txs blk)) None) as [m0|] eqn:EL; [|inversion H].
  destruct (t_mint (a_tx m0)) eqn:HM0; [|inversion H].
  unfold process_l1 in H. rewrite HL in H. cbn [length skipn r_blk] in H.
  destruct (validate_txs P hdr _ (b_txs blk) _) as [s2 [e2|]] eqn:E2; [inversion H|].
  inversion H; subst. clear H.
  apply validate_txs_shape in E2; try reflexivity.
  destruct E2 as (A & B & [[C1 C2]|(txs & m & C1 & C2 & C3 & C4 & C5 & C6)]).
  - (* all non-mint: contradicts the last transaction being a mint *)
    exfalso. apply last_some_app in EL. destruct EL as [txs EL]. rewrite EL in C1.
    apply Forall_app in C1. destruct C1 as [_ C1]. inversion C1; subst. unfold nonmint in *. congruence.
  - exists txs, m. cbn in C4. splits; auto.
Qed.
