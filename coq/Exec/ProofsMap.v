(* Association-list facts and the replay algebra used by the Exec proofs. *)
From FC Require Import Exec.Model.
From Coq Require Import ZifyBool ZifyN.
Open Scope N_scope.

Section MapFacts.
  Context {K V : Type}.
  Variable eqb : K -> K -> bool.
  Hypothesis eqb_spec : forall a b, eqb a b = true <-> a = b.

  Lemma eqb_refl : forall a, eqb a a = true.
  Proof. intros; apply eqb_spec; reflexivity. Qed.

  Lemma eqb_neq : forall a b, a <> b -> eqb a b = false.
  Proof.
    intros a b H. destruct (eqb a b) eqn:E; auto. apply eqb_spec in E. contradiction.
  Qed.

  Lemma lookup_remove_same : forall k (l : list (K * V)), lookup eqb k (remove eqb k l) = None.
  Proof.
    induction l as [|[k' v] r IH]; cbn; auto.
    destruct (eqb k' k) eqn:E; auto. cbn. rewrite E. auto.
  Qed.

  Lemma lookup_remove_other : forall k k' (l : list (K * V)),
    k <> k' -> lookup eqb k' (remove eqb k l) = lookup eqb k' l.
  Proof.
    induction l as [|[k0 v] r IH]; cbn; intros; auto.
    destruct (eqb k0 k) eqn:E.
    - apply eqb_spec in E. subst k0. rewrite (eqb_neq k k') by auto. auto.
    - cbn. destruct (eqb k0 k'); auto.
  Qed.

  Lemma lookup_insert_same : forall k v (l : list (K * V)), lookup eqb k (insert eqb k v l) = Some v.
  Proof. intros. unfold insert. cbn. rewrite eqb_refl. auto. Qed.

  Lemma lookup_insert_other : forall k k' v (l : list (K * V)),
    k <> k' -> lookup eqb k' (insert eqb k v l) = lookup eqb k' l.
  Proof.
    intros. unfold insert. cbn. rewrite (eqb_neq k k') by auto.
    apply lookup_remove_other; auto.
  Qed.

  Lemma lookup_notin : forall k (l : list (K * V)), ~ In k (map fst l) -> lookup eqb k l = None.
  Proof.
    induction l as [|[k0 v] r IH]; cbn; intros; auto.
    destruct (eqb k0 k) eqn:E.
    - apply eqb_spec in E. subst. exfalso. auto.
    - apply IH. intro. apply H. auto.
  Qed.

  Lemma lookup_some_in : forall k v (l : list (K * V)), lookup eqb k l = Some v -> In k (map fst l).
  Proof.
    induction l as [|[k0 v0] r IH]; cbn; intros H; [discriminate|].
    destruct (eqb k0 k) eqn:E.
    - apply eqb_spec in E. auto.
    - right. auto.
  Qed.
End MapFacts.

Lemma utxo_eqb_spec : forall a b : UtxoId, utxo_eqb a b = true <-> a = b.
Proof.
  intros [a1 a2] [b1 b2]. unfold utxo_eqb. cbn. split.
  - intro H. apply andb_prop in H. destruct H as [H1 H2].
    apply N.eqb_eq in H1. apply N.eqb_eq in H2. subst. auto.
  - intro H. inversion H. subst. rewrite !N.eqb_refl. auto.
Qed.

Lemma Neqb_spec : forall a b : N, N.eqb a b = true <-> a = b.
Proof. intros. apply N.eqb_eq. Qed.

Lemma coin_eqb_spec : forall a b, coin_eqb a b = true <-> a = b.
Proof.
  intros [o a s h i] [o' a' s' h' i']. unfold coin_eqb. cbn. split.
  - intro H. repeat (apply andb_prop in H; destruct H as [H ?]).
    repeat match goal with H : (_ =? _) = true |- _ => apply N.eqb_eq in H end. subst. auto.
  - intro H. inversion H. subst. rewrite !N.eqb_refl. auto.
Qed.

Lemma msg_eqb_spec : forall a b, msg_eqb a b = true <-> a = b.
Proof.
  intros [o a s h i] [o' a' s' h' i']. unfold msg_eqb. cbn. split.
  - intro H. repeat (apply andb_prop in H; destruct H as [H ?]).
    repeat match goal with H : (_ =? _) = true |- _ => apply N.eqb_eq in H end. subst. auto.
  - intro H. inversion H. subst. rewrite !N.eqb_refl. auto.
Qed.

Lemma mem_spec : forall x l, mem x l = true <-> In x l.
Proof.
  intros. unfold mem. rewrite existsb_exists. split.
  - intros [y [H1 H2]]. apply N.eqb_eq in H2. subst. auto.
  - intro. exists x. split; auto. apply N.eqb_refl.
Qed.

Lemma mem_false : forall x l, mem x l = false <-> ~ In x l.
Proof.
  intros. rewrite <- mem_spec. destruct (mem x l); split; intros; try discriminate; auto.
  exfalso; auto.
Qed.

(* ---- replay algebra ---- *)
Lemma replay_app : forall e1 e2 tb,
  replay tb (e1 ++ e2) =
  match replay tb e1 with Some tb' => replay tb' e2 | None => None end.
Proof.
  induction e1; cbn; intros; auto. destruct (apply_event tb a); auto.
Qed.

Lemma created_keys_app : forall a b, created_keys (a ++ b) = created_keys a ++ created_keys b.
Proof. intros. unfold created_keys. apply flat_map_app. Qed.
Lemma consumed_keys_app : forall a b, consumed_keys (a ++ b) = consumed_keys a ++ consumed_keys b.
Proof. intros. unfold consumed_keys. apply flat_map_app. Qed.
Lemma consumed_msgs_app : forall a b, consumed_msgs (a ++ b) = consumed_msgs a ++ consumed_msgs b.
Proof. intros. unfold consumed_msgs. apply flat_map_app. Qed.

(* a key that is absent and never created is never consumed by a successful replay *)
Lemma absent_not_consumed : forall ev cs ms tb' k,
  replay (cs, ms) ev = Some tb' ->
  lookup utxo_eqb k cs = None -> ~ In k (created_keys ev) -> ~ In k (consumed_keys ev).
Proof.
  induction ev as [|e r IH]; cbn; intros cs ms tb' k Hr Hl Hc; auto.
  destruct e as [k0 c|k0 c|n m|n m|id]; cbn in *.
  - destruct (lookup utxo_eqb k0 cs) eqn:E0; try discriminate.
    destruct (0 <? c_amount c); try discriminate.
    eapply IH; eauto.
    assert (k0 <> k) by (intro; apply Hc; auto).
    rewrite (lookup_insert_other utxo_eqb utxo_eqb_spec); auto.
  - destruct (lookup utxo_eqb k0 cs) eqn:E0; try discriminate.
    destruct (coin_eqb c c0); try discriminate.
    intros [H|H].
    + subst. rewrite Hl in E0. discriminate.
    + revert H. eapply IH; eauto.
      destruct (utxo_eqb k0 k) eqn:E.
      * apply utxo_eqb_spec in E. subst. apply (lookup_remove_same utxo_eqb).
      * rewrite (lookup_remove_other utxo_eqb utxo_eqb_spec); auto.
        intro; subst. rewrite (proj2 (utxo_eqb_spec k k)) in E; auto. discriminate.
  - eapply IH; eauto.
  - destruct (lookup N.eqb n ms); try discriminate. destruct (msg_eqb m m0); try discriminate.
    eapply IH; eauto.
  - eapply IH; eauto.
Qed.

(* no coin key is consumed twice when created keys are distinct and do not collide with
   the keys present at the start *)
Lemma consumed_nodup : forall ev cs ms tb',
  replay (cs, ms) ev = Some tb' ->
  NoDup (created_keys ev) ->
  (forall k, lookup utxo_eqb k cs <> None -> ~ In k (created_keys ev)) ->
  NoDup (consumed_keys ev).
Proof.
  induction ev as [|e r IH]; cbn; intros cs ms tb' Hr Hnd Hpre; [constructor|].
  destruct e as [k0 c|k0 c|n m|n m|id]; cbn in *.
  - destruct (lookup utxo_eqb k0 cs) eqn:E0; try discriminate.
    destruct (0 <? c_amount c); try discriminate.
    inversion Hnd; subst.
    eapply IH; eauto.
    intros k Hk. destruct (utxo_eqb k0 k) eqn:E.
    + apply utxo_eqb_spec in E. subst. auto.
    + assert (k0 <> k) by (intro; subst; rewrite (proj2 (utxo_eqb_spec k k)) in E; auto; discriminate).
      rewrite (lookup_insert_other utxo_eqb utxo_eqb_spec) in Hk; auto.
      intro. apply (Hpre k Hk). auto.
  - destruct (lookup utxo_eqb k0 cs) eqn:E0; try discriminate.
    destruct (coin_eqb c c0); try discriminate.
    constructor.
    + eapply absent_not_consumed; eauto.
      * apply (lookup_remove_same utxo_eqb).
      * apply Hpre. rewrite E0. discriminate.
    + eapply IH; eauto.
      intros k Hk. apply Hpre.
      destruct (utxo_eqb k0 k) eqn:E.
      * apply utxo_eqb_spec in E. subst. rewrite (lookup_remove_same utxo_eqb) in Hk. contradiction.
      * rewrite (lookup_remove_other utxo_eqb utxo_eqb_spec) in Hk; auto.
        intro; subst. rewrite (proj2 (utxo_eqb_spec k k)) in E; auto. discriminate.
  - eapply IH; eauto.
  - destruct (lookup N.eqb n ms); try discriminate. destruct (msg_eqb m m0); try discriminate.
    eapply IH; eauto.
  - eapply IH; eauto.
Qed.

(* messages: imported nonces *)
Definition imported_msgs (evs : list Event) : list N :=
  flat_map (fun e => match e with MsgImported n _ => [n] | _ => [] end) evs.
Lemma imported_msgs_app : forall a b, imported_msgs (a ++ b) = imported_msgs a ++ imported_msgs b.
Proof. intros. unfold imported_msgs. apply flat_map_app. Qed.

Lemma absent_msg_not_consumed : forall ev cs ms tb' k,
  replay (cs, ms) ev = Some tb' ->
  lookup N.eqb k ms = None -> ~ In k (imported_msgs ev) -> ~ In k (consumed_msgs ev).
Proof.
  induction ev as [|e r IH]; cbn; intros cs ms tb' k Hr Hl Hc; auto.
  destruct e as [k0 c|k0 c|n m|n m|id]; cbn in *.
  - destruct (lookup utxo_eqb k0 cs); try discriminate.
    destruct (0 <? c_amount c); try discriminate. eapply IH; eauto.
  - destruct (lookup utxo_eqb k0 cs); try discriminate.
    destruct (coin_eqb c c0); try discriminate. eapply IH; eauto.
  - eapply IH; eauto.
    assert (n <> k) by (intro; apply Hc; auto).
    rewrite (lookup_insert_other N.eqb Neqb_spec); auto.
  - destruct (lookup N.eqb n ms) eqn:E0; try discriminate.
    destruct (msg_eqb m m0); try discriminate.
    intros [H|H].
    + subst. rewrite Hl in E0. discriminate.
    + revert H. eapply IH; eauto.
      destruct (N.eqb n k) eqn:E.
      * apply N.eqb_eq in E. subst. apply (lookup_remove_same N.eqb).
      * rewrite (lookup_remove_other N.eqb Neqb_spec); auto. apply N.eqb_neq; auto.
  - eapply IH; eauto.
Qed.

Lemma consumed_msgs_nodup : forall ev cs ms tb',
  replay (cs, ms) ev = Some tb' ->
  NoDup (imported_msgs ev) ->
  (forall k, lookup N.eqb k ms <> None -> ~ In k (imported_msgs ev)) ->
  NoDup (consumed_msgs ev).
Proof.
  induction ev as [|e r IH]; cbn; intros cs ms tb' Hr Hnd Hpre; [constructor|].
  destruct e as [k0 c|k0 c|n m|n m|id]; cbn in *.
  - destruct (lookup utxo_eqb k0 cs); try discriminate.
    destruct (0 <? c_amount c); try discriminate. eapply IH; eauto.
  - destruct (lookup utxo_eqb k0 cs); try discriminate.
    destruct (coin_eqb c c0); try discriminate. eapply IH; eauto.
  - inversion Hnd; subst. eapply IH; eauto.
    intros k Hk. destruct (N.eqb n k) eqn:E.
    + apply N.eqb_eq in E. subst. auto.
    + apply N.eqb_neq in E.
      rewrite (lookup_insert_other N.eqb Neqb_spec) in Hk; auto.
      intro. apply (Hpre k Hk). auto.
  - destruct (lookup N.eqb n ms) eqn:E0; try discriminate.
    destruct (msg_eqb m m0); try discriminate.
    constructor.
    + eapply absent_msg_not_consumed; eauto.
      * apply (lookup_remove_same N.eqb).
      * apply Hpre. rewrite E0. discriminate.
    + eapply IH; eauto.
      intros k Hk. apply Hpre.
      destruct (N.eqb n k) eqn:E.
      * apply N.eqb_eq in E. subst. rewrite (lookup_remove_same N.eqb) in Hk. contradiction.
      * apply N.eqb_neq in E. rewrite (lookup_remove_other N.eqb Neqb_spec) in Hk; auto.
  - eapply IH; eauto.
Qed.

Lemma NoDup_app_intro : forall {A} (a b : list A),
  NoDup a -> NoDup b -> (forall x, In x a -> In x b -> False) -> NoDup (a ++ b).
Proof.
  induction a as [|x a IH]; cbn; intros b Ha Hb Hd; auto.
  inversion Ha; subst. constructor.
  - intro Hin. apply in_app_or in Hin. destruct Hin as [Hin|Hin]; auto. eapply Hd; eauto.
  - apply IH; auto. intros y Hy1 Hy2. eapply Hd; eauto.
Qed.
