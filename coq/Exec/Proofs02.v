(* C02 (and the processed-ids invariant shared with C06): every accepted transaction
   extends the event list by a delta whose strict replay transforms the tables exactly. *)
From FC Require Import Exec.Model Exec.ProofsMap.
From Coq Require Import ZifyBool ZifyN.
Open Scope N_scope.

Lemma coin_eqb_refl : forall c, coin_eqb c c = true.
Proof. intros. apply coin_eqb_spec. auto. Qed.
Lemma msg_eqb_refl : forall c, msg_eqb c c = true.
Proof. intros. apply msg_eqb_spec. auto. Qed.

Ltac splits := repeat match goal with |- _ /\ _ => split end.

(* ---- spend_input_utxos ---- *)
Lemma spend_replay : forall rev ins st st' ev,
  spend true rev ins st = (st', ev, None) ->
  replay (tables_of st) ev = Some (tables_of st') /\
  created_keys ev = [] /\ imported_msgs ev = [] /\
  processed st' = processed st /\ contracts st' = contracts st /\ cstate st' = cstate st.
Proof.
  induction ins as [|i r IH]; cbn; intros st st' ev H.
  - inversion H; subst. cbn. auto 10.
  - destruct i as [k o a s|n sd rc am dt rt|cid].
    + destruct (lookup utxo_eqb k (coins st)) eqn:E; [|discriminate].
      destruct (spend true rev r (set_coins st (remove utxo_eqb k (coins st)))) as [[st1 ev1] e1] eqn:E1.
      inversion H; subst. apply IH in E1. destruct E1 as (R & C & I & Pp & Cc & Cs).
      cbn. unfold tables_of at 1. cbn. rewrite E, coin_eqb_refl.
      unfold tables_of in R. cbn in R. rewrite R. cbn in *. auto 10.
    + destruct (rt && rev).
      * apply IH in H. auto.
      * destruct (lookup N.eqb n (msgs st)) eqn:E; [|discriminate].
        destruct (spend true rev r (set_msgs st (remove N.eqb n (msgs st)))) as [[st1 ev1] e1] eqn:E1.
        inversion H; subst. apply IH in E1. destruct E1 as (R & C & I & Pp & Cc & Cs).
        cbn. unfold tables_of at 1. cbn. rewrite E, msg_eqb_refl.
        unfold tables_of in R. cbn in R. rewrite R. cbn in *. auto 10.
    + apply IH in H. auto.
Qed.

(* ---- persist_output_utxos ---- *)
Lemma persist_replay : forall h txc id ins outs idx st st' ev,
  persist h txc id ins outs idx st = (st', ev, None) ->
  replay (tables_of st) ev = Some (tables_of st') /\
  imported_msgs ev = [] /\
  (forall k, In k (created_keys ev) -> fst k = id /\ idx <= snd k) /\
  NoDup (created_keys ev) /\
  processed st' = processed st /\ cstate st' = cstate st.
Proof.
  induction outs as [|o r IH]; cbn; intros idx st st' ev H.
  - inversion H; subst. cbn. splits; auto; [intros k [] | constructor].
  - destruct (u16max <? idx); [discriminate|].
    assert (Hcoin : forall t a s,
      (if 0 <? a
       then match lookup utxo_eqb (id, idx) (coins st) with
            | Some _ => (st, [], Some E_OutputAlreadyExists)
            | None =>
                let '(st'0, ev0, e) :=
                  persist h txc id ins r (idx + 1)
                    (set_coins st (insert utxo_eqb (id, idx) (mkCoin t a s h txc) (coins st))) in
                (st'0, CoinCreated (id, idx) (mkCoin t a s h txc) :: ev0, e)
            end
       else persist h txc id ins r (idx + 1) st) = (st', ev, None) ->
      replay (tables_of st) ev = Some (tables_of st') /\
      imported_msgs ev = [] /\
      (forall k, In k (created_keys ev) -> fst k = id /\ idx <= snd k) /\
      NoDup (created_keys ev) /\ processed st' = processed st /\ cstate st' = cstate st).
    { intros t a s H0. destruct (0 <? a) eqn:Ea.
      - destruct (lookup utxo_eqb (id, idx) (coins st)) eqn:E; [discriminate|].
        destruct (persist h txc id ins r (idx + 1)
                    (set_coins st (insert utxo_eqb (id, idx) (mkCoin t a s h txc) (coins st)))) as [[st1 ev1] e1] eqn:E1.
        inversion H0; subst. apply IH in E1. destruct E1 as (R & I & Ck & Nd & Pp & Cs).
        cbn. unfold tables_of at 1. cbn. rewrite E. cbn. rewrite Ea.
        unfold tables_of in R. cbn in R. rewrite R. cbn in *.
        splits; auto.
        + intros k [Hk|Hk]; [subst; cbn; split; [auto|lia] | apply Ck in Hk; split; [tauto|lia]].
        + constructor; auto. intro Hin. apply Ck in Hin. cbn in Hin. lia.
      - apply IH in H0. destruct H0 as (R & I & Ck & Nd & Pp & Cs).
        splits; auto. intros k Hk. apply Ck in Hk. split; [tauto|lia]. }
    destruct o as [t a s|t a s|t a s|ii rt|cid rt]; try (apply (Hcoin t a s); exact H).
    + destruct (nth_error ins (N.to_nat ii)) as [[| |cid]|]; try discriminate.
      apply IH in H. destruct H as (R & I & Ck & Nd & Pp & Cs).
      splits; auto. intros k Hk. apply Ck in Hk. split; [tauto|lia].
    + apply IH in H. destruct H as (R & I & Ck & Nd & Pp & Cs).
      splits; auto. intros k Hk. apply Ck in Hk. split; [tauto|lia].
Qed.

(* ---- update_execution_data keeps the events ---- *)
Lemma update_events : forall d o id sz d' e,
  update_execution_data d o id sz = (d', e) -> events d' = events d.
Proof.
  unfold update_execution_data. intros d o id sz d' e H.
  destruct (v_fee o) as [[ug fee]|]; [|inversion H; auto].
  destruct (checked_add u64max (coinbase d) fee); [|inversion H; auto].
  destruct (checked_add u64max _ ug); [|inversion H; auto].
  destruct (checked_add u32max _ _); inversion H; auto.
Qed.

(* the effect of one accepted transaction *)
Record TxStep (id : N) (st : St) (d : Data) (st' : St) (d' : Data) : Prop := {
  ts_delta : exists delta,
      events d' = events d ++ delta /\
      replay (tables_of st) delta = Some (tables_of st') /\
      imported_msgs delta = [] /\
      NoDup (created_keys delta) /\
      (forall k, In k (created_keys delta) -> fst k = id);
  ts_proc : processed st' = id :: processed st
}.

Lemma execute_chargeable_step : forall P hdr a st d d' st' tx',
  p_forbid P = true ->
  execute_chargeable P hdr a st d = (d', inl (st', tx')) ->
  TxStep (t_id (a_tx a)) st d st' d' /\ t_id tx' = t_id (a_tx a).
Proof.
  intros P hdr a st d d' st' tx' HF H. unfold execute_chargeable in H. rewrite HF in H.
  destruct (if negb (a_pred_ok a) then _ else _); [inversion H|].
  destruct (a_vm a) as [o|]; [|inversion H].
  destruct (compute_inputs true st (t_inputs (a_tx a))); [inversion H|].
  set (st0 := if v_reverted o then st else if v_changes o =? 0 then st else set_cstate st (cstate st ++ [v_changes o])) in *.
  assert (T0 : tables_of st0 = tables_of st /\ processed st0 = processed st).
  { unfold st0. destruct (v_reverted o); auto. destruct (v_changes o =? 0); auto. }
  destruct (spend true (v_reverted o) (t_inputs (a_tx a)) st0) as [[st1 ev1] e1] eqn:E1.
  destruct e1; [inversion H|].
  destruct (persist _ _ _ _ _ 0 st1) as [[st2 ev2] e2] eqn:E2.
  destruct e2; [inversion H|].
  destruct (update_execution_data _ o _ _) as [d3 e3] eqn:E3.
  destruct e3; inversion H; subst. clear H.
  apply spend_replay in E1. destruct E1 as (R1 & C1 & I1 & P1 & _).
  apply persist_replay in E2. destruct E2 as (R2 & I2 & K2 & N2 & P2 & _).
  apply update_events in E3. cbn in E3.
  split; [|reflexivity]. constructor.
  - exists (ev1 ++ ev2). splits.
    + rewrite E3. rewrite app_assoc. reflexivity.
    + rewrite replay_app. destruct T0 as [T0 _]. rewrite <- T0, R1. exact R2.
    + rewrite imported_msgs_app, I1, I2. reflexivity.
    + rewrite created_keys_app, C1. exact N2.
    + rewrite created_keys_app, C1. cbn. intros k Hk. apply K2 in Hk. tauto.
  - cbn. rewrite P2, P1. destruct T0 as [_ T0]. rewrite T0. reflexivity.
Qed.

Lemma execute_mint_step : forall P hdr gp a st d d' st' tx',
  execute_mint P hdr gp a st d = (d', inl (st', tx')) ->
  TxStep (t_id (a_tx a)) st d st' d' /\ t_id tx' = t_id (a_tx a) /\ ~ In (t_id (a_tx a)) (processed st).
Proof.
  intros P hdr gp a st d d' st' tx' H. unfold execute_mint in H.
  destruct (negb (t_mint_index (a_tx a) =? tx_count (set_found_mint d))); [inversion H|].
  destruct (negb (t_mint_price (a_tx a) =? gp)); [inversion H|].
  match type of H with (match ?b with _ => _ end) = _ => destruct b as [st1|e] eqn:EB end; [|inversion H].
  assert (T1 : tables_of st1 = tables_of st /\ processed st1 = processed st).
  { destruct (t_mint_cid (a_tx a) =? 0).
    - destruct (negb (t_mint_amount (a_tx a) =? 0)); [discriminate|].
      destruct (negb (t_mint_default_io (a_tx a))); inversion EB; subst; auto.
    - destruct (negb (t_mint_amount (a_tx a) =? coinbase (set_found_mint d))); [discriminate|].
      destruct (p_forbid P && _); [discriminate|].
      destruct (negb (a_mint_vm_ok a)); inversion EB; subst; auto. }
  destruct (mem (t_id (a_tx a)) (processed st1)) eqn:EM; [inversion H|].
  inversion H; subst. clear H. destruct T1 as [T1 T2].
  apply mem_false in EM. rewrite T2 in EM.
  split; [|split; auto].
  - constructor.
    + exists []. cbn. rewrite app_nil_r. splits; auto; try constructor.
      * unfold tables_of in *. cbn. rewrite T1. reflexivity.
      * intros k [].
    + cbn. rewrite T2. reflexivity.
  - destruct (a_vm a); reflexivity.
Qed.

Lemma execute_transaction_step : forall P hdr gp a st d d' st' tx',
  p_forbid P = true ->
  execute_transaction P hdr gp a st d = (d', inl (st', tx')) ->
  TxStep (t_id (a_tx a)) st d st' d' /\ t_id tx' = t_id (a_tx a) /\ ~ In (t_id (a_tx a)) (processed st).
Proof.
  intros P hdr gp a st d d' st' tx' HF H. unfold execute_transaction in H.
  destruct (found_mint d); [inversion H|].
  destruct (mem (t_id (a_tx a)) (processed st)) eqn:EM; [inversion H|].
  apply mem_false in EM.
  destruct (convert_tx hdr a); [inversion H|].
  destruct (t_mint (a_tx a)).
  - apply execute_mint_step in H. tauto.
  - apply execute_chargeable_step in H; auto. tauto.
Qed.

(* ---- block-level invariant ---- *)
(* [Facts st0 st ev ids]: starting from [st0], the transactions [ids] were executed (in that
   order), reporting [ev] and leaving the storage [st] *)
Record Facts (st0 st : St) (ev : list Event) (ids : list N) : Prop := {
  ri_replay : replay (tables_of st0) ev = Some (tables_of st);
  ri_nodup : NoDup (created_keys ev);
  ri_fresh : forall k, In k (created_keys ev) -> In (fst k) ids;
  ri_noimp : imported_msgs ev = [];
  ri_proc : processed st = rev ids ++ processed st0;
  ri_ids : NoDup ids;
  ri_ids_fresh : forall x, In x ids -> ~ In x (processed st0)
}.
Definition RunInv (st0 : St) (s : Run) : Prop :=
  Facts st0 (r_st s) (events (r_d s)) (map t_id (r_blk s)).

Lemma RunInv_init : forall st, RunInv st (mkRun st data_new [] []).
Proof.
  intros. unfold RunInv. constructor; cbn; auto; try (constructor; fail); try (intros ? []).
Qed.

Lemma etc_ok_inv : forall P hdr gp a s s' st0,
  p_forbid P = true -> RunInv st0 s ->
  execute_transaction_and_commit P hdr gp a s = (s', None) ->
  RunInv st0 s' /\ (exists tx', r_blk s' = r_blk s ++ [tx'] /\ t_id tx' = t_id (a_tx a)) /\
  map t_id (r_blk s') = map t_id (r_blk s) ++ [t_id (a_tx a)].
Proof.
  intros P hdr gp a s s' st0 HF Inv H. unfold execute_transaction_and_commit in H.
  destruct (execute_transaction P hdr gp a (r_st s) (r_d s)) as [d' [[st' tx']|e]] eqn:E; [|inversion H].
  destruct (checked_add u16max (tx_count (r_d s)) 1); inversion H; subst. clear H.
  apply execute_transaction_step in E; auto. destruct E as ([[delta (E1 & R & I & N & K)] Pp] & Tid & Fr).
  unfold RunInv in *. destruct Inv as [IR IN IF INI IP II IIF].
  assert (Hids : map t_id (r_blk s ++ [tx']) = map t_id (r_blk s) ++ [t_id (a_tx a)]).
  { rewrite map_app. cbn. rewrite Tid. reflexivity. }
  assert (Hnew : ~ In (t_id (a_tx a)) (map t_id (r_blk s))).
  { intro Hin. apply Fr. rewrite IP. apply in_or_app. left. apply -> in_rev. exact Hin. }
  split; [|split; auto].
  - constructor; cbn.
    + rewrite E1, replay_app, IR. exact R.
    + rewrite E1, created_keys_app. apply NoDup_app_intro; auto.
      intros k Hk1 Hk2. apply IF in Hk1. apply K in Hk2. rewrite Hk2 in Hk1. contradiction.
    + rewrite E1, created_keys_app, Hids. intros k Hk. apply in_or_app.
      apply in_app_or in Hk. destruct Hk as [Hk|Hk]; [left; auto | right; left; symmetry; auto].
    + rewrite E1, imported_msgs_app, INI, I. reflexivity.
    + rewrite Pp, IP, Hids, rev_app_distr. reflexivity.
    + rewrite Hids. apply NoDup_app_intro; auto. constructor; auto. constructor.
      intros x Hx [Hx'|[]]. subst. contradiction.
    + rewrite Hids. intros x Hx. apply in_app_or in Hx. destruct Hx as [Hx|[Hx|[]]]; auto.
      subst. intro Hin. apply Fr. rewrite IP. apply in_or_app. right. exact Hin.
  - exists tx'. auto.
Qed.

Lemma validate_txs_inv : forall P hdr gp atts s s' st0,
  p_forbid P = true -> RunInv st0 s ->
  validate_txs P hdr gp atts s = (s', None) ->
  RunInv st0 s' /\
  map t_id (r_blk s') = map t_id (r_blk s) ++ map (fun a => t_id (a_tx a)) atts.
Proof.
  induction atts as [|a r IH]; cbn; intros s s' st0 HF Inv H.
  - inversion H; subst. rewrite app_nil_r. auto.
  - destruct (execute_transaction_and_commit P hdr gp a s) as [s1 [e|]] eqn:E; [inversion H|].
    eapply etc_ok_inv in E; eauto. destruct E as (Inv1 & _ & Hids).
    eapply IH in H; eauto. destruct H as [Inv2 Hids2]. split; auto.
    rewrite Hids2, Hids, <- app_assoc. reflexivity.
Qed.

(* extensional equality of tables and the specification decided by [conserve_okb] *)
Definition tables_ext (a b : Tables) : Prop :=
  (forall k, lookup utxo_eqb k (fst a) = lookup utxo_eqb k (fst b)) /\
  (forall n, lookup N.eqb n (snd a) = lookup N.eqb n (snd b)).

Definition ConserveSpec (pre : Tables) (evs : list Event) (post : Tables) (proc : list N) : Prop :=
  (exists tb, replay pre evs = Some tb /\ tables_ext tb post) /\
  NoDup (created_keys evs) /\
  (forall k, In k (created_keys evs) -> ~ In (fst k) proc).

Lemma ocoin_eqb_spec : forall a b, ocoin_eqb a b = true <-> a = b.
Proof.
  intros [a|] [b|]; cbn; split; intro H; try discriminate; auto.
  - apply coin_eqb_spec in H. subst. auto.
  - inversion H. apply coin_eqb_refl.
Qed.
Lemma omsg_eqb_spec : forall a b, omsg_eqb a b = true <-> a = b.
Proof.
  intros [a|] [b|]; cbn; split; intro H; try discriminate; auto.
  - apply msg_eqb_spec in H. subst. auto.
  - inversion H. apply msg_eqb_refl.
Qed.

Lemma coins_eqb_spec : forall a b,
  coins_eqb a b = true <-> forall k, lookup utxo_eqb k a = lookup utxo_eqb k b.
Proof.
  intros a b. unfold coins_eqb. rewrite forallb_forall. split.
  - intros H k.
    destruct (lookup utxo_eqb k a) eqn:Ea.
    + rewrite <- Ea. apply ocoin_eqb_spec. apply H. apply in_or_app. left.
      eapply (lookup_some_in utxo_eqb utxo_eqb_spec); eauto.
    + destruct (lookup utxo_eqb k b) eqn:Eb; auto.
      rewrite <- Ea, <- Eb. apply ocoin_eqb_spec. apply H. apply in_or_app. right.
      eapply (lookup_some_in utxo_eqb utxo_eqb_spec); eauto.
  - intros H k _. apply ocoin_eqb_spec. auto.
Qed.
Lemma msgs_eqb_spec : forall a b,
  msgs_eqb a b = true <-> forall k, lookup N.eqb k a = lookup N.eqb k b.
Proof.
  intros a b. unfold msgs_eqb. rewrite forallb_forall. split.
  - intros H k.
    destruct (lookup N.eqb k a) eqn:Ea.
    + rewrite <- Ea. apply omsg_eqb_spec. apply H. apply in_or_app. left.
      eapply (lookup_some_in N.eqb Neqb_spec); eauto.
    + destruct (lookup N.eqb k b) eqn:Eb; auto.
      rewrite <- Ea, <- Eb. apply omsg_eqb_spec. apply H. apply in_or_app. right.
      eapply (lookup_some_in N.eqb Neqb_spec); eauto.
  - intros H k _. apply omsg_eqb_spec. auto.
Qed.
Lemma tables_eqb_spec : forall a b, tables_eqb a b = true <-> tables_ext a b.
Proof.
  intros. unfold tables_eqb, tables_ext. rewrite andb_true_iff, coins_eqb_spec, msgs_eqb_spec. tauto.
Qed.

Lemma nodup_utxo_spec : forall l, nodup_utxo l = true <-> NoDup l.
Proof.
  induction l as [|x r IH]; cbn.
  - split; auto. constructor.
  - rewrite andb_true_iff, negb_true_iff, IH. split.
    + intros [H1 H2]. constructor; auto. intro Hin.
      assert (existsb (utxo_eqb x) r = true).
      { apply existsb_exists. exists x. split; auto. apply utxo_eqb_spec. auto. }
      congruence.
    + intro H. inversion H; subst. split; auto.
      destruct (existsb (utxo_eqb x) r) eqn:E; auto.
      apply existsb_exists in E. destruct E as [y [Hy1 Hy2]]. apply utxo_eqb_spec in Hy2. subst. contradiction.
Qed.

Lemma conserve_okb_sound_all : forall pre evs post proc,
  conserve_okb pre evs post proc = true <-> ConserveSpec pre evs post proc.
Proof.
  intros. unfold conserve_okb, ConserveSpec.
  rewrite !andb_true_iff, nodup_utxo_spec, forallb_forall. split.
  - intros [[H1 H2] H3]. split; [|split; auto].
    + destruct (replay pre evs) as [tb|]; [|discriminate]. exists tb. split; auto.
      apply tables_eqb_spec. auto.
    + intros k Hk. apply mem_false. apply H3 in Hk. apply negb_true_iff in Hk. auto.
  - intros [[tb [H1 H1']] [H2 H3]]. split; [split; auto|].
    + rewrite H1. apply tables_eqb_spec. auto.
    + intros k Hk. apply negb_true_iff. apply mem_false. auto.
Qed.

Lemma tables_ext_refl : forall a, tables_ext a a.
Proof. intros. split; auto. Qed.

Lemma Facts_conserve : forall st0 st ev ids,
  Facts st0 st ev ids -> ConserveSpec (tables_of st0) ev (tables_of st) (processed st0).
Proof.
  intros st0 st ev ids [R N F _ P I IF]. split; [|split; auto].
  - exists (tables_of st). split; auto. apply tables_ext_refl.
Qed.

(* validation with the relayer disabled *)
Lemma validate_block_facts : forall P hdr l blk st s,
  p_forbid P = true -> l_enabled l = false ->
  validate_block P hdr l blk st = (s, None) ->
  Facts st (r_st s) (events (r_d s)) (map (fun a => t_id (a_tx a)) (b_txs blk)).
Proof.
  intros P hdr l blk st s HF HL H. unfold validate_block in H.
  destruct (last (map Some (b_txs blk)) None) as [m|]; [|inversion H].
  destruct (t_mint (a_tx m)); [|inversion H].
  unfold process_l1 in H. rewrite HL in H. cbn in H.
  destruct (validate_txs P hdr (t_mint_price (a_tx m)) (b_txs blk) (mkRun st data_new [] [])) as [s2 [e|]] eqn:E;
    [inversion H|].
  inversion H; subst. clear H.
  eapply validate_txs_inv in E; eauto using RunInv_init.
  destruct E as [Inv Hids]. cbn in Hids. unfold RunInv in Inv. rewrite Hids in Inv. exact Inv.
Qed.

Theorem block_conserves_all : forall P hdr l blk st s,
  p_forbid P = true -> l_enabled l = false ->
  validate_block P hdr l blk st = (s, None) ->
  ConserveSpec (tables_of st) (events (r_d s)) (tables_of (r_st s)) (processed st).
Proof.
  intros. eapply Facts_conserve. eapply validate_block_facts; eauto.
Qed.

(* ---- histories of accepted blocks ---- *)
Fixpoint accept_history (P : Params) (bs : list (Header * L1 * Block)) (st : St)
  : option (St * list Event * list N) :=
  match bs with
  | [] => Some (st, [], [])
  | (hdr, l, blk) :: r =>
      match validate_block P hdr l blk st with
      | (s, None) =>
          match accept_history P r (r_st s) with
          | Some (st', ev, ids) =>
              Some (st', events (r_d s) ++ ev, map (fun a => t_id (a_tx a)) (b_txs blk) ++ ids)
          | None => None
          end
      | (_, Some _) => None
      end
  end.

Lemma Facts_trans : forall st0 st1 st2 e1 e2 i1 i2,
  Facts st0 st1 e1 i1 -> Facts st1 st2 e2 i2 -> Facts st0 st2 (e1 ++ e2) (i1 ++ i2).
Proof.
  intros st0 st1 st2 e1 e2 i1 i2 [R1 N1 F1 M1 P1 I1 IF1] [R2 N2 F2 M2 P2 I2 IF2].
  assert (Hdisj : forall x, In x i1 -> In x i2 -> False).
  { intros x H1 H2. apply (IF2 x H2). rewrite P1. apply in_or_app. left. apply -> in_rev. auto. }
  constructor.
  - rewrite replay_app, R1. exact R2.
  - rewrite created_keys_app. apply NoDup_app_intro; auto.
    intros k H1 H2. apply (Hdisj (fst k)); auto.
  - rewrite created_keys_app. intros k Hk. apply in_or_app. apply in_app_or in Hk. destruct Hk; auto.
  - rewrite imported_msgs_app, M1, M2. reflexivity.
  - rewrite P2, P1, rev_app_distr, app_assoc. reflexivity.
  - apply NoDup_app_intro; auto.
  - intros x Hx. apply in_app_or in Hx. destruct Hx as [Hx|Hx]; auto.
    intro Hin. apply (IF2 x Hx). rewrite P1. apply in_or_app. right. auto.
Qed.

Lemma Facts_refl : forall st, Facts st st [] [].
Proof.
  intros. constructor; cbn; auto; try (constructor; fail); intros ? [].
Qed.

Lemma accept_history_facts : forall P bs st st' ev ids,
  p_forbid P = true -> Forall (fun b => l_enabled (snd (fst b)) = false) bs ->
  accept_history P bs st = Some (st', ev, ids) -> Facts st st' ev ids.
Proof.
  induction bs as [|[[hdr l] blk] r IH]; cbn; intros st st' ev ids HF HL H.
  - inversion H; subst. apply Facts_refl.
  - inversion HL; subst. cbn in *.
    destruct (validate_block P hdr l blk st) as [s [e|]] eqn:E; [inversion H|].
    destruct (accept_history P r (r_st s)) as [[[st2 ev2] ids2]|] eqn:E2; [|inversion H].
    inversion H; subst. clear H.
    eapply Facts_trans.
    + eapply validate_block_facts; eauto.
    + eapply IH; eauto.
Qed.

(* the history-level statement of C02 *)
Theorem history_conserves_all : forall P bs st st' ev ids,
  p_forbid P = true -> Forall (fun b => l_enabled (snd (fst b)) = false) bs ->
  accept_history P bs st = Some (st', ev, ids) ->
  ConserveSpec (tables_of st) ev (tables_of st') (processed st) /\
  NoDup (consumed_msgs ev) /\
  ((forall k, lookup utxo_eqb k (coins st) <> None -> ~ In k (created_keys ev)) ->
   NoDup (consumed_keys ev)).
Proof.
  intros P bs st st' ev ids HF HL H.
  pose proof (accept_history_facts _ _ _ _ _ _ HF HL H) as F.
  split; [eapply Facts_conserve; eauto|]. destruct F as [R N Fr M Pp I IFr]. split.
  - unfold tables_of in R. eapply consumed_msgs_nodup; eauto.
    + rewrite M. constructor.
    + rewrite M. intros k _ [].
  - intro Hpre. unfold tables_of in R. eapply consumed_nodup; eauto.
Qed.
