(* Executable model of the off-chain indexation of executor events (C36):
     crates/fuel-core/src/graphql_api/worker_service.rs      process_executor_events,
                                                              update_event_based_indexation
     crates/fuel-core/src/graphql_api/indexation/balances.rs       update
     crates/fuel-core/src/graphql_api/indexation/coins_to_spend.rs update
   Tables are association lists keyed by lists of integers (table keys are fixed
   tuples: owner / asset / amount / id ...). *)
From FC Require Export Common.T.
From FC Require Export Gql.Model37.   (* res: rid rkind rowner rasset ramount rretry *)
Open Scope N_scope.

Definition key := list N.

Fixpoint kget {V} (d : V) (m : list (key * V)) (k : key) : V :=
  match m with
  | [] => d
  | (k', v) :: tl => if list_eqb k' k then v else kget d tl k
  end.

Fixpoint kmem {V} (m : list (key * V)) (k : key) : bool :=
  match m with
  | [] => false
  | (k', _) :: tl => list_eqb k' k || kmem tl k
  end.

(* insert or overwrite *)
Fixpoint kput {V} (m : list (key * V)) (k : key) (v : V) : list (key * V) :=
  match m with
  | [] => [(k, v)]
  | (k', v') :: tl => if list_eqb k' k then (k, v) :: tl else (k', v') :: kput tl k v
  end.

(* keys are unique in a table (kput overwrites), so removing every row of k removes the row of k *)
Fixpoint kdel {V} (m : list (key * V)) (k : key) : list (key * V) :=
  match m with
  | [] => []
  | (k', v') :: tl => if list_eqb k' k then kdel tl k else (k', v') :: kdel tl k
  end.

Record ostate := mkO {
  cbal : list (key * N);          (* CoinBalances: (owner, asset) -> u128 *)
  mbal : list (key * (N * N));    (* MessageBalances: owner -> (retryable, non_retryable) *)
  cts : list (key * unit);        (* CoinsToSpendIndex: (flag, owner, asset, amount, kind, id) *)
  ocoins : list (key * unit);     (* OwnedCoins: (owner, utxo id) *)
  omsgs : list (key * unit);      (* OwnedMessageIds: (owner, nonce) *)
  spent : list (key * unit)       (* SpentMessages: nonce *)
}.

Definition o_empty : ostate := mkO [] [] [] [] [] [].

(* Event::CoinCreated / CoinConsumed (kind 0) and MessageImported / MessageConsumed (kind 1) *)
Inductive event := Created (r : res) | Consumed (r : res).

(* IndexationError variants *)
Inductive ierr := CoinBalanceWouldUnderflow | MessageBalanceWouldUnderflow
                | CoinToSpendNotFound | CoinToSpendAlreadyIndexed
                | MessageToSpendNotFound | MessageToSpendAlreadyIndexed.

Definition is_coin (r : res) : bool := rkind r =? 0.

(* ---------------- indexation/balances.rs ---------------- *)

Definition cbal_key (r : res) : key := [rowner r; rasset r].
Definition mbal_key (r : res) : key := [rowner r].

Definition increase_coin_balance (s : ostate) (r : res) : ostate :=
  let cur := kget 0 (cbal s) (cbal_key r) in
  mkO (kput (cbal s) (cbal_key r) (sat_add u128max cur (ramount r)))
      (mbal s) (cts s) (ocoins s) (omsgs s) (spent s).

Definition decrease_coin_balance (s : ostate) (r : res) : ostate * option ierr :=
  let cur := kget 0 (cbal s) (cbal_key r) in
  match checked_sub cur (ramount r) with
  | None => (s, Some CoinBalanceWouldUnderflow)
  | Some v => (mkO (kput (cbal s) (cbal_key r) v) (mbal s) (cts s) (ocoins s) (omsgs s) (spent s), None)
  end.

Definition increase_message_balance (s : ostate) (r : res) : ostate :=
  let cur := kget (0, 0) (mbal s) (mbal_key r) in
  let nb := if rretry r then (sat_add u128max (fst cur) (ramount r), snd cur)
            else (fst cur, sat_add u128max (snd cur) (ramount r)) in
  mkO (cbal s) (kput (mbal s) (mbal_key r) nb) (cts s) (ocoins s) (omsgs s) (spent s).

Definition decrease_message_balance (s : ostate) (r : res) : ostate * option ierr :=
  let cur := kget (0, 0) (mbal s) (mbal_key r) in
  let cb := if rretry r then fst cur else snd cur in
  match checked_sub cb (ramount r) with
  | None => (s, Some MessageBalanceWouldUnderflow)
  | Some v =>
      let nb := if rretry r then (v, snd cur) else (fst cur, v) in
      (mkO (cbal s) (kput (mbal s) (mbal_key r) nb) (cts s) (ocoins s) (omsgs s) (spent s), None)
  end.

Definition balances_update (ev : event) (s : ostate) (enabled : bool) : ostate * option ierr :=
  if negb enabled then (s, None)
  else match ev with
       | Created r => if is_coin r then (increase_coin_balance s r, None)
                      else (increase_message_balance s r, None)
       | Consumed r => if is_coin r then decrease_coin_balance s r
                       else decrease_message_balance s r
       end.

(* ---------------- indexation/coins_to_spend.rs ---------------- *)

(* RETRYABLE_BYTE = 0, NON_RETRYABLE_BYTE = 1 (coins always non-retryable) *)
Definition cts_key (base : N) (r : res) : key :=
  if is_coin r then [1; rowner r; rasset r; ramount r; 0; rid r]
  else [(if rretry r then 0 else 1); rowner r; base; ramount r; 1; rid r].

(* storage.replace(key, ()) then error if there was an old value: the row stays *)
Definition cts_add (base : N) (s : ostate) (r : res) : ostate * option ierr :=
  let k := cts_key base r in
  let old := kmem (cts s) k in
  let s' := mkO (cbal s) (mbal s) (kput (cts s) k tt) (ocoins s) (omsgs s) (spent s) in
  if old then (s', Some (if is_coin r then CoinToSpendAlreadyIndexed else MessageToSpendAlreadyIndexed))
  else (s', None).

(* storage.take(key) then error if there was none *)
Definition cts_remove (base : N) (s : ostate) (r : res) : ostate * option ierr :=
  let k := cts_key base r in
  let old := kmem (cts s) k in
  let s' := mkO (cbal s) (mbal s) (kdel (cts s) k) (ocoins s) (omsgs s) (spent s) in
  if old then (s', None)
  else (s', Some (if is_coin r then CoinToSpendNotFound else MessageToSpendNotFound)).

Definition cts_update (ev : event) (s : ostate) (enabled : bool) (base : N) : ostate * option ierr :=
  if negb enabled then (s, None)
  else match ev with
       | Created r => cts_add base s r
       | Consumed r => cts_remove base s r
       end.

(* ---------------- worker_service.rs ---------------- *)

(* balances first; its error skips the coins-to-spend update of this event *)
Definition update_event_based_indexation (ev : event) (s : ostate) (bal_on cts_on : bool) (base : N)
  : ostate * option ierr :=
  match balances_update ev s bal_on with
  | (s1, Some e) => (s1, Some e)
  | (s1, None) => cts_update ev s1 cts_on base
  end.

Definition ocoin_key (r : res) : key := [rowner r; rid r].
Definition omsg_key (r : res) : key := [rowner r; rid r].

(* one iteration of the loop of process_executor_events: indexation errors are only logged *)
Definition process_event (bal_on cts_on : bool) (base : N) (s : ostate) (ev : event)
  : ostate * option ierr :=
  let (s1, err) := update_event_based_indexation ev s bal_on cts_on base in
  let s2 :=
    match ev with
    | Created r =>
        if is_coin r
        then mkO (cbal s1) (mbal s1) (cts s1) (kput (ocoins s1) (ocoin_key r) tt) (omsgs s1) (spent s1)
        else mkO (cbal s1) (mbal s1) (cts s1) (ocoins s1) (kput (omsgs s1) (omsg_key r) tt) (spent s1)
    | Consumed r =>
        if is_coin r
        then mkO (cbal s1) (mbal s1) (cts s1) (kdel (ocoins s1) (ocoin_key r)) (omsgs s1) (spent s1)
        else mkO (cbal s1) (mbal s1) (cts s1) (ocoins s1) (kdel (omsgs s1) (omsg_key r))
                 (kput (spent s1) [rid r] tt)
    end in
  (s2, err).

(* all intermediate states (after every event) and the logged errors *)
Fixpoint process_events (bal_on cts_on : bool) (base : N) (s : ostate) (evs : list event)
  : list (ostate * option ierr) :=
  match evs with
  | [] => []
  | ev :: tl =>
      let r := process_event bal_on cts_on base s ev in
      r :: process_events bal_on cts_on base (fst r) tl
  end.

(* ---------------- ghost: the unspent set of a history ---------------- *)

Definition res_eqb (a b : res) : bool :=
  (rid a =? rid b) && (rkind a =? rkind b) && (rowner a =? rowner b) && (rasset a =? rasset b) &&
  (ramount a =? ramount b) && Bool.eqb (rretry a) (rretry b).

Fixpoint remove_res (r : res) (u : list res) : list res :=
  match u with
  | [] => []
  | x :: tl => if res_eqb x r then tl else x :: remove_res r tl
  end.

Definition same_ident (a b : res) : bool := (rid a =? rid b) && Bool.eqb (is_coin a) (is_coin b).

Definition ghost_step (u : list res) (ev : event) : list res :=
  match ev with
  | Created r => r :: u
  | Consumed r => remove_res r u
  end.

(* consistent step: creations are fresh (no unspent resource of the same kind and id),
   consumptions name an unspent resource exactly (what C02 gives for executor output) *)
Definition consistent_step (u : list res) (ev : event) : bool :=
  match ev with
  | Created r => negb (existsb (same_ident r) u)
  | Consumed r => existsb (res_eqb r) u
  end.

Fixpoint consistentb (u : list res) (evs : list event) : bool :=
  match evs with
  | [] => true
  | ev :: tl => consistent_step u ev && consistentb (ghost_step u ev) tl
  end.

(* ---------------- decidable checker: tables vs the unspent set ---------------- *)

Definition sum_where (f : res -> bool) (u : list res) : N :=
  fold_right (fun r s => if f r then ramount r + s else s) 0 u.

Definition coin_sum (u : list res) (k : key) : N :=
  sum_where (fun r => is_coin r && list_eqb (cbal_key r) k) u.
Definition msg_sum (u : list res) (k : key) (retry : bool) : N :=
  sum_where (fun r => negb (is_coin r) && list_eqb (mbal_key r) k && Bool.eqb (rretry r) retry) u.

(* a set table holds exactly the keys f(r) of the selected unspent resources *)
Definition set_okb (tbl : list (key * unit)) (keys : list key) : bool :=
  forallb (fun kv => existsb (list_eqb (fst kv)) keys) tbl &&
  forallb (fun k => kmem tbl k) keys.

(* classes: 1 holds; 2 coin balance; 3 message balance; 4 coins-to-spend index;
   5 owned coins; 6 owned messages *)
Definition inv_code (bal_on cts_on : bool) (base : N) (s : ostate) (u : list res) : N :=
  let coins := filter is_coin u in
  let msgs := filter (fun r => negb (is_coin r)) u in
  if bal_on && negb (forallb (fun kv => kget 0 (cbal s) (fst kv) =? coin_sum u (fst kv)) (cbal s) &&
                     forallb (fun r => kget 0 (cbal s) (cbal_key r) =? coin_sum u (cbal_key r)) coins)
  then 2
  else if bal_on && negb (forallb (fun kv => (fst (kget (0,0) (mbal s) (fst kv)) =? msg_sum u (fst kv) true) &&
                                             (snd (kget (0,0) (mbal s) (fst kv)) =? msg_sum u (fst kv) false)) (mbal s) &&
                          forallb (fun r => (fst (kget (0,0) (mbal s) (mbal_key r)) =? msg_sum u (mbal_key r) true) &&
                                            (snd (kget (0,0) (mbal s) (mbal_key r)) =? msg_sum u (mbal_key r) false)) msgs)
  then 3
  else if cts_on && negb (set_okb (cts s) (map (cts_key base) u)) then 4
  else if negb (set_okb (ocoins s) (map ocoin_key coins)) then 5
  else if negb (set_okb (omsgs s) (map omsg_key msgs)) then 6
  else 1.

(* Pcheck of a trace of states against the ghost unspent sets *)
Fixpoint trace_code (bal_on cts_on : bool) (base : N) (u : list res) (evs : list event)
         (sts : list ostate) : N :=
  match evs, sts with
  | [], [] => 1
  | ev :: etl, s :: stl =>
      let u' := ghost_step u ev in
      let c := inv_code bal_on cts_on base s u' in
      if c =? 1 then trace_code bal_on cts_on base u' etl stl else c
  | _, _ => 0
  end.

(* ---------------- canonical dump, codecs, main ---------------- *)

Fixpoint lex_leb (a b : list N) : bool :=
  match a, b with
  | [], _ => true
  | _ :: _, [] => false
  | x :: a', y :: b' => (x <? y) || ((x =? y) && lex_leb a' b')
  end.

Fixpoint lex_insert (x : list N) (l : list (list N)) : list (list N) :=
  match l with
  | [] => [x]
  | y :: tl => if lex_leb x y then x :: l else y :: lex_insert x tl
  end.
Definition lex_sort (l : list (list N)) : list (list N) := fold_right lex_insert [] l.

Definition rows_T (rows : list (list N)) : T := L (map tListN (lex_sort rows)).

Definition ostate_T (s : ostate) : T :=
  L [rows_T (map (fun kv => fst kv ++ [snd kv]) (cbal s));
     rows_T (map (fun kv => fst kv ++ [fst (snd kv); snd (snd kv)]) (mbal s));
     rows_T (map fst (cts s));
     rows_T (map fst (ocoins s));
     rows_T (map fst (omsgs s));
     rows_T (map fst (spent s))].

Definition split_last (l : list N) : option (list N * N) :=
  match rev l with
  | [] => None
  | x :: r => Some (rev r, x)
  end.

Definition T_rows (t : T) : option (list (list N)) :=
  match t with L rows => mapM getListN rows | _ => None end.

Definition T_ostate (t : T) : option ostate :=
  match t with
  | L [a; b; c; d; e; f] =>
      match T_rows a, T_rows b, T_rows c, T_rows d, T_rows e, T_rows f with
      | Some a, Some b, Some c, Some d, Some e, Some f =>
          match mapM split_last a,
                mapM (fun r => match split_last r with
                               | Some (r', nr) => match split_last r' with
                                                  | Some (k, rt) => Some (k, (rt, nr))
                                                  | None => None
                                                  end
                               | None => None
                               end) b with
          | Some a, Some b =>
              Some (mkO a b (map (fun k => (k, tt)) c) (map (fun k => (k, tt)) d)
                        (map (fun k => (k, tt)) e) (map (fun k => (k, tt)) f))
          | _, _ => None
          end
      | _, _, _, _, _, _ => None
      end
  | _ => None
  end.

Definition T_event (t : T) : option event :=
  match t with
  | L [I 0%Z; r] => option_map Created (T_res r)
  | L [I 1%Z; r] => option_map Consumed (T_res r)
  | _ => None
  end.

Definition main36 (input observed : T) : T :=
  match input with
  | L [bal_on; cts_on; base; L evs] =>
      match getB bal_on, getB cts_on, getN base, mapM T_event evs with
      | Some bal_on, Some cts_on, Some base, Some evs =>
          let tr := process_events bal_on cts_on base o_empty evs in
          let model := L (map (fun p => ostate_T (fst p)) tr) in
          let pc :=
            match observed with
            | L obs =>
                match mapM T_ostate obs with
                | Some sts =>
                    if consistentb [] evs then trace_code bal_on cts_on base [] evs sts else 1
                | None => 0
                end
            | _ => 0
            end in
          L [model; tN pc]
      | _, _, _, _ => tErr 2
      end
  | _ => tErr 1
  end.
