From FC Require Import Gql.Model.
Require Extraction.
Require Import ExtrOcamlBasic.
Extraction "gql_model.ml" main_T.
