(* Cluster Gql: executable models of the GraphQL layer.
     Model38.v  crates/fuel-core/src/schema.rs query_pagination            (C38)
   This file only dispatches the exchange requests to the per-property models. *)
From FC Require Export Common.T.
From FC Require Export Gql.Model38.

Definition main_T (req : T) : T :=
  match req with
  | L [I 38%Z; input; observed] => main38 input observed
  | _ => tErr 0
  end.
