(* Cluster Gql: executable models of the GraphQL layer.
     Model38.v  crates/fuel-core/src/schema.rs query_pagination            (C38)
     Model37.v  crates/fuel-core/src/coins_query.rs + asset_query.rs       (C37)
     Model36.v  graphql_api/worker_service.rs + indexation/*.rs            (C36)
   This file only dispatches the exchange requests to the per-property models. *)
From FC Require Export Common.T.
From FC Require Export Gql.Model38.
From FC Require Export Gql.Model37.
From FC Require Export Gql.Model36.

Definition main_T (req : T) : T :=
  match req with
  | L [I 38%Z; input; observed] => main38 input observed
  | L [I 37%Z; input; observed] => main37 input observed
  | L [I 36%Z; input; observed] => main36 input observed
  | _ => tErr 0
  end.
