(* Proofs for C37: coins-to-spend selection (indexed and non-indexed), every oracle value. *)
From FC Require Import Gql.Model37 Gql.Proofs38.
From Coq Require Import ZifyBool ZifyN ZifyNat Sorting.Permutation.
Open Scope N_scope.

Definition ne (excl : list N) (e : entry) : bool := negb (memN (eid e) excl).

Lemma sum_app a b : sum_amt (a ++ b) = sum_amt a + sum_amt b.
Proof. induction a as [|x a IH]; cbn [app sum_amt fold_right]; [reflexivity|]. fold (sum_amt (a ++ b)). fold (sum_amt a). lia. Qed.

Lemma sum_cons x a : sum_amt (x :: a) = eamt x + sum_amt a.
Proof. reflexivity. Qed.

Lemma lenN_app {A} (a b : list A) : lenN (a ++ b) = lenN a + lenN b.
Proof. rewrite !lenN_length, app_length. lia. Qed.

Lemma u128sat_exact a b : a + b <= u128max -> u128sat a b = a + b.
Proof. unfold u128sat, sat_add. lia. Qed.

(* ---------- select_coins_until ---------- *)

Lemma scu_spec pred excl max : forall stream total coins t' c' m,
  total + sum_amt stream <= u128max ->
  scu pred excl max stream total coins = (t', c', m) ->
  exists pre post, stream = pre ++ post /\ c' = coins ++ filter (ne excl) pre /\
     t' = total + sum_amt (filter (ne excl) pre) /\
     (lenN coins <= max -> lenN c' <= max) /\
     (m = false -> post = []) /\
     (m = true -> exists c post', post = c :: post' /\ ne excl c = true /\
                                   (max <= lenN c' \/ pred c t' = true)).
Proof.
  induction stream as [|c tl IH]; intros total coins t' c' m Hb H; cbn [scu] in H.
  - inversion H; subst. exists [], []. cbn [filter sum_amt fold_right app]. rewrite app_nil_r.
    repeat split; try lia; try tauto; try discriminate.
  - rewrite sum_cons in Hb. destruct (memN (eid c) excl) eqn:Eex.
    + destruct (IH total coins t' c' m ltac:(lia) H) as (pre & post & E1 & E2 & E3 & E4 & E5 & E6).
      assert (Hne : ne excl c = false) by (unfold ne; now rewrite Eex).
      exists (c :: pre), post. cbn [filter app]. rewrite Hne.
      subst tl. repeat split; try assumption; try reflexivity.
    + destruct ((max <=? lenN coins) || pred c total) eqn:Estop.
      * inversion H; subst. exists [], (c :: tl). cbn [filter sum_amt fold_right app].
        rewrite app_nil_r. repeat split; try lia; try discriminate.
        intros _. exists c, tl. split; [reflexivity|]. split; [unfold ne; now rewrite Eex|].
        apply orb_true_iff in Estop. destruct Estop; [left; lia | right; assumption].
      * rewrite u128sat_exact in H by lia.
        destruct (IH (total + eamt c) (coins ++ [c]) t' c' m ltac:(lia) H)
          as (pre & post & E1 & E2 & E3 & E4 & E5 & E6).
        assert (Hne : ne excl c = true) by (unfold ne; now rewrite Eex).
        exists (c :: pre), post. cbn [filter app]. rewrite Hne.
        subst tl. rewrite <- app_assoc in E2. cbn [app] in E2.
        rewrite sum_cons. repeat split; try assumption; try lia.
        intros Hl. apply E4. rewrite lenN_app. cbn [lenN].
        apply orb_false_iff in Estop. lia.
Qed.

(* ---------- skip_big_coins_up_to_amount ---------- *)

Lemma skip_big_sum l : forall cur, sum_amt l <= sum_amt (skip_big l cur) + cur.
Proof.
  induction l as [|c tl IH]; intros cur; cbn [skip_big]; [cbn; lia|].
  destruct (N.leb_spec (eamt c) cur).
  - specialize (IH (cur - eamt c)). rewrite sum_cons. lia.
  - lia.
Qed.

Lemma skip_big_suffix l : forall cur, exists a, l = a ++ skip_big l cur.
Proof.
  induction l as [|c tl IH]; intros cur; cbn [skip_big]; [exists []; reflexivity|].
  destruct (eamt c <=? cur).
  - destruct (IH (cur - eamt c)) as [a E]. exists (c :: a). cbn [app]. now rewrite <- E.
  - exists []. reflexivity.
Qed.

(* ---------- positions around the last selected big coin ---------- *)

Lemma last_entry_app l : l <> [] -> exists a x, l = a ++ [x] /\ last_entry l = Some x.
Proof.
  induction l as [|x tl IH]; [congruence|]. intros _. destruct tl as [|y tl'].
  - exists [], x. split; reflexivity.
  - destruct IH as (a & k & E & Hl); [congruence|].
    exists (x :: a), k. split; [cbn [app]; now rewrite <- E|]. exact Hl.
Qed.

Lemma last_entry_some l x : last_entry l = Some x -> exists a, l = a ++ [x].
Proof.
  intros H. destruct l as [|y tl]; [discriminate|].
  destruct (last_entry_app (y :: tl)) as (a & k & E & Hl); [congruence|].
  rewrite H in Hl. inversion Hl; subst. now exists a.
Qed.

(* the dust scan over  s1 ++ lb :: s2  never gets past lb *)
Lemma dust_before excl maxd lb : ne excl lb = true ->
  forall s1 s2 total coins t' c' m,
  scu (fun c _ => entry_eqb c lb) excl maxd (s1 ++ lb :: s2) total coins = (t', c', m) ->
  exists sel, c' = coins ++ sel /\ incl sel s1.
Proof.
  intros Hlb. induction s1 as [|c tl IH]; intros s2 total coins t' c' m H; cbn [app scu] in H.
  - unfold ne in Hlb. destruct (memN (eid lb) excl); [discriminate|].
    assert (E : entry_eqb lb lb = true) by (unfold entry_eqb; rewrite !N.eqb_refl; reflexivity).
    rewrite E, orb_true_r in H. inversion H; subst. exists []. rewrite app_nil_r.
    split; [reflexivity | intros x []].
  - destruct (memN (eid c) excl).
    + destruct (IH _ _ _ _ _ _ H) as (sel & E1 & E2). exists sel. split; [exact E1|].
      intros x Hx. right. now apply E2.
    + destruct ((maxd <=? lenN coins) || entry_eqb c lb).
      * inversion H; subst. exists []. rewrite app_nil_r. split; [reflexivity | intros x []].
      * destruct (IH _ _ _ _ _ _ H) as (sel & E1 & E2). exists (c :: sel).
        split; [rewrite E1, <- app_assoc; reflexivity|].
        intros x [->|Hx]; [now left | right; now apply E2].
Qed.

Lemma filter_incl {A} (f : A -> bool) l : incl (filter f l) l.
Proof. intros x Hx. apply filter_In in Hx. tauto. Qed.

Lemma NoDup_map_app_disj {A B} (f : A -> B) a b :
  NoDup (map f (a ++ b)) -> forall x y, In x a -> In y b -> f x <> f y.
Proof.
  rewrite map_app. intros H x y Hx Hy E.
  induction a as [|z a IH]; [destruct Hx|]. cbn [map app] in H. inversion H as [|? ? Hn Hd]; subst.
  destruct Hx as [->|Hx].
  - apply Hn. apply in_or_app. right. rewrite E. now apply in_map.
  - now apply IH.
Qed.

Lemma NoDup_map_filter {A B} (f : A -> B) g l : NoDup (map f l) -> NoDup (map f (filter g l)).
Proof.
  induction l as [|x l IH]; cbn [map filter]; [constructor|]. intros H. inversion H as [|? ? Hn Hd]; subst.
  destruct (g x); [|now apply IH]. cbn [map]. constructor; [|now apply IH].
  intros Hin. apply Hn. apply in_map_iff in Hin. destruct Hin as (y & E & Hy).
  apply filter_In in Hy. apply in_map_iff. exists y. tauto.
Qed.

Lemma NoDup_app_l {A} (a b : list A) : NoDup (a ++ b) -> NoDup a.
Proof.
  induction a as [|x a IH]; cbn [app]; [constructor|]. intros H. inversion H as [|? ? Hn Hd]; subst.
  constructor; [|now apply IH]. intros Hin. apply Hn. apply in_or_app. now left.
Qed.
Lemma NoDup_app_r {A} (a b : list A) : NoDup (a ++ b) -> NoDup b.
Proof. induction a as [|x a IH]; cbn [app]; [tauto|]. intros H. inversion H; subst. now apply IH. Qed.
Lemma NoDup_map_app_l {A B} (f : A -> B) a b : NoDup (map f (a ++ b)) -> NoDup (map f a).
Proof. rewrite map_app. apply NoDup_app_l. Qed.
Lemma NoDup_map_app_r {A B} (f : A -> B) a b : NoDup (map f (a ++ b)) -> NoDup (map f b).
Proof. rewrite map_app. apply NoDup_app_r. Qed.

Lemma NoDup_map_app_intro {A B} (f : A -> B) a b :
  NoDup (map f a) -> NoDup (map f b) -> (forall x y, In x a -> In y b -> f x <> f y) ->
  NoDup (map f (a ++ b)).
Proof.
  intros Ha Hb Hd. induction a as [|x a IH]; cbn [app map]; [exact Hb|].
  cbn [map] in Ha. inversion Ha as [|? ? Hn Ha']; subst. constructor.
  - rewrite map_app. intros Hin. apply in_app_or in Hin. destruct Hin as [Hin|Hin]; [contradiction|].
    apply in_map_iff in Hin. destruct Hin as (y & E & Hy). apply (Hd x y); [now left | exact Hy | now symmetry].
  - apply IH; [exact Ha'|]. intros u v Hu Hv. apply Hd; [now right | exact Hv].
Qed.

(* ---------- the indexed selection ---------- *)

Definition AlgSpec (adm : list entry) (target max : N) (partial : bool) (l : list entry) : Prop :=
  incl l adm /\ NoDup (map eid l) /\ lenN l <= max /\ (partial = false -> target <= sum_amt l).

(* the class on which the indexed path answers Ok([]) although the target is positive
   and partial answers were not requested (tested behaviour of the repository:
   select_coins_to_spend_should_bail_on_incorrect_max) *)
Definition MaxZeroClass (total max : N) (partial : bool) : Prop :=
  max = 0 /\ 0 < total /\ partial = false.

Lemma incl_app_l {A} (a b c : list A) : incl a c -> incl b c -> incl (a ++ b) c.
Proof. intros Ha Hb x Hx. apply in_app_or in Hx. destruct Hx; auto. Qed.

Lemma in_rev_iff {A} (l : list A) x : In x (rev l) <-> In x l.
Proof. symmetry. apply in_rev. Qed.

Theorem indexed_sound_alg idx total max partial excl r l :
  NoDup (map eid idx) -> sum_amt idx <= u128max -> max <= u16max ->
  ~ MaxZeroClass total max partial ->
  select_coins_to_spend idx total max partial excl r = COk l ->
  AlgSpec (filter (ne excl) idx) total max partial l.
Proof.
  intros Hnd Hsum Hmax Hk H. unfold select_coins_to_spend in H.
  destruct ((total =? 0) || (max =? 0)) eqn:E0.
  { inversion H; subst. unfold AlgSpec. cbn [sum_amt fold_right lenN map].
    split; [intros x []|]. split; [constructor|]. split; [lia|].
    intros Hp. apply orb_true_iff in E0. destruct E0 as [E0|E0]; [lia|].
    destruct (N.eq_dec total 0); [lia|].
    exfalso. apply Hk. unfold MaxZeroClass. split; [lia|]. split; [lia | exact Hp]. }
  apply orb_false_iff in E0. destruct E0 as [Et Em].
  destruct (big_coins (rev idx) (sat_mul u128max total 2) max excl) as [[bt big] more] eqn:Eb.
  unfold big_coins in Eb.
  assert (Hsr : sum_amt (rev idx) = sum_amt idx).
  { clear. induction idx as [|x l IH]; [reflexivity|]. cbn [rev]. rewrite sum_app, IH, !sum_cons. change (sum_amt []) with 0. lia. }
  assert (Hb0 : 0 + sum_amt (rev idx) <= u128max) by (rewrite Hsr; lia).
  destruct (scu_spec _ _ _ _ _ _ _ _ _ Hb0 Eb)
    as (preB & postB & EB1 & EB2 & EB3 & EB4 & _ & _).
  cbn [app] in EB2. specialize (EB4 ltac:(cbn; lia)).
  destruct ((bt =? 0) || ((bt <? total) && negb partial)) eqn:Echk.
  { destruct ((max <=? lenN big) && more); discriminate. }
  apply orb_false_iff in Echk. destruct Echk as [Ebt0 Ebt].
  destruct (last_entry big) as [lb|] eqn:Elast; [|discriminate].
  destruct (u16max <? lenN big); [discriminate|].
  set (mdc := max_dust_count max (lenN big) 5 r) in *.
  destruct (dust_coins idx lb mdc excl) as [[dt dust] dmore] eqn:Ed.
  inversion H; subst l. clear H. unfold dust_coins in Ed.
  (* structure of the big selection around its last element *)
  destruct (last_entry_some _ _ Elast) as [b0 Ebig].
  assert (Hlb_in : In lb (filter (ne excl) preB)).
  { rewrite <- EB2, Ebig. apply in_or_app. right. now left. }
  apply filter_In in Hlb_in. destruct Hlb_in as [Hlb_pre Hlb_ne].
  destruct (in_split _ _ Hlb_pre) as (t1 & t2a & Epre).
  (* rev idx = t1 ++ lb :: (t2a ++ postB) *)
  assert (Erev : rev idx = t1 ++ lb :: (t2a ++ postB)).
  { rewrite EB1, Epre, <- app_assoc. reflexivity. }
  assert (Eidx : idx = rev (t2a ++ postB) ++ lb :: rev t1).
  { rewrite <- (rev_involutive idx), Erev, rev_app_distr. cbn [rev]. rewrite <- app_assoc. reflexivity. }
  (* big lies in t1 ++ [lb]: everything selected after lb would contradict "lb is last" *)
  assert (Hbig_incl : incl big (lb :: rev t1)).
  { rewrite EB2, Epre, filter_app. cbn [filter]. rewrite Hlb_ne.
    assert (Ht2 : filter (ne excl) t2a = []).
    { (* big = filter t1 ++ lb :: filter t2a = b0 ++ [lb]; NoDup ids forces filter t2a = [] *)
      assert (Hndb : NoDup (map eid big)).
      { rewrite EB2. apply NoDup_map_filter. eapply NoDup_map_app_l.
        rewrite <- EB1. rewrite map_rev. apply NoDup_rev. exact Hnd. }
      rewrite EB2, Epre, filter_app in Ebig. cbn [filter] in Ebig. rewrite Hlb_ne in Ebig.
      destruct (filter (ne excl) t2a) as [|z zs] eqn:Ez; [reflexivity|]. exfalso.
      (* the last element of  X ++ lb :: z :: zs  is in z :: zs, and it equals lb *)
      assert (Hlast : In lb (z :: zs)).
      { assert (E' : rev (filter (ne excl) t1 ++ lb :: z :: zs) = rev (b0 ++ [lb])) by now rewrite Ebig.
        rewrite !rev_app_distr in E'. cbn [rev app] in E'.
        destruct (rev zs) as [|w ws] eqn:Ew; cbn [app] in E'.
        - inversion E'. now left.
        - inversion E'. right. apply in_rev. rewrite Ew. now left. }
      rewrite EB2, Epre, filter_app in Hndb. cbn [filter] in Hndb. rewrite Hlb_ne, Ez in Hndb.
      apply NoDup_map_app_r in Hndb. cbn [map] in Hndb. inversion Hndb as [|? ? Hn Hd'].
      apply Hn. change (In (eid lb) (map eid (z :: zs))). now apply in_map. }
    rewrite Ht2. intros x Hx. apply in_app_or in Hx. destruct Hx as [Hx|[<-|[]]]; [|now left].
    right. apply in_rev_iff. apply filter_In in Hx. tauto. }
  (* dust lies strictly before lb *)
  rewrite Eidx in Ed.
  destruct (dust_before excl mdc lb Hlb_ne _ _ _ _ _ _ _ Ed) as (dsel & Ed1 & Ed2).
  cbn [app] in Ed1. subst dust.
  rewrite <- Eidx in Ed.
  assert (Hb1 : 0 + sum_amt idx <= u128max) by lia.
  destruct (scu_spec _ _ _ _ _ _ _ _ _ Hb1 Ed) as (preD & postD & ED1 & ED2 & ED3 & ED4 & _ & _).
  cbn [app] in ED2. specialize (ED4 ltac:(cbn; lia)).
  destruct (skip_big_suffix big dt) as [dropped Edrop].
  unfold AlgSpec. repeat split.
  - apply incl_app_l.
    + intros x Hx. assert (Hb : In x big) by (rewrite Edrop; apply in_or_app; now right).
      rewrite EB2 in Hb. apply filter_In in Hb. apply filter_In. split; [|tauto].
      apply in_rev_iff. rewrite EB1. apply in_or_app. left. tauto.
    + rewrite ED2. intros x Hx. apply filter_In in Hx. apply filter_In. split; [|tauto].
      rewrite ED1. apply in_or_app. left. tauto.
  - apply NoDup_map_app_intro.
    + eapply NoDup_map_app_r. rewrite <- Edrop. rewrite EB2. apply NoDup_map_filter.
      eapply NoDup_map_app_l. rewrite <- EB1, map_rev. apply NoDup_rev. exact Hnd.
    + rewrite ED2. apply NoDup_map_filter. eapply NoDup_map_app_l. rewrite <- ED1. exact Hnd.
    + intros x y Hx Hy. assert (Hb : In x (lb :: rev t1)).
      { apply Hbig_incl. rewrite Edrop. apply in_or_app. now right. }
      apply Ed2 in Hy. rewrite Eidx in Hnd. intros E.
      apply (NoDup_map_app_disj eid _ _ Hnd y x Hy Hb). now symmetry.
  - rewrite lenN_app.
    assert (Hls : lenN (skip_big big dt) <= lenN big).
    { rewrite Edrop at 2. rewrite lenN_app. lia. }
    assert (Hmdc : mdc <= max - lenN big).
    { unfold mdc, max_dust_count, sat_sub.
      set (ub := N.min (sat_mul u16max (lenN big) 5) (max - lenN big)).
      pose proof (N.mod_upper_bound r (ub + 1) ltac:(lia)). lia. }
    lia.
  - intros Hp. subst partial. cbn [negb] in Ebt. rewrite andb_true_r in Ebt.
    rewrite sum_app. pose proof (skip_big_sum big dt) as Hs.
    assert (Ebs : bt = sum_amt big) by (rewrite EB3, EB2; lia).
    assert (Eds : dt = sum_amt dsel) by (rewrite ED3, ED2; lia).
    lia.
Qed.

(* ---------- indexed: errors ---------- *)

Lemma takeN_app_exact {A} (a b : list A) n : lenN a = n -> takeN n (a ++ b) = a.
Proof.
  revert n. induction a as [|x a IH]; intros n H; cbn [lenN] in H.
  - subst n. cbn [app]. destruct b; reflexivity.
  - cbn [app takeN]. destruct (N.eqb_spec n 0); [lia|]. f_equal. apply IH. lia.
Qed.

Theorem indexed_error_alg idx total max partial excl r e :
  sum_amt idx <= u128max -> max <= u16max -> total <= u128max ->
  select_coins_to_spend idx total max partial excl r = CErr e ->
  (e = 1 \/ e = 2) /\
  sum_amt (takeN max (filter (ne excl) (rev idx))) < total /\
  (partial = true -> sum_amt (takeN max (filter (ne excl) (rev idx))) = 0).
Proof.
  intros Hsum Hmax Ht H. unfold select_coins_to_spend in H.
  destruct ((total =? 0) || (max =? 0)) eqn:E0; [discriminate|].
  apply orb_false_iff in E0. destruct E0 as [Et Em].
  destruct (big_coins (rev idx) (sat_mul u128max total 2) max excl) as [[bt big] more] eqn:Eb.
  unfold big_coins in Eb.
  assert (Hsr : sum_amt (rev idx) = sum_amt idx).
  { clear. induction idx as [|x l IH]; [reflexivity|]. cbn [rev]. rewrite sum_app, IH, !sum_cons. change (sum_amt []) with 0. lia. }
  assert (Hb0 : 0 + sum_amt (rev idx) <= u128max) by (rewrite Hsr; lia).
  destruct (scu_spec _ _ _ _ _ _ _ _ _ Hb0 Eb)
    as (preB & postB & EB1 & EB2 & EB3 & EB4 & EB5 & EB6).
  cbn [app] in EB2. specialize (EB4 ltac:(cbn; lia)).
  assert (Ebs : bt = sum_amt big) by (rewrite EB3, EB2; lia).
  destruct ((bt =? 0) || ((bt <? total) && negb partial)) eqn:Echk.
  - (* the error branch *)
    assert (He : e = 1 \/ e = 2).
    { destruct ((max <=? lenN big) && more); inversion H; tauto. }
    split; [exact He|].
    assert (Hcond : bt = 0 \/ (bt < total /\ partial = false)).
    { apply orb_true_iff in Echk. destruct Echk as [E|E]; [left; lia|].
      apply andb_true_iff in E. destruct E as [E1 E2]. right. split; [lia|]. now destruct partial. }
    assert (Htake : sum_amt (takeN max (filter (ne excl) (rev idx))) = bt).
    { rewrite EB1, filter_app, <- EB2. destruct more.
      - destruct (EB6 eq_refl) as (c & post' & Ep & Hc & Hstop).
        destruct Hstop as [Hfull|Hadj].
        + rewrite takeN_app_exact by lia. now symmetry.
        + exfalso. unfold sat_mul in Hadj. destruct Hcond as [Hc0|[Hc1 _]]; lia.
      - rewrite (EB5 eq_refl). cbn [filter]. rewrite app_nil_r, takeN_all by lia. now symmetry. }
    rewrite Htake. destruct Hcond as [Hc0|[Hc1 Hc2]]; split; try lia; intros Hp; congruence.
  - apply orb_false_iff in Echk. destruct Echk as [Ebt0 _].
    destruct (last_entry big) as [lb|] eqn:Elast.
    + destruct (N.ltb_spec u16max (lenN big)); [lia|].
      destruct (dust_coins idx lb (max_dust_count max (lenN big) 5 r) excl) as [[dt dust] dm]. discriminate.
    + assert (Hbn : big = []).
      { destruct big as [|x b]; [reflexivity|]. destruct (last_entry_app (x :: b)) as (a & k & _ & Hl); congruence. }
      rewrite Hbn in Ebs. change (sum_amt []) with 0 in Ebs. exfalso. lia.
Qed.

(* ---------- largest_first ---------- *)

Lemma lf_loop_ok target max partial : forall inputs collected coins l,
  collected + sum_amt inputs <= u128max ->
  lf_loop inputs target max partial collected coins = COk l ->
  exists sel rest, inputs = sel ++ rest /\ l = coins ++ sel /\
    (lenN coins <= max -> lenN l <= max) /\
    (partial = false -> target <= collected + sum_amt sel).
Proof.
  assert (Hend : forall collected coins l, lf_end target partial collected coins = COk l ->
                 l = coins /\ (partial = false -> target <= collected)).
  { intros collected coins l H. unfold lf_end in H. destruct (N.ltb_spec collected target).
    - destruct (partial && (0 <? collected)) eqn:E; [|discriminate]. inversion H.
      split; [reflexivity|]. intros Hp. subst partial. discriminate.
    - inversion H. split; [reflexivity | intros; lia]. }
  induction inputs as [|c tl IH]; intros collected coins l Hb H; cbn [lf_loop] in H.
  - apply Hend in H. destruct H as [-> Ht]. exists [], []. change (sum_amt []) with 0.
    split; [reflexivity|]. split; [now rewrite app_nil_r|]. split; [tauto|].
    intros Hp. specialize (Ht Hp). lia.
  - rewrite sum_cons in Hb. destruct (target <=? collected) eqn:Et.
    + apply Hend in H. destruct H as [-> Ht]. exists [], (c :: tl). change (sum_amt []) with 0.
      split; [reflexivity|]. split; [now rewrite app_nil_r|]. split; [tauto|].
      intros Hp. specialize (Ht Hp). lia.
    + destruct (N.leb_spec max (lenN coins)).
      * destruct partial; [|discriminate]. inversion H; subst. exists [], (c :: tl).
        split; [reflexivity|]. split; [now rewrite app_nil_r|]. split; [tauto | discriminate].
      * rewrite u128sat_exact in H by lia.
        destruct (IH (collected + eamt c) (coins ++ [c]) l ltac:(lia) H) as (sel & rest & E1 & E2 & E3 & E4).
        exists (c :: sel), rest. subst tl. rewrite <- app_assoc in E2. cbn [app] in E2.
        rewrite sum_cons. repeat split; try assumption.
        -- intros _. apply E3. rewrite lenN_app. cbn [lenN]. lia.
        -- intros Hp. specialize (E4 Hp). lia.
Qed.

Lemma lf_loop_err target max partial : forall inputs collected coins e,
  collected + sum_amt inputs <= u128max ->
  lenN coins <= max -> collected = sum_amt coins ->
  lf_loop inputs target max partial collected coins = CErr e ->
  (e = 1 \/ e = 2) /\ sum_amt (takeN max (coins ++ inputs)) < target /\
  (partial = true -> sum_amt (takeN max (coins ++ inputs)) = 0).
Proof.
  assert (Hend : forall collected coins e, lf_end target partial collected coins = CErr e ->
                 e = 1 /\ collected < target /\ (partial = true -> collected = 0)).
  { intros collected coins e H. unfold lf_end in H. destruct (N.ltb_spec collected target); [|discriminate].
    destruct (partial && (0 <? collected)) eqn:E; [discriminate|]. inversion H.
    split; [reflexivity|]. split; [lia|]. intros Hp. subst partial. cbn [andb] in E. lia. }
  induction inputs as [|c tl IH]; intros collected coins e Hb Hl Hc H; cbn [lf_loop] in H.
  - apply Hend in H. destruct H as (-> & H1 & H2). rewrite app_nil_r, takeN_all by lia.
    rewrite <- Hc. repeat split; try tauto; try lia.
  - rewrite sum_cons in Hb. destruct (N.leb_spec target collected).
    + apply Hend in H. lia.
    + destruct (N.leb_spec max (lenN coins)).
      * destruct partial; [discriminate|]. inversion H. rewrite takeN_app_exact by lia.
        rewrite <- Hc. repeat split; try tauto; try lia; try discriminate.
      * rewrite u128sat_exact in H by lia.
        replace (coins ++ c :: tl) with ((coins ++ [c]) ++ tl) by (rewrite <- app_assoc; reflexivity).
        apply (IH (collected + eamt c) (coins ++ [c]) e ltac:(lia)); [rewrite lenN_app; cbn [lenN]; lia | | exact H].
        rewrite sum_app, sum_cons. change (sum_amt []) with 0. lia.
Qed.

Lemma insert_desc_perm x l : Permutation (insert_desc x l) (x :: l).
Proof.
  induction l as [|y tl IH]; cbn [insert_desc]; [reflexivity|].
  destruct (eamt y <? eamt x); [reflexivity|].
  rewrite IH. apply perm_swap.
Qed.

Lemma sort_desc_perm l : Permutation (sort_desc l) l.
Proof.
  unfold sort_desc.
  assert (H : forall acc, Permutation (fold_left (fun acc x => insert_desc x acc) l acc) (acc ++ l)).
  { induction l as [|x tl IH]; intros acc; cbn [fold_left]; [now rewrite app_nil_r|].
    rewrite IH, insert_desc_perm. cbn [app]. apply Permutation_middle. }
  apply (H []).
Qed.

Lemma sum_perm a b : Permutation a b -> sum_amt a = sum_amt b.
Proof.
  induction 1 as [|x a b _ IH|x y a|a b c _ IH1 _ IH2]; rewrite ?sum_cons; try lia; reflexivity.
Qed.

Lemma AlgSpec_of_prefix stream sorted sel rest target max partial :
  Permutation sorted stream -> NoDup (map eid stream) -> sorted = sel ++ rest ->
  lenN sel <= max -> (partial = false -> target <= sum_amt sel) ->
  AlgSpec stream target max partial sel.
Proof.
  intros Hp Hnd E Hl Ht. unfold AlgSpec. repeat split; try assumption.
  - intros x Hx. eapply Permutation_in; [exact Hp|]. rewrite E. apply in_or_app. now left.
  - assert (Hs : NoDup (map eid sorted)).
    { eapply Permutation_NoDup; [|exact Hnd]. apply Permutation_map. now symmetry. }
    rewrite E in Hs. now apply NoDup_map_app_l in Hs.
Qed.

Theorem largest_first_sound_alg stream target max partial l :
  NoDup (map eid stream) -> sum_amt stream <= u128max ->
  largest_first stream target max partial = COk l ->
  AlgSpec stream target max partial l.
Proof.
  intros Hnd Hsum H. unfold largest_first in H.
  pose proof (sort_desc_perm stream) as Hp.
  assert (Hb : 0 + sum_amt (sort_desc stream) <= u128max) by (rewrite (sum_perm _ _ Hp); lia).
  destruct (lf_loop_ok _ _ _ _ _ _ _ Hb H) as (sel & rest & E1 & E2 & E3 & E4).
  cbn [app] in E2. subst l.
  apply (AlgSpec_of_prefix stream (sort_desc stream) sel rest); try assumption.
  all: try (apply E3; cbn; lia).
  all: try (intros Hpf; specialize (E4 Hpf); lia).
Qed.

Theorem largest_first_error_alg stream target max partial e :
  sum_amt stream <= u128max ->
  largest_first stream target max partial = CErr e ->
  (e = 1 \/ e = 2) /\ topk_sum max stream < target /\ (partial = true -> topk_sum max stream = 0).
Proof.
  intros Hsum H. unfold largest_first in H. unfold topk_sum.
  pose proof (sort_desc_perm stream) as Hp.
  assert (Hb : 0 + sum_amt (sort_desc stream) <= u128max) by (rewrite (sum_perm _ _ Hp); lia).
  apply (lf_loop_err _ _ _ _ _ _ _ Hb) in H; [exact H | cbn; lia | reflexivity].
Qed.

(* ---------- random_improve ---------- *)

Lemma ri_loop_spec target upper : forall inputs collected coins c' l,
  collected + sum_amt inputs <= u128max ->
  ri_loop inputs target upper collected coins = (c', l) ->
  exists sel rest, inputs = sel ++ rest /\ l = coins ++ sel /\ c' = collected + sum_amt sel.
Proof.
  induction inputs as [|c tl IH]; intros collected coins c' l Hb H; cbn [ri_loop] in H.
  - inversion H; subst. exists [], []. change (sum_amt []) with 0. split; [reflexivity|]. split; [now rewrite app_nil_r | lia].
  - rewrite sum_cons in Hb.
    assert (Hstop : (collected, coins) = (c', l) ->
      exists sel rest, c :: tl = sel ++ rest /\ l = coins ++ sel /\ c' = collected + sum_amt sel).
    { intros E. inversion E; subst. exists [], (c :: tl). change (sum_amt []) with 0.
      split; [reflexivity|]. split; [now rewrite app_nil_r | lia]. }
    assert (Hgo : ri_loop tl target upper (u128sat collected (eamt c)) (coins ++ [c]) = (c', l) ->
      exists sel rest, c :: tl = sel ++ rest /\ l = coins ++ sel /\ c' = collected + sum_amt sel).
    { intros E. rewrite u128sat_exact in E by lia.
      destruct (IH (collected + eamt c) (coins ++ [c]) c' l ltac:(lia) E) as (sel & rest & E1 & E2 & E3).
      exists (c :: sel), rest. subst tl. rewrite <- app_assoc in E2. cbn [app] in E2.
      rewrite sum_cons. repeat split; try assumption. lia. }
    destruct (target <=? collected).
    + destruct ((u64max <=? collected) || (upper <? eamt c)); [now apply Hstop|].
      destruct (abs_diff target (collected - target) <=?
                abs_diff target (u128sat (collected - target) (eamt c))); [now apply Hstop | now apply Hgo].
    + now apply Hgo.
Qed.

Theorem random_improve_sound_alg stream shuffled target max partial l :
  Permutation shuffled stream ->
  NoDup (map eid stream) -> sum_amt stream <= u128max ->
  random_improve stream shuffled target max partial = COk l ->
  AlgSpec stream target max partial l.
Proof.
  intros Hp Hnd Hsum H. unfold random_improve in H.
  destruct (ri_loop (takeN max shuffled) target (sat_mul u128max target 2) 0 []) as [collected coins] eqn:Er.
  destruct (N.ltb_spec collected target).
  - now apply largest_first_sound_alg.
  - inversion H; subst l. clear H.
    pose proof (takeN_dropN shuffled max) as Esh.
    assert (Hb : 0 + sum_amt (takeN max shuffled) <= u128max).
    { rewrite <- (sum_perm _ _ Hp), <- Esh, sum_app in Hsum. lia. }
    destruct (ri_loop_spec _ _ _ _ _ _ _ Hb Er) as (sel & rest & E1 & E2 & E3).
    cbn [app] in E2. subst coins.
    eapply (AlgSpec_of_prefix stream shuffled sel (rest ++ dropN max shuffled)); try assumption.
    + rewrite app_assoc, <- E1. now symmetry.
    + pose proof (lenN_takeN shuffled max) as Hl. rewrite E1, lenN_app in Hl. lia.
    + intros _. lia.
Qed.

Theorem random_improve_error_alg stream shuffled target max partial e :
  sum_amt stream <= u128max ->
  random_improve stream shuffled target max partial = CErr e ->
  (e = 1 \/ e = 2) /\ topk_sum max stream < target /\ (partial = true -> topk_sum max stream = 0).
Proof.
  intros Hsum H. unfold random_improve in H.
  destruct (ri_loop (takeN max shuffled) target (sat_mul u128max target 2) 0 []) as [collected coins].
  destruct (collected <? target); [|discriminate]. now apply largest_first_error_alg.
Qed.

(* ---------- from the world (unspent resources) to the streams ---------- *)

Definition world_sum (world : list res) : N := fold_right (fun r s => ramount r + s) 0 world.

Definition WF (world : list res) : Prop :=
  NoDup (map rid world) /\ world_sum world <= u128max.

(* e is an unspent resource the query may use: right owner, right asset (messages: base
   asset only, not retryable), not excluded *)
Definition Adm (world : list res) (owner asset base : N) (excl : list N) (e : entry) : Prop :=
  exists r, In r world /\ to_entry r = e /\ admissible_res owner asset base r = true /\
            memN (rid r) excl = false.

Definition SelSpec (world : list res) (owner asset base target max : N) (partial : bool)
           (excl : list N) (l : list entry) : Prop :=
  Forall (Adm world owner asset base excl) l /\ NoDup (map eid l) /\ lenN l <= max /\
  (partial = false -> target <= sum_amt l).

Lemma map_eid_to_entry l : map eid (map to_entry l) = map rid l.
Proof. rewrite map_map. reflexivity. Qed.

Lemma sum_to_entry l : sum_amt (map to_entry l) = world_sum l.
Proof. induction l as [|r l IH]; [reflexivity|]. cbn [map]. rewrite sum_cons. cbn [world_sum fold_right]. fold (world_sum l). rewrite IH. reflexivity. Qed.

Lemma wsum_app a b : world_sum (a ++ b) = world_sum a + world_sum b.
Proof. rewrite <- !sum_to_entry, map_app, sum_app. reflexivity. Qed.

Lemma wsum_filter2 (f g : res -> bool) l :
  (forall x, f x = true -> g x = false) ->
  world_sum (filter f l) + world_sum (filter g l) <= world_sum l.
Proof.
  intros H. induction l as [|x l IH]; [cbn; lia|]. cbn [filter].
  destruct (f x) eqn:Ef.
  - rewrite (H x Ef). cbn [world_sum fold_right]. fold (world_sum (filter f l)). fold (world_sum l). lia.
  - destruct (g x); cbn [world_sum fold_right]; fold (world_sum (filter g l)); fold (world_sum l); lia.
Qed.

Lemma wsum_filter (f : res -> bool) l : world_sum (filter f l) <= world_sum l.
Proof. pose proof (wsum_filter2 f (fun _ => false) l ltac:(reflexivity)). lia. Qed.

Lemma NoDup_map_inj {A B} (f : A -> B) l x y :
  NoDup (map f l) -> In x l -> In y l -> f x = f y -> x = y.
Proof.
  induction l as [|z l IH]; [intros _ []|]. cbn [map]. intros H Hx Hy E. inversion H as [|? ? Hn Hd]; subst.
  destruct Hx as [->|Hx], Hy as [->|Hy]; try reflexivity.
  - exfalso. apply Hn. rewrite E. now apply in_map.
  - exfalso. apply Hn. rewrite <- E. now apply in_map.
  - now apply IH.
Qed.

Lemma coins_stream_adm world owner asset base excl e :
  In e (coins_stream world owner asset base excl) -> Adm world owner asset base excl e.
Proof.
  unfold coins_stream. intros H. apply in_map_iff in H. destruct H as (r & Er & Hr).
  apply in_app_or in Hr. destruct Hr as [Hr|Hr].
  - apply filter_In in Hr. destruct Hr as [Hin Hc]. rewrite !andb_true_iff in Hc.
    destruct Hc as [[[Hk Ho] Hx] Ha]. exists r. repeat split; try assumption.
    + unfold admissible_res. rewrite Hk, Ho, Ha. reflexivity.
    + now destruct (memN (rid r) excl).
  - destruct (asset =? base) eqn:Eb; [|destruct Hr].
    apply filter_In in Hr. destruct Hr as [Hin Hc]. rewrite !andb_true_iff in Hc.
    destruct Hc as [[[Hk Ho] Hx] Hrt]. exists r. repeat split; try assumption.
    + unfold admissible_res. destruct (rkind r =? 0); [discriminate|]. rewrite Ho, Eb, Hrt. reflexivity.
    + now destruct (memN (rid r) excl).
Qed.

Lemma coins_stream_nodup world owner asset base excl :
  NoDup (map rid world) -> NoDup (map eid (coins_stream world owner asset base excl)).
Proof.
  intros H. unfold coins_stream. rewrite map_eid_to_entry.
  apply NoDup_map_app_intro.
  - now apply NoDup_map_filter.
  - destruct (asset =? base); [now apply NoDup_map_filter | constructor].
  - intros x y Hx Hy E. destruct (asset =? base); [|destruct Hy].
    apply filter_In in Hx. apply filter_In in Hy. destruct Hx as [Hx Hfx], Hy as [Hy Hfy].
    assert (x = y) by (eapply NoDup_map_inj; eassumption). subst y.
    rewrite !andb_true_iff in Hfx, Hfy. destruct Hfx as [[[Hk _] _] _], Hfy as [[[Hk' _] _] _].
    rewrite Hk in Hk'. discriminate.
Qed.

Lemma coins_stream_sum world owner asset base excl :
  sum_amt (coins_stream world owner asset base excl) <= world_sum world.
Proof.
  unfold coins_stream. rewrite sum_to_entry, wsum_app.
  destruct (asset =? base).
  - apply wsum_filter2. intros x Hx. rewrite !andb_true_iff in Hx. destruct Hx as [[[Hk _] _] _].
    rewrite Hk. reflexivity.
  - change (world_sum []) with 0. pose proof (wsum_filter (fun r => (rkind r =? 0) && (rowner r =? owner) && negb (memN (rid r) excl) && (rasset r =? asset)) world). lia.
Qed.

Lemma insert_key_perm x l : Permutation (insert_key x l) (x :: l).
Proof.
  induction l as [|y tl IH]; cbn [insert_key]; [reflexivity|].
  destruct (key_leb x y); [reflexivity|]. rewrite IH. apply perm_swap.
Qed.

Lemma sort_key_perm l : Permutation (sort_key l) l.
Proof.
  induction l as [|x l IH]; [reflexivity|]. unfold sort_key. cbn [fold_right]. fold (sort_key l).
  rewrite insert_key_perm. now constructor.
Qed.

Lemma index_stream_perm world owner asset base :
  Permutation (index_stream world owner asset base)
              (map to_entry (filter (admissible_res owner asset base) world)).
Proof. apply sort_key_perm. Qed.

Lemma index_stream_adm world owner asset base excl e :
  In e (filter (ne excl) (index_stream world owner asset base)) -> Adm world owner asset base excl e.
Proof.
  intros H. apply filter_In in H. destruct H as [Hin Hne].
  apply (Permutation_in _ (index_stream_perm world owner asset base)) in Hin.
  apply in_map_iff in Hin. destruct Hin as (r & Er & Hr). apply filter_In in Hr.
  exists r. repeat split; try tauto. subst e. unfold ne in Hne. cbn [eid to_entry fst] in Hne.
  now destruct (memN (rid r) excl).
Qed.

Lemma index_stream_nodup world owner asset base :
  NoDup (map rid world) -> NoDup (map eid (index_stream world owner asset base)).
Proof.
  intros H. eapply Permutation_NoDup.
  - apply Permutation_map. symmetry. apply index_stream_perm.
  - rewrite map_eid_to_entry. now apply NoDup_map_filter.
Qed.

Lemma index_stream_sum world owner asset base :
  sum_amt (index_stream world owner asset base) <= world_sum world.
Proof.
  rewrite (sum_perm _ _ (index_stream_perm world owner asset base)), sum_to_entry. apply wsum_filter.
Qed.

Lemma AlgSpec_lift world owner asset base target max partial excl adm l :
  (forall e, In e adm -> Adm world owner asset base excl e) ->
  AlgSpec adm target max partial l -> SelSpec world owner asset base target max partial excl l.
Proof.
  intros Ha (H1 & H2 & H3 & H4). unfold SelSpec. repeat split; try assumption.
  apply Forall_forall. intros e He. apply Ha. now apply H1.
Qed.

Theorem indexed_answer_sound_all world owner asset base target max partial excl r l :
  WF world -> max <= u16max -> ~ MaxZeroClass target max partial ->
  select_coins_to_spend (index_stream world owner asset base) target max partial excl r = COk l ->
  SelSpec world owner asset base target max partial excl l.
Proof.
  intros [Hnd Hs] Hm Hk H.
  eapply AlgSpec_lift; [apply index_stream_adm|].
  eapply indexed_sound_alg; try eassumption.
  - now apply index_stream_nodup.
  - pose proof (index_stream_sum world owner asset base). lia.
Qed.

Theorem indexed_error_only_if_infeasible_all world owner asset base target max partial excl r e :
  WF world -> max <= u16max -> target <= u128max ->
  select_coins_to_spend (index_stream world owner asset base) target max partial excl r = CErr e ->
  (e = 1 \/ e = 2) /\
  sum_amt (takeN max (filter (ne excl) (rev (index_stream world owner asset base)))) < target /\
  (partial = true ->
   sum_amt (takeN max (filter (ne excl) (rev (index_stream world owner asset base)))) = 0).
Proof.
  intros [Hnd Hs] Hm Ht H. eapply indexed_error_alg; try eassumption.
  pose proof (index_stream_sum world owner asset base). lia.
Qed.

Theorem largest_first_answer_sound_all world owner asset base target max partial excl l :
  WF world ->
  largest_first (coins_stream world owner asset base excl) target max partial = COk l ->
  SelSpec world owner asset base target max partial excl l.
Proof.
  intros [Hnd Hs] H. eapply AlgSpec_lift; [apply coins_stream_adm|].
  apply largest_first_sound_alg; [now apply coins_stream_nodup | | exact H].
  pose proof (coins_stream_sum world owner asset base excl). lia.
Qed.

Theorem random_improve_answer_sound_all world owner asset base target max partial excl shuffled l :
  WF world -> Permutation shuffled (coins_stream world owner asset base excl) ->
  random_improve (coins_stream world owner asset base excl) shuffled target max partial = COk l ->
  SelSpec world owner asset base target max partial excl l.
Proof.
  intros [Hnd Hs] Hp H. eapply AlgSpec_lift; [apply coins_stream_adm|].
  eapply random_improve_sound_alg; [exact Hp | now apply coins_stream_nodup | | exact H].
  pose proof (coins_stream_sum world owner asset base excl). lia.
Qed.

Theorem nonindexed_error_only_if_infeasible_all world owner asset base target max partial excl shuffled e :
  WF world ->
  (largest_first (coins_stream world owner asset base excl) target max partial = CErr e \/
   random_improve (coins_stream world owner asset base excl) shuffled target max partial = CErr e) ->
  (e = 1 \/ e = 2) /\
  topk_sum max (coins_stream world owner asset base excl) < target /\
  (partial = true -> topk_sum max (coins_stream world owner asset base excl) = 0).
Proof.
  intros [Hnd Hs] H. pose proof (coins_stream_sum world owner asset base excl).
  destruct H as [H|H]; [eapply largest_first_error_alg | eapply random_improve_error_alg]; try exact H; lia.
Qed.

(* ---------- a descending list: no selection of at most k entries beats its first k ---------- *)

Inductive subseq : list entry -> list entry -> Prop :=
| sub_nil : subseq [] []
| sub_skip x s l : subseq s l -> subseq s (x :: l)
| sub_take x s l : subseq s l -> subseq (x :: s) (x :: l).

Fixpoint desc (l : list entry) : Prop :=
  match l with
  | [] => True
  | x :: tl => Forall (fun y => eamt y <= eamt x) tl /\ desc tl
  end.

Lemma subseq_in s l : subseq s l -> forall x, In x s -> In x l.
Proof. induction 1; intros y Hy; [destruct Hy | right; auto | destruct Hy as [->|Hy]; [now left | right; auto]]. Qed.

Lemma subseq_tail x s l : subseq (x :: s) l -> subseq s l.
Proof.
  remember (x :: s) as xs eqn:E. intros H. revert x s E.
  induction H as [|y s' l' H IH|y s' l' H IH]; intros x s E; [discriminate| |].
  - apply sub_skip. eapply IH. exact E.
  - inversion E; subst. now apply sub_skip.
Qed.

Theorem topk_dominates_all l : desc l -> forall s k, subseq s l -> lenN s <= k ->
  sum_amt s <= sum_amt (takeN k l).
Proof.
  induction l as [|x l IH]; intros Hd s k Hs Hk.
  - inversion Hs; subst. cbn. lia.
  - destruct Hd as [Hx Hd]. cbn [takeN]. destruct (N.eqb_spec k 0) as [->|Hk0].
    + destruct s; [cbn; lia | cbn [lenN] in Hk; lia].
    + rewrite sum_cons. inversion Hs as [|y s' l' Hs'|y s' l' Hs']; subst.
      * (* x skipped *)
        destruct s as [|y s']; [cbn; lia|].
        pose proof (subseq_in _ _ Hs' y ltac:(now left)) as Hy.
        rewrite Forall_forall in Hx. specialize (Hx y Hy).
        pose proof (subseq_tail _ _ _ Hs') as Ht. cbn [lenN] in Hk.
        specialize (IH Hd s' (k - 1) Ht ltac:(lia)). rewrite sum_cons. lia.
      * cbn [lenN] in Hk. specialize (IH Hd s' (k - 1) Hs' ltac:(lia)). rewrite sum_cons. lia.
Qed.

(* ---------- the decidable checker ---------- *)

Lemma nodupb_iff l : nodupb l = true <-> NoDup l.
Proof.
  induction l as [|x l IH]; cbn [nodupb]; [split; [constructor | reflexivity]|].
  rewrite andb_true_iff, negb_true_iff, memN_false, IH. split.
  - intros [H1 H2]. now constructor.
  - intros H. inversion H; subst. tauto.
Qed.

Lemma find_res_spec world id r : find_res id world = Some r -> In r world /\ rid r = id.
Proof.
  induction world as [|x w IH]; [discriminate|]. cbn [find_res].
  destruct (N.eqb_spec (rid x) id); [intros E; inversion E; subst; split; [now left | reflexivity]|].
  intros H. apply IH in H. split; [right|]; tauto.
Qed.

Lemma find_res_complete world r : NoDup (map rid world) -> In r world -> find_res (rid r) world = Some r.
Proof.
  induction world as [|x w IH]; [intros _ []|]. cbn [map find_res]. intros H Hin. inversion H as [|? ? Hn Hd]; subst.
  destruct Hin as [->|Hin]; [now rewrite N.eqb_refl|].
  destruct (N.eqb_spec (rid x) (rid r)) as [E|E]; [|now apply IH].
  exfalso. apply Hn. rewrite E. now apply in_map.
Qed.

Lemma entry_ok_iff world owner asset base excl e : NoDup (map rid world) ->
  entry_ok world owner asset base excl e = true <-> Adm world owner asset base excl e.
Proof.
  intros Hnd. unfold entry_ok, Adm. split.
  - destruct (find_res (eid e) world) as [r|] eqn:Ef; [|discriminate].
    apply find_res_spec in Ef. destruct Ef as [Hin Hid]. rewrite !andb_true_iff, negb_true_iff, N.eqb_eq.
    intros [[Ha Hx] Hm]. exists r. repeat split; try assumption.
    unfold to_entry. destruct e as [i a]. cbn [eid eamt fst snd] in *. congruence.
  - intros (r & Hin & Er & Ha & Hx). subst e. cbn [eid to_entry fst].
    rewrite (find_res_complete world r Hnd Hin). rewrite Ha, Hx. cbn [eamt snd]. now rewrite N.eqb_refl.
Qed.

Definition ErrSpec (world : list res) (owner asset base target max : N) (partial : bool)
           (excl : list N) (e : N) : Prop :=
  (e = 1 \/ e = 2) /\
  topk_sum max (admissible world owner asset base excl) < target /\
  (partial = true -> topk_sum max (admissible world owner asset base excl) = 0).

Definition OutcomeSpec world owner asset base target max partial excl (r : cres) : Prop :=
  match r with
  | COk l => SelSpec world owner asset base target max partial excl l
  | CErr e => ErrSpec world owner asset base target max partial excl e
  end.

Theorem sel_code_sound_all world owner asset base target max partial excl r :
  NoDup (map rid world) ->
  sel_code world owner asset base target max partial excl r = 1 <->
  OutcomeSpec world owner asset base target max partial excl r.
Proof.
  intros Hnd. destruct r as [l|e]; cbn [sel_code OutcomeSpec].
  - unfold SelSpec.
    destruct (forallb (entry_ok world owner asset base excl) l) eqn:E1; cbn [negb].
    2:{ split; [discriminate|]. intros (H & _). exfalso.
        assert (forallb (entry_ok world owner asset base excl) l = true); [|congruence].
        apply forallb_forall. rewrite Forall_forall in H. intros x Hx. apply entry_ok_iff; auto. }
    assert (F1 : Forall (Adm world owner asset base excl) l).
    { apply Forall_forall. intros x Hx. rewrite forallb_forall in E1. apply entry_ok_iff; auto. }
    destruct (nodupb (map eid l)) eqn:E2; cbn [negb].
    2:{ split; [discriminate|]. intros (_ & H & _). apply nodupb_iff in H. congruence. }
    apply nodupb_iff in E2.
    destruct (N.leb_spec (lenN l) max) as [Hle|Hgt]; cbn [negb]; [|split; [discriminate | intros (_ & _ & H3 & _); lia]].
    destruct (partial || (target <=? sum_amt l)) eqn:E4; cbn [negb].
    + split; [intros _|reflexivity]. repeat split; try assumption.
      intros Hp. subst partial. cbn [orb] in E4. lia.
    + split; [discriminate|]. intros (_ & _ & _ & H). apply orb_false_iff in E4. destruct E4 as [Hp E4].
      specialize (H Hp). lia.
  - unfold ErrSpec. set (best := topk_sum max (admissible world owner asset base excl)).
    destruct ((e =? 1) || (e =? 2)) eqn:E1; cbn [negb].
    2:{ split; [discriminate|]. intros ([H|H] & _); subst; discriminate. }
    assert (He : e = 1 \/ e = 2) by (apply orb_true_iff in E1; destruct E1; [left | right]; lia).
    destruct ((best <? target) && (negb partial || (best =? 0))) eqn:E2.
    + split; [intros _|reflexivity]. apply andb_true_iff in E2. destruct E2 as [E2 E3].
      split; [exact He|]. split; [lia|]. intros Hp. subst partial. cbn [negb orb] in E3. lia.
    + split; [discriminate|]. intros (_ & H1 & H2). apply andb_false_iff in E2. destruct E2 as [E2|E2]; [lia|].
      apply orb_false_iff in E2. destruct E2 as [Hp E2]. apply negb_false_iff in Hp. specialize (H2 Hp). lia.
Qed.

(* ---------- the max = 0 class; non-vacuity ---------- *)

Theorem indexed_max_zero_witness :
  exists world owner asset base target max partial excl r l,
    WF world /\ max <= u16max /\
    select_coins_to_spend (index_stream world owner asset base) target max partial excl r = COk l /\
    ~ SelSpec world owner asset base target max partial excl l.
Proof.
  exists [mkRes 1 0 1 0 10 false], 1, 0, 0, 5, 0, false, [], 0, [].
  split; [split; [repeat constructor; intros [] | vm_compute; discriminate]|].
  split; [vm_compute; discriminate|]. split; [reflexivity|].
  intros (_ & _ & _ & H). specialize (H eq_refl). vm_compute in H. now apply H.
Qed.

Example c37_nonvacuous :
  let world := [mkRes 1 0 1 0 1 false; mkRes 2 0 1 0 1 false; mkRes 3 0 1 0 5 false;
                mkRes 4 1 1 0 8 false; mkRes 5 1 1 0 9 true; mkRes 6 0 2 0 100 false;
                mkRes 7 0 1 0 10 false] in
  nodupb (map rid world) = true /\
  select_coins_to_spend (index_stream world 1 0 0) 3 4 false [7] 3 = COk [(4, 8); (1, 1); (2, 1); (3, 5)] /\
  select_coins_to_spend (index_stream world 1 0 0) 6 4 false [7] 0 = COk [(4, 8); (3, 5)] /\
  largest_first (coins_stream world 1 0 0 [7]) 12 2 false = COk [(4, 8); (3, 5)] /\
  largest_first (coins_stream world 1 0 0 [7]) 14 2 false = CErr 2 /\
  random_improve (coins_stream world 1 0 0 [7]) [(1, 1); (3, 5); (2, 1); (4, 8)] 6 3 false
    = COk [(1, 1); (3, 5); (2, 1)].
Proof. vm_compute. repeat split; reflexivity. Qed.
