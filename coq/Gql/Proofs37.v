(* Proofs for C37: coins-to-spend selection (indexed and non-indexed), every oracle value. *)
From FC Require Import Gql.Model37 Gql.Proofs38.
From Coq Require Import ZifyBool ZifyN ZifyNat Sorting.Permutation.
Open Scope N_scope.

Definition ne (excl : list N) (e : entry) : bool := negb (memN (eid e) excl).

Lemma sum_app a b : sum_amt (a ++ b) = sum_amt a + sum_amt b.
Proof. induction a as [|x a IH]; cbn [app sum_amt fold_right]; [reflexivity|]. fold (sum_amt (a ++ b)). fold (sum_amt a). lia. Qed.

Lemma sum_cons x a : sum_amt (x :: a) = eamt x + sum_amt a.
Proof. reflexivity. Qed.

Lemma lenN_app {A} (a b : list A) : lenN (a ++ b) = lenN a + lenN b.
Proof. rewrite !lenN_length, app_length. lia. Qed.

Lemma u128sat_exact a b : a + b <= u128max -> u128sat a b = a + b.
Proof. unfold u128sat, sat_add. lia. Qed.

(* ---------- select_coins_until ---------- *)

Lemma scu_spec pred excl max : forall stream total coins t' c' m,
  total + sum_amt stream <= u128max ->
  scu pred excl max stream total coins = (t', c', m) ->
  exists pre post, stream = pre ++ post /\ c' = coins ++ filter (ne excl) pre /\
     t' = total + sum_amt (filter (ne excl) pre) /\
     (lenN coins <= max -> lenN c' <= max) /\
     (m = false -> post = []) /\
     (m = true -> exists c post', post = c :: post' /\ ne excl c = true /\
                                   (max <= lenN c' \/ pred c t' = true)).
Proof.
  induction stream as [|c tl IH]; intros total coins t' c' m Hb H; cbn [scu] in H.
  - inversion H; subst. exists [], []. cbn [filter sum_amt fold_right app]. rewrite app_nil_r.
    repeat split; try lia; try tauto; try discriminate.
  - rewrite sum_cons in Hb. destruct (memN (eid c) excl) eqn:Eex.
    + destruct (IH total coins t' c' m ltac:(lia) H) as (pre & post & E1 & E2 & E3 & E4 & E5 & E6).
      assert (Hne : ne excl c = false) by (unfold ne; now rewrite Eex).
      exists (c :: pre), post. cbn [filter app]. rewrite Hne.
      subst tl. repeat split; try assumption; try reflexivity.
    + destruct ((max <=? lenN coins) || pred c total) eqn:Estop.
      * inversion H; subst. exists [], (c :: tl). cbn [filter sum_amt fold_right app].
        rewrite app_nil_r. repeat split; try lia; try discriminate.
        intros _. exists c, tl. split; [reflexivity|]. split; [unfold ne; now rewrite Eex|].
        apply orb_true_iff in Estop. destruct Estop; [left; lia | right; assumption].
      * rewrite u128sat_exact in H by lia.
        destruct (IH (total + eamt c) (coins ++ [c]) t' c' m ltac:(lia) H)
          as (pre & post & E1 & E2 & E3 & E4 & E5 & E6).
        assert (Hne : ne excl c = true) by (unfold ne; now rewrite Eex).
        exists (c :: pre), post. cbn [filter app]. rewrite Hne.
        subst tl. rewrite <- app_assoc in E2. cbn [app] in E2.
        rewrite sum_cons. repeat split; try assumption; try lia.
        intros Hl. apply E4. rewrite lenN_app. cbn [lenN].
        apply orb_false_iff in Estop. lia.
Qed.

(* ---------- skip_big_coins_up_to_amount ---------- *)

Lemma skip_big_sum l : forall cur, sum_amt l <= sum_amt (skip_big l cur) + cur.
Proof.
  induction l as [|c tl IH]; intros cur; cbn [skip_big]; [cbn; lia|].
  destruct (N.leb_spec (eamt c) cur).
  - specialize (IH (cur - eamt c)). rewrite sum_cons. lia.
  - lia.
Qed.

Lemma skip_big_suffix l : forall cur, exists a, l = a ++ skip_big l cur.
Proof.
  induction l as [|c tl IH]; intros cur; cbn [skip_big]; [exists []; reflexivity|].
  destruct (eamt c <=? cur).
  - destruct (IH (cur - eamt c)) as [a E]. exists (c :: a). cbn [app]. now rewrite <- E.
  - exists []. reflexivity.
Qed.

(* ---------- positions around the last selected big coin ---------- *)

Lemma last_entry_app l : l <> [] -> exists a x, l = a ++ [x] /\ last_entry l = Some x.
Proof.
  induction l as [|x tl IH]; [congruence|]. intros _. destruct tl as [|y tl'].
  - exists [], x. split; reflexivity.
  - destruct IH as (a & k & E & Hl); [congruence|].
    exists (x :: a), k. split; [cbn [app]; now rewrite <- E|]. exact Hl.
Qed.

Lemma last_entry_some l x : last_entry l = Some x -> exists a, l = a ++ [x].
Proof.
  intros H. destruct l as [|y tl]; [discriminate|].
  destruct (last_entry_app (y :: tl)) as (a & k & E & Hl); [congruence|].
  rewrite H in Hl. inversion Hl; subst. now exists a.
Qed.

(* the dust scan over  s1 ++ lb :: s2  never gets past lb *)
Lemma dust_before excl maxd lb : ne excl lb = true ->
  forall s1 s2 total coins t' c' m,
  scu (fun c _ => entry_eqb c lb) excl maxd (s1 ++ lb :: s2) total coins = (t', c', m) ->
  exists sel, c' = coins ++ sel /\ incl sel s1.
Proof.
  intros Hlb. induction s1 as [|c tl IH]; intros s2 total coins t' c' m H; cbn [app scu] in H.
  - unfold ne in Hlb. destruct (memN (eid lb) excl); [discriminate|].
    assert (E : entry_eqb lb lb = true) by (unfold entry_eqb; rewrite !N.eqb_refl; reflexivity).
    rewrite E, orb_true_r in H. inversion H; subst. exists []. rewrite app_nil_r.
    split; [reflexivity | intros x []].
  - destruct (memN (eid c) excl).
    + destruct (IH _ _ _ _ _ _ H) as (sel & E1 & E2). exists sel. split; [exact E1|].
      intros x Hx. right. now apply E2.
    + destruct ((maxd <=? lenN coins) || entry_eqb c lb).
      * inversion H; subst. exists []. rewrite app_nil_r. split; [reflexivity | intros x []].
      * destruct (IH _ _ _ _ _ _ H) as (sel & E1 & E2). exists (c :: sel).
        split; [rewrite E1, <- app_assoc; reflexivity|].
        intros x [->|Hx]; [now left | right; now apply E2].
Qed.

Lemma filter_incl {A} (f : A -> bool) l : incl (filter f l) l.
Proof. intros x Hx. apply filter_In in Hx. tauto. Qed.

Lemma NoDup_map_app_disj {A B} (f : A -> B) a b :
  NoDup (map f (a ++ b)) -> forall x y, In x a -> In y b -> f x <> f y.
Proof.
  rewrite map_app. intros H x y Hx Hy E.
  induction a as [|z a IH]; [destruct Hx|]. cbn [map app] in H. inversion H as [|? ? Hn Hd]; subst.
  destruct Hx as [->|Hx].
  - apply Hn. apply in_or_app. right. rewrite E. now apply in_map.
  - now apply IH.
Qed.

Lemma NoDup_map_filter {A B} (f : A -> B) g l : NoDup (map f l) -> NoDup (map f (filter g l)).
Proof.
  induction l as [|x l IH]; cbn [map filter]; [constructor|]. intros H. inversion H as [|? ? Hn Hd]; subst.
  destruct (g x); [|now apply IH]. cbn [map]. constructor; [|now apply IH].
  intros Hin. apply Hn. apply in_map_iff in Hin. destruct Hin as (y & E & Hy).
  apply filter_In in Hy. apply in_map_iff. exists y. tauto.
Qed.

Lemma NoDup_app_l {A} (a b : list A) : NoDup (a ++ b) -> NoDup a.
Proof.
  induction a as [|x a IH]; cbn [app]; [constructor|]. intros H. inversion H as [|? ? Hn Hd]; subst.
  constructor; [|now apply IH]. intros Hin. apply Hn. apply in_or_app. now left.
Qed.
Lemma NoDup_app_r {A} (a b : list A) : NoDup (a ++ b) -> NoDup b.
Proof. induction a as [|x a IH]; cbn [app]; [tauto|]. intros H. inversion H; subst. now apply IH. Qed.
Lemma NoDup_map_app_l {A B} (f : A -> B) a b : NoDup (map f (a ++ b)) -> NoDup (map f a).
Proof. rewrite map_app. apply NoDup_app_l. Qed.
Lemma NoDup_map_app_r {A B} (f : A -> B) a b : NoDup (map f (a ++ b)) -> NoDup (map f b).
Proof. rewrite map_app. apply NoDup_app_r. Qed.

Lemma NoDup_map_app_intro {A B} (f : A -> B) a b :
  NoDup (map f a) -> NoDup (map f b) -> (forall x y, In x a -> In y b -> f x <> f y) ->
  NoDup (map f (a ++ b)).
Proof.
  intros Ha Hb Hd. induction a as [|x a IH]; cbn [app map]; [exact Hb|].
  cbn [map] in Ha. inversion Ha as [|? ? Hn Ha']; subst. constructor.
  - rewrite map_app. intros Hin. apply in_app_or in Hin. destruct Hin as [Hin|Hin]; [contradiction|].
    apply in_map_iff in Hin. destruct Hin as (y & E & Hy). apply (Hd x y); [now left | exact Hy | now symmetry].
  - apply IH; [exact Ha'|]. intros u v Hu Hv. apply Hd; [now right | exact Hv].
Qed.

(* ---------- the indexed selection ---------- *)

Definition AlgSpec (adm : list entry) (target max : N) (partial : bool) (l : list entry) : Prop :=
  incl l adm /\ NoDup (map eid l) /\ lenN l <= max /\ (partial = false -> target <= sum_amt l).

(* the class on which the indexed path answers Ok([]) although the target is positive
   and partial answers were not requested (tested behaviour of the repository:
   select_coins_to_spend_should_bail_on_incorrect_max) *)
Definition MaxZeroClass (total max : N) (partial : bool) : Prop :=
  max = 0 /\ 0 < total /\ partial = false.

Lemma incl_app_l {A} (a b c : list A) : incl a c -> incl b c -> incl (a ++ b) c.
Proof. intros Ha Hb x Hx. apply in_app_or in Hx. destruct Hx; auto. Qed.

Lemma in_rev_iff {A} (l : list A) x : In x (rev l) <-> In x l.
Proof. symmetry. apply in_rev. Qed.

Theorem indexed_sound_alg idx total max partial excl r l :
  NoDup (map eid idx) -> sum_amt idx <= u128max -> max <= u16max ->
  ~ MaxZeroClass total max partial ->
  select_coins_to_spend idx total max partial excl r = COk l ->
  AlgSpec (filter (ne excl) idx) total max partial l.
Proof.
  intros Hnd Hsum Hmax Hk H. unfold select_coins_to_spend in H.
  destruct ((total =? 0) || (max =? 0)) eqn:E0.
  { inversion H; subst. unfold AlgSpec. cbn [sum_amt fold_right lenN map].
    split; [intros x []|]. split; [constructor|]. split; [lia|].
    intros Hp. apply orb_true_iff in E0. destruct E0 as [E0|E0]; [lia|].
    destruct (N.eq_dec total 0); [lia|].
    exfalso. apply Hk. unfold MaxZeroClass. split; [lia|]. split; [lia | exact Hp]. }
  apply orb_false_iff in E0. destruct E0 as [Et Em].
  destruct (big_coins (rev idx) (sat_mul u128max total 2) max excl) as [[bt big] more] eqn:Eb.
  unfold big_coins in Eb.
  assert (Hsr : sum_amt (rev idx) = sum_amt idx).
  { clear. induction idx as [|x l IH]; [reflexivity|]. cbn [rev]. rewrite sum_app, IH, !sum_cons. change (sum_amt []) with 0. lia. }
  assert (Hb0 : 0 + sum_amt (rev idx) <= u128max) by (rewrite Hsr; lia).
  destruct (scu_spec _ _ _ _ _ _ _ _ _ Hb0 Eb)
    as (preB & postB & EB1 & EB2 & EB3 & EB4 & _ & _).
  cbn [app] in EB2. specialize (EB4 ltac:(cbn; lia)).
  destruct ((bt =? 0) || ((bt <? total) && negb partial)) eqn:Echk.
  { destruct ((max <=? lenN big) && more); discriminate. }
  apply orb_false_iff in Echk. destruct Echk as [Ebt0 Ebt].
  destruct (last_entry big) as [lb|] eqn:Elast; [|discriminate].
  destruct (u16max <? lenN big); [discriminate|].
  set (mdc := max_dust_count max (lenN big) 5 r) in *.
  destruct (dust_coins idx lb mdc excl) as [[dt dust] dmore] eqn:Ed.
  inversion H; subst l. clear H. unfold dust_coins in Ed.
  (* structure of the big selection around its last element *)
  destruct (last_entry_some _ _ Elast) as [b0 Ebig].
  assert (Hlb_in : In lb (filter (ne excl) preB)).
  { rewrite <- EB2, Ebig. apply in_or_app. right. now left. }
  apply filter_In in Hlb_in. destruct Hlb_in as [Hlb_pre Hlb_ne].
  destruct (in_split _ _ Hlb_pre) as (t1 & t2a & Epre).
  (* rev idx = t1 ++ lb :: (t2a ++ postB) *)
  assert (Erev : rev idx = t1 ++ lb :: (t2a ++ postB)).
  { rewrite EB1, Epre, <- app_assoc. reflexivity. }
  assert (Eidx : idx = rev (t2a ++ postB) ++ lb :: rev t1).
  { rewrite <- (rev_involutive idx), Erev, rev_app_distr. cbn [rev]. rewrite <- app_assoc. reflexivity. }
  (* big lies in t1 ++ [lb]: everything selected after lb would contradict "lb is last" *)
  assert (Hbig_incl : incl big (lb :: rev t1)).
  { rewrite EB2, Epre, filter_app. cbn [filter]. rewrite Hlb_ne.
    assert (Ht2 : filter (ne excl) t2a = []).
    { (* big = filter t1 ++ lb :: filter t2a = b0 ++ [lb]; NoDup ids forces filter t2a = [] *)
      assert (Hndb : NoDup (map eid big)).
      { rewrite EB2. apply NoDup_map_filter. eapply NoDup_map_app_l.
        rewrite <- EB1. rewrite map_rev. apply NoDup_rev. exact Hnd. }
      rewrite EB2, Epre, filter_app in Ebig. cbn [filter] in Ebig. rewrite Hlb_ne in Ebig.
      destruct (filter (ne excl) t2a) as [|z zs] eqn:Ez; [reflexivity|]. exfalso.
      (* the last element of  X ++ lb :: z :: zs  is in z :: zs, and it equals lb *)
      assert (Hlast : In lb (z :: zs)).
      { assert (E' : rev (filter (ne excl) t1 ++ lb :: z :: zs) = rev (b0 ++ [lb])) by now rewrite Ebig.
        rewrite !rev_app_distr in E'. cbn [rev app] in E'.
        destruct (rev zs) as [|w ws] eqn:Ew; cbn [app] in E'.
        - inversion E'. now left.
        - inversion E'. right. apply in_rev. rewrite Ew. now left. }
      rewrite EB2, Epre, filter_app in Hndb. cbn [filter] in Hndb. rewrite Hlb_ne, Ez in Hndb.
      apply NoDup_map_app_r in Hndb. cbn [map] in Hndb. inversion Hndb as [|? ? Hn Hd'].
      apply Hn. change (In (eid lb) (map eid (z :: zs))). now apply in_map. }
    rewrite Ht2. intros x Hx. apply in_app_or in Hx. destruct Hx as [Hx|[<-|[]]]; [|now left].
    right. apply in_rev_iff. apply filter_In in Hx. tauto. }
  (* dust lies strictly before lb *)
  rewrite Eidx in Ed.
  destruct (dust_before excl mdc lb Hlb_ne _ _ _ _ _ _ _ Ed) as (dsel & Ed1 & Ed2).
  cbn [app] in Ed1. subst dust.
  rewrite <- Eidx in Ed.
  assert (Hb1 : 0 + sum_amt idx <= u128max) by lia.
  destruct (scu_spec _ _ _ _ _ _ _ _ _ Hb1 Ed) as (preD & postD & ED1 & ED2 & ED3 & ED4 & _ & _).
  cbn [app] in ED2. specialize (ED4 ltac:(cbn; lia)).
  destruct (skip_big_suffix big dt) as [dropped Edrop].
  unfold AlgSpec. repeat split.
  - apply incl_app_l.
    + intros x Hx. assert (Hb : In x big) by (rewrite Edrop; apply in_or_app; now right).
      rewrite EB2 in Hb. apply filter_In in Hb. apply filter_In. split; [|tauto].
      apply in_rev_iff. rewrite EB1. apply in_or_app. left. tauto.
    + rewrite ED2. intros x Hx. apply filter_In in Hx. apply filter_In. split; [|tauto].
      rewrite ED1. apply in_or_app. left. tauto.
  - apply NoDup_map_app_intro.
    + eapply NoDup_map_app_r. rewrite <- Edrop. rewrite EB2. apply NoDup_map_filter.
      eapply NoDup_map_app_l. rewrite <- EB1, map_rev. apply NoDup_rev. exact Hnd.
    + rewrite ED2. apply NoDup_map_filter. eapply NoDup_map_app_l. rewrite <- ED1. exact Hnd.
    + intros x y Hx Hy. assert (Hb : In x (lb :: rev t1)).
      { apply Hbig_incl. rewrite Edrop. apply in_or_app. now right. }
      apply Ed2 in Hy. rewrite Eidx in Hnd. intros E.
      apply (NoDup_map_app_disj eid _ _ Hnd y x Hy Hb). now symmetry.
  - rewrite lenN_app.
    assert (Hls : lenN (skip_big big dt) <= lenN big).
    { rewrite Edrop at 2. rewrite lenN_app. lia. }
    assert (Hmdc : mdc <= max - lenN big).
    { unfold mdc, max_dust_count, sat_sub.
      set (ub := N.min (sat_mul u16max (lenN big) 5) (max - lenN big)).
      pose proof (N.mod_upper_bound r (ub + 1) ltac:(lia)). lia. }
    lia.
  - intros Hp. subst partial. cbn [negb] in Ebt. rewrite andb_true_r in Ebt.
    rewrite sum_app. pose proof (skip_big_sum big dt) as Hs.
    assert (Ebs : bt = sum_amt big) by (rewrite EB3, EB2; lia).
    assert (Eds : dt = sum_amt dsel) by (rewrite ED3, ED2; lia).
    lia.
Qed.
