(* Property theorems of the Gql cluster. Nothing but statements, [exact], and
   Print Assumptions. *)
From FC Require Import Gql.Model Gql.Proofs38 Gql.Proofs37 Gql.Proofs37b Gql.Proofs36.
From Coq Require Import Sorting.Permutation.
Open Scope N_scope.

(* ======================================================================== *)
(* C38  schema.rs query_pagination over a strictly sorted key list (a table's
   keys; cursor = key).  `walk` is the client loop: request `size` entries in
   direction d (first/after or last/before), continue from the cursor of the last
   returned edge while the flag in iteration direction (`has_next_page`, in BOTH
   directions, as the code defines it) is set. *)

(* For every collection, page size 1 <= size <= i32::MAX and direction the walk
   terminates with status "finished" within |coll|+2 requests, the pages concatenate
   to the collection in iteration order, no page has more than `size` edges, every
   page but the last is full and has the flag set, the last has it cleared. *)
Theorem pages_enumerate_once : forall coll size d,
  ssorted coll -> 1 <= size -> size <= i32_max ->
  WalkSpec coll size d (walk (walk_fuel coll) coll (Z.of_N size) d None).
Proof. exact pages_enumerate_once_all. Qed.
Print Assumptions pages_enumerate_once.

Theorem walk_exactly_once : forall coll size d w,
  ssorted coll -> WalkSpec coll size d w ->
  NoDup (concat (map edges (fst w))) /\
  (forall k, In k (concat (map edges (fst w))) <-> In k coll) /\
  length (concat (map edges (fst w))) = length coll.
Proof. exact walk_exactly_once_all. Qed.
Print Assumptions walk_exactly_once.

Theorem walk_code_sound : forall coll size d w,
  walk_code coll size d w = 1 <-> WalkSpec coll size d w.
Proof. exact walk_code_sound_all. Qed.
Print Assumptions walk_code_sound.

(* One page from ANY cursor (present in the collection or not), any size 0..i32::MAX:
   the flag in iteration direction is set iff an entry strictly after the cursor is not
   on the page; the opposite flag is set iff a cursor was supplied and is a key of the
   collection (this is how the code defines it: not "entries exist before the page"). *)
Theorem has_more_flag_exact : forall coll c n d p,
  ssorted coll -> n <= i32_max ->
  page_req coll (Z.of_N n) d c = ROk p ->
  (has_next p = true <-> exists k, In k (rest d c coll) /\ ~ In k (edges p)) /\
  (has_prev p = true <-> exists s, c = Some s /\ In s coll).
Proof. exact has_more_flag_exact_all. Qed.
Print Assumptions has_more_flag_exact.

(* Every argument combination (after, before, first, last; cursor strings that do not
   decode; negative, zero and maximal counts): the outcome is the error variant of the
   argument table `expected`, or the closed-form page: the first n entries strictly
   after the cursor, flags as above. *)
Theorem request_conforms : forall coll after before first last,
  ssorted coll ->
  (forall z, first = Some z -> (z <= Z.of_N i32_max)%Z) ->
  (forall z, last = Some z -> (z <= Z.of_N i32_max)%Z) ->
  req_code coll after before first last (paginate_vec coll None after before first last) = 1.
Proof. exact request_conforms_all. Qed.
Print Assumptions request_conforms.

Theorem req_code_sound : forall coll after before first last r,
  req_code coll after before first last r = 1 <-> ReqSpec coll after before first last r.
Proof. exact req_code_sound_all. Qed.
Print Assumptions req_code_sound.

Theorem page_okb_sound : forall coll c n d p,
  page_okb coll c n d p = true <-> PageSpec coll c n d p.
Proof. exact page_okb_sound_all. Qed.
Print Assumptions page_okb_sound.

(* `rest d c coll` (used by the specs above) is the sorted list of exactly the
   collection's entries strictly after the cursor in iteration direction. *)
Theorem rest_spec : forall coll c d,
  ssorted coll ->
  sorted_d d (rest d c coll) /\
  forall k, In k (rest d c coll) <->
            In k coll /\ match c with Some s => before_d d s k = true | None => True end.
Proof. exact rest_spec_all. Qed.
Print Assumptions rest_spec.

(* Argument validation, for every collection (sorted or not) and failure position:
   an error is returned exactly in the cases of the table, with that variant. In
   particular `after` and `before` can never be combined, there is no upper bound on
   the count, and count 0 is accepted. *)
Theorem validation_table : forall coll fail after before first last e,
  paginate_vec coll fail after before first last = RErr e <->
  expected after before first last = EErr e.
Proof. exact validation_table_all. Qed.
Print Assumptions validation_table.

(* page size 0 is accepted but cannot be walked: empty page with the flag set *)
Theorem zero_size_stuck : forall coll d, ssorted coll -> coll <> [] ->
  walk (walk_fuel coll) coll 0%Z d None = ([mkPage [] false true], 2).
Proof. exact zero_size_stuck_all. Qed.
Print Assumptions zero_size_stuck.

(* Extension to failing reads (outside the stated quantifier of C38, recorded as a
   finding): a storage error at stream position i inside the page is NOT reported; the
   result is an Ok page that ends before i with the has-next flag cleared. *)
Theorem storage_error_swallowed : forall coll n d i,
  i < n -> n <= i32_max -> (N.to_nat i < length coll)%nat ->
  page_req_fail coll (Z.of_N n) d i = ROk (mkPage (takeN i (dir_list d coll)) false false).
Proof. exact storage_error_swallowed_all. Qed.
Print Assumptions storage_error_swallowed.

Theorem storage_failure_not_masked_refuted :
  exists coll fail after before first last,
    ssortedb coll = true /\
    fail_code coll after before first last (paginate_vec coll fail after before first last) <> 1.
Proof. exact storage_failure_masked_witness. Qed.
Print Assumptions storage_failure_not_masked_refuted.

Theorem ssortedb_sound : forall l, ssortedb l = true <-> ssorted l.
Proof. exact ssortedb_iff. Qed.
Print Assumptions ssortedb_sound.

(* ======================================================================== *)
(* C37  coins_query.rs.  `world` = the unspent resources (what the owned-coin /
   owned-message / coins-to-spend indexes list, C36); WF = distinct ids, total
   amount below 2^128.  Every random draw is a universally quantified argument:
   `r` (max_dust_count, rng.gen_range) and `shuffled` (inputs.shuffle). *)

(* indexed path: every Ok answer consists of admissible resources only (owner, asset /
   base-asset non-retryable message, not excluded, listed amount), has no duplicates,
   at most max entries, and covers the target unless allow_partial - EXCEPT on the class
   max = 0 /\ target > 0 /\ not partial, where the code answers Ok([]) (refuted below). *)
Theorem indexed_answer_sound_partial : forall world owner asset base target max partial excl r l,
  WF world -> max <= u16max -> ~ MaxZeroClass target max partial ->
  select_coins_to_spend (index_stream world owner asset base) target max partial excl r = COk l ->
  SelSpec world owner asset base target max partial excl l.
Proof. exact indexed_answer_sound_all. Qed.
Print Assumptions indexed_answer_sound_partial.

Theorem indexed_answer_sound_refuted :
  exists world owner asset base target max partial excl r l,
    WF world /\ max <= u16max /\
    select_coins_to_spend (index_stream world owner asset base) target max partial excl r = COk l /\
    ~ SelSpec world owner asset base target max partial excl l.
Proof. exact indexed_max_zero_witness. Qed.
Print Assumptions indexed_answer_sound_refuted.

(* indexed path: an error is InsufficientCoins or MaxCoinsReached (never the internal
   variants) and is returned only if the `max` largest admissible entries (the index is
   read in descending key order) do not reach the target; with allow_partial only if
   they sum to 0. By topk_dominates no other selection of <= max entries does better. *)
Theorem indexed_error_only_if_infeasible : forall world owner asset base target max partial excl r e,
  WF world -> max <= u16max -> target <= u128max ->
  select_coins_to_spend (index_stream world owner asset base) target max partial excl r = CErr e ->
  (e = 1 \/ e = 2) /\
  sum_amt (takeN max (filter (ne excl) (rev (index_stream world owner asset base)))) < target /\
  (partial = true ->
   sum_amt (takeN max (filter (ne excl) (rev (index_stream world owner asset base)))) = 0).
Proof. exact indexed_error_only_if_infeasible_all. Qed.
Print Assumptions indexed_error_only_if_infeasible.

Theorem largest_first_answer_sound : forall world owner asset base target max partial excl l,
  WF world ->
  largest_first (coins_stream world owner asset base excl) target max partial = COk l ->
  SelSpec world owner asset base target max partial excl l.
Proof. exact largest_first_answer_sound_all. Qed.
Print Assumptions largest_first_answer_sound.

Theorem random_improve_answer_sound : forall world owner asset base target max partial excl shuffled l,
  WF world -> Permutation shuffled (coins_stream world owner asset base excl) ->
  random_improve (coins_stream world owner asset base excl) shuffled target max partial = COk l ->
  SelSpec world owner asset base target max partial excl l.
Proof. exact random_improve_answer_sound_all. Qed.
Print Assumptions random_improve_answer_sound.

Theorem nonindexed_error_only_if_infeasible :
  forall world owner asset base target max partial excl shuffled e,
  WF world ->
  (largest_first (coins_stream world owner asset base excl) target max partial = CErr e \/
   random_improve (coins_stream world owner asset base excl) shuffled target max partial = CErr e) ->
  (e = 1 \/ e = 2) /\
  topk_sum max (coins_stream world owner asset base excl) < target /\
  (partial = true -> topk_sum max (coins_stream world owner asset base excl) = 0).
Proof. exact nonindexed_error_only_if_infeasible_all. Qed.
Print Assumptions nonindexed_error_only_if_infeasible.

(* in a list that is descending by amount, no sub-selection of at most k entries has a
   larger total than the first k entries *)
Theorem topk_dominates : forall l, desc l -> forall s k, subseq s l -> lenN s <= k ->
  sum_amt s <= sum_amt (takeN k l).
Proof. exact topk_dominates_all. Qed.
Print Assumptions topk_dominates.

Theorem sel_code_sound : forall world owner asset base target max partial excl r,
  NoDup (map rid world) ->
  sel_code world owner asset base target max partial excl r = 1 <->
  OutcomeSpec world owner asset base target max partial excl r.
Proof. exact sel_code_sound_all. Qed.
Print Assumptions sel_code_sound.

(* the sum of the k largest amounts does not depend on the listing order *)
Theorem topk_perm : forall k a b, Permutation a b -> topk_sum k a = topk_sum k b.
Proof. exact topk_perm_all. Qed.
Print Assumptions topk_perm.

(* Summary in the checker's terms: outside the max = 0 class, every outcome (answer or
   error) of each of the three algorithms, for every dust-count draw r and every shuffle,
   satisfies OutcomeSpec = what sel_code decides on the implementation's answers
   (errors: only InsufficientCoins / MaxCoinsReached, only if the max largest admissible
   amounts do not reach the target, with allow_partial only if they sum to 0). *)
Theorem outcome_spec_partial : forall world owner asset base target max partial excl r shuffled res,
  WF world -> max <= u16max -> target <= u128max -> ~ MaxZeroClass target max partial ->
  Permutation shuffled (coins_stream world owner asset base excl) ->
  (select_coins_to_spend (index_stream world owner asset base) target max partial excl r = res \/
   largest_first (coins_stream world owner asset base excl) target max partial = res \/
   random_improve (coins_stream world owner asset base excl) shuffled target max partial = res) ->
  OutcomeSpec world owner asset base target max partial excl res.
Proof. exact outcome_spec_all. Qed.
Print Assumptions outcome_spec_partial.

(* ======================================================================== *)
(* C36  process_executor_events with balances and coins-to-spend indexation enabled.
   Ghost state: the unspent set of the history (creation adds, consumption removes).
   A history is consistent if every creation is fresh among the unspent resources of its
   kind and every consumption names an unspent resource with its exact data (what the
   executor guarantees, C02).  created_sum <= 2^128-1 rules out u128 saturation. *)

(* For every consistent history: no indexation error occurs at any event (underflow /
   not-found / already-indexed are unreachable), and after EVERY event the tables satisfy
   Inv w.r.t. the unspent set u:
     CoinBalances(owner, asset)  = sum of the unspent coins of (owner, asset)   [every key]
     MessageBalances(owner)      = (sum of unspent retryable, sum of unspent non-retryable
                                    messages of owner)                          [every key]
     CoinsToSpendIndex           = exactly { cts_key r | r unspent }  (flag 0 retryable message,
                                    flag 1 otherwise; base asset for messages)
     OwnedCoins / OwnedMessageIds = exactly the unspent coins / messages by (owner, id). *)
Theorem index_eq_utxo : forall base evs,
  consistentb [] evs = true -> created_sum evs <= u128max ->
  Forall (fun p => snd p = None) (process_events true true base o_empty evs) /\
  TraceInv base [] evs (map fst (process_events true true base o_empty evs)).
Proof. exact index_eq_utxo_all. Qed.
Print Assumptions index_eq_utxo.

(* one step, from any state satisfying the invariant (the inductive core) *)
Theorem index_step : forall base s u ev,
  Inv base s u -> consistent_step u ev = true -> total (ghost_step u ev) <= u128max ->
  snd (process_event true true base s ev) = None /\
  Inv base (fst (process_event true true base s ev)) (ghost_step u ev).
Proof. exact step_inv. Qed.
Print Assumptions index_step.

(* the decidable checker evaluated on the implementation's table dumps *)
Theorem trace_code_complete : forall base evs u sts,
  TraceInv base u evs sts -> trace_code true true base u evs sts = 1.
Proof. exact trace_code_complete_all. Qed.
Print Assumptions trace_code_complete.

Theorem inv_code_sound : forall base s u, inv_code true true base s u = 1 <-> InvFin base s u.
Proof. exact inv_code_sound_all. Qed.
Print Assumptions inv_code_sound.
