(* Proofs for C38: query_pagination over a strictly sorted key list. *)
From FC Require Import Gql.Model38.
From Coq Require Import ZifyBool ZifyN ZifyNat Sorting.Sorted.
Open Scope N_scope.

(* ---------- the order "before in iteration direction" ---------- *)

Definition bd (d : dir) (a b : N) : Prop := before_d d a b = true.

Lemma bd_irrefl d a : before_d d a a = false.
Proof. destruct d; cbn; lia. Qed.
Lemma bd_asym d a b : before_d d a b = true -> before_d d b a = false.
Proof. destruct d; cbn; lia. Qed.
Lemma bd_trans d a b c : before_d d a b = true -> before_d d b c = true -> before_d d a c = true.
Proof. destruct d; cbn; lia. Qed.
Lemma bd_total d a b : before_d d a b = false -> a <> b -> before_d d b a = true.
Proof. destruct d; cbn; lia. Qed.
Lemma bd_neq d a b : before_d d a b = true -> a <> b.
Proof. destruct d; cbn; lia. Qed.

Definition ssorted (l : list N) : Prop := StronglySorted N.lt l.
Definition sorted_d (d : dir) (l : list N) : Prop := StronglySorted (bd d) l.

Lemma ssortedb_iff l : ssortedb l = true <-> ssorted l.
Proof.
  unfold ssorted. induction l as [|x tl IH]; cbn [ssortedb].
  - split; [constructor | reflexivity].
  - destruct tl as [|y tl'].
    + split; [intros _; constructor; constructor | reflexivity].
    + rewrite andb_true_iff, IH. split.
      * intros [Hxy Hs]. constructor; [exact Hs|].
        constructor; [lia|]. inversion Hs as [|? ? _ Hall]; subst.
        eapply Forall_impl; [|exact Hall]. cbn. intros; lia.
      * intros Hs. inversion Hs as [|? ? Hs' Hall]; subst.
        inversion Hall; subst. split; [lia | exact Hs'].
Qed.

Lemma sorted_app {A} (R : A -> A -> Prop) a b :
  StronglySorted R (a ++ b) <->
  StronglySorted R a /\ StronglySorted R b /\ Forall (fun x => Forall (R x) b) a.
Proof.
  induction a as [|x a IH]; cbn [app].
  - split; [intros H; repeat split; [constructor | exact H | constructor] | tauto].
  - split.
    + intros H. inversion H as [|? ? Hs Hall]; subst.
      apply IH in Hs. destruct Hs as (Ha & Hb & Hab).
      apply Forall_app in Hall. destruct Hall as [H1 H2].
      repeat split; [constructor; assumption | assumption | constructor; assumption].
    + intros (Ha & Hb & Hab). inversion Ha; subst. inversion Hab; subst.
      constructor; [apply IH; tauto | apply Forall_app; tauto].
Qed.

Lemma sorted_rev l : ssorted l -> StronglySorted (bd Reverse) (rev l).
Proof.
  unfold ssorted. induction 1 as [|x l Hs IH Hall]; cbn [rev]; [constructor|].
  apply sorted_app. repeat split; [exact IH | repeat constructor |].
  apply Forall_rev. eapply Forall_impl; [|exact Hall].
  intros y Hy. constructor; [|constructor]. unfold bd. cbn. lia.
Qed.

Lemma dir_list_sorted d coll : ssorted coll -> sorted_d d (dir_list d coll).
Proof.
  intros H. destruct d; cbn [dir_list].
  - unfold sorted_d. eapply StronglySorted_ind with (P := StronglySorted (bd Forward)) in H;
      [exact H | constructor |].
    intros a l _ IH Hall. constructor; [exact IH|].
    eapply Forall_impl; [|exact Hall]. intros y Hy. unfold bd. cbn. lia.
  - apply sorted_rev. exact H.
Qed.

Lemma sorted_filter {A} (R : A -> A -> Prop) f l :
  StronglySorted R l -> StronglySorted R (filter f l).
Proof.
  induction 1 as [|x l Hs IH Hall]; cbn [filter]; [constructor|].
  destruct (f x); [|exact IH]. constructor; [exact IH|].
  apply Forall_forall. intros y Hy. apply filter_In in Hy.
  rewrite Forall_forall in Hall. apply Hall. tauto.
Qed.

Lemma sorted_d_NoDup d l : sorted_d d l -> NoDup l.
Proof.
  induction 1 as [|x l Hs IH Hall]; constructor; [|exact IH].
  intros Hin. rewrite Forall_forall in Hall. apply Hall in Hin.
  unfold bd in Hin. rewrite bd_irrefl in Hin. discriminate.
Qed.

(* ---------- list helpers ---------- *)

Fixpoint dropN {A} (n : N) (l : list A) : list A :=
  match l with
  | [] => []
  | x :: tl => if n =? 0 then l else dropN (n - 1) tl
  end.

Lemma takeN_dropN {A} (l : list A) : forall n, takeN n l ++ dropN n l = l.
Proof.
  induction l as [|x tl IH]; intros n; cbn [takeN dropN]; [reflexivity|].
  destruct (n =? 0); cbn [app]; [reflexivity|]. f_equal. apply IH.
Qed.

Lemma lenN_length {A} (l : list A) : lenN l = N.of_nat (length l).
Proof. induction l as [|x tl IH]; cbn [lenN length]; lia. Qed.

Lemma lenN_takeN {A} (l : list A) : forall n, lenN (takeN n l) = N.min n (lenN l).
Proof.
  induction l as [|x tl IH]; intros n; cbn [takeN lenN]; [lia|].
  destruct (N.eqb_spec n 0); cbn [lenN]; [lia|]. rewrite IH. lia.
Qed.

Lemma lenN_dropN {A} (l : list A) : forall n, lenN (dropN n l) = lenN l - n.
Proof.
  induction l as [|x tl IH]; intros n; cbn [dropN lenN]; [lia|].
  destruct (N.eqb_spec n 0); cbn [lenN]; [lia|]. rewrite IH. lia.
Qed.

Lemma takeN_all {A} (l : list A) : forall n, lenN l <= n -> takeN n l = l.
Proof.
  induction l as [|x tl IH]; intros n H; cbn [takeN]; [reflexivity|].
  cbn [lenN] in H. destruct (N.eqb_spec n 0); [lia|]. f_equal. apply IH. lia.
Qed.

Lemma takeN_firstn {A} (l : list A) : forall n, takeN n l = firstn (N.to_nat n) l.
Proof.
  induction l as [|x tl IH]; intros n; cbn [takeN]; [now rewrite firstn_nil|].
  destruct (N.eqb_spec n 0) as [->|Hn]; [reflexivity|].
  replace (N.to_nat n) with (S (N.to_nat (n - 1))) by lia. cbn [firstn]. f_equal. apply IH.
Qed.

Lemma lenN_nil {A} (l : list A) : lenN l = 0 -> l = [].
Proof. destruct l; cbn [lenN]; [reflexivity | lia]. Qed.

Lemma last_opt_app {A} (l : list A) : l <> [] -> exists a k, l = a ++ [k] /\ last_opt l = Some k.
Proof.
  induction l as [|x tl IH]; [congruence|]. intros _.
  destruct tl as [|y tl'].
  - exists [], x. split; reflexivity.
  - destruct IH as (a & k & E & Hl); [congruence|].
    exists (x :: a), k. split; [cbn [app]; now rewrite <- E|].
    cbn [last_opt]. cbn [last_opt] in Hl. exact Hl.
Qed.

Lemma list_eqb_iff a : forall b, list_eqb a b = true <-> a = b.
Proof.
  induction a as [|x a IH]; intros [|y b]; cbn [list_eqb]; try (split; congruence).
  rewrite andb_true_iff, IH, N.eqb_eq. split; [intros [E1 E2]; subst; reflexivity | intros H; inversion H; tauto].
Qed.

Lemma memN_iff k l : memN k l = true <-> In k l.
Proof.
  induction l as [|x tl IH]; cbn [memN In]; [split; [discriminate | tauto]|].
  rewrite orb_true_iff, IH, N.eqb_eq. tauto.
Qed.

Lemma memN_false k l : memN k l = false <-> ~ In k l.
Proof. rewrite <- memN_iff. destruct (memN k l); split; congruence. Qed.

Lemma filter_all {A} (f : A -> bool) l : Forall (fun x => f x = true) l -> filter f l = l.
Proof. induction 1 as [|x l Hx _ IH]; cbn [filter]; [reflexivity|]. rewrite Hx, IH. reflexivity. Qed.

Lemma filter_none {A} (f : A -> bool) l : Forall (fun x => f x = false) l -> filter f l = [].
Proof. induction 1 as [|x l Hx _ IH]; cbn [filter]; [reflexivity|]. rewrite Hx, IH. reflexivity. Qed.

Lemma filter_filter_impl {A} (f g : A -> bool) l :
  (forall x, f x = true -> g x = true) -> filter f (filter g l) = filter f l.
Proof.
  intros H. induction l as [|x l IH]; cbn [filter]; [reflexivity|].
  destruct (g x) eqn:Eg; cbn [filter].
  - destruct (f x); [f_equal|]; exact IH.
  - destruct (f x) eqn:Ef; [apply H in Ef; congruence | exact IH].
Qed.

(* ---------- entries + skip_while on a sorted list ---------- *)

Lemma mk_items_none l : forall i, mk_items None i l = map IOk l.
Proof. induction l as [|k tl IH]; intros i; cbn [mk_items map opt_is]; [reflexivity|]. now rewrite IH. Qed.

Lemma skip_nothing d s l :
  Forall (fun k => before_d d s k = true) l ->
  skip_while_start (Some s) (map IOk l) = (map IOk l, false).
Proof.
  intros H. destruct l as [|x tl]; cbn [map skip_while_start]; [reflexivity|].
  inversion H as [|? ? Hx _]; subst. cbn [is_key opt_is].
  apply bd_neq in Hx. destruct (N.eqb_spec x s); [congruence | reflexivity].
Qed.

Lemma after_not_in d s l : Forall (fun k => before_d d s k = true) l -> memN s l = false.
Proof.
  intros H. apply memN_false. intros Hin. rewrite Forall_forall in H. apply H in Hin.
  rewrite bd_irrefl in Hin. discriminate.
Qed.

Lemma skip_closed d s l :
  sorted_d d l ->
  skip_while_start (Some s) (map IOk (drop_while (fun k => before_d d k s) l)) =
  (map IOk (filter (fun k => before_d d s k) l), memN s l).
Proof.
  induction 1 as [|x tl Hs IH Hall]; [reflexivity|].
  cbn [drop_while filter memN].
  destruct (before_d d x s) eqn:Exs.
  - rewrite IH. rewrite (bd_asym _ _ _ Exs).
    apply bd_neq in Exs. destruct (N.eqb_spec x s); [congruence | reflexivity].
  - destruct (N.eqb_spec x s) as [->|Hne].
    + (* the cursor itself: skipped, everything behind it is strictly after it *)
      rewrite bd_irrefl. cbn [map skip_while_start is_key opt_is]. rewrite N.eqb_refl.
      assert (Hall' : Forall (fun k => before_d d s k = true) tl) by exact Hall.
      rewrite (skip_nothing d s tl Hall'). cbn [fst orb].
      rewrite (filter_all (fun k => before_d d s k) tl Hall'). reflexivity.
    + assert (Hsx : before_d d s x = true) by (apply bd_total; congruence).
      rewrite Hsx.
      assert (Hall' : Forall (fun k => before_d d s k = true) tl).
      { eapply Forall_impl; [|exact Hall]. intros y Hy. eapply bd_trans; eassumption. }
      rewrite (filter_all (fun k => before_d d s k) tl Hall').
      change (IOk x :: map IOk tl) with (map IOk (x :: tl)).
      rewrite (skip_nothing d s (x :: tl)) by (constructor; assumption).
      cbn [orb]. rewrite (after_not_in d s tl Hall'). reflexivity.
Qed.

Lemma skip_none l : skip_while_start None (map IOk l) = (map IOk l, false).
Proof. destruct l; reflexivity. Qed.

(* ---------- take(count+1).take_while(..) ---------- *)

Lemma take_closed l : forall m, 1 <= m ->
  take_while_end None m (takeN m (map IOk l)) = (takeN (m - 1) l, m - 1 <? lenN l).
Proof.
  induction l as [|k tl IH]; intros m Hm; cbn [map takeN take_while_end lenN].
  - destruct (m - 1 <? 0) eqn:E; [lia | reflexivity].
  - destruct (N.eqb_spec m 0); [lia|]. cbn [take_while_end opt_is]. unfold sat_sub.
    destruct (N.eqb_spec (m - 1) 0) as [E0|E0].
    + f_equal. lia.
    + rewrite IH by lia. cbn [fst snd]. f_equal. lia.
Qed.

(* ---------- one request ---------- *)

Definition closed_page (coll : list N) (c : option N) (n : N) (d : dir) : page :=
  let r := rest d c coll in
  mkPage (takeN n r) (cursor_found c coll) (n <? lenN r).

Lemma memN_dir d s coll : memN s (dir_list d coll) = memN s coll.
Proof.
  destruct d; [reflexivity|]. cbn [dir_list].
  destruct (memN s coll) eqn:E.
  - apply memN_iff. apply in_rev. rewrite rev_involutive. now apply memN_iff.
  - apply memN_false. intros H. apply in_rev in H. apply memN_false in E. contradiction.
Qed.

Lemma closure_body coll c n d :
  ssorted coll -> n <= i32_max ->
  let es := entries_vec coll None c d in
  let sk := skip_while_start c es in
  let count1 := sat_add usize_max n 1 in
  let tk := take_while_end None count1 (takeN count1 (fst sk)) in
  mkPage (fst tk) (snd sk) (snd tk) = closed_page coll c n d.
Proof.
  intros Hs Hn. cbn zeta. unfold entries_vec, keys_from. rewrite mk_items_none.
  assert (Hc1 : sat_add usize_max n 1 = n + 1).
  { unfold sat_add, usize_max. unfold i32_max in Hn. lia. }
  rewrite Hc1. pose proof (dir_list_sorted d coll Hs) as Hd.
  unfold closed_page, rest, cursor_found.
  destruct c as [s|].
  - rewrite (skip_closed d s _ Hd). cbn [fst snd].
    rewrite take_closed by lia. cbn [fst snd].
    replace (n + 1 - 1) with n by lia. rewrite memN_dir. reflexivity.
  - cbn [drop_while]. replace (drop_while (fun _ : N => false) (dir_list d coll)) with (dir_list d coll).
    2:{ induction (dir_list d coll); reflexivity. }
    rewrite skip_none. cbn [fst snd]. rewrite take_closed by lia. cbn [fst snd].
    replace (n + 1 - 1) with n by lia. reflexivity.
Qed.

Lemma page_req_closed coll n d c :
  ssorted coll -> n <= i32_max ->
  page_req coll (Z.of_N n) d c = ROk (closed_page coll c n d).
Proof.
  intros Hs Hn. pose proof (closure_body coll c n d Hs Hn) as H. cbn zeta in H.
  unfold page_req, paginate_vec, query_pagination, query_with, closure.
  assert (E : (Z.of_N n <? 0)%Z = false) by lia.
  destruct d, c as [s|]; cbn [option_map decode]; rewrite E, N2Z.id; cbn [fst snd];
    rewrite H; reflexivity.
Qed.

Lemma page_code_closed coll c n d : page_code coll c n d (closed_page coll c n d) = 1.
Proof.
  unfold page_code, closed_page. cbn [edges has_next has_prev].
  replace (list_eqb _ _) with true by (symmetry; now apply list_eqb_iff).
  rewrite !eqb_reflx. reflexivity.
Qed.

(* every argument combination, no injected storage failure *)
Theorem request_conforms_all coll after before first last :
  ssorted coll ->
  (forall z, first = Some z -> (z <= Z.of_N i32_max)%Z) ->
  (forall z, last = Some z -> (z <= Z.of_N i32_max)%Z) ->
  req_code coll after before first last (paginate_vec coll None after before first last) = 1.
Proof.
  intros Hs Hf Hl. unfold req_code, expected.
  destruct first as [f|], last as [l|].
  - destruct after, before; reflexivity.
  - (* forward *)
    specialize (Hf f eq_refl).
    destruct before as [b|]; [destruct after; reflexivity|].
    destruct (f <? 0)%Z eqn:Ef.
    + unfold paginate_vec, query_pagination, query_with. destruct after; rewrite Ef; reflexivity.
    + assert (Hn : Z.to_N f <= i32_max) by lia.
      assert (Ez : f = Z.of_N (Z.to_N f)) by lia.
      destruct after as [[k|]|].
      * pose proof (page_req_closed coll (Z.to_N f) Forward (Some k) Hs Hn) as H.
        unfold page_req in H. cbn [option_map] in H. rewrite <- Ez in H. rewrite H.
        apply page_code_closed.
      * unfold paginate_vec, query_pagination, query_with. rewrite Ef. reflexivity.
      * pose proof (page_req_closed coll (Z.to_N f) Forward None Hs Hn) as H.
        unfold page_req in H. cbn [option_map] in H. rewrite <- Ez in H. rewrite H.
        apply page_code_closed.
  - (* reverse *)
    specialize (Hl l eq_refl).
    destruct after as [a|]; [destruct before; reflexivity|].
    destruct (l <? 0)%Z eqn:El.
    + unfold paginate_vec, query_pagination, query_with. destruct before; rewrite El; reflexivity.
    + assert (Hn : Z.to_N l <= i32_max) by lia.
      assert (Ez : l = Z.of_N (Z.to_N l)) by lia.
      destruct before as [[k|]|].
      * pose proof (page_req_closed coll (Z.to_N l) Reverse (Some k) Hs Hn) as H.
        unfold page_req in H. cbn [option_map] in H. rewrite <- Ez in H. rewrite H.
        apply page_code_closed.
      * unfold paginate_vec, query_pagination, query_with. rewrite El. reflexivity.
      * pose proof (page_req_closed coll (Z.to_N l) Reverse None Hs Hn) as H.
        unfold page_req in H. cbn [option_map] in H. rewrite <- Ez in H. rewrite H.
        apply page_code_closed.
  - destruct after, before; reflexivity.
Qed.

(* the argument-validation table holds for every collection (sorted or not) and every
   injected failure position *)
Theorem validation_table_all coll fail after before first last e :
  paginate_vec coll fail after before first last = RErr e <->
  expected after before first last = EErr e.
Proof.
  unfold paginate_vec, query_pagination, query_with, closure, expected.
  destruct first as [f|], last as [l|];
    destruct after as [[a|]|], before as [[b|]|]; cbn [decode];
    try destruct (f <? 0)%Z; try destruct (l <? 0)%Z;
    split; intros H; try discriminate H; try exact H; try (inversion H; reflexivity).
Qed.

(* ---------- meaning of the page checker ---------- *)

Definition PageSpec (coll : list N) (c : option N) (n : N) (d : dir) (p : page) : Prop :=
  edges p = firstn (N.to_nat n) (rest d c coll) /\
  (has_next p = true <-> (N.to_nat n < length (rest d c coll))%nat) /\
  (has_prev p = true <-> exists s, c = Some s /\ In s coll).

Lemma eqb_true_iff' a b : Bool.eqb a b = true <-> (a = true <-> b = true).
Proof. destruct a, b; cbn; split; try tauto; try discriminate; intros [H1 H2]; try (now specialize (H1 eq_refl)); now specialize (H2 eq_refl). Qed.

Theorem page_okb_sound_all coll c n d p :
  page_okb coll c n d p = true <-> PageSpec coll c n d p.
Proof.
  unfold page_okb, page_code, PageSpec.
  rewrite <- takeN_firstn.
  assert (Hc : cursor_found c coll = true <-> exists s, c = Some s /\ In s coll).
  { unfold cursor_found. destruct c as [s|].
    - rewrite memN_iff. split; [intros H; exists s; tauto | intros (s' & E & H); now inversion E; subst].
    - split; [discriminate | intros (s' & E & _); discriminate]. }
  assert (Hl : (n <? lenN (rest d c coll)) = true <-> (N.to_nat n < length (rest d c coll))%nat).
  { rewrite lenN_length. lia. }
  destruct (list_eqb (edges p) (takeN n (rest d c coll))) eqn:E1; cbn [negb].
  - apply list_eqb_iff in E1.
    destruct (Bool.eqb (has_next p) (n <? lenN (rest d c coll))) eqn:E2; cbn [negb].
    + apply eqb_true_iff' in E2.
      destruct (Bool.eqb (has_prev p) (cursor_found c coll)) eqn:E3; cbn [negb].
      * apply eqb_true_iff' in E3. split; [intros _|reflexivity].
        split; [exact E1|]. split; [now rewrite E2 | now rewrite E3].
      * split; [discriminate|]. intros (_ & _ & H3). rewrite <- Hc in H3.
        apply eqb_true_iff' in H3. congruence.
    + split; [discriminate|]. intros (_ & H2 & _). rewrite <- Hl in H2.
      apply eqb_true_iff' in H2. congruence.
  - split; [discriminate|]. intros (H1 & _). apply list_eqb_iff in H1. congruence.
Qed.

(* what `rest` is: exactly the collection's entries strictly after the cursor, in
   iteration order (a sorted list is determined by its elements) *)
Theorem rest_spec_all coll c d :
  ssorted coll ->
  sorted_d d (rest d c coll) /\
  forall k, In k (rest d c coll) <->
            In k coll /\ match c with Some s => before_d d s k = true | None => True end.
Proof.
  intros Hs. pose proof (dir_list_sorted d coll Hs) as Hd.
  assert (Hin : forall k, In k (dir_list d coll) <-> In k coll).
  { intros k. destruct d; cbn [dir_list]; [tauto | symmetry; apply in_rev]. }
  unfold rest. destruct c as [s|].
  - split; [now apply sorted_filter|]. intros k. rewrite filter_In, Hin. tauto.
  - split; [exact Hd|]. intros k. rewrite Hin. tauto.
Qed.

(* ---------- flags ---------- *)

Theorem has_more_flag_exact_all coll c n d p :
  ssorted coll -> n <= i32_max ->
  page_req coll (Z.of_N n) d c = ROk p ->
  (has_next p = true <-> exists k, In k (rest d c coll) /\ ~ In k (edges p)) /\
  (has_prev p = true <-> exists s, c = Some s /\ In s coll).
Proof.
  intros Hs Hn Hp. rewrite page_req_closed in Hp by assumption. inversion Hp; subst p. clear Hp.
  unfold closed_page. cbn [edges has_next has_prev]. split.
  - destruct (rest_spec_all coll c d Hs) as [Hsr _].
    apply sorted_d_NoDup in Hsr. set (r := rest d c coll) in *.
    pose proof (takeN_dropN r n) as E. pose proof (lenN_dropN r n) as Hld.
    split.
    + intros H. destruct (dropN n r) as [|k b] eqn:Ed; [cbn [lenN] in Hld; lia|].
      exists k. rewrite <- E at 1. split; [apply in_or_app; right; now left|].
      rewrite <- E in Hsr. intros Hin. apply NoDup_remove_2 in Hsr. apply Hsr.
      apply in_or_app. now left.
    + intros (k & Hk & Hnk). destruct (n <? lenN r) eqn:El; [reflexivity|].
      rewrite takeN_all in Hnk by lia. contradiction.
  - unfold cursor_found. destruct c as [s|].
    + rewrite memN_iff. split; [intros H; exists s; tauto | intros (s' & E & H); now inversion E; subst].
    + split; [discriminate | intros (s' & E & _); discriminate].
Qed.

(* ---------- following the cursors ---------- *)

Lemma filter_split d a k b :
  sorted_d d ((a ++ [k]) ++ b) -> filter (fun x => before_d d k x) ((a ++ [k]) ++ b) = b.
Proof.
  intros H. apply sorted_app in H. destruct H as (Hak & Hb & Hab).
  apply sorted_app in Hak. destruct Hak as (Ha & _ & Hak).
  rewrite !filter_app. rewrite (filter_none _ a).
  2:{ eapply Forall_impl; [|exact Hak]. intros x Hx. inversion Hx; subst. now apply bd_asym. }
  cbn [filter]. rewrite bd_irrefl. cbn [app]. apply filter_all.
  apply Forall_app in Hab. destruct Hab as [_ Hkb]. inversion Hkb; subst. assumption.
Qed.

Lemma rest_next coll c d a k b :
  ssorted coll -> rest d c coll = (a ++ [k]) ++ b -> rest d (Some k) coll = b.
Proof.
  intros Hs E. destruct (rest_spec_all coll c d Hs) as [Hsr Hin].
  rewrite E in Hsr. unfold rest at 1. unfold rest in E. destruct c as [s|].
  - rewrite <- (filter_filter_impl _ (fun x => before_d d s x)).
    + rewrite E. now apply filter_split.
    + intros x Hx. eapply bd_trans; [|exact Hx].
      assert (Hk : In k (rest d (Some s) coll)).
      { unfold rest. rewrite E. apply in_or_app. left. apply in_or_app. right. now left. }
      apply Hin in Hk. tauto.
  - rewrite E. now apply filter_split.
Qed.

Fixpoint FlagsSpec (size : N) (ps : list page) : Prop :=
  match ps with
  | [] => False
  | p :: tl =>
      match tl with
      | [] => has_next p = false
      | _ :: _ => has_next p = true /\ lenN (edges p) = size /\ FlagsSpec size tl
      end
  end.

Lemma flags_ok_iff size ps : flags_ok size ps = true <-> FlagsSpec size ps.
Proof.
  induction ps as [|p tl IH]; [cbn; split; [discriminate | tauto]|].
  destruct tl as [|q tl'].
  - cbn. destruct (has_next p); cbn; split; congruence.
  - change (flags_ok size (p :: q :: tl')) with
      (has_next p && (lenN (edges p) =? size) && flags_ok size (q :: tl')).
    change (FlagsSpec size (p :: q :: tl')) with
      (has_next p = true /\ lenN (edges p) = size /\ FlagsSpec size (q :: tl')).
    rewrite !andb_true_iff, IH, N.eqb_eq. tauto.
Qed.

Definition WalkSpec (coll : list N) (size : N) (d : dir) (w : list page * N) : Prop :=
  snd w = 0 /\
  concat (map edges (fst w)) = dir_list d coll /\
  Forall (fun p => lenN (edges p) <= size) (fst w) /\
  FlagsSpec size (fst w).

Lemma walk_closed coll n d : ssorted coll -> 1 <= n -> n <= i32_max ->
  forall fuel c, (length (rest d c coll) < fuel)%nat ->
  let w := walk fuel coll (Z.of_N n) d c in
  snd w = 0 /\ concat (map edges (fst w)) = rest d c coll /\
  Forall (fun p => lenN (edges p) <= n) (fst w) /\ FlagsSpec n (fst w).
Proof.
  intros Hs H1 Hn. induction fuel as [|fuel IH]; intros c Hlen; [lia|].
  cbn [walk]. rewrite page_req_closed by assumption.
  set (r := rest d c coll) in *. unfold closed_page. fold r. cbn [has_next edges].
  destruct (n <? lenN r) eqn:El.
  - (* a full page, more to come *)
    assert (Hne : takeN n r <> []).
    { intros E0. pose proof (lenN_takeN r n) as H. rewrite E0 in H. cbn [lenN] in H. lia. }
    destruct (last_opt_app _ Hne) as (a & k & Ea & Hlast). rewrite Hlast.
    pose proof (takeN_dropN r n) as Er. rewrite Ea in Er.
    assert (Enext : rest d (Some k) coll = dropN n r) by (eapply rest_next; [exact Hs | symmetry; exact Er]).
    specialize (IH (Some k)). rewrite Enext in IH.
    assert (Hl2 : (length (dropN n r) < fuel)%nat).
    { pose proof (lenN_dropN r n) as H. rewrite !lenN_length in H. rewrite lenN_length in El. lia. }
    specialize (IH Hl2). cbn zeta in IH. destruct IH as (I1 & I2 & I3 & I4).
    cbn [fst snd map concat edges]. rewrite I2. rewrite takeN_dropN.
    repeat split; [exact I1 | | ].
    + constructor; [cbn [edges]; rewrite lenN_takeN; lia | exact I3].
    + destruct (fst (walk fuel coll (Z.of_N n) d (Some k))) as [|q tl] eqn:Ew; [destruct I4|].
      cbn [FlagsSpec has_next edges]. repeat split; [rewrite lenN_takeN; lia | exact I4].
  - (* the last page *)
    cbn [fst snd map concat edges has_next FlagsSpec]. rewrite app_nil_r.
    rewrite takeN_all by lia. repeat split.
    constructor; [cbn [edges]; lia | constructor].
Qed.

Theorem pages_enumerate_once_all coll size d :
  ssorted coll -> 1 <= size -> size <= i32_max ->
  WalkSpec coll size d (walk (walk_fuel coll) coll (Z.of_N size) d None).
Proof.
  intros Hs H1 Hn. unfold WalkSpec.
  pose proof (walk_closed coll size d Hs H1 Hn (walk_fuel coll) None) as H.
  cbn zeta in H. apply H. unfold rest, walk_fuel.
  destruct d; cbn [dir_list]; rewrite ?rev_length; lia.
Qed.

Theorem walk_code_sound_all coll size d w :
  walk_code coll size d w = 1 <-> WalkSpec coll size d w.
Proof.
  unfold walk_code, WalkSpec.
  destruct (N.eqb_spec (snd w) 0) as [E0|E0]; cbn [negb]; [|split; [discriminate | tauto]].
  destruct (list_eqb (concat (map edges (fst w))) (dir_list d coll)) eqn:E1; cbn [negb].
  2:{ split; [discriminate|]. intros (_ & H & _). apply list_eqb_iff in H. congruence. }
  apply list_eqb_iff in E1.
  destruct (forallb (fun p => lenN (edges p) <=? size) (fst w)) eqn:E2; cbn [negb].
  2:{ split; [discriminate|]. intros (_ & _ & H & _).
      assert (forallb (fun p => lenN (edges p) <=? size) (fst w) = true); [|congruence].
      apply forallb_forall. rewrite Forall_forall in H. intros p Hp. apply H in Hp. lia. }
  assert (F2 : Forall (fun p => lenN (edges p) <= size) (fst w)).
  { apply Forall_forall. intros p Hp. rewrite forallb_forall in E2. apply E2 in Hp. lia. }
  destruct (flags_ok size (fst w)) eqn:E3; cbn [negb].
  - apply flags_ok_iff in E3. tauto.
  - split; [discriminate|]. intros (_ & _ & _ & H). apply flags_ok_iff in H. congruence.
Qed.

(* "exactly once": the concatenation has no repetition and the same elements as the collection *)
Theorem walk_exactly_once_all coll size d w :
  ssorted coll -> WalkSpec coll size d w ->
  NoDup (concat (map edges (fst w))) /\
  (forall k, In k (concat (map edges (fst w))) <-> In k coll) /\
  length (concat (map edges (fst w))) = length coll.
Proof.
  intros Hs (_ & E & _). rewrite E.
  pose proof (sorted_d_NoDup d _ (dir_list_sorted d coll Hs)) as Hn.
  split; [exact Hn|]. destruct d; cbn [dir_list].
  - split; [tauto | reflexivity].
  - split; [intros k; symmetry; apply in_rev | apply rev_length].
Qed.

(* ---------- size 0 cannot be walked; storage errors are swallowed ---------- *)

Theorem zero_size_stuck_all coll d : ssorted coll -> coll <> [] ->
  walk (walk_fuel coll) coll 0%Z d None = ([mkPage [] false true], 2).
Proof.
  intros Hs Hne. unfold walk_fuel. cbn [walk].
  change 0%Z with (Z.of_N 0). rewrite page_req_closed by (assumption || (unfold i32_max; lia)).
  unfold closed_page, rest, cursor_found. cbn [has_next edges].
  assert (Hl : 0 <? lenN (dir_list d coll) = true).
  { rewrite lenN_length. destruct d; cbn [dir_list]; rewrite ?rev_length; destruct coll; cbn [length]; try congruence; lia. }
  rewrite Hl. assert (Et : takeN 0 (dir_list d coll) = []) by (destruct (dir_list d coll); reflexivity).
  rewrite Et. reflexivity.
Qed.

(* an Err item at stream position i (no cursor, i inside the page) ends the page as if
   the collection ended there: Ok result, flag false *)
Lemma take_err l : forall i j m, i < m -> (N.to_nat i < length l)%nat ->
  take_while_end None (m + 1) (takeN (m + 1) (mk_items (Some (j + i)) j l))
  = (takeN i l, false).
Proof.
  induction l as [|k tl IH]; intros i j m Him Hil; cbn [length] in Hil; [lia|].
  cbn [mk_items opt_is takeN].
  destruct (N.eqb_spec (m + 1) 0); [lia|].
  destruct (N.eqb_spec j (j + i)) as [E|E].
  - assert (i = 0) by lia. subst i. cbn [take_while_end]. reflexivity.
  - cbn [take_while_end opt_is]. unfold sat_sub.
    destruct (N.eqb_spec (m + 1 - 1) 0); [lia|].
    destruct (N.eqb_spec i 0); [lia|].
    replace (m + 1 - 1) with ((m - 1) + 1) by lia.
    replace (j + i) with ((j + 1) + (i - 1)) by lia.
    rewrite IH by lia. cbn [fst snd]. reflexivity.
Qed.

Theorem storage_error_swallowed_all coll n d i :
  i < n -> n <= i32_max -> (N.to_nat i < length coll)%nat ->
  page_req_fail coll (Z.of_N n) d i = ROk (mkPage (takeN i (dir_list d coll)) false false).
Proof.
  intros Hi Hn Hl. unfold page_req_fail, paginate_vec, query_pagination, query_with, closure.
  assert (E : (Z.of_N n <? 0)%Z = false) by lia.
  assert (Hc1 : sat_add usize_max n 1 = n + 1).
  { unfold sat_add, usize_max. unfold i32_max in Hn. lia. }
  assert (Hdl : (N.to_nat i < length (dir_list d coll))%nat).
  { destruct d; cbn [dir_list]; rewrite ?rev_length; exact Hl. }
  assert (Hk : forall l, drop_while (fun _ : N => false) l = l) by (induction l; reflexivity).
  assert (Hsk : forall l, skip_while_start None l = (l, false)) by (destruct l as [|[]]; reflexivity).
  destruct d; cbn [decode]; rewrite E, N2Z.id; unfold entries_vec, keys_from;
    rewrite Hk, Hsk, Hc1; cbn [fst snd];
    replace (Some i) with (Some (0 + i)) by (f_equal; lia);
    rewrite take_err by assumption; reflexivity.
Qed.

(* ---------- non-vacuity ---------- *)

Example walk_nonvacuous :
  map edges (fst (walk (walk_fuel [2;3;5;7;11]) [2;3;5;7;11] 2%Z Reverse None)) = [[11;7];[5;3];[2]]
  /\ ssortedb [2;3;5;7;11] = true.
Proof. vm_compute. split; reflexivity. Qed.

Example page_nonvacuous :
  paginate_vec [2;3;5;7;11] None (Some (CKey 3)) None (Some 2%Z) None = ROk (mkPage [5;7] true true)
  /\ paginate_vec [2;3;5;7;11] None (Some (CKey 4)) None (Some 9%Z) None = ROk (mkPage [5;7;11] false false)
  /\ paginate_vec [2;3;5;7;11] None None (Some (CKey 5)) None (Some 2%Z) = ROk (mkPage [3;2] true false).
Proof. vm_compute. repeat split; reflexivity. Qed.

(* ---------- meaning of the request checker ---------- *)

Definition ReqSpec (coll : list N) (after before : option cstr) (first last : option Z)
           (r : result) : Prop :=
  match expected after before first last with
  | EErr e => r = RErr e
  | EPage c n d => exists p, r = ROk p /\ PageSpec coll c n d p
  end.

Theorem req_code_sound_all coll after before first last r :
  req_code coll after before first last r = 1 <-> ReqSpec coll after before first last r.
Proof.
  unfold req_code, ReqSpec. destruct (expected after before first last) as [e|c n d].
  - destruct r as [p|e']; [split; [discriminate | intros H; discriminate]|].
    destruct (N.eqb_spec e e') as [->|Hne]; split; try reflexivity; try discriminate.
    intros H. inversion H. congruence.
  - destruct r as [p|e'].
    + pose proof (page_okb_sound_all coll c n d p) as H. unfold page_okb in H.
      rewrite N.eqb_eq in H. rewrite H. split; [intros Hp; exists p; tauto|].
      intros (p' & E & Hp). inversion E; subst. exact Hp.
    + split; [discriminate | intros (p' & E & _); discriminate].
Qed.

(* the extension of the property to failing reads does NOT hold: witness *)
Theorem storage_failure_masked_witness :
  exists coll fail after before first last,
    ssortedb coll = true /\
    fail_code coll after before first last (paginate_vec coll fail after before first last) <> 1.
Proof.
  exists [2;4;6;8], (Some 1), None, None, (Some 3%Z), None. vm_compute. split; [reflexivity | discriminate].
Qed.
