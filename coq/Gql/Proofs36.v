(* Proofs for C36: the off-chain tables track the unspent set on consistent histories. *)
From FC Require Import Gql.Model36 Gql.Proofs38.
From Coq Require Import ZifyBool ZifyN ZifyNat.
Open Scope N_scope.

(* ---------- keys ---------- *)

Lemma keq_refl k : list_eqb k k = true.
Proof. now apply list_eqb_iff. Qed.
Lemma keq_sym a b : list_eqb a b = list_eqb b a.
Proof.
  destruct (list_eqb a b) eqn:E1, (list_eqb b a) eqn:E2; try reflexivity.
  - apply list_eqb_iff in E1. subst. rewrite keq_refl in E2. discriminate.
  - apply list_eqb_iff in E2. subst. rewrite keq_refl in E1. discriminate.
Qed.
Lemma keq_false a b : list_eqb a b = false <-> a <> b.
Proof. rewrite <- list_eqb_iff. destruct (list_eqb a b); split; congruence. Qed.

Lemma kget_kput {V} (d : V) m k v k' :
  kget d (kput m k v) k' = if list_eqb k k' then v else kget d m k'.
Proof.
  induction m as [|[k0 v0] tl IH]; cbn [kput kget]; [reflexivity|].
  destruct (list_eqb k0 k) eqn:E0; cbn [kget].
  - apply list_eqb_iff in E0. subst k0. destruct (list_eqb k k'); reflexivity.
  - rewrite IH. destruct (list_eqb k0 k') eqn:E1; [|reflexivity].
    apply list_eqb_iff in E1. subst k0. rewrite keq_sym, E0. reflexivity.
Qed.

Lemma kmem_kput {V} (m : list (key * V)) k v k' :
  kmem (kput m k v) k' = list_eqb k k' || kmem m k'.
Proof.
  induction m as [|[k0 v0] tl IH]; cbn [kput kmem]; [now rewrite orb_false_r|].
  destruct (list_eqb k0 k) eqn:E0; cbn [kmem].
  - apply list_eqb_iff in E0. subst k0. destruct (list_eqb k k'); reflexivity.
  - rewrite IH. destruct (list_eqb k0 k'), (list_eqb k k'); reflexivity.
Qed.

Lemma kmem_kdel {V} (m : list (key * V)) k k' :
  kmem (kdel m k) k' = negb (list_eqb k k') && kmem m k'.
Proof.
  induction m as [|[k0 v0] tl IH]; cbn [kdel kmem]; [now rewrite andb_false_r|].
  destruct (list_eqb k0 k) eqn:E0; cbn [kmem]; rewrite IH.
  - apply list_eqb_iff in E0. subst k0. destruct (list_eqb k k'); reflexivity.
  - destruct (list_eqb k0 k') eqn:E1; [|reflexivity]. apply list_eqb_iff in E1. subst k0.
    rewrite keq_sym, E0. reflexivity.
Qed.

Lemma kmem_in {V} (m : list (key * V)) kv : In kv m -> kmem m (fst kv) = true.
Proof.
  induction m as [|[k0 v0] tl IH]; [intros []|]. intros [<-|H]; cbn [kmem fst].
  - now rewrite keq_refl.
  - rewrite (IH H). apply orb_true_r.
Qed.

(* ---------- resources ---------- *)

Lemma res_eqb_eq a b : res_eqb a b = true -> a = b.
Proof.
  destruct a, b. unfold res_eqb. cbn. rewrite !andb_true_iff, !N.eqb_eq, eqb_true_iff.
  intros [[[[[-> ->] ->] ->] ->] ->]. reflexivity.
Qed.
Lemma res_eqb_refl a : res_eqb a a = true.
Proof. destruct a. unfold res_eqb. cbn. rewrite !N.eqb_refl, eqb_reflx. reflexivity. Qed.

Lemma existsb_res_in r u : existsb (res_eqb r) u = true <-> In r u.
Proof.
  rewrite existsb_exists. split.
  - intros (x & Hx & E). apply res_eqb_eq in E. now subst.
  - intros H. exists r. split; [exact H | apply res_eqb_refl].
Qed.

Lemma same_ident_sym a b : same_ident a b = same_ident b a.
Proof. unfold same_ident. rewrite N.eqb_sym. f_equal. destruct (is_coin a), (is_coin b); reflexivity. Qed.

Fixpoint uwf (u : list res) : Prop :=
  match u with
  | [] => True
  | r :: tl => existsb (same_ident r) tl = false /\ uwf tl
  end.

Lemma remove_in r u x : In x (remove_res r u) -> In x u.
Proof.
  induction u as [|y tl IH]; cbn [remove_res]; [tauto|].
  destruct (res_eqb y r); [now right|]. intros [<-|H]; [now left | right; auto].
Qed.

Lemma existsb_false_in {A} (f : A -> bool) l x : existsb f l = false -> In x l -> f x = false.
Proof.
  intros H Hx. destruct (f x) eqn:E; [|reflexivity].
  assert (existsb f l = true) by (apply existsb_exists; exists x; tauto). congruence.
Qed.

Lemma uwf_remove r u : uwf u -> uwf (remove_res r u).
Proof.
  induction u as [|y tl IH]; cbn [remove_res uwf]; [tauto|]. intros [H1 H2].
  destruct (res_eqb y r); [exact H2|]. cbn [uwf]. split; [|auto].
  destruct (existsb (same_ident y) (remove_res r tl)) eqn:E; [|reflexivity].
  apply existsb_exists in E. destruct E as (x & Hx & Ex). apply remove_in in Hx.
  rewrite (existsb_false_in _ _ _ H1 Hx) in Ex. discriminate.
Qed.

Lemma remove_other_ident r u : uwf u -> In r u ->
  forall x, In x (remove_res r u) -> same_ident r x = false.
Proof.
  induction u as [|y tl IH]; [intros _ []|]. cbn [uwf remove_res]. intros [H1 H2] Hin x Hx.
  destruct (res_eqb y r) eqn:E.
  - apply res_eqb_eq in E. subst y. eapply existsb_false_in; eassumption.
  - destruct Hin as [->|Hin]; [rewrite res_eqb_refl in E; discriminate|].
    destruct Hx as [<-|Hx].
    + rewrite same_ident_sym. eapply existsb_false_in; eassumption.
    + now apply IH.
Qed.

Lemma remove_keeps r u x : In x u -> x <> r -> In x (remove_res r u).
Proof.
  induction u as [|y tl IH]; [intros []|]. cbn [remove_res]. intros [->|H] Hne.
  - destruct (res_eqb x r) eqn:E; [apply res_eqb_eq in E; congruence | now left].
  - destruct (res_eqb y r); [exact H | right; auto].
Qed.

(* ---------- sums ---------- *)

Lemma sum_where_cons f r u : sum_where f (r :: u) = (if f r then ramount r else 0) + sum_where f u.
Proof. cbn [sum_where fold_right]. fold (sum_where f u). destruct (f r); lia. Qed.

Lemma sum_where_remove f r u : In r u ->
  sum_where f (remove_res r u) + (if f r then ramount r else 0) = sum_where f u.
Proof.
  induction u as [|y tl IH]; [intros []|]. cbn [remove_res]. intros Hin.
  destruct (res_eqb y r) eqn:E.
  - apply res_eqb_eq in E. subst y. rewrite sum_where_cons. lia.
  - destruct Hin as [->|Hin]; [rewrite res_eqb_refl in E; discriminate|].
    rewrite !sum_where_cons. specialize (IH Hin). lia.
Qed.

Definition total (u : list res) : N := sum_where (fun _ => true) u.

Lemma sum_where_le f u : sum_where f u <= total u.
Proof. unfold total. induction u as [|r u IH]; [cbn; lia|]. rewrite !sum_where_cons. destruct (f r); lia. Qed.

(* ---------- tracking of set tables ---------- *)

Definition Tracks (tbl : list (key * unit)) (sel : res -> bool) (kf : res -> key) (u : list res) : Prop :=
  forall k, kmem tbl k = true <-> exists r, In r u /\ sel r = true /\ kf r = k.

Lemma tracks_add tbl sel kf u r : Tracks tbl sel kf u -> sel r = true ->
  Tracks (kput tbl (kf r) tt) sel kf (r :: u).
Proof.
  unfold Tracks. intros H Hs k. rewrite kmem_kput, orb_true_iff, (H k), list_eqb_iff. split.
  - intros [E|(x & Hx & Hsx & Ex)]; [exists r; split; [now left | tauto] | exists x; split; [now right | tauto]].
  - intros (x & [<-|Hx] & Hsx & Ex); [now left | right; exists x; tauto].
Qed.

Lemma tracks_skip_add tbl sel kf u r : Tracks tbl sel kf u -> sel r = false -> Tracks tbl sel kf (r :: u).
Proof.
  unfold Tracks. intros H Hs k. rewrite (H k). split.
  - intros (x & Hx & Hsx & Ex). exists x. split; [now right | tauto].
  - intros (x & [<-|Hx] & Hsx & Ex); [congruence | exists x; tauto].
Qed.

Lemma tracks_del tbl sel kf u r : Tracks tbl sel kf u -> uwf u -> In r u ->
  (forall x, sel x = true -> same_ident r x = false -> kf x <> kf r) ->
  Tracks (kdel tbl (kf r)) sel kf (remove_res r u).
Proof.
  unfold Tracks. intros H Hw Hin Hinj k. rewrite kmem_kdel, andb_true_iff, negb_true_iff, keq_false, (H k). split.
  - intros [Hne (x & Hx & Hsx & Ex)]. exists x. split; [|tauto]. apply remove_keeps; [exact Hx|].
    intros ->. congruence.
  - intros (x & Hx & Hsx & Ex). split.
    + subst k. intros E. symmetry in E. revert E. apply Hinj; [exact Hsx|].
      eapply remove_other_ident; eassumption.
    + exists x. split; [eapply remove_in; eassumption | tauto].
Qed.

Lemma tracks_skip_del tbl sel kf u r : Tracks tbl sel kf u -> sel r = false ->
  Tracks tbl sel kf (remove_res r u).
Proof.
  unfold Tracks. intros H Hs k. rewrite (H k). split.
  - intros (x & Hx & Hsx & Ex). exists x. split; [|tauto]. apply remove_keeps; [exact Hx | congruence].
  - intros (x & Hx & Hsx & Ex). exists x. split; [eapply remove_in; eassumption | tauto].
Qed.

(* ---------- the invariant ---------- *)

Definition csel (r : res) (k : key) : bool := is_coin r && list_eqb (cbal_key r) k.
Definition msel (retry : bool) (r : res) (k : key) : bool :=
  negb (is_coin r) && list_eqb (mbal_key r) k && Bool.eqb (rretry r) retry.

Record Inv (base : N) (s : ostate) (u : list res) : Prop := mkInv {
  inv_c : forall k, kget 0 (cbal s) k = coin_sum u k;
  inv_m : forall k, kget (0, 0) (mbal s) k = (msg_sum u k true, msg_sum u k false);
  inv_t : Tracks (cts s) (fun _ => true) (cts_key base) u;
  inv_oc : Tracks (ocoins s) is_coin ocoin_key u;
  inv_om : Tracks (omsgs s) (fun r => negb (is_coin r)) omsg_key u;
  inv_w : uwf u
}.

Lemma inv_empty base : Inv base o_empty [].
Proof.
  constructor; cbn; try reflexivity; try exact Logic.I;
    intros k; (split; [discriminate | intros (r & [] & _)]).
Qed.

Lemma cts_key_inj base r x : same_ident r x = false -> cts_key base x <> cts_key base r.
Proof.
  intros H E. unfold same_ident in H. unfold cts_key in E.
  destruct (is_coin r), (is_coin x); cbn [Bool.eqb] in H; try (now inversion E).
  all: assert (Hid : rid x = rid r) by (inversion E; reflexivity);
       rewrite Hid, N.eqb_refl in H; discriminate.
Qed.

Lemma okey_inj r x : is_coin x = is_coin r -> same_ident r x = false -> ocoin_key x <> ocoin_key r.
Proof.
  unfold same_ident, ocoin_key. intros Hk H E.
  assert (Ei : rid x = rid r) by (inversion E; reflexivity).
  rewrite Ei, N.eqb_refl, Hk in H. destruct (is_coin r); discriminate.
Qed.

Definition created_sum (evs : list event) : N :=
  fold_right (fun ev s => match ev with Created r => ramount r + s | Consumed _ => s end) 0 evs.

Lemma coin_sum_cons r u k : coin_sum (r :: u) k = (if csel r k then ramount r else 0) + coin_sum u k.
Proof. unfold coin_sum. now rewrite sum_where_cons. Qed.
Lemma msg_sum_cons r u k b : msg_sum (r :: u) k b = (if msel b r k then ramount r else 0) + msg_sum u k b.
Proof. unfold msg_sum. now rewrite sum_where_cons. Qed.

(* one consistent event: no indexation error, invariant kept *)
Lemma step_inv base s u ev :
  Inv base s u -> consistent_step u ev = true ->
  total (ghost_step u ev) <= u128max ->
  snd (process_event true true base s ev) = None /\
  Inv base (fst (process_event true true base s ev)) (ghost_step u ev).
Proof.
  intros [Hc Hm Ht Hoc Hom Hw] Hcons Hbound.
  destruct ev as [r|r]; cbn [consistent_step ghost_step] in *.
  - (* creation *)
    apply negb_true_iff in Hcons.
    assert (Hfresh : forall x, In x u -> same_ident r x = false)
      by (intros x Hx; eapply existsb_false_in; eassumption).
    assert (Hnew : kmem (cts s) (cts_key base r) = false).
    { destruct (kmem (cts s) (cts_key base r)) eqn:E; [|reflexivity].
      apply Ht in E. destruct E as (x & Hx & _ & Ex). exfalso.
      apply (cts_key_inj base r x (Hfresh x Hx)). exact Ex. }
    unfold process_event, update_event_based_indexation, balances_update, cts_update. cbn [negb].
    destruct (is_coin r) eqn:Ek.
    + (* coin *)
      unfold increase_coin_balance, cts_add. cbn [cts cbal mbal ocoins omsgs spent]. rewrite Hnew.
      cbn [fst snd]. split; [reflexivity|]. constructor; cbn [cts cbal mbal ocoins omsgs spent].
      * intros k. rewrite kget_kput, coin_sum_cons. unfold csel. rewrite Ek. cbn [andb].
        destruct (list_eqb (cbal_key r) k) eqn:E.
        -- apply list_eqb_iff in E. subst k. rewrite Hc. unfold sat_add.
           pose proof (sum_where_le (fun x => is_coin x && list_eqb (cbal_key x) (cbal_key r)) u).
           unfold total in Hbound. rewrite sum_where_cons in Hbound. unfold coin_sum. fold (total u) in Hbound. lia.
        -- rewrite Hc. lia.
      * intros k. rewrite Hm, !msg_sum_cons. unfold msel. rewrite Ek. cbn [negb andb]. f_equal; lia.
      * now apply tracks_add.
      * now apply tracks_add.
      * apply tracks_skip_add; [exact Hom | now rewrite Ek].
      * cbn [uwf]. split; assumption.
    + (* message *)
      unfold increase_message_balance, cts_add. cbn [cts cbal mbal ocoins omsgs spent]. rewrite Hnew.
      cbn [fst snd]. split; [reflexivity|]. constructor; cbn [cts cbal mbal ocoins omsgs spent].
      * intros k. rewrite Hc, coin_sum_cons. unfold csel. rewrite Ek. cbn [andb]. lia.
      * intros k. rewrite kget_kput, !msg_sum_cons. unfold msel. rewrite Ek. cbn [negb andb].
        pose proof (sum_where_le (fun x => negb (is_coin x) && list_eqb (mbal_key x) (mbal_key r) && Bool.eqb (rretry x) true) u) as Hl1.
        pose proof (sum_where_le (fun x => negb (is_coin x) && list_eqb (mbal_key x) (mbal_key r) && Bool.eqb (rretry x) false) u) as Hl2.
        unfold total in Hbound. rewrite sum_where_cons in Hbound. fold (total u) in Hbound.
        destruct (list_eqb (mbal_key r) k) eqn:E.
        -- apply list_eqb_iff in E. subst k. rewrite Hm. cbn [fst snd]. unfold sat_add, msg_sum.
           destruct (rretry r); cbn [Bool.eqb andb]; f_equal; lia.
        -- rewrite Hm. cbn [andb]. f_equal; lia.
      * now apply tracks_add.
      * apply tracks_skip_add; [exact Hoc | exact Ek].
      * apply tracks_add; [exact Hom | now rewrite Ek].
      * cbn [uwf]. split; assumption.
  - (* consumption *)
    apply existsb_res_in in Hcons.
    assert (Hold : kmem (cts s) (cts_key base r) = true).
    { apply Ht. exists r. tauto. }
    unfold process_event, update_event_based_indexation, balances_update, cts_update. cbn [negb].
    destruct (is_coin r) eqn:Ek.
    + unfold decrease_coin_balance, checked_sub.
      pose proof (sum_where_remove (fun x => csel x (cbal_key r)) r u Hcons) as Hs.
      unfold csel at 2 in Hs. rewrite Ek, keq_refl in Hs. cbn [andb] in Hs.
      assert (Hge : ramount r <= kget 0 (cbal s) (cbal_key r)).
      { rewrite Hc. unfold coin_sum. unfold csel in Hs. lia. }
      destruct (N.leb_spec (ramount r) (kget 0 (cbal s) (cbal_key r))); [|lia].
      unfold cts_remove. cbn [cts cbal mbal ocoins omsgs spent]. rewrite Hold.
      cbn [fst snd]. split; [reflexivity|]. constructor; cbn [cts cbal mbal ocoins omsgs spent].
      * intros k. rewrite kget_kput.
        pose proof (sum_where_remove (fun x => csel x k) r u Hcons) as Hk. unfold csel at 2 in Hk. rewrite Ek in Hk. cbn [andb] in Hk.
        destruct (list_eqb (cbal_key r) k) eqn:E.
        -- apply list_eqb_iff in E. subst k. rewrite Hc. unfold coin_sum, csel in *. lia.
        -- rewrite Hc. unfold coin_sum, csel in *. lia.
      * intros k. rewrite Hm.
        pose proof (sum_where_remove (fun x => msel true x k) r u Hcons) as H1.
        pose proof (sum_where_remove (fun x => msel false x k) r u Hcons) as H2.
        unfold msel at 2 in H1. unfold msel at 2 in H2. rewrite Ek in H1, H2. cbn [negb andb] in H1, H2.
        unfold msg_sum, msel in *. f_equal; lia.
      * apply tracks_del; try assumption. intros x _ Hx. now apply cts_key_inj.
      * apply tracks_del; try assumption. intros x Hsx Hx. apply okey_inj; [congruence | exact Hx].
      * apply tracks_skip_del; [exact Hom | now rewrite Ek].
      * now apply uwf_remove.
    + unfold decrease_message_balance, checked_sub.
      pose proof (sum_where_remove (fun x => msel (rretry r) x (mbal_key r)) r u Hcons) as Hs.
      unfold msel at 2 in Hs. rewrite Ek, keq_refl, eqb_reflx in Hs. cbn [negb andb] in Hs.
      assert (Hge : ramount r <= (if rretry r then fst (kget (0,0) (mbal s) (mbal_key r))
                                 else snd (kget (0,0) (mbal s) (mbal_key r)))).
      { rewrite Hm. cbn [fst snd]. unfold msg_sum, msel in *. destruct (rretry r); lia. }
      destruct (N.leb_spec (ramount r) (if rretry r then fst (kget (0,0) (mbal s) (mbal_key r))
                                        else snd (kget (0,0) (mbal s) (mbal_key r)))); [|lia].
      unfold cts_remove. cbn [cts cbal mbal ocoins omsgs spent]. rewrite Hold.
      cbn [fst snd]. split; [reflexivity|]. constructor; cbn [cts cbal mbal ocoins omsgs spent].
      * intros k. rewrite Hc.
        pose proof (sum_where_remove (fun x => csel x k) r u Hcons) as Hk. unfold csel at 2 in Hk. rewrite Ek in Hk. cbn [andb] in Hk.
        unfold coin_sum, csel in *. lia.
      * intros k. rewrite kget_kput.
        pose proof (sum_where_remove (fun x => msel true x k) r u Hcons) as H1.
        pose proof (sum_where_remove (fun x => msel false x k) r u Hcons) as H2.
        unfold msel at 2 in H1. unfold msel at 2 in H2. rewrite Ek in H1, H2. cbn [negb andb] in H1, H2.
        destruct (list_eqb (mbal_key r) k) eqn:E.
        -- apply list_eqb_iff in E. subst k. rewrite Hm in *. cbn [fst snd] in *.
           unfold msg_sum, msel in *. destruct (rretry r); cbn [Bool.eqb andb] in *; f_equal; lia.
        -- rewrite Hm. cbn [andb] in H1, H2. unfold msg_sum, msel in *. f_equal; lia.
      * apply tracks_del; try assumption. intros x _ Hx. now apply cts_key_inj.
      * apply tracks_skip_del; [exact Hoc | exact Ek].
      * apply tracks_del; try assumption. intros x Hsx Hx. apply okey_inj; [|exact Hx].
        apply negb_true_iff in Hsx. congruence.
      * now apply uwf_remove.
Qed.

(* ---------- whole histories ---------- *)

Fixpoint TraceInv (base : N) (u : list res) (evs : list event) (sts : list ostate) : Prop :=
  match evs, sts with
  | [], [] => True
  | ev :: etl, s :: stl => Inv base s (ghost_step u ev) /\ TraceInv base (ghost_step u ev) etl stl
  | _, _ => False
  end.

Lemma total_remove_le r u : total (remove_res r u) <= total u.
Proof.
  unfold total. induction u as [|y tl IH]; [cbn; lia|]. cbn [remove_res].
  destruct (res_eqb y r); rewrite ?sum_where_cons; lia.
Qed.

Lemma total_step u ev : total (ghost_step u ev) <= total u + created_sum [ev].
Proof.
  destruct ev as [r|r]; cbn [ghost_step created_sum fold_right].
  - unfold total. rewrite sum_where_cons. lia.
  - pose proof (total_remove_le r u). lia.
Qed.

Lemma trace_ok base : forall evs s u,
  Inv base s u -> consistentb u evs = true -> total u + created_sum evs <= u128max ->
  Forall (fun p => snd p = None) (process_events true true base s evs) /\
  TraceInv base u evs (map fst (process_events true true base s evs)).
Proof.
  induction evs as [|ev evs IH]; intros s u HI Hc Hb; cbn [process_events map TraceInv].
  - split; [constructor | exact Logic.I].
  - cbn [consistentb] in Hc. apply andb_true_iff in Hc. destruct Hc as [Hc1 Hc2].
    assert (Hcs : created_sum (ev :: evs) = created_sum [ev] + created_sum evs).
    { unfold created_sum. cbn [fold_right]. destruct ev; lia. }
    pose proof (total_step u ev) as Hts.
    assert (Hb1 : total (ghost_step u ev) <= u128max) by lia.
    destruct (step_inv base s u ev HI Hc1 Hb1) as [He HI'].
    assert (Hb2 : total (ghost_step u ev) + created_sum evs <= u128max) by lia.
    destruct (IH _ _ HI' Hc2 Hb2) as [HF HT].
    split; [constructor; assumption | split; assumption].
Qed.

Theorem index_eq_utxo_all base evs :
  consistentb [] evs = true -> created_sum evs <= u128max ->
  Forall (fun p => snd p = None) (process_events true true base o_empty evs) /\
  TraceInv base [] evs (map fst (process_events true true base o_empty evs)).
Proof.
  intros Hc Hb. apply trace_ok; [apply inv_empty | exact Hc | cbn; lia].
Qed.

(* ---------- the checker ---------- *)

Lemma set_okb_tracks tbl sel kf u :
  Tracks tbl sel kf u -> set_okb tbl (map kf (filter sel u)) = true.
Proof.
  unfold Tracks. intros H. unfold set_okb. apply andb_true_iff. split.
  - apply forallb_forall. intros kv Hkv. apply kmem_in in Hkv. apply H in Hkv.
    destruct Hkv as (r & Hr & Hs & Ek). apply existsb_exists. exists (kf r). split.
    + apply in_map. apply filter_In. tauto.
    + rewrite Ek. apply keq_refl.
  - apply forallb_forall. intros k Hk. apply in_map_iff in Hk. destruct Hk as (r & Ek & Hr).
    apply filter_In in Hr. apply H. exists r. tauto.
Qed.

Lemma filter_true {A} (l : list A) : filter (fun _ => true) l = l.
Proof. induction l as [|x l IH]; [reflexivity|]. cbn [filter]. now rewrite IH. Qed.

Theorem inv_code_complete_all base s u : Inv base s u -> inv_code true true base s u = 1.
Proof.
  intros [Hc Hm Ht Hoc Hom Hw]. unfold inv_code. cbn [andb].
  assert (E1 : forallb (fun kv => kget 0 (cbal s) (fst kv) =? coin_sum u (fst kv)) (cbal s) &&
               forallb (fun r => kget 0 (cbal s) (cbal_key r) =? coin_sum u (cbal_key r)) (filter is_coin u) = true).
  { apply andb_true_iff. split; apply forallb_forall; intros x _; rewrite Hc; apply N.eqb_refl. }
  rewrite E1. cbn [negb].
  assert (E2 : forallb (fun kv => (fst (kget (0,0) (mbal s) (fst kv)) =? msg_sum u (fst kv) true) &&
                                  (snd (kget (0,0) (mbal s) (fst kv)) =? msg_sum u (fst kv) false)) (mbal s) &&
               forallb (fun r => (fst (kget (0,0) (mbal s) (mbal_key r)) =? msg_sum u (mbal_key r) true) &&
                                 (snd (kget (0,0) (mbal s) (mbal_key r)) =? msg_sum u (mbal_key r) false))
                       (filter (fun r => negb (is_coin r)) u) = true).
  { apply andb_true_iff. split; apply forallb_forall; intros x _; rewrite Hm; cbn [fst snd]; rewrite !N.eqb_refl; reflexivity. }
  rewrite E2. cbn [negb].
  pose proof (set_okb_tracks _ _ _ _ Ht) as E3. rewrite filter_true in E3. rewrite E3. cbn [negb].
  rewrite (set_okb_tracks _ _ _ _ Hoc). cbn [negb].
  rewrite (set_okb_tracks _ _ _ _ Hom). reflexivity.
Qed.

Theorem trace_code_complete_all base : forall evs u sts,
  TraceInv base u evs sts -> trace_code true true base u evs sts = 1.
Proof.
  induction evs as [|ev evs IH]; intros u [|s sts] H; cbn [TraceInv trace_code] in *; try tauto.
  destruct H as [HI HT]. rewrite (inv_code_complete_all _ _ _ HI). cbn. now apply IH.
Qed.

(* meaning of a passing check (both indexations on): what it establishes about the tables *)
Definition InvFin (base : N) (s : ostate) (u : list res) : Prop :=
  (forall kv, In kv (cbal s) -> kget 0 (cbal s) (fst kv) = coin_sum u (fst kv)) /\
  (forall r, In r u -> is_coin r = true -> kget 0 (cbal s) (cbal_key r) = coin_sum u (cbal_key r)) /\
  (forall kv, In kv (mbal s) ->
      kget (0,0) (mbal s) (fst kv) = (msg_sum u (fst kv) true, msg_sum u (fst kv) false)) /\
  (forall r, In r u -> is_coin r = false ->
      kget (0,0) (mbal s) (mbal_key r) = (msg_sum u (mbal_key r) true, msg_sum u (mbal_key r) false)) /\
  set_okb (cts s) (map (cts_key base) u) = true /\
  set_okb (ocoins s) (map ocoin_key (filter is_coin u)) = true /\
  set_okb (omsgs s) (map omsg_key (filter (fun r => negb (is_coin r)) u)) = true.

Lemma pair_eqb_iff (p : N * N) a b : (fst p =? a) && (snd p =? b) = true <-> p = (a, b).
Proof. destruct p as [x y]. cbn [fst snd]. rewrite andb_true_iff, !N.eqb_eq. split; [intros [-> ->]; reflexivity | intros E; inversion E; tauto]. Qed.

Theorem inv_code_sound_all base s u : inv_code true true base s u = 1 <-> InvFin base s u.
Proof.
  unfold inv_code, InvFin. cbn [andb].
  set (A1 := forallb (fun kv => kget 0 (cbal s) (fst kv) =? coin_sum u (fst kv)) (cbal s)).
  set (A2 := forallb (fun r => kget 0 (cbal s) (cbal_key r) =? coin_sum u (cbal_key r)) (filter is_coin u)).
  set (B1 := forallb (fun kv => (fst (kget (0,0) (mbal s) (fst kv)) =? msg_sum u (fst kv) true) &&
                                (snd (kget (0,0) (mbal s) (fst kv)) =? msg_sum u (fst kv) false)) (mbal s)).
  set (B2 := forallb (fun r => (fst (kget (0,0) (mbal s) (mbal_key r)) =? msg_sum u (mbal_key r) true) &&
                               (snd (kget (0,0) (mbal s) (mbal_key r)) =? msg_sum u (mbal_key r) false))
                     (filter (fun r => negb (is_coin r)) u)).
  assert (HA1 : A1 = true <-> forall kv, In kv (cbal s) -> kget 0 (cbal s) (fst kv) = coin_sum u (fst kv)).
  { unfold A1. rewrite forallb_forall. split; intros H kv Hkv; specialize (H kv Hkv); lia. }
  assert (HA2 : A2 = true <-> forall r, In r u -> is_coin r = true -> kget 0 (cbal s) (cbal_key r) = coin_sum u (cbal_key r)).
  { unfold A2. rewrite forallb_forall. split.
    - intros H r Hr Hk. specialize (H r ltac:(apply filter_In; tauto)). lia.
    - intros H r Hr. apply filter_In in Hr. specialize (H r ltac:(tauto) ltac:(tauto)). lia. }
  assert (HB1 : B1 = true <-> forall kv, In kv (mbal s) ->
      kget (0,0) (mbal s) (fst kv) = (msg_sum u (fst kv) true, msg_sum u (fst kv) false)).
  { unfold B1. rewrite forallb_forall. split; intros H kv Hkv; specialize (H kv Hkv); now apply pair_eqb_iff. }
  assert (HB2 : B2 = true <-> forall r, In r u -> is_coin r = false ->
      kget (0,0) (mbal s) (mbal_key r) = (msg_sum u (mbal_key r) true, msg_sum u (mbal_key r) false)).
  { unfold B2. rewrite forallb_forall. split.
    - intros H r Hr Hk. apply pair_eqb_iff. apply H. apply filter_In. split; [exact Hr | now rewrite Hk].
    - intros H r Hr. apply filter_In in Hr. destruct Hr as [Hr Hk]. apply negb_true_iff in Hk.
      apply pair_eqb_iff. now apply H. }
  destruct A1, A2, B1, B2; cbn [andb negb];
    try (split; [discriminate | intros (H1 & H2 & H3 & H4 & _); exfalso;
         first [ apply HA1 in H1; discriminate H1 | apply HA2 in H2; discriminate H2
               | apply HB1 in H3; discriminate H3 | apply HB2 in H4; discriminate H4 ]]).
  destruct (set_okb (cts s) (map (cts_key base) u)); cbn [negb];
    [|split; [discriminate | intros (_ & _ & _ & _ & H & _); discriminate]].
  destruct (set_okb (ocoins s) (map ocoin_key (filter is_coin u))); cbn [negb];
    [|split; [discriminate | intros (_ & _ & _ & _ & _ & H & _); discriminate]].
  destruct (set_okb (omsgs s) (map omsg_key (filter (fun r => negb (is_coin r)) u))); cbn [negb];
    [|split; [discriminate | intros (_ & _ & _ & _ & _ & _ & H); discriminate]].
  split; [intros _|reflexivity].
  split; [now apply HA1|]. split; [now apply HA2|]. split; [now apply HB1|]. split; [now apply HB2|].
  repeat split.
Qed.

(* ---------- inconsistent histories: errors are reachable and are only logged ---------- *)

Example inconsistent_history_diverges :
  let c := mkRes 1 0 1 0 5 false in
  map snd (process_events true true 0 o_empty [Created c; Consumed c; Consumed c])
    = [None; None; Some CoinBalanceWouldUnderflow] /\
  consistentb [] [Created c; Consumed c; Consumed c] = false /\
  (* a consume with a wrong amount makes the balance error skip the coins-to-spend update *)
  let c' := mkRes 1 0 1 0 6 false in
  map snd (process_events true true 0 o_empty [Created c; Consumed c']) = [None; Some CoinBalanceWouldUnderflow] /\
  map fst (cts (fst (last (process_events true true 0 o_empty [Created c; Consumed c']) (o_empty, None))))
    = [[1; 1; 0; 5; 0; 1]].
Proof. vm_compute. repeat split; reflexivity. Qed.

Example c36_nonvacuous :
  let c1 := mkRes 1 0 1 0 5 false in let c2 := mkRes 2 0 1 0 7 false in
  let m1 := mkRes 3 1 1 0 9 true in let m2 := mkRes 4 1 1 0 2 false in
  let evs := [Created c1; Created m1; Created c2; Consumed c1; Created m2; Consumed m1] in
  consistentb [] evs = true /\
  ostate_T (fst (last (process_events true true 0 o_empty evs) (o_empty, None))) =
  L [L [tListN [1; 0; 7]]; L [tListN [1; 0; 2]]; L [tListN [1; 1; 0; 2; 1; 4]; tListN [1; 1; 0; 7; 0; 2]];
     L [tListN [1; 2]]; L [tListN [1; 4]]; L [tListN [3]]].
Proof. vm_compute. split; reflexivity. Qed.
