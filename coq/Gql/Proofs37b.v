(* C37, second part: the top-k sum does not depend on the order in which the admissible
   entries are listed, so the infeasibility statements of the algorithms (in their own
   reading order) coincide with the checker's (world order). *)
From FC Require Import Gql.Model37 Gql.Proofs38 Gql.Proofs37.
From Coq Require Import ZifyBool ZifyN ZifyNat Sorting.Permutation.
Open Scope N_scope.

Fixpoint ins (x : N) (l : list N) : list N :=
  match l with
  | [] => [x]
  | y :: tl => if y <? x then x :: l else y :: ins x tl
  end.
Definition sortN (l : list N) : list N := fold_left (fun acc x => ins x acc) l [].
Definition sumN (l : list N) : N := fold_right N.add 0 l.

Fixpoint descN (l : list N) : Prop :=
  match l with
  | [] => True
  | x :: tl => Forall (fun y => y <= x) tl /\ descN tl
  end.

Lemma map_insert_desc x l : map eamt (insert_desc x l) = ins (eamt x) (map eamt l).
Proof.
  induction l as [|y tl IH]; cbn [insert_desc map ins]; [reflexivity|].
  destruct (eamt y <? eamt x); cbn [map]; [reflexivity | now rewrite IH].
Qed.

Lemma map_sort_desc l : map eamt (sort_desc l) = sortN (map eamt l).
Proof.
  unfold sort_desc, sortN.
  assert (H : forall acc, map eamt (fold_left (fun acc x => insert_desc x acc) l acc)
                          = fold_left (fun acc x => ins x acc) (map eamt l) (map eamt acc)).
  { induction l as [|x tl IH]; intros acc; cbn [fold_left map]; [reflexivity|].
    rewrite IH, map_insert_desc. reflexivity. }
  apply (H []).
Qed.

Lemma ins_perm x l : Permutation (ins x l) (x :: l).
Proof.
  induction l as [|y tl IH]; cbn [ins]; [reflexivity|].
  destruct (y <? x); [reflexivity|]. rewrite IH. apply perm_swap.
Qed.

Lemma ins_desc x l : descN l -> descN (ins x l).
Proof.
  induction l as [|y tl IH]; cbn [ins descN]; [intros _; split; [constructor | exact Logic.I]|].
  intros [Hy Hd]. destruct (N.ltb_spec y x).
  - cbn [descN]. split; [|split; assumption].
    constructor; [lia|]. eapply Forall_impl; [|exact Hy]. cbn. intros; lia.
  - cbn [descN]. split; [|now apply IH].
    apply Forall_forall. intros z Hz. apply (Permutation_in _ (ins_perm x tl)) in Hz.
    destruct Hz as [<-|Hz]; [lia|]. rewrite Forall_forall in Hy. now apply Hy.
Qed.

Lemma sortN_spec l : descN (sortN l) /\ Permutation (sortN l) l.
Proof.
  unfold sortN.
  assert (H : forall acc, descN acc ->
             descN (fold_left (fun acc x => ins x acc) l acc) /\
             Permutation (fold_left (fun acc x => ins x acc) l acc) (acc ++ l)).
  { induction l as [|x tl IH]; intros acc Hd; cbn [fold_left].
    - rewrite app_nil_r. split; [exact Hd | reflexivity].
    - destruct (IH (ins x acc) (ins_desc x acc Hd)) as [H1 H2]. split; [exact H1|].
      rewrite H2, ins_perm. cbn [app]. apply Permutation_middle. }
  apply (H [] Logic.I).
Qed.

Lemma desc_perm_eq a : forall b, descN a -> descN b -> Permutation a b -> a = b.
Proof.
  induction a as [|x a IH]; intros b Ha Hb Hp.
  - apply Permutation_nil in Hp. now subst.
  - destruct b as [|y b]; [apply Permutation_sym, Permutation_nil in Hp; discriminate|].
    destruct Ha as [Hxa Ha], Hb as [Hyb Hb].
    assert (Hxy : x = y).
    { assert (Hx : In x (y :: b)) by (eapply Permutation_in; [exact Hp | now left]).
      assert (Hy : In y (x :: a)) by (eapply Permutation_in; [symmetry; exact Hp | now left]).
      rewrite Forall_forall in Hxa, Hyb.
      destruct Hx as [->|Hx]; [reflexivity|]. destruct Hy as [->|Hy]; [reflexivity|].
      specialize (Hyb x Hx). specialize (Hxa y Hy). lia. }
    subst y. f_equal. apply IH; try assumption. eapply Permutation_cons_inv. exact Hp.
Qed.

Lemma sum_takeN_map l : forall k, sum_amt (takeN k l) = sumN (takeN k (map eamt l)).
Proof.
  induction l as [|x l IH]; intros k; cbn [takeN map]; [reflexivity|].
  destruct (k =? 0); [reflexivity|]. rewrite sum_cons. cbn [sumN fold_right]. fold (sumN (takeN (k - 1) (map eamt l))).
  now rewrite IH.
Qed.

Theorem topk_perm_all k a b : Permutation a b -> topk_sum k a = topk_sum k b.
Proof.
  intros Hp. unfold topk_sum. rewrite !sum_takeN_map, !map_sort_desc. f_equal. f_equal.
  destruct (sortN_spec (map eamt a)) as [Da Pa], (sortN_spec (map eamt b)) as [Db Pb].
  apply desc_perm_eq; try assumption.
  rewrite Pa, Pb. now apply Permutation_map.
Qed.

(* ---------- the streams are permutations of the admissible set ---------- *)

Lemma perm_filter {A} (f : A -> bool) a b : Permutation a b -> Permutation (filter f a) (filter f b).
Proof.
  induction 1 as [|x a b _ IH|x y a|a b c _ IH1 _ IH2]; cbn [filter].
  - constructor.
  - destruct (f x); [now constructor | exact IH].
  - destruct (f x), (f y); try reflexivity. apply perm_swap.
  - now rewrite IH1.
Qed.

Lemma filter_split_perm {A} (f g h : A -> bool) l :
  (forall x, h x = f x || g x) -> (forall x, f x = true -> g x = false) ->
  Permutation (filter f l ++ filter g l) (filter h l).
Proof.
  intros Hh Hd. induction l as [|x l IH]; cbn [filter app]; [constructor|].
  rewrite (Hh x). destruct (f x) eqn:Ef.
  - rewrite (Hd x Ef). cbn [orb app]. now constructor.
  - cbn [orb]. destruct (g x); [|exact IH].
    rewrite <- Permutation_middle. now constructor.
Qed.

Lemma coins_stream_perm world owner asset base excl :
  Permutation (coins_stream world owner asset base excl) (admissible world owner asset base excl).
Proof.
  unfold coins_stream, admissible. apply Permutation_map.
  destruct (asset =? base) eqn:Eb.
  - apply filter_split_perm.
    + intros r. unfold admissible_res. rewrite Eb. destruct (rkind r =? 0), (rowner r =? owner),
        (memN (rid r) excl), (rasset r =? asset), (rretry r); reflexivity.
    + intros r H. rewrite !andb_true_iff in H. destruct H as [[[Hk _] _] _]. now rewrite Hk.
  - rewrite app_nil_r.
    assert (E : forall l : list res,
      filter (fun r => (rkind r =? 0) && (rowner r =? owner) && negb (memN (rid r) excl) && (rasset r =? asset)) l =
      filter (fun r => admissible_res owner asset base r && negb (memN (rid r) excl)) l).
    { intros l. apply filter_ext. intros r. unfold admissible_res. rewrite Eb.
      destruct (rkind r =? 0), (rowner r =? owner), (memN (rid r) excl), (rasset r =? asset); reflexivity. }
    rewrite E. reflexivity.
Qed.

Lemma index_adm_perm world owner asset base excl :
  Permutation (filter (ne excl) (rev (index_stream world owner asset base)))
              (admissible world owner asset base excl).
Proof.
  unfold admissible.
  rewrite <- (perm_filter _ _ _ (Permutation_rev (index_stream world owner asset base))).
  rewrite (perm_filter _ _ _ (index_stream_perm world owner asset base)).
  induction world as [|r w IH]; cbn [filter map]; [constructor|].
  destruct (admissible_res owner asset base r); cbn [andb map filter]; [|exact IH].
  unfold ne at 1. cbn [eid to_entry fst]. destruct (memN (rid r) excl); cbn [negb map]; [exact IH | now constructor].
Qed.

(* errors of the non-indexed algorithms, in the checker's terms *)
Theorem nonindexed_error_ErrSpec_all world owner asset base target max partial excl shuffled e :
  WF world ->
  (largest_first (coins_stream world owner asset base excl) target max partial = CErr e \/
   random_improve (coins_stream world owner asset base excl) shuffled target max partial = CErr e) ->
  ErrSpec world owner asset base target max partial excl e.
Proof.
  intros Hw H. pose proof (nonindexed_error_only_if_infeasible_all _ _ _ _ _ _ _ _ _ _ Hw H) as (H1 & H2 & H3).
  unfold ErrSpec. rewrite <- (topk_perm_all max _ _ (coins_stream_perm world owner asset base excl)). tauto.
Qed.

(* ---------- the index is read in descending amount order ---------- *)

Fixpoint ascK (l : list entry) : Prop :=
  match l with
  | [] => True
  | x :: tl => Forall (fun y => key_leb x y = true) tl /\ ascK tl
  end.

Lemma key_leb_total a b : key_leb a b = false -> key_leb b a = true.
Proof. unfold key_leb. lia. Qed.
Lemma key_leb_trans a b c : key_leb a b = true -> key_leb b c = true -> key_leb a c = true.
Proof. unfold key_leb. lia. Qed.
Lemma key_leb_amt a b : key_leb a b = true -> eamt a <= eamt b.
Proof. unfold key_leb. lia. Qed.

Lemma insert_key_asc x l : ascK l -> ascK (insert_key x l).
Proof.
  induction l as [|y tl IH]; cbn [insert_key ascK]; [intros _; split; [constructor | exact Logic.I]|].
  intros [Hy Hd]. destruct (key_leb x y) eqn:E.
  - cbn [ascK]. split; [|split; assumption]. constructor; [exact E|].
    eapply Forall_impl; [|exact Hy]. cbn. intros z Hz. eapply key_leb_trans; eassumption.
  - cbn [ascK]. split; [|now apply IH].
    apply Forall_forall. intros z Hz. apply (Permutation_in _ (insert_key_perm x tl)) in Hz.
    destruct Hz as [<-|Hz]; [now apply key_leb_total|]. rewrite Forall_forall in Hy. now apply Hy.
Qed.

Lemma sort_key_asc l : ascK (sort_key l).
Proof.
  induction l as [|x l IH]; [exact Logic.I|]. unfold sort_key. cbn [fold_right]. fold (sort_key l).
  now apply insert_key_asc.
Qed.

Lemma desc_snoc a x : desc a -> Forall (fun y => eamt x <= eamt y) a -> desc (a ++ [x]).
Proof.
  induction a as [|y a IH]; cbn [app desc]; [intros _ _; split; [constructor | exact Logic.I]|].
  intros [Hy Hd] Hx. inversion Hx as [|? ? Hxy Hxa]; subst. split; [|now apply IH].
  apply Forall_app. split; [exact Hy | constructor; [exact Hxy | constructor]].
Qed.

Lemma asc_rev_desc l : ascK l -> desc (rev l).
Proof.
  induction l as [|x l IH]; cbn [rev ascK]; [intros _; exact Logic.I|]. intros [Hx Hd].
  apply desc_snoc; [now apply IH|]. apply Forall_rev.
  eapply Forall_impl; [|exact Hx]. cbn. intros y Hy. now apply key_leb_amt.
Qed.

Lemma desc_filter f l : desc l -> desc (filter f l).
Proof.
  induction l as [|x l IH]; cbn [filter desc]; [tauto|]. intros [Hx Hd].
  destruct (f x); [|now apply IH]. cbn [desc]. split; [|now apply IH].
  apply Forall_forall. intros y Hy. apply filter_In in Hy. rewrite Forall_forall in Hx. apply Hx. tauto.
Qed.

Lemma desc_descN l : desc l -> descN (map eamt l).
Proof.
  induction l as [|x l IH]; cbn [map desc descN]; [tauto|]. intros [Hx Hd]. split; [|now apply IH].
  apply Forall_forall. intros y Hy. apply in_map_iff in Hy. destruct Hy as (z & <- & Hz).
  rewrite Forall_forall in Hx. now apply Hx.
Qed.

Lemma topk_of_desc k l : desc l -> topk_sum k l = sum_amt (takeN k l).
Proof.
  intros Hd. unfold topk_sum. rewrite !sum_takeN_map, map_sort_desc. f_equal. f_equal.
  destruct (sortN_spec (map eamt l)) as [D P]. apply desc_perm_eq; [exact D | now apply desc_descN | exact P].
Qed.

Lemma index_desc world owner asset base excl :
  desc (filter (ne excl) (rev (index_stream world owner asset base))).
Proof. apply desc_filter, asc_rev_desc. unfold index_stream. apply sort_key_asc. Qed.

Theorem indexed_error_ErrSpec_all world owner asset base target max partial excl r e :
  WF world -> max <= u16max -> target <= u128max ->
  select_coins_to_spend (index_stream world owner asset base) target max partial excl r = CErr e ->
  ErrSpec world owner asset base target max partial excl e.
Proof.
  intros Hw Hm Ht H.
  pose proof (indexed_error_only_if_infeasible_all _ _ _ _ _ _ _ _ _ _ Hw Hm Ht H) as (H1 & H2 & H3).
  unfold ErrSpec.
  rewrite <- (topk_perm_all max _ _ (index_adm_perm world owner asset base excl)).
  rewrite (topk_of_desc max _ (index_desc world owner asset base excl)). tauto.
Qed.

(* every outcome of every algorithm, for every oracle value, passes the checker *)
Theorem outcome_spec_all world owner asset base target max partial excl r shuffled res :
  WF world -> max <= u16max -> target <= u128max -> ~ MaxZeroClass target max partial ->
  Permutation shuffled (coins_stream world owner asset base excl) ->
  (select_coins_to_spend (index_stream world owner asset base) target max partial excl r = res \/
   largest_first (coins_stream world owner asset base excl) target max partial = res \/
   random_improve (coins_stream world owner asset base excl) shuffled target max partial = res) ->
  OutcomeSpec world owner asset base target max partial excl res.
Proof.
  intros Hw Hm Ht Hk Hp H. destruct res as [l|e]; cbn [OutcomeSpec].
  - destruct H as [H|[H|H]].
    + eapply indexed_answer_sound_all; eassumption.
    + eapply largest_first_answer_sound_all; eassumption.
    + eapply random_improve_answer_sound_all; eassumption.
  - destruct H as [H|[H|H]].
    + eapply indexed_error_ErrSpec_all; eassumption.
    + apply (nonindexed_error_ErrSpec_all world owner asset base target max partial excl shuffled e Hw). left. exact H.
    + apply (nonindexed_error_ErrSpec_all world owner asset base target max partial excl shuffled e Hw). right. exact H.
Qed.
