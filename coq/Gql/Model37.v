(* Executable model of crates/fuel-core/src/coins_query.rs (C37):
     select_coins_to_spend / big_coins / dust_coins / select_coins_until /
     max_dust_count / skip_big_coins_up_to_amount          (indexed path)
     largest_first, random_improve                          (non-indexed path)
   and of the admissible-coin streams they read:
     query/balance/asset_query.rs  AssetsQuery::coins       (non-indexed)
     service/adapters/graphql_api/off_chain.rs coins_to_spend_index (indexed; order of
     graphql_api/storage/coins.rs CoinsToSpendIndexKey = amount, then id)
   Randomness (thread_rng) is an explicit oracle argument. *)
From FC Require Export Common.T.
From FC Require Export Gql.Model38.   (* memN, lenN, takeN, list_eqb *)
Open Scope N_scope.

(* a spendable resource of the (unspent) state *)
Record res := mkRes {
  rid : N;        (* identity (utxo id / nonce), unique over coins and messages *)
  rkind : N;      (* 0 coin, 1 message *)
  rowner : N;
  rasset : N;     (* coins only *)
  ramount : N;    (* u64 *)
  rretry : bool   (* messages only: has data => retryable, not spendable as a coin *)
}.

Definition entry := (N * N)%type.            (* id, amount *)
Definition eid (e : entry) : N := fst e.
Definition eamt (e : entry) : N := snd e.
Definition to_entry (r : res) : entry := (rid r, ramount r).
Definition entry_eqb (a b : entry) : bool := (eid a =? eid b) && (eamt a =? eamt b).

(* result: error variants 1 InsufficientCoins, 2 MaxCoinsReached,
   3 UnexpectedInternalState, 4 TooManyCoinsSelected *)
Inductive cres := COk (l : list entry) | CErr (e : N).

Definition sum_amt (l : list entry) : N := fold_right (fun e s => eamt e + s) 0 l.

(* ---------------- which resources a query may use ---------------- *)

(* coin of `owner` with asset `asset`; or, for the base asset, a non-retryable message of `owner` *)
Definition admissible_res (owner asset base : N) (r : res) : bool :=
  if rkind r =? 0 then (rowner r =? owner) && (rasset r =? asset)
  else (rowner r =? owner) && (asset =? base) && negb (rretry r).

(* AssetsQuery::coins : owned coins (in OwnedCoins key order) not excluded, of the asset;
   chained, for the base asset, with the owned non-excluded non-retryable messages *)
Definition coins_stream (world : list res) (owner asset base : N) (excl : list N) : list entry :=
  let cs := filter (fun r => (rkind r =? 0) && (rowner r =? owner) &&
                             negb (memN (rid r) excl) && (rasset r =? asset)) world in
  let ms := if asset =? base
            then filter (fun r => negb (rkind r =? 0) && (rowner r =? owner) &&
                                  negb (memN (rid r) excl) && negb (rretry r)) world
            else [] in
  map to_entry (cs ++ ms).

(* the coins-to-spend index range of (NON_RETRYABLE, owner, asset), ascending key order *)
Definition key_leb (a b : entry) : bool :=
  (eamt a <? eamt b) || ((eamt a =? eamt b) && (eid a <=? eid b)).

Fixpoint insert_key (x : entry) (l : list entry) : list entry :=
  match l with
  | [] => [x]
  | y :: tl => if key_leb x y then x :: l else y :: insert_key x tl
  end.

Definition sort_key (l : list entry) : list entry := fold_right insert_key [] l.

Definition index_stream (world : list res) (owner asset base : N) : list entry :=
  sort_key (map to_entry (filter (admissible_res owner asset base) world)).

(* ---------------- indexed selection ---------------- *)

Definition u128sat (a b : N) : N := sat_add u128max a b.

(* select_coins_until: returns (total, coins, has_more) *)
Fixpoint scu (pred : entry -> N -> bool) (excl : list N) (max : N)
         (stream : list entry) (total : N) (coins : list entry) : N * list entry * bool :=
  match stream with
  | [] => (total, coins, false)
  | c :: tl =>
      if memN (eid c) excl then scu pred excl max tl total coins
      else if (max <=? lenN coins) || pred c total then (total, coins, true)
      else scu pred excl max tl (u128sat total (eamt c)) (coins ++ [c])
  end.

Definition big_coins (stream : list entry) (total max : N) (excl : list N) :=
  scu (fun _ t => total <=? t) excl max stream 0 [].

Definition dust_coins (stream : list entry) (last_big : entry) (max_dust : N) (excl : list N) :=
  scu (fun c _ => entry_eqb c last_big) excl max_dust stream 0 [].

(* rng.gen_range(0..=upper_bound): the oracle r selects r mod (upper_bound + 1) *)
Definition max_dust_count (max big_len factor r : N) : N :=
  let max_from_factor := sat_mul u16max big_len factor in
  let max_adjusted := sat_sub max big_len in
  let upper_bound := N.min max_from_factor max_adjusted in
  r mod (upper_bound + 1).

Definition dust_upper_bound (max big_len factor : N) : N :=
  N.min (sat_mul u16max big_len factor) (sat_sub max big_len).

Fixpoint skip_big (l : list entry) (cur : N) : list entry :=
  match l with
  | [] => []
  | c :: tl => if eamt c <=? cur then skip_big tl (cur - eamt c) else l
  end.

Fixpoint last_entry (l : list entry) : option entry :=
  match l with
  | [] => None
  | [x] => Some x
  | _ :: tl => last_entry tl
  end.

(* idx: the index range in ascending key order (dust order); big order is its reverse *)
Definition select_coins_to_spend (idx : list entry) (total max : N) (allow_partial : bool)
           (excl : list N) (r : N) : cres :=
  if (total =? 0) || (max =? 0) then COk []
  else
    let adjusted_total := sat_mul u128max total 2 in
    match big_coins (rev idx) adjusted_total max excl with
    | (big_total, big, has_more) =>
        if (big_total =? 0) || ((big_total <? total) && negb allow_partial) then
          if (max <=? lenN big) && has_more then CErr 2 else CErr 1
        else
          match last_entry big with
          | None => CErr 3
          | Some last_big =>
              if u16max <? lenN big then CErr 4
              else
                let mdc := max_dust_count max (lenN big) 5 r in
                match dust_coins idx last_big mdc excl with
                | (dust_total, dust, _) => COk (skip_big big dust_total ++ dust)
                end
          end
    end.

(* ---------------- largest_first ---------------- *)

(* inputs.sort_by_key(|c| Reverse(amount)) : stable, descending by amount *)
Fixpoint insert_desc (x : entry) (l : list entry) : list entry :=
  match l with
  | [] => [x]
  | y :: tl => if eamt y <? eamt x then x :: l else y :: insert_desc x tl
  end.

Definition sort_desc (l : list entry) : list entry :=
  fold_left (fun acc x => insert_desc x acc) l [].

Definition lf_end (target : N) (partial : bool) (collected : N) (coins : list entry) : cres :=
  if collected <? target then
    if partial && (0 <? collected) then COk coins else CErr 1
  else COk coins.

Fixpoint lf_loop (inputs : list entry) (target max : N) (partial : bool)
         (collected : N) (coins : list entry) : cres :=
  match inputs with
  | [] => lf_end target partial collected coins
  | c :: tl =>
      if target <=? collected then lf_end target partial collected coins
      else if max <=? lenN coins then (if partial then COk coins else CErr 2)
      else lf_loop tl target max partial (u128sat collected (eamt c)) (coins ++ [c])
  end.

Definition largest_first (stream : list entry) (target max : N) (partial : bool) : cres :=
  lf_loop (sort_desc stream) target max partial 0 [].

(* ---------------- random_improve (one asset) ---------------- *)

Definition abs_diff (a b : N) : N := if a <? b then b - a else a - b.

Fixpoint ri_loop (inputs : list entry) (target upper : N) (collected : N) (coins : list entry)
  : N * list entry :=
  match inputs with
  | [] => (collected, coins)
  | c :: tl =>
      if target <=? collected then
        if (u64max <=? collected) || (upper <? eamt c) then (collected, coins)
        else
          let change := collected - target in
          let distance := abs_diff target change in
          let next_distance := abs_diff target (u128sat change (eamt c)) in
          if distance <=? next_distance then (collected, coins)
          else ri_loop tl target upper (u128sat collected (eamt c)) (coins ++ [c])
      else ri_loop tl target upper (u128sat collected (eamt c)) (coins ++ [c])
  end.

(* `shuffled` is the oracle: the order produced by inputs.shuffle(thread_rng()) *)
Definition random_improve (stream shuffled : list entry) (target max : N) (partial : bool) : cres :=
  let inputs := takeN max shuffled in
  let upper := sat_mul u128max target 2 in
  match ri_loop inputs target upper 0 [] with
  | (collected, coins) =>
      if collected <? target then largest_first stream target max partial
      else COk coins
  end.

(* ---------------- decidable checker of an answer ---------------- *)

Fixpoint find_res (id : N) (world : list res) : option res :=
  match world with
  | [] => None
  | r :: tl => if rid r =? id then Some r else find_res id tl
  end.

Fixpoint nodupb (l : list N) : bool :=
  match l with
  | [] => true
  | x :: tl => negb (memN x tl) && nodupb tl
  end.

(* the admissible entries of a query (any order) *)
Definition admissible (world : list res) (owner asset base : N) (excl : list N) : list entry :=
  map to_entry (filter (fun r => admissible_res owner asset base r && negb (memN (rid r) excl)) world).

(* sum of the (at most) k largest amounts *)
Definition topk_sum (k : N) (l : list entry) : N := sum_amt (takeN k (sort_desc l)).

Definition entry_ok (world : list res) (owner asset base : N) (excl : list N) (e : entry) : bool :=
  match find_res (eid e) world with
  | None => false
  | Some r => admissible_res owner asset base r && negb (memN (rid r) excl) && (ramount r =? eamt e)
  end.

(* classes: 1 holds; 2 a returned resource is not admissible (foreign owner/asset,
   excluded, retryable, unknown, wrong amount); 3 duplicates; 4 more than max;
   5 total below target without allow_partial; 6 error although a selection exists;
   7 unexpected error variant *)
Definition sel_code (world : list res) (owner asset base target max : N) (partial : bool)
           (excl : list N) (r : cres) : N :=
  match r with
  | COk l =>
      if negb (forallb (entry_ok world owner asset base excl) l) then 2
      else if negb (nodupb (map eid l)) then 3
      else if negb (lenN l <=? max) then 4
      else if negb (partial || (target <=? sum_amt l)) then 5
      else 1
  | CErr e =>
      if negb ((e =? 1) || (e =? 2)) then 7
      else
        let best := topk_sum max (admissible world owner asset base excl) in
        if (best <? target) && (negb partial || (best =? 0)) then 1 else 6
  end.

(* ---------------- T codecs, oracle inference, main ---------------- *)

Definition T_res (t : T) : option res :=
  match t with
  | L [i; k; o; a; m; rt] =>
      match getN i, getN k, getN o, getN a, getN m, getB rt with
      | Some i, Some k, Some o, Some a, Some m, Some rt => Some (mkRes i k o a m rt)
      | _, _, _, _, _, _ => None
      end
  | _ => None
  end.

Definition entry_T (e : entry) : T := L [tN (eid e); tN (eamt e)].
Definition T_entry (t : T) : option entry :=
  match t with
  | L [i; a] => match getN i, getN a with Some i, Some a => Some (i, a) | _, _ => None end
  | _ => None
  end.

Definition cres_T (r : cres) : T :=
  match r with
  | COk l => L [I 0; L (map entry_T l)]
  | CErr e => L [I 1; tN e]
  end.
Definition T_cres (t : T) : option cres :=
  match t with
  | L [I 0%Z; L l] => option_map COk (mapM T_entry l)
  | L [I 1%Z; e] => option_map CErr (getN e)
  | _ => None
  end.

Definition cres_eqb (a b : cres) : bool :=
  match a, b with
  | COk x, COk y =>
      list_eqb (map eid x) (map eid y) && list_eqb (map eamt x) (map eamt y)
  | CErr x, CErr y => x =? y
  | _, _ => false
  end.

(* first candidate oracle whose answer equals the observed one; the first candidate's
   answer if none does *)
Fixpoint pick {A} (f : A -> cres) (obs : option cres) (cands : list A) (dflt : cres) : cres :=
  match cands with
  | [] => dflt
  | c :: tl =>
      match obs with
      | Some o => if cres_eqb (f c) o then f c else pick f obs tl dflt
      | None => dflt
      end
  end.

Fixpoint nseqN (n : nat) (a : N) : list N :=
  match n with O => [] | S n' => a :: nseqN n' (a + 1) end.

(* remove the first entry with the given id *)
Fixpoint remove_id (id : N) (l : list entry) : list entry :=
  match l with
  | [] => []
  | e :: tl => if eid e =? id then tl else e :: remove_id id tl
  end.

Fixpoint rotations {A} (n : nat) (l : list A) : list (list A) :=
  match n with
  | O => []
  | S n' => match l with
            | [] => []
            | x :: tl => l :: rotations n' (tl ++ [x])
            end
  end.

(* candidate shuffles consistent with an observed answer `ans` over the stream:
   ans followed by every rotation of the remaining entries; the ascending order (which
   makes the loop collect least); the stream itself *)
Definition shuffle_candidates (stream : list entry) (ans : list entry) : list (list entry) :=
  let rem := fold_left (fun acc e => remove_id (eid e) acc) ans stream in
  let asc := rev (sort_desc stream) in
  (if lenN ans + lenN rem =? lenN stream
   then match rem with
        | [] => [ans]
        | _ => map (fun r => ans ++ r) (rotations (length rem) rem)
        end
   else []) ++ [asc; stream].

Definition main37 (input observed : T) : T :=
  match input with
  | L [mode; L world; owner; asset; base; target; max; partial; excl] =>
      match getN mode, mapM T_res world, getN owner, getN asset, getN base,
            getN target, getN max, getB partial, getListN excl with
      | Some mode, Some world, Some owner, Some asset, Some base,
        Some target, Some max, Some partial, Some excl =>
          let obs := match observed with
                     | L [_; r] => T_cres r
                     | _ => None
                     end in
          let stream := if mode =? 0 then index_stream world owner asset base
                        else coins_stream world owner asset base excl in
          let result :=
            if mode =? 0 then
              (* the dust count is at most min(5 * #big, max - #big) <= min(max, 5 * |index|):
                 try every admissible draw *)
              let cands := nseqN (S (N.to_nat (N.min max (5 * lenN stream)))) 0 in
              let f := select_coins_to_spend stream target max partial excl in
              pick f obs cands (f 0)
            else if mode =? 1 then largest_first stream target max partial
            else
              let ans := match obs with Some (COk l) => l | _ => [] end in
              let f := fun sh => random_improve stream sh target max partial in
              pick f obs (shuffle_candidates stream ans) (f stream) in
          let model := L [L (map entry_T stream); cres_T result] in
          let pc := match obs with
                    | None => 0
                    | Some r =>
                        if nodupb (map rid world)
                        then sel_code world owner asset base target max partial excl r
                        else 1
                    end in
          L [model; tN pc]
      | _, _, _, _, _, _, _, _, _ => tErr 2
      end
  | _ => tErr 1
  end.
