(* Executable model of crates/fuel-core/src/schema.rs  query_pagination  (C38)
   together with async_graphql::connection::query_with (argument decoding) and the
   in-memory `entries` callback of the verification hook schema::verif_hooks::paginate_vec.
   Keys are u64 (cursor = key = value). *)
From FC Require Export Common.T.
Open Scope N_scope.

Definition usize_max : N := 18446744073709551615.
Definition i32_max : N := 2147483647.

Inductive dir := Forward | Reverse.

(* one item of the `entries` stream: StorageResult<(key, value)> *)
Inductive item := IOk (k : N) | IErr.

(* a cursor string: decodes to a key, or does not parse *)
Inductive cstr := CKey (k : N) | CBad.

Record page := mkPage { edges : list N; has_prev : bool; has_next : bool }.

(* Error variants (tags of the observation):
     1  first and last both given            2  after with last
     3  before with first                    4  neither first nor last
     5  first < 0 (query_with)               6  last < 0 (query_with)
     7  cursor does not decode (query_with)  9  closure: neither first nor last (unreachable) *)
Inductive result := ROk (p : page) | RErr (e : N).

Fixpoint drop_while {A} (f : A -> bool) (l : list A) : list A :=
  match l with
  | [] => []
  | x :: tl => if f x then drop_while f tl else l
  end.

Fixpoint takeN {A} (n : N) (l : list A) : list A :=
  match l with
  | [] => []
  | x :: tl => if n =? 0 then [] else x :: takeN (n - 1) tl
  end.

Fixpoint lenN {A} (l : list A) : N :=
  match l with [] => 0 | _ :: tl => 1 + lenN tl end.

(* ---------------- the hook's `entries` callback ---------------- *)

(* k is strictly before s in iteration direction d *)
Definition before_d (d : dir) (k s : N) : bool :=
  match d with Forward => k <? s | Reverse => s <? k end.

Definition dir_list (d : dir) (coll : list N) : list N :=
  match d with Forward => coll | Reverse => rev coll end.

(* database iterator semantics: start at the first key not before `start` *)
Definition keys_from (coll : list N) (start : option N) (d : dir) : list N :=
  drop_while (fun k => match start with Some s => before_d d k s | None => false end)
             (dir_list d coll).

Definition opt_is (o : option N) (i : N) : bool :=
  match o with Some j => i =? j | None => false end.

Fixpoint mk_items (fail : option N) (i : N) (l : list N) : list item :=
  match l with
  | [] => []
  | k :: tl => (if opt_is fail i then IErr else IOk k) :: mk_items fail (i + 1) tl
  end.

Definition entries_vec (coll : list N) (fail : option N) (start : option N) (d : dir) : list item :=
  mk_items fail 0 (keys_from coll start d).

(* ---------------- the closure passed to `query` ---------------- *)

Definition is_key (c : option N) (it : item) : bool :=
  match it with IOk k => opt_is c k | IErr => false end.

(* entries.skip_while(|r| key == start  => has_previous_page = true) *)
Fixpoint skip_while_start (start : option N) (l : list item) : list item * bool :=
  match l with
  | [] => ([], false)
  | it :: tl =>
      if is_key start it
      then (fst (skip_while_start start tl), true)
      else (l, false)
  end.

(* .take_while(..) with the mutable `count` and `has_next_page` *)
Fixpoint take_while_end (endk : option N) (count : N) (l : list item) : list N * bool :=
  match l with
  | [] => ([], false)
  | IErr :: _ => ([], false)           (* "stop immediately in the case of error": item dropped *)
  | IOk k :: tl =>
      if opt_is endk k then ([], true)
      else
        let count' := sat_sub count 1 in
        if count' =? 0 then ([], true)
        else let r := take_while_end endk count' tl in (k :: fst r, snd r)
  end.

Definition closure (entries : option N -> dir -> list item)
           (after before : option N) (first last : option N) : result :=
  match (match first with
         | Some f => Some (f, Forward)
         | None => match last with Some l => Some (l, Reverse) | None => None end
         end) with
  | None => RErr 9
  | Some (count, d) =>
      let start := match d with Forward => after | Reverse => before end in
      let endk := match d with Forward => before | Reverse => after end in
      let es := entries start d in
      let sk := skip_while_start start es in
      let count1 := sat_add usize_max count 1 in
      let tk := take_while_end endk count1 (takeN count1 (fst sk)) in
      ROk (mkPage (fst tk) (snd sk) (snd tk))
  end.

(* ---------------- async_graphql::connection::query_with ---------------- *)

Definition decode (c : option cstr) : option (option N) :=
  match c with
  | None => Some None
  | Some (CKey k) => Some (Some k)
  | Some CBad => None
  end.

Definition query_with (f : option N -> option N -> option N -> option N -> result)
           (after before : option cstr) (first last : option Z) : result :=
  match (match first with
         | Some z => if (z <? 0)%Z then None else Some (Some (Z.to_N z))
         | None => Some None end) with
  | None => RErr 5
  | Some first =>
      match (match last with
             | Some z => if (z <? 0)%Z then None else Some (Some (Z.to_N z))
             | None => Some None end) with
      | None => RErr 6
      | Some last =>
          match decode before with
          | None => RErr 7
          | Some before =>
              match decode after with
              | None => RErr 7
              | Some after => f after before first last
              end
          end
      end
  end.

(* ---------------- schema.rs query_pagination ---------------- *)

Definition query_pagination (entries : option N -> dir -> list item)
           (after before : option cstr) (first last : option Z) : result :=
  match after, before, first, last with
  | _, _, Some _, Some _ => RErr 1
  | Some _, _, _, Some _ => RErr 2
  | _, Some _, Some _, _ => RErr 3
  | _, _, None, None => RErr 4
  | _, _, _, _ => query_with (closure entries) after before first last
  end.

Definition paginate_vec (coll : list N) (fail : option N)
           (after before : option cstr) (first last : option Z) : result :=
  query_pagination (entries_vec coll fail) after before first last.

(* ---------------- the client loop (harness and model alike) ---------------- *)

(* one request in iteration direction d with page size `size` from cursor `cur` *)
Definition page_req (coll : list N) (size : Z) (d : dir) (cur : option N) : result :=
  match d with
  | Forward => paginate_vec coll None (option_map CKey cur) None (Some size) None
  | Reverse => paginate_vec coll None None (option_map CKey cur) None (Some size)
  end.

(* the same first request (no cursor) when item `i` of the entries stream is a storage error *)
Definition page_req_fail (coll : list N) (size : Z) (d : dir) (i : N) : result :=
  match d with
  | Forward => paginate_vec coll (Some i) None None (Some size) None
  | Reverse => paginate_vec coll (Some i) None None None (Some size)
  end.

Fixpoint last_opt {A} (l : list A) : option A :=
  match l with
  | [] => None
  | [x] => Some x
  | _ :: tl => last_opt tl
  end.

(* status: 0 finished (flag in iteration direction false), 1 error result,
           2 stuck (flag true but no edge to continue from), 3 fuel exhausted *)
Fixpoint walk (fuel : nat) (coll : list N) (size : Z) (d : dir) (cur : option N)
  : list page * N :=
  match fuel with
  | O => ([], 3)
  | S fuel' =>
      match page_req coll size d cur with
      | RErr _ => ([], 1)
      | ROk p =>
          if has_next p then
            match last_opt (edges p) with
            | None => ([p], 2)
            | Some c => let r := walk fuel' coll size d (Some c) in (p :: fst r, snd r)
            end
          else ([p], 0)
      end
  end.

(* ---------------- specification side (closed form) + decidable checker ---------------- *)

(* the entries strictly after the cursor, in iteration order *)
Definition rest (d : dir) (c : option N) (coll : list N) : list N :=
  match c with
  | None => dir_list d coll
  | Some s => filter (fun k => before_d d s k) (dir_list d coll)
  end.

Fixpoint memN (k : N) (l : list N) : bool :=
  match l with [] => false | x :: tl => (x =? k) || memN k tl end.

Fixpoint list_eqb (a b : list N) : bool :=
  match a, b with
  | [], [] => true
  | x :: a', y :: b' => (x =? y) && list_eqb a' b'
  | _, _ => false
  end.

Fixpoint ssortedb (l : list N) : bool :=
  match l with
  | [] => true
  | x :: tl => match tl with [] => true | y :: _ => (x <? y) && ssortedb tl end
  end.

Definition cursor_found (c : option N) (coll : list N) : bool :=
  match c with Some s => memN s coll | None => false end.

(* failure classes: 1 ok, 2 edges differ, 3 flag in iteration direction wrong,
   4 opposite flag wrong *)
Definition page_code (coll : list N) (c : option N) (n : N) (d : dir) (p : page) : N :=
  let r := rest d c coll in
  if negb (list_eqb (edges p) (takeN n r)) then 2
  else if negb (Bool.eqb (has_next p) (n <? lenN r)) then 3
  else if negb (Bool.eqb (has_prev p) (cursor_found c coll)) then 4
  else 1.

Definition page_okb (coll : list N) (c : option N) (n : N) (d : dir) (p : page) : bool :=
  page_code coll c n d p =? 1.

(* expected outcome class of a request, from the arguments alone *)
Inductive expect := EErr (e : N) | EPage (c : option N) (n : N) (d : dir).

Definition expected (after before : option cstr) (first last : option Z) : expect :=
  match first, last with
  | Some _, Some _ => EErr 1
  | None, None => EErr 4
  | Some f, None =>
      match before with
      | Some _ => EErr 3
      | None =>
          if (f <? 0)%Z then EErr 5
          else match after with
               | Some CBad => EErr 7
               | Some (CKey k) => EPage (Some k) (Z.to_N f) Forward
               | None => EPage None (Z.to_N f) Forward
               end
      end
  | None, Some l =>
      match after with
      | Some _ => EErr 2
      | None =>
          if (l <? 0)%Z then EErr 6
          else match before with
               | Some CBad => EErr 7
               | Some (CKey k) => EPage (Some k) (Z.to_N l) Reverse
               | None => EPage None (Z.to_N l) Reverse
               end
      end
  end.

(* Pcheck of one request without injected storage failure on a strictly sorted collection:
   1 holds; 2,3,4 page classes; 5 Ok/Err outcome differs from the argument table;
   6 wrong error variant *)
Definition req_code (coll : list N) (after before : option cstr) (first last : option Z)
           (r : result) : N :=
  match expected after before first last, r with
  | EErr e, RErr e' => if e =? e' then 1 else 6
  | EPage c n d, ROk p => page_code coll c n d p
  | _, _ => 5
  end.

(* with an injected storage failure at stream index i, the request must not look like
   a complete answer: either an error, or (if the failing item lies beyond what the
   page reads) the failure-free page.  Class 7: an Ok page differing from the
   failure-free page. *)
Definition fail_code (coll : list N) (after before : option cstr) (first last : option Z)
           (r : result) : N :=
  match r with
  | RErr _ => 1
  | ROk p =>
      match expected after before first last with
      | EPage c n d => if page_code coll c n d p =? 1 then 1 else 7
      | EErr _ => 5
      end
  end.

(* Pcheck of a walk: finished, pages concatenate to the collection in iteration order,
   every page has at most `size` edges, every page but the last is full and flagged,
   the last is not flagged.  Classes: 2 not finished, 3 concatenation differs,
   4 page too long, 5 flag pattern wrong *)
Fixpoint flags_ok (size : N) (ps : list page) : bool :=
  match ps with
  | [] => false
  | [p] => negb (has_next p)
  | p :: tl => has_next p && (lenN (edges p) =? size) && flags_ok size tl
  end.

Definition walk_code (coll : list N) (size : N) (d : dir) (w : list page * N) : N :=
  let ps := fst w in
  if negb (snd w =? 0) then 2
  else if negb (list_eqb (concat (map edges ps)) (dir_list d coll)) then 3
  else if negb (forallb (fun p => lenN (edges p) <=? size) ps) then 4
  else if negb (flags_ok size ps) then 5
  else 1.

(* ---------------- T codecs ---------------- *)

Definition T_dir (t : T) : option dir :=
  match t with I 0%Z => Some Forward | I 1%Z => Some Reverse | _ => None end.

(* () = no cursor, (k) = cursor string of key k, (-1) = undecodable string *)
Definition T_cstr (t : T) : option (option cstr) :=
  match t with
  | L [] => Some None
  | L [I z] => if (z <? 0)%Z then Some (Some CBad) else Some (Some (CKey (Z.to_N z)))
  | _ => None
  end.

Definition T_optZ (t : T) : option (option Z) :=
  match t with
  | L [] => Some None
  | L [I z] => Some (Some z)
  | _ => None
  end.

Definition page_T (p : page) : T := L [tListN (edges p); tB (has_prev p); tB (has_next p)].
Definition result_T (r : result) : T :=
  match r with
  | ROk p => L [I 0; page_T p]
  | RErr e => L [I 1; tN e]
  end.

Definition T_page (t : T) : option page :=
  match t with
  | L [es; hp; hn] =>
      match getListN es, getB hp, getB hn with
      | Some es, Some hp, Some hn => Some (mkPage es hp hn)
      | _, _, _ => None
      end
  | _ => None
  end.
Definition T_result (t : T) : option result :=
  match t with
  | L [I 0%Z; p] => option_map ROk (T_page p)
  | L [I 1%Z; e] => option_map RErr (getN e)
  | _ => None
  end.

Definition walk_T (w : list page * N) : T := L [tN (snd w); L (map page_T (fst w))].
Definition T_walk (t : T) : option (list page * N) :=
  match t with
  | L [st; L ps] =>
      match getN st, mapM T_page ps with
      | Some st, Some ps => Some (ps, st)
      | _, _ => None
      end
  | _ => None
  end.

Definition walk_fuel (coll : list N) : nat := S (S (length coll)).

Definition main38 (input observed : T) : T :=
  match input with
  | L [I 0%Z; coll; fail; after; before; first; last] =>
      match getListN coll, getOptN fail, T_cstr after, T_cstr before, T_optZ first, T_optZ last with
      | Some coll, Some fail, Some after, Some before, Some first, Some last =>
          let model := result_T (paginate_vec coll fail after before first last) in
          let pc :=
            match T_result observed with
            | None => 0
            | Some r =>
                if negb (ssortedb coll) then 1
                else match fail with
                     | None => req_code coll after before first last r
                     | Some _ => fail_code coll after before first last r
                     end
            end in
          L [model; tN pc]
      | _, _, _, _, _, _ => tErr 2
      end
  | L [I 1%Z; coll; size; d] =>
      match getListN coll, getN size, T_dir d with
      | Some coll, Some size, Some d =>
          let model := walk_T (walk (walk_fuel coll) coll (Z.of_N size) d None) in
          let pc :=
            match T_walk observed with
            | None => 0
            | Some w =>
                if negb (ssortedb coll) || (size =? 0) then 1
                else walk_code coll size d w
            end in
          L [model; tN pc]
      | _, _, _ => tErr 3
      end
  | _ => tErr 1
  end.
