(* Printing of T values as text inside Coq, used by the extraction cross-check: a sample of the
   requests of every check run is re-evaluated with vm_compute in coqc and must print exactly
   what the extracted OCaml model printed. *)
From Coq Require Import List ZArith String DecimalString Decimal.
From FC Require Import Common.T.
Import ListNotations.
Open Scope string_scope.

Definition show_Z (z : Z) : string := NilZero.string_of_int (Z.to_int z).

Fixpoint show (t : T) : string :=
  match t with
  | I z => show_Z z
  | L l =>
      "(" ++ (fix go (l : list T) (first : bool) : string :=
                match l with
                | [] => ""
                | x :: r => (if first then "" else " ") ++ show x ++ go r false
                end) l true ++ ")"
  end.

Example show_example : show (L [I 1; I (-20); L [I 3; L []]; I 0]) = "(1 -20 (3 ()) 0)".
Proof. vm_compute. reflexivity. Qed.
