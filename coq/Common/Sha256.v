(* Executable SHA-256 over byte lists (bytes and 32-bit words as N).
   Validated against the NIST vectors below by vm_compute and, on every run of the
   checks that use it, differentially against the sha2 crate through the harness. *)
From Coq Require Import List NArith Lia.
Import ListNotations.
Open Scope N_scope.

Definition w32 : N := 4294967296.
Definition mask32 : N := 4294967295.
Definition add32 (a b : N) : N := (a + b) mod w32.
Definition rotr (n x : N) : N :=
  N.lor (N.shiftr x n) (N.land (N.shiftl x (32 - n)) mask32).
Definition shr (n x : N) : N := N.shiftr x n.
Definition not32 (x : N) : N := N.lxor x mask32.

Definition ch (x y z : N) := N.lxor (N.land x y) (N.land (not32 x) z).
Definition maj (x y z : N) := N.lxor (N.lxor (N.land x y) (N.land x z)) (N.land y z).
Definition bsig0 x := N.lxor (N.lxor (rotr 2 x) (rotr 13 x)) (rotr 22 x).
Definition bsig1 x := N.lxor (N.lxor (rotr 6 x) (rotr 11 x)) (rotr 25 x).
Definition ssig0 x := N.lxor (N.lxor (rotr 7 x) (rotr 18 x)) (shr 3 x).
Definition ssig1 x := N.lxor (N.lxor (rotr 17 x) (rotr 19 x)) (shr 10 x).

Definition K : list N :=
 [0x428a2f98; 0x71374491; 0xb5c0fbcf; 0xe9b5dba5; 0x3956c25b; 0x59f111f1; 0x923f82a4; 0xab1c5ed5;
  0xd807aa98; 0x12835b01; 0x243185be; 0x550c7dc3; 0x72be5d74; 0x80deb1fe; 0x9bdc06a7; 0xc19bf174;
  0xe49b69c1; 0xefbe4786; 0x0fc19dc6; 0x240ca1cc; 0x2de92c6f; 0x4a7484aa; 0x5cb0a9dc; 0x76f988da;
  0x983e5152; 0xa831c66d; 0xb00327c8; 0xbf597fc7; 0xc6e00bf3; 0xd5a79147; 0x06ca6351; 0x14292967;
  0x27b70a85; 0x2e1b2138; 0x4d2c6dfc; 0x53380d13; 0x650a7354; 0x766a0abb; 0x81c2c92e; 0x92722c85;
  0xa2bfe8a1; 0xa81a664b; 0xc24b8b70; 0xc76c51a3; 0xd192e819; 0xd6990624; 0xf40e3585; 0x106aa070;
  0x19a4c116; 0x1e376c08; 0x2748774c; 0x34b0bcb5; 0x391c0cb3; 0x4ed8aa4a; 0x5b9cca4f; 0x682e6ff3;
  0x748f82ee; 0x78a5636f; 0x84c87814; 0x8cc70208; 0x90befffa; 0xa4506ceb; 0xbef9a3f7; 0xc67178f2].

Definition H0 : list N :=
 [0x6a09e667; 0xbb67ae85; 0x3c6ef372; 0xa54ff53a; 0x510e527f; 0x9b05688c; 0x1f83d9ab; 0x5be0cd19].

(* big-endian bytes <-> words *)
Fixpoint words_of_bytes (bs : list N) : list N :=
  match bs with
  | a :: b :: c :: d :: r =>
      (a * 16777216 + b * 65536 + c * 256 + d) :: words_of_bytes r
  | _ => []
  end.
Definition bytes_of_word (w : N) : list N :=
  [N.shiftr w 24 mod 256; N.shiftr w 16 mod 256; N.shiftr w 8 mod 256; w mod 256].
Definition be64_bytes (n : N) : list N :=
  [N.shiftr n 56 mod 256; N.shiftr n 48 mod 256; N.shiftr n 40 mod 256; N.shiftr n 32 mod 256;
   N.shiftr n 24 mod 256; N.shiftr n 16 mod 256; N.shiftr n 8 mod 256; n mod 256].

Definition pad (msg : list N) : list N :=
  let l := N.of_nat (length msg) in
  let k := (119 - (l mod 64)) mod 64 in     (* zero bytes so that total = 0 mod 64 *)
  msg ++ [128] ++ repeat 0 (N.to_nat k) ++ be64_bytes (l * 8).

(* message schedule: ws holds the most recent 16 words, newest first *)
Definition next_w (ws : list N) : N :=
  match ws with
  | w1 :: w2 :: _ :: _ :: _ :: _ :: w7 :: _ :: _ :: _ :: _ :: _ :: _ :: _ :: w15 :: w16 :: _ =>
      add32 (add32 (ssig1 w2) w7) (add32 (ssig0 w15) w16)
  | _ => 0
  end.

Definition round (st : list N) (k w : N) : list N :=
  match st with
  | [a; b; c; d; e; f; g; h] =>
      let t1 := add32 (add32 (add32 h (bsig1 e)) (add32 (ch e f g) k)) w in
      let t2 := add32 (bsig0 a) (maj a b c) in
      [add32 t1 t2; a; b; c; add32 d t1; e; f; g]
  | _ => st
  end.

(* rounds 0..15 consume block words; rounds 16..63 extend the schedule *)
Fixpoint rounds_lo (st : list N) (ks ws : list N) (recent : list N) : list N * list N :=
  match ks, ws with
  | k :: ks', w :: ws' => rounds_lo (round st k w) ks' ws' (w :: recent)
  | _, _ => (st, recent)
  end.
Fixpoint rounds_hi (st : list N) (ks : list N) (recent : list N) : list N :=
  match ks with
  | k :: ks' => let w := next_w recent in rounds_hi (round st k w) ks' (w :: firstn 15 recent)
  | [] => st
  end.

Definition compress (h : list N) (block : list N) : list N :=
  let '(st, recent) := rounds_lo h (firstn 16 K) block [] in
  let st' := rounds_hi st (skipn 16 K) recent in
  map (fun p => add32 (fst p) (snd p)) (combine h st').

Fixpoint blocks (fuel : nat) (ws : list N) (h : list N) : list N :=
  match fuel with
  | O => h
  | S f => match ws with
           | [] => h
           | _ => blocks f (skipn 16 ws) (compress h (firstn 16 ws))
           end
  end.

Definition sha256 (msg : list N) : list N :=
  let ws := words_of_bytes (pad msg) in
  flat_map bytes_of_word (blocks (S (Nat.div (length ws) 16)) ws H0).

(* NIST test vectors *)
Definition hex_digest (d : list N) : N := fold_left (fun acc b => acc * 256 + b) d 0.

Example sha256_empty :
  hex_digest (sha256 []) = 0xe3b0c44298fc1c149afbf4c8996fb92427ae41e4649b934ca495991b7852b855.
Proof. vm_compute. reflexivity. Qed.

Example sha256_abc :
  hex_digest (sha256 [97; 98; 99]) = 0xba7816bf8f01cfea414140de5dae2223b00361a396177a9cb410ff61f20015ad.
Proof. vm_compute. reflexivity. Qed.

(* 56-byte message: exercises the two-block padding path *)
Example sha256_two_blocks :
  hex_digest (sha256 (map (fun c => c) [97;98;99;100;98;99;100;101;99;100;101;102;100;101;102;103;101;102;103;104;102;103;104;105;103;104;105;106;104;105;106;107;105;106;107;108;106;107;108;109;107;108;109;110;108;109;110;111;109;110;111;112;110;111;112;113]))
  = 0x248d6a61d20638b8e5c026930c3e6039a33ce45964ff2167f6ecedd419db06c1.
Proof. vm_compute. reflexivity. Qed.

