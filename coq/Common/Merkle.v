(* Merkle roots used by fuel-core, over the executable SHA-256:
   - binary (RFC 6962 style, fuel-merkle::binary): leaf = H(0x00 || data),
     node = H(0x01 || l || r), empty = H("")
   - sparse (fuel-merkle::sparse): key path = 256 bits MSB first, leaf = H(0x00 || key || H(value)),
     node = H(0x01 || l || r), empty subtree = 32 zero bytes, a subtree holding a single leaf
     is that leaf. *)
From Coq Require Import List NArith Lia.
From FC Require Import Common.Sha256.
Import ListNotations.
Open Scope N_scope.

Definition bytes := list N.

Section Generic.
  (* the hash is a section variable so that proofs about tree shape do not depend on SHA-256 *)
  Variable H : bytes -> bytes.

  Definition leaf_sum (d : bytes) : bytes := H (0 :: d).
  Definition node_sum (l r : bytes) : bytes := H (1 :: l ++ r).
  Definition empty_sum : bytes := H [].

  (* largest power of two strictly below n (n >= 2) *)
  Fixpoint split_pt (fuel k n : nat) : nat :=
    match fuel with
    | O => k
    | S f => if Nat.ltb (2 * k) n then split_pt f (2 * k) n else k
    end.

  Fixpoint mth (fuel : nat) (leaves : list bytes) : bytes :=
    match fuel with
    | O => []
    | S f =>
        match leaves with
        | [] => empty_sum
        | [d] => leaf_sum d
        | _ => let n := length leaves in
               let k := split_pt n 1 n in
               node_sum (mth f (firstn k leaves)) (mth f (skipn k leaves))
        end
    end.

  Definition binary_root (leaves : list bytes) : bytes := mth (S (length leaves)) leaves.

  (* ---- sparse ---- *)
  Definition zero32 : bytes := repeat 0 32.

  (* bit [i] (0 = most significant bit of byte 0) of a 32-byte key *)
  Definition key_bit (k : bytes) (i : N) : bool :=
    N.testbit (nth (N.to_nat (i / 8)) k 0) (7 - i mod 8).

  Definition sparse_leaf (path value : bytes) : bytes := H (0 :: path ++ H value).

  (* es : (path, leaf hash) pairs with pairwise distinct paths *)
  Fixpoint sroot (fuel : nat) (depth : N) (es : list (bytes * bytes)) : bytes :=
    match es with
    | [] => zero32
    | [(_, lh)] => lh
    | _ =>
        match fuel with
        | O => zero32
        | S f =>
            node_sum
              (sroot f (depth + 1) (filter (fun e => negb (key_bit (fst e) depth)) es))
              (sroot f (depth + 1) (filter (fun e => key_bit (fst e) depth) es))
        end
    end.

  (* entries : (storage key bytes, value bytes); MerkleTreeKey::new hashes the storage key *)
  Definition sparse_root (entries : list (bytes * bytes)) : bytes :=
    sroot 257 0 (map (fun kv => let p := H (fst kv) in (p, sparse_leaf p (snd kv))) entries).
End Generic.

Definition binary_root256 := binary_root sha256.
Definition sparse_root256 := sparse_root sha256.
