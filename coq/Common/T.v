(* The universal exchange format between the Rust harnesses, the OCaml driver
   and the models: a tree of integers.  Text syntax: (1 2 (3 -4) ()) .
   Every cluster exposes   main_T : T -> T   that decodes a request
   L [I tag; input; observed], runs the model on [input] and evaluates the
   decidable property checker on [observed] (the implementation's trace). *)
From Coq Require Export List ZArith NArith Bool Lia.
Export ListNotations.
Open Scope Z_scope.

Inductive T : Type := I (z : Z) | L (l : list T).

Definition tN (n : N) : T := I (Z.of_N n).
Definition tB (b : bool) : T := I (if b then 1 else 0).
Definition tOptN (o : option N) : T :=
  match o with None => L [] | Some n => L [tN n] end.
Definition tListN (l : list N) : T := L (map tN l).

Definition getZ (t : T) : option Z := match t with I z => Some z | L _ => None end.
Definition getN (t : T) : option N :=
  match t with I z => if Z.leb 0 z then Some (Z.to_N z) else None | L _ => None end.
Definition getL (t : T) : option (list T) :=
  match t with L l => Some l | I _ => None end.
Definition getB (t : T) : option bool :=
  match t with I 0 => Some false | I 1 => Some true | _ => None end.

Fixpoint mapM {A B} (f : A -> option B) (l : list A) : option (list B) :=
  match l with
  | [] => Some []
  | x :: xs => match f x, mapM f xs with
               | Some y, Some ys => Some (y :: ys)
               | _, _ => None
               end
  end.

Definition getListN (t : T) : option (list N) :=
  match getL t with Some l => mapM getN l | None => None end.
Definition getOptN (t : T) : option (option N) :=
  match t with
  | L [] => Some None
  | L [x] => match getN x with Some n => Some (Some n) | None => None end
  | _ => None
  end.

(* Error marker returned for undecodable requests: never equal to a real observation. *)
Definition tErr (code : Z) : T := L [I (-999); I code].

(* Structural equality, used by model-side comparisons. *)
Fixpoint T_eqb (a b : T) {struct a} : bool :=
  match a, b with
  | I x, I y => Z.eqb x y
  | L xs, L ys =>
      (fix go (xs ys : list T) : bool :=
         match xs, ys with
         | [], [] => true
         | x :: xs', y :: ys' => T_eqb x y && go xs' ys'
         | _, _ => false
         end) xs ys
  | _, _ => false
  end.

(* Machine-integer helpers shared by the models. *)
Open Scope N_scope.
Definition u8max  : N := 255.
Definition u16max : N := 65535.
Definition u32max : N := 4294967295.
Definition u64max : N := 18446744073709551615.
Definition u128max : N := 340282366920938463463374607431768211455.
Definition sat_add (mx a b : N) : N := N.min mx (a + b).
Definition sat_sub (a b : N) : N := a - b.           (* N subtraction truncates at 0 *)
Definition sat_mul (mx a b : N) : N := N.min mx (a * b).
Definition checked_add (mx a b : N) : option N :=
  if (a + b <=? mx) then Some (a + b) else None.
Definition checked_sub (a b : N) : option N :=
  if (b <=? a) then Some (a - b) else None.
Definition checked_mul (mx a b : N) : option N :=
  if (a * b <=? mx) then Some (a * b) else None.
Close Scope N_scope.
