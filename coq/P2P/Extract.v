From FC Require Import P2P.Model.
Require Extraction.
Require Import ExtrOcamlBasic.
Extraction "p2p_model.ml" main_T.
