(* Executable model for C32 (fuel-core-p2p):
     crates/services/p2p/src/cached_view.rs              CachedView::get_from_cache_or_db
     crates/services/p2p/src/service.rs                  handle_db_request / handle_full_transactions_request
                                                         (the range / count checks)
     crates/services/p2p/src/codecs/request_response.rs  read/write_request, read/write_response (size cap)
     crates/services/p2p/src/codecs/postcard.rs          postcard bytes of RequestMessage
     crates/services/p2p/src/request_response/messages.rs  V1 <-> V2 response conversion
   The cache (quick_cache) evicts arbitrarily: the model never predicts the cache content, it
   takes it from the observation (any subset of what it predicts may survive).  Items are
   value codes (numbers); the payload codec of responses is not modelled at byte level. *)
From FC Require Export Common.T.
Open Scope N_scope.

(* ------------------------------------------------------------------ *)
(* CachedView                                                           *)

Definition cache := list (N * N).            (* height, value code *)

Fixpoint cache_get (c : cache) (h : N) : option N :=
  match c with
  | [] => None
  | (h', v) :: r => if h' =? h then Some v else cache_get r h
  end.

Definition cache_insert (c : cache) (h v : N) : cache := (h, v) :: c.

(* the `for height in range` loop: the cached prefix and the first missing height *)
Fixpoint scan (c : cache) (h : N) (n : nat) (items : list N) : list N * option N :=
  match n with
  | O => (items, None)
  | S n' => match cache_get c h with
            | Some v => scan c (h + 1) n' (items ++ [v])
            | None => (items, Some h)
            end
  end.

(* `missing_range.zip(fetched_items)`: insert and push, as far as both go *)
Fixpoint zip_insert (c : cache) (h : N) (n : nat) (fetched : list N) : cache * list N :=
  match n, fetched with
  | S n', v :: r => let '(c', l) := zip_insert (cache_insert c h v) (h + 1) n' r in (c', v :: l)
  | _, _ => (c, [])
  end.

(* Range<u32> a..b; [fetch] is the database call; returns the answer, the cache after the call
   (before any eviction) and the database calls made *)
Definition get_from_cache_or_db (c : cache) (fetch : N -> N -> option (list N)) (a b : N)
  : option (list N) * cache * list (N * N) :=
  let '(items, missing) := scan c a (N.to_nat (b - a)) [] in
  match missing with
  | None => (Some items, c, [])
  | Some m =>
      match fetch m b with
      | Some fetched =>
          let '(c', pushed) := zip_insert c m (N.to_nat (b - m)) fetched in
          (Some (items ++ pushed), c', [(m, b)])
      | None => (None, c, [(m, b)])
      end
  end.

(* handle_db_request: `range.len() > max_len` -> RequestedRangeTooLarge *)
Definition range_len (a b : N) : N := b - a.
Definition range_too_large (a b max_len : N) : bool := max_len <? range_len a b.
(* handle_full_transactions_request: `tx_ids.len() > max_txs_per_request` *)
Definition too_many_txs (n max_txs : N) : bool := max_txs <? n.

(* the scripted database of the harness: heights below chain_len, value code h+1;
   all-or-nothing (mode 0) or the available prefix (mode 1) *)
Fixpoint nseqN (n : nat) (a : N) : list N :=
  match n with O => [] | S n' => a :: nseqN n' (a + 1) end.
Definition heights (a b : N) : list N := nseqN (N.to_nat (b - a)) a.

Definition script_fetch (chain_len mode a b : N) : option (list N) :=
  let have := filter (fun h => h <? chain_len) (heights a b) in
  (* heights are increasing, so the kept ones are a prefix *)
  if (N.of_nat (length have) =? range_len a b) || (mode =? 1)
  then Some (map (fun h => h + 1) have) else None.

(* what the database holds for the whole range (all-or-nothing) *)
Definition db_range (chain_len a b : N) : option (list N) :=
  if forallb (fun h => h <? chain_len) (heights a b)
  then Some (map (fun h => h + 1) (heights a b)) else None.

Definition cache_consistent (chain_len : N) (c : cache) : bool :=
  forallb (fun e => (fst e <? chain_len) && (snd e =? fst e + 1)) c.

(* every entry of [c'] is an entry of [c]: what survives an arbitrary eviction *)
Definition cache_subb (c' c : cache) : bool :=
  forallb (fun e => match cache_get c (fst e) with Some v => v =? snd e | None => false end) c'.

(* ------------------------------------------------------------------ *)
(* request codec (postcard)                                             *)

(* LEB128 varint, at most [fuel] bytes *)
Fixpoint varint_enc (fuel : nat) (n : N) : list N :=
  match fuel with
  | O => []
  | S f => if n <? 128 then [n] else (n mod 128 + 128) :: varint_enc f (n / 128)
  end.

Fixpoint varint_dec (fuel : nat) (bs : list N) : option (N * list N) :=
  match fuel, bs with
  | S f, b :: r =>
      if b <? 128 then Some (b, r)
      else match varint_dec f r with
           | Some (v, r') => Some (b - 128 + 128 * v, r')
           | None => None
           end
  | _, _ => None
  end.

Definition enc_u32 := varint_enc 5.
Definition dec_u32 := varint_dec 5.
Definition enc_usize := varint_enc 10.
Definition dec_usize := varint_dec 10.

Inductive request :=
| RSealedHeaders (a b : N)
| RTransactions (a b : N)
| RTxPoolAllTransactionsIds
| RTxPoolFullTransactions (ids : list (list N)).      (* TxId = 32 bytes *)

Definition encode_request (m : request) : list N :=
  match m with
  | RSealedHeaders a b => 0 :: enc_u32 a ++ enc_u32 b
  | RTransactions a b => 1 :: enc_u32 a ++ enc_u32 b
  | RTxPoolAllTransactionsIds => [2]
  | RTxPoolFullTransactions ids => 3 :: enc_usize (N.of_nat (length ids)) ++ concat ids
  end.

Fixpoint take_ids (n : nat) (bs : list N) : option (list (list N)) :=
  match n with
  | O => Some []
  | S n' => if (length bs <? 32)%nat then None
            else match take_ids n' (skipn 32 bs) with
                 | Some r => Some (firstn 32 bs :: r)
                 | None => None
                 end
  end.

(* trailing bytes are ignored, as postcard::from_bytes does *)
Definition decode_request (bs : list N) : option request :=
  match bs with
  | 0 :: r => match dec_u32 r with
              | Some (a, r1) => match dec_u32 r1 with
                                | Some (b, _) => Some (RSealedHeaders a b) | None => None end
              | None => None end
  | 1 :: r => match dec_u32 r with
              | Some (a, r1) => match dec_u32 r1 with
                                | Some (b, _) => Some (RTransactions a b) | None => None end
              | None => None end
  | 2 :: _ => Some RTxPoolAllTransactionsIds
  | 3 :: r => match dec_usize r with
              | Some (n, r1) =>
                  if N.of_nat (length r1) <? n * 32 then None
                  else option_map RTxPoolFullTransactions (take_ids (N.to_nat n) r1)
              | None => None end
  | _ => None
  end.

(* read_request: at most max_size bytes are read, then decoded *)
Definition read_request (max_size : N) (bs : list N) : option request :=
  decode_request (firstn (N.to_nat (N.min max_size (N.of_nat (length bs)))) bs).

Fixpoint listN_eqb (x y : list N) : bool :=
  match x, y with
  | [], [] => true
  | a :: x', b :: y' => (a =? b) && listN_eqb x' y'
  | _, _ => false
  end.
Fixpoint ids_eqb (x y : list (list N)) : bool :=
  match x, y with
  | [], [] => true
  | a :: x', b :: y' => listN_eqb a b && ids_eqb x' y'
  | _, _ => false
  end.
Definition request_eqb (x y : request) : bool :=
  match x, y with
  | RSealedHeaders a b, RSealedHeaders a' b' => (a =? a') && (b =? b')
  | RTransactions a b, RTransactions a' b' => (a =? a') && (b =? b')
  | RTxPoolAllTransactionsIds, RTxPoolAllTransactionsIds => true
  | RTxPoolFullTransactions i, RTxPoolFullTransactions i' => ids_eqb i i'
  | _, _ => false
  end.
Definition opt_request_is (o : option request) (m : request) : bool :=
  match o with Some x => request_eqb x m | None => false end.

(* ------------------------------------------------------------------ *)
(* responses: V1 <-> V2                                                 *)

(* error codes 0..3; 4 = Unknown (cannot be serialized) *)
Section Responses.
  Variable P : Type.                       (* the payload (headers, transactions, ids ...) *)

  Inductive res := ROk (p : P) | RErr (code : N).
  Definition v2 := (N * res)%type.         (* variant 0..3, Result<payload, code> *)
  Definition v1 := (N * option P)%type.    (* variant 0..3, Option<payload> *)

  Definition v1_of_v2 (m : v2) : v1 :=
    (fst m, match snd m with ROk p => Some p | RErr _ => None end).
  Definition v2_of_v1 (m : v1) : v2 :=
    (fst m, match snd m with Some p => ROk p | None => RErr 0 end).  (* ProtocolV1EmptyResponse *)

  (* what the reader gets for a V2 message written under protocol 1 / 2, size cap aside;
     None = the message cannot be written (Unknown error code under V2) *)
  Definition transported (protocol : N) (m : v2) : option v2 :=
    if protocol =? 1 then Some (v2_of_v1 (v1_of_v2 m))
    else match snd m with
         | RErr c => if 4 <=? c then None else Some m
         | ROk _ => Some m
         end.
End Responses.
Arguments ROk {P}. Arguments RErr {P}.
Arguments v1_of_v2 {P}. Arguments v2_of_v1 {P}. Arguments transported {P}.

(* ------------------------------------------------------------------ *)
(* T codecs and the entry point                                         *)

Definition T_pair (t : T) : option (N * N) :=
  match t with
  | L [a; b] => match getN a, getN b with Some a, Some b => Some (a, b) | _, _ => None end
  | _ => None
  end.
Definition T_cache (t : T) : option cache :=
  match t with L l => mapM T_pair l | _ => None end.
Definition pairs_T (l : list (N * N)) : T := L (map (fun p => L [tN (fst p); tN (snd p)]) l).

Inductive cop := CRequest (table a b : N) | CPoison (table h tag : N) | CLoad (table h : N).
Definition T_cop (t : T) : option cop :=
  match t with
  | L [I 0%Z; tb; a; b] => match getN tb, getN a, getN b with
                           | Some tb, Some a, Some b => Some (CRequest tb a b) | _, _, _ => None end
  | L [I 1%Z; tb; h; tag] => match getN tb, getN h, getN tag with
                             | Some tb, Some h, Some tag => Some (CPoison tb h tag) | _, _, _ => None end
  | L [I 2%Z; tb; h] => match getN tb, getN h with
                        | Some tb, Some h => Some (CLoad tb h) | _, _ => None end
  | _ => None
  end.
Definition cop_table (o : cop) : N :=
  match o with CRequest t _ _ | CPoison t _ _ | CLoad t _ => t end.

Definition result_T (r : option (list N)) : T :=
  match r with None => L [I 0] | Some l => L [I 1; tListN l] end.

(* one observed op: (before after result db_calls) *)
Record cobs := { co_before : cache; co_after : cache; co_result : T; co_calls : T }.
Definition T_cobs (t : T) : option cobs :=
  match t with
  | L [b; a; r; c] => match T_cache b, T_cache a with
                      | Some b, Some a => Some {| co_before := b; co_after := a; co_result := r; co_calls := c |}
                      | _, _ => None end
  | _ => None
  end.

(* model output and check of one op, with the observed cache content as the eviction oracle.
   [last] = what the previous op of the same table left (as predicted, before eviction) *)
Definition cache_step (chain_len mode : N) (o : cop) (ob : cobs) : T * cache * bool :=
  let before := co_before ob in
  match o with
  | CRequest _ a b =>
      let '(r, c', calls) := get_from_cache_or_db before (script_fetch chain_len mode) a b in
      let served_ok :=
        (* the property: with a consistent cache and an all-or-nothing database, the answer is
           the database's answer for the whole range, and the cache stays consistent *)
        negb (cache_consistent chain_len before && (mode =? 0)) ||
        (T_eqb (co_result ob) (result_T (db_range chain_len a b)) &&
         cache_consistent chain_len (co_after ob)) in
      (L [pairs_T before; pairs_T (co_after ob); result_T r; pairs_T calls], c',
       served_ok && cache_subb (co_after ob) c')
  | CPoison _ h tag =>
      let c' := cache_insert before h (100 + tag) in
      (L [pairs_T before; pairs_T (co_after ob); L [I (-1)]; L []], c', cache_subb (co_after ob) c')
  | CLoad _ h =>
      let c' := cache_insert before h (h + 1) in
      (L [pairs_T before; pairs_T (co_after ob); L [I (-1)]; L []], c', cache_subb (co_after ob) c')
  end.

(* [lasts] = predicted content of the two tables after their last op *)
Fixpoint cache_run (chain_len mode : N) (ops : list cop) (obs : list cobs) (l0 l1 : cache)
  : list T * bool :=
  match ops, obs with
  | o :: r, ob :: obs' =>
      let prev := if cop_table o =? 0 then l0 else l1 in
      let '(t, c', ok) := cache_step chain_len mode o ob in
      let ok := ok && cache_subb (co_before ob) prev in     (* nothing appears from nowhere *)
      let '(ts, oks) := if cop_table o =? 0 then cache_run chain_len mode r obs' c' l1
                        else cache_run chain_len mode r obs' l0 c' in
      (t :: ts, ok && oks)
  | [], [] => ([], true)
  | _, _ => ([], false)
  end.

Definition main_cache (f : list T) (observed : T) : T :=
  match f with
  | [_; chain_len; mode; L ops] =>
      match getN chain_len, getN mode, mapM T_cop ops, observed with
      | Some chain_len, Some mode, Some ops, L obs =>
          match mapM T_cobs obs with
          | Some obs => let '(ts, ok) := cache_run chain_len mode ops obs [] [] in L [L ts; tB ok]
          | None => L [L []; tB false]
          end
      | Some _, Some _, Some _, _ => L [L []; tB false]
      | _, _, _, _ => tErr 3
      end
  | _ => tErr 3
  end.

Definition T_request (t : T) : option request :=
  match t with
  | L [I 0%Z; a; b] => match getN a, getN b with Some a, Some b => Some (RSealedHeaders a b) | _, _ => None end
  | L [I 1%Z; a; b] => match getN a, getN b with Some a, Some b => Some (RTransactions a b) | _, _ => None end
  | L [I 2%Z] => Some RTxPoolAllTransactionsIds
  | L [I 3%Z; L ids] => option_map RTxPoolFullTransactions (mapM getListN ids)
  | _ => None
  end.

Definition prefixes_rejected (bs : list N) : bool :=
  forallb (fun k => match decode_request (firstn k bs) with None => true | Some _ => false end)
          (seq 0 (length bs)).

Definition main_request (f : list T) (observed : T) : T :=
  match f with
  | [msg; max] =>
      match T_request msg, getN max with
      | Some m, Some max =>
          let bs := encode_request m in
          let model := L [tListN bs; tB (opt_request_is (decode_request bs) m);
                          tB (prefixes_rejected bs); tB (opt_request_is (read_request max bs) m)] in
          (* property on the implementation's own bytes: they decode to the message, and the
             handler accepts exactly when the bytes fit the size cap *)
          let pc := match observed with
                    | L [obs_bytes; I rt; I pr; I via] =>
                        match getListN obs_bytes with
                        | Some ob =>
                            opt_request_is (decode_request ob) m && Z.eqb rt 1 && Z.eqb pr 1 &&
                            Z.eqb via (if N.of_nat (length ob) <=? max then 1 else 0)
                        | None => false
                        end
                    | _ => false
                    end in
          L [model; tB pc]
      | _, _ => tErr 4
      end
  | _ => tErr 4
  end.

Definition v2_T (o : option (v2 N)) : T :=
  match o with
  | None => L [I 0]
  | Some (v, ROk n) => L [I 1; tN v; I 1; tN n]
  | Some (v, RErr c) => L [I 1; tN v; I 0; tN c]
  end.

Definition main_response (f : list T) (observed : T) : T :=
  match f with
  | [variant; ok; n; code; proto; max] =>
      match getN variant, getN ok, getN n, getN code, getN proto, getN max with
      | Some variant, Some ok, Some n, Some code, Some proto, Some max =>
          let m : v2 N := (variant, if ok =? 1 then ROk n else RErr code) in
          (* the encoded length comes from the observation (the payload codec is an oracle) *)
          let len := match observed with L [I l; _] => l | _ => (-2)%Z end in
          let expect :=
            match transported proto m with
            | None => L [I (-1); L [I 0]]
            | Some m' => L [I len; if (len <=? Z.of_N max)%Z then v2_T (Some m') else L [I 0]]
            end in
          let pc := match observed with
                    | L [I l; r] => T_eqb (L [I l; r]) expect &&
                                    match transported proto m with None => Z.eqb l (-1) | Some _ => (0 <=? l)%Z end
                    | _ => false
                    end in
          L [expect; tB pc]
      | _, _, _, _, _, _ => tErr 5
      end
  | _ => tErr 5
  end.

Definition main32 (input observed : T) : T :=
  match input with
  | L (I 0%Z :: f) => main_cache f observed
  | L (I 1%Z :: f) => main_request f observed
  | L (I 2%Z :: f) => main_response f observed
  | _ => tErr 1
  end.
