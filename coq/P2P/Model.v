(* Executable model of fuel-core-p2p (C31):
     crates/services/p2p/src/peer_manager.rs
       PeerManager::{handle_initial_connection, handle_peer_identified, handle_peer_disconnect,
                     update_app_score, batch_update_score_with_decay, handle_gossip_score_update}
       ConnectionState (peers_allowed flag behind the SeqLock)
     crates/services/p2p/src/config/connection_tracker.rs   ConnectionTracker::allow_peer
   Peers are small numbers; the two HashMaps are association lists (printed sorted).
   Scores (f64) are exact dyadic numbers m * 2^e; every f64 operation is the exact result
   rounded to 53 bits, ties to even (round53).  This is IEEE binary64 for finite values in the
   normal range; NaN, infinities, overflow and subnormals are outside the model (the generator
   never produces them).  usize arithmetic is explicit (saturating_add). *)
From FC Require Export Common.T.
From FC Require Export P2P.Model32.   (* C32: cached view, request codec, responses *)
Open Scope Z_scope.

(* ------------------------------------------------------------------ *)
(* dyadic numbers                                                       *)

Definition dy := (Z * Z)%type.          (* (m, e) is m * 2^e *)

Definition round53 (m e : Z) : dy :=
  let a := Z.abs m in
  let d := Z.log2 a + 1 in              (* bit length of a, for a > 0 *)
  if d <=? 53 then (m, e)
  else
    let k := d - 53 in
    let q := a / 2 ^ k in
    let r := a mod 2 ^ k in
    let half := 2 ^ (k - 1) in
    let q' := if r <? half then q
              else if half <? r then q + 1
              else if Z.even q then q else q + 1 in
    (Z.sgn m * q', e + k).

Definition dy_add (a b : dy) : dy :=
  let '(m1, e1) := a in let '(m2, e2) := b in
  let e := Z.min e1 e2 in
  round53 (m1 * 2 ^ (e1 - e) + m2 * 2 ^ (e2 - e)) e.

Definition dy_mul (a b : dy) : dy :=
  let '(m1, e1) := a in let '(m2, e2) := b in
  round53 (m1 * m2) (e1 + e2).

Definition dy_leb (a b : dy) : bool :=
  let '(m1, e1) := a in let '(m2, e2) := b in
  let e := Z.min e1 e2 in
  m1 * 2 ^ (e1 - e) <=? m2 * 2 ^ (e2 - e).

Definition dy_ltb (a b : dy) : bool :=
  let '(m1, e1) := a in let '(m2, e2) := b in
  let e := Z.min e1 e2 in
  m1 * 2 ^ (e1 - e) <? m2 * 2 ^ (e2 - e).

(* f64::min(self, other) on finite values *)
Definition dy_min (self other : dy) : dy := if dy_ltb other self then other else self.

(* canonical form for printing: odd mantissa, or (0, 0) *)
Fixpoint strip (p : positive) : positive * Z :=
  match p with
  | xO p' => let '(q, k) := strip p' in (q, k + 1)
  | _ => (p, 0)
  end.
Definition dy_norm (d : dy) : dy :=
  match fst d with
  | Z0 => (0, 0)
  | Zpos p => let '(q, k) := strip p in (Zpos q, snd d + k)
  | Zneg p => let '(q, k) := strip p in (Zneg q, snd d + k)
  end.

(* fuel_core_types::services::p2p::peer_reputation and gossipsub::config *)
Definition MAX_APP_SCORE : dy := (150, 0).
Definition MIN_APP_SCORE : dy := (-50, 0).
Definition DEFAULT_APP_SCORE : dy := (0, 0).
Definition DECAY_APP_SCORE : dy := (8106479329266893, -53).   (* the f64 nearest to 0.9 *)
Definition MIN_GOSSIPSUB_SCORE_BEFORE_BAN : dy := (-16000, 0). (* GRAYLIST_THRESHOLD *)

(* ------------------------------------------------------------------ *)
(* PeerManager                                                          *)

Record peer := { p_id : N; p_score : dy; p_ident : bool }.

Record pm := {
  reserved_peers : list N;
  max_non_reserved_peers : N;
  non_reserved_connected_peers : list peer;
  reserved_connected_peers : list peer;
  peers_allowed : bool                 (* ConnectionState behind the SeqLock *)
}.

Definition usizemax : N := u64max.

Definition mem (p : N) (l : list N) : bool := existsb (N.eqb p) l.
Definition contains_key (l : list peer) (p : N) : bool := existsb (fun x => N.eqb (p_id x) p) l.
Definition remove_key (l : list peer) (p : N) : list peer :=
  filter (fun x => negb (N.eqb (p_id x) p)) l.
Definition len (l : list peer) : N := N.of_nat (length l).

Definition peer_info_new (p : N) : peer :=
  {| p_id := p; p_score := DEFAULT_APP_SCORE; p_ident := false |}.

Definition pm_new (reserved : list N) (max : N) : pm :=
  {| reserved_peers := reserved; max_non_reserved_peers := max;
     non_reserved_connected_peers := []; reserved_connected_peers := [];
     peers_allowed := true |}.

Definition set_allowed (s : pm) (b : bool) : pm :=
  {| reserved_peers := reserved_peers s; max_non_reserved_peers := max_non_reserved_peers s;
     non_reserved_connected_peers := non_reserved_connected_peers s;
     reserved_connected_peers := reserved_connected_peers s; peers_allowed := b |}.
Definition set_non_reserved (s : pm) (l : list peer) : pm :=
  {| reserved_peers := reserved_peers s; max_non_reserved_peers := max_non_reserved_peers s;
     non_reserved_connected_peers := l;
     reserved_connected_peers := reserved_connected_peers s; peers_allowed := peers_allowed s |}.
Definition set_reserved (s : pm) (l : list peer) : pm :=
  {| reserved_peers := reserved_peers s; max_non_reserved_peers := max_non_reserved_peers s;
     non_reserved_connected_peers := non_reserved_connected_peers s;
     reserved_connected_peers := l; peers_allowed := peers_allowed s |}.

Definition is_reserved (s : pm) (p : N) : bool := mem p (reserved_peers s).

(* returns true = "the peer should be disconnected" *)
Definition handle_initial_connection (s : pm) (p : N) : pm * bool :=
  let is_res := is_reserved s p in
  if negb is_res && negb (contains_key (non_reserved_connected_peers s) p) then
    let non_reserved_peers_connected := len (non_reserved_connected_peers s) in
    if (max_non_reserved_peers s <=? non_reserved_peers_connected)%N then (s, true)
    else
      let s1 := if (sat_add usizemax non_reserved_peers_connected 1 =? max_non_reserved_peers s)%N
                then set_allowed s false else s in
      (set_non_reserved s1 (peer_info_new p :: non_reserved_connected_peers s1), false)
  else if is_res && negb (contains_key (reserved_connected_peers s) p) then
    (set_reserved s (peer_info_new p :: reserved_connected_peers s), false)
  else (s, false).

(* returns true = "try reconnecting" *)
Definition handle_peer_disconnect (s : pm) (p : N) : pm * bool :=
  if negb (is_reserved s p) then
    let all_slots_taken :=
      (max_non_reserved_peers s =? len (non_reserved_connected_peers s))%N in
    let removed := contains_key (non_reserved_connected_peers s) p in
    let s1 := set_non_reserved s (remove_key (non_reserved_connected_peers s) p) in
    (if removed && all_slots_taken then set_allowed s1 true else s1, false)
  else if contains_key (reserved_connected_peers s) p then
    (set_reserved s (remove_key (reserved_connected_peers s) p), true)
  else (s, false).

Definition set_ident (l : list peer) (p : N) : list peer :=
  map (fun x => if N.eqb (p_id x) p
                then {| p_id := p_id x; p_score := p_score x; p_ident := true |} else x) l.

Definition handle_peer_identified (s : pm) (p : N) : pm :=
  if is_reserved s p then set_reserved s (set_ident (reserved_connected_peers s) p)
  else set_non_reserved s (set_ident (non_reserved_connected_peers s) p).

Definition batch_update_score_with_decay (s : pm) : pm :=
  set_non_reserved s
    (map (fun x => {| p_id := p_id x; p_score := dy_mul (p_score x) DECAY_APP_SCORE;
                      p_ident := p_ident x |}) (non_reserved_connected_peers s)).

Fixpoint find_peer (l : list peer) (p : N) : option peer :=
  match l with
  | [] => None
  | x :: r => if N.eqb (p_id x) p then Some x else find_peer r p
  end.

Definition new_score (old score : dy) : dy := dy_min MAX_APP_SCORE (dy_add old score).

(* returns the Punisher::ban_peer calls *)
Definition update_app_score (s : pm) (p : N) (score : dy) : pm * list N :=
  match find_peer (non_reserved_connected_peers s) p with
  | Some x =>
      let ns := new_score (p_score x) score in
      (set_non_reserved s
         (map (fun y => if N.eqb (p_id y) p
                        then {| p_id := p_id y; p_score := ns; p_ident := p_ident y |} else y)
              (non_reserved_connected_peers s)),
       if dy_ltb ns MIN_APP_SCORE then [p] else [])
  | None => (s, [])
  end.

Definition handle_gossip_score_update (s : pm) (p : N) (gossip_score : dy) : list N :=
  if dy_ltb gossip_score MIN_GOSSIPSUB_SCORE_BEFORE_BAN && negb (is_reserved s p) then [p] else [].

(* ConnectionTracker::allow_peer, reading the ConnectionState *)
Definition allow_peer (s : pm) (p : N) : bool := is_reserved s p || peers_allowed s.

(* ------------------------------------------------------------------ *)
(* event sequences                                                      *)

Inductive op :=
| OConnect (p : N) | OIdentify (p : N) | ODisconnect (p : N)
| OScore (p : N) (d : dy) | ODecay | OGossip (p : N) (d : dy).

(* result of one event: state, return value (-1 = none), ban calls *)
Definition step (s : pm) (o : op) : pm * Z * list N :=
  match o with
  | OConnect p => let '(s', b) := handle_initial_connection s p in (s', if b then 1 else 0, [])
  | OIdentify p => (handle_peer_identified s p, -1, [])
  | ODisconnect p => let '(s', b) := handle_peer_disconnect s p in (s', if b then 1 else 0, [])
  | OScore p d => let '(s', bans) := update_app_score s p d in (s', -1, bans)
  | ODecay => (batch_update_score_with_decay s, -1, [])
  | OGossip p d => (s, -1, handle_gossip_score_update s p d)
  end.

(* what the harness observes after an event *)
Record snap := {
  o_ret : Z; o_bans : list N;
  o_allow_other : bool;          (* allow_peer for a non-reserved peer *)
  o_allow_reserved : bool;       (* allow_peer for every reserved peer *)
  o_non_reserved : list peer; o_reserved : list peer
}.

Definition observe (s : pm) (ret : Z) (bans : list N) : snap :=
  {| o_ret := ret; o_bans := bans;
     o_allow_other := peers_allowed s;
     o_allow_reserved := forallb (allow_peer s) (reserved_peers s);
     o_non_reserved := non_reserved_connected_peers s;
     o_reserved := reserved_connected_peers s |}.

Fixpoint run_ops (s : pm) (ops : list op) : list snap :=
  match ops with
  | [] => []
  | o :: r => let '(s', ret, bans) := step s o in observe s' ret bans :: run_ops s' r
  end.

Definition trace (reserved : list N) (max : N) (ops : list op) : list snap :=
  let s0 := pm_new reserved max in
  observe s0 (-1) [] :: run_ops s0 ops.

(* ------------------------------------------------------------------ *)
(* the decidable checker (Pcheck of C31), on observations only          *)

Definition ids (l : list peer) : list N := map p_id l.

(* [cf]: also check the flag <-> free-slot equivalence *)
Definition snap_okb (cf : bool) (reserved : list N) (max : N) (sn : snap) : bool :=
  (len (o_non_reserved sn) <=? max)%N &&
  forallb (fun x => negb (mem (p_id x) reserved)) (o_non_reserved sn) &&
  forallb (fun x => mem (p_id x) reserved) (o_reserved sn) &&
  forallb (fun x => dy_leb (p_score x) MAX_APP_SCORE) (o_non_reserved sn ++ o_reserved sn) &&
  o_allow_reserved sn &&
  forallb (fun b => negb (mem b reserved)) (o_bans sn) &&
  (negb cf || Bool.eqb (o_allow_other sn) (len (o_non_reserved sn) <? max)%N).

(* conditions relating an event to the observations before and after it *)
Definition step_okb (reserved : list N) (max : N) (o : op) (before after : snap) : bool :=
  match o with
  | OConnect p =>
      if mem p reserved
      then (o_ret after =? 0) && mem p (ids (o_reserved after))
      else if mem p (ids (o_non_reserved before)) then (o_ret after =? 0)
      else (* a new non-reserved peer is admitted exactly when a slot is free *)
        Bool.eqb (o_ret after =? 0) (len (o_non_reserved before) <? max)%N &&
        Bool.eqb (mem p (ids (o_non_reserved after))) (o_ret after =? 0)
  | _ => true
  end.

Fixpoint steps_okb (cf : bool) (reserved : list N) (max : N) (before : snap)
         (ops : list op) (obs : list snap) : bool :=
  match ops, obs with
  | [], [] => true
  | o :: r, sn :: obs' =>
      snap_okb cf reserved max sn && step_okb reserved max o before sn &&
      steps_okb cf reserved max sn r obs'
  | _, _ => false
  end.

Definition trace_okb (cf : bool) (reserved : list N) (max : N) (ops : list op) (obs : list snap) : bool :=
  match obs with
  | s0 :: obs' => snap_okb cf reserved max s0 && steps_okb cf reserved max s0 ops obs'
  | [] => false
  end.

(* ------------------------------------------------------------------ *)
(* T codecs and the entry point                                         *)

Fixpoint nseqN (n : nat) (a : N) : list N :=
  match n with O => [] | S n' => a :: nseqN n' (a + 1)%N end.

Fixpoint insert_sorted (x : peer) (l : list peer) : list peer :=
  match l with
  | [] => [x]
  | y :: r => if (p_id x <=? p_id y)%N then x :: l else y :: insert_sorted x r
  end.
Definition sort_peers (l : list peer) : list peer := fold_right insert_sorted [] l.

Definition dy_T (d : dy) : T := let '(m, e) := dy_norm d in L [I m; I e].
Definition peer_T (x : peer) : T := L [tN (p_id x); dy_T (p_score x); tB (p_ident x)].
Definition snap_T (first : bool) (sn : snap) : T :=
  let tail := [tB (o_allow_other sn); tB (o_allow_reserved sn);
               L (map peer_T (sort_peers (o_non_reserved sn)));
               L (map peer_T (sort_peers (o_reserved sn)))] in
  if first then L tail else L (I (o_ret sn) :: tListN (o_bans sn) :: tail).

Definition T_dy (m e : T) : option dy :=
  match getZ m, getZ e with Some m, Some e => Some (m, e) | _, _ => None end.

Definition T_op (t : T) : option op :=
  match t with
  | L [I 0; p] => option_map OConnect (getN p)
  | L [I 1; p] => option_map OIdentify (getN p)
  | L [I 2; p] => option_map ODisconnect (getN p)
  | L [I 3; p; m; e] => match getN p, T_dy m e with
                        | Some p, Some d => Some (OScore p d) | _, _ => None end
  | L [I 4] => Some ODecay
  | L [I 5; p; m; e] => match getN p, T_dy m e with
                        | Some p, Some d => Some (OGossip p d) | _, _ => None end
  | _ => None
  end.

Definition T_peer (t : T) : option peer :=
  match t with
  | L [i; L [m; e]; c] =>
      match getN i, T_dy m e, getB c with
      | Some i, Some d, Some c => Some {| p_id := i; p_score := d; p_ident := c |}
      | _, _, _ => None
      end
  | _ => None
  end.

Definition T_snap_tail (ret : Z) (bans : list N) (l : list T) : option snap :=
  match l with
  | [ao; ar; L nr; L rs] =>
      match getB ao, getB ar, mapM T_peer nr, mapM T_peer rs with
      | Some ao, Some ar, Some nr, Some rs =>
          Some {| o_ret := ret; o_bans := bans; o_allow_other := ao; o_allow_reserved := ar;
                  o_non_reserved := nr; o_reserved := rs |}
      | _, _, _, _ => None
      end
  | _ => None
  end.

Definition T_snap (first : bool) (t : T) : option snap :=
  match t with
  | L l =>
      if first then T_snap_tail (-1) [] l
      else match l with
           | ret :: bans :: tail =>
               match getZ ret, getListN bans with
               | Some ret, Some bans => T_snap_tail ret bans tail
               | _, _ => None
               end
           | _ => None
           end
  | _ => None
  end.

Definition main31 (input observed : T) : T :=
  match input with
  | L [nres; max; L ops] =>
      match getN nres, getN max, mapM T_op ops with
      | Some nres, Some max, Some ops =>
          let reserved := nseqN (N.to_nat nres) 0%N in
          let model := match trace reserved max ops with
                       | s0 :: r => L (snap_T true s0 :: map (snap_T false) r)
                       | [] => L []
                       end in
          let pc := match observed with
                    | L (t0 :: tr) =>
                        match T_snap true t0, mapM (T_snap false) tr with
                        | Some s0, Some r => trace_okb true reserved max ops (s0 :: r)
                        | _, _ => false
                        end
                    | _ => false
                    end in
          L [model; tB pc]
      | _, _, _ => tErr 2
      end
  | _ => tErr 1
  end.

Definition main_T (req : T) : T :=
  match req with
  | L [I 31; input; observed] => main31 input observed
  | L [I 32; input; observed] => main32 input observed
  | _ => tErr 0
  end.
