(* Property theorems of the P2P cluster (C31). Nothing but statements, [exact], and
   Print Assumptions.  [reachable reserved max s]: s is the PeerManager state after
   PeerManager::new(reserved, max) and ANY sequence of connect / identify / disconnect /
   app-score / decay / gossip-score events (Proofs31.v).  Scores are exact dyadic numbers with
   IEEE round-to-nearest-even to 53 bits (finite values in the normal range). *)
From FC Require Import P2P.Model P2P.ProofsDy P2P.Proofs31 P2P.ProofsChk.
Open Scope N_scope.

(* the number of connected non-reserved peers never exceeds the limit *)
Theorem slots_bounded : forall reserved max s,
  max <= usizemax -> reachable reserved max s ->
  len (non_reserved_connected_peers s) <= max.
Proof. exact slots_bounded_all. Qed.
Print Assumptions slots_bounded.

(* a reserved peer is never asked to disconnect, is in the reserved table afterwards, and the
   connection tracker admits it whatever the flag says *)
Theorem reserved_always_admitted : forall reserved max s p,
  reachable reserved max s -> mem p reserved = true ->
  snd (handle_initial_connection s p) = false /\
  contains_key (reserved_connected_peers (fst (handle_initial_connection s p))) p = true /\
  allow_peer s p = true.
Proof. exact reserved_always_admitted_all. Qed.
Print Assumptions reserved_always_admitted.

(* no event (app score, gossip score, or any other) makes the manager ban a reserved peer *)
Theorem reserved_never_banned_by_score : forall reserved max s o,
  max <= usizemax -> reachable reserved max s ->
  Forall (fun b => mem b reserved = false) (bans_of (step s o)).
Proof. exact reserved_never_banned_all. Qed.
Print Assumptions reserved_never_banned_by_score.

(* no peer's score exceeds MAX_APP_SCORE (clamping by f64::min, and the decay cannot lift it) *)
Theorem score_le_max : forall reserved max s,
  max <= usizemax -> reachable reserved max s ->
  Forall (fun x => dy_leb (p_score x) MAX_APP_SCORE = true)
         (non_reserved_connected_peers s ++ reserved_connected_peers s).
Proof. exact score_le_max_all. Qed.
Print Assumptions score_le_max.

(* the flag read by ConnectionTracker::allow_peer: peers_allowed <=> fewer than max non-reserved
   peers connected.  PARTIAL: proved for every limit >= 1; refuted for the limit 0 (below). *)
Theorem flag_iff_free_slot_partial : forall reserved max s,
  1 <= max -> max <= usizemax -> reachable reserved max s ->
  (peers_allowed s = true <-> len (non_reserved_connected_peers s) < max) /\
  (forall p, mem p reserved = false ->
             (allow_peer s p = true <-> len (non_reserved_connected_peers s) < max)).
Proof. exact flag_iff_free_slot_pos. Qed.
Print Assumptions flag_iff_free_slot_partial.

Theorem flag_iff_free_slot_refuted :
  exists reserved s, reachable reserved 0 s /\
    ~ (peers_allowed s = true <-> len (non_reserved_connected_peers s) < 0).
Proof. exact flag_zero_refuted_all. Qed.
Print Assumptions flag_iff_free_slot_refuted.

(* with the limit 0 the flag stays "allowed" for ever (and the manager refuses every peer) *)
Theorem flag_limit_zero_always_allowed : forall reserved s,
  reachable reserved 0 s ->
  peers_allowed s = true /\ ~ len (non_reserved_connected_peers s) < 0.
Proof. exact flag_iff_free_slot_zero. Qed.
Print Assumptions flag_limit_zero_always_allowed.

(* the manager admits a new non-reserved peer exactly when a slot is free (every limit) *)
Theorem new_peer_admitted_iff_free_slot : forall reserved max s p,
  reachable reserved max s -> mem p reserved = false ->
  contains_key (non_reserved_connected_peers s) p = false ->
  (snd (handle_initial_connection s p) = false <-> len (non_reserved_connected_peers s) < max).
Proof. exact new_peer_admitted_iff_free_slot_all. Qed.
Print Assumptions new_peer_admitted_iff_free_slot.

(* the observable trace of every history passes the checker: everything but the flag for every
   limit, the flag too for every limit >= 1 *)
Theorem peer_trace_ok : forall cf reserved max ops,
  max <= usizemax -> (cf = true -> 1 <= max) ->
  trace_okb cf reserved max ops (trace reserved max ops) = true.
Proof. exact model_trace_ok. Qed.
Print Assumptions peer_trace_ok.

Theorem peer_trace_flag_refuted :
  exists reserved ops, trace_okb true reserved 0 ops (trace reserved 0 ops) = false.
Proof. exact model_trace_zero_refuted. Qed.
Print Assumptions peer_trace_flag_refuted.

(* meaning of the checker that is evaluated on the implementation's observations *)
Theorem trace_checker_sound : forall cf reserved max ops obs,
  trace_okb cf reserved max ops obs = true <-> TraceSpec cf reserved max ops obs.
Proof. exact trace_okb_iff. Qed.
Print Assumptions trace_checker_sound.
