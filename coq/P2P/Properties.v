(* TEMPORARY stub while N1 is being confirmed on the implementation. *)
From FC Require Import P2P.Model.
Theorem stub_trace_nonempty : forall r m ops, trace r m ops <> [].
Proof. intros r m ops. unfold trace. discriminate. Qed.
Print Assumptions stub_trace_nonempty.
