(* Property theorems of the P2P cluster (C31). Nothing but statements, [exact], and
   Print Assumptions.  [reachable reserved max s]: s is the PeerManager state after
   PeerManager::new(reserved, max) and ANY sequence of connect / identify / disconnect /
   app-score / decay / gossip-score events (Proofs31.v).  Scores are exact dyadic numbers with
   IEEE round-to-nearest-even to 53 bits (finite values in the normal range). *)
From FC Require Import P2P.Model P2P.ProofsDy P2P.Proofs31 P2P.ProofsChk P2P.Proofs32.
Open Scope N_scope.

(* the number of connected non-reserved peers never exceeds the limit *)
Theorem slots_bounded : forall reserved max s,
  max <= usizemax -> reachable reserved max s ->
  len (non_reserved_connected_peers s) <= max.
Proof. exact slots_bounded_all. Qed.
Print Assumptions slots_bounded.

(* a reserved peer is never asked to disconnect, is in the reserved table afterwards, and the
   connection tracker admits it whatever the flag says *)
Theorem reserved_always_admitted : forall reserved max s p,
  reachable reserved max s -> mem p reserved = true ->
  snd (handle_initial_connection s p) = false /\
  contains_key (reserved_connected_peers (fst (handle_initial_connection s p))) p = true /\
  allow_peer s p = true.
Proof. exact reserved_always_admitted_all. Qed.
Print Assumptions reserved_always_admitted.

(* no event (app score, gossip score, or any other) makes the manager ban a reserved peer *)
Theorem reserved_never_banned_by_score : forall reserved max s o,
  max <= usizemax -> reachable reserved max s ->
  Forall (fun b => mem b reserved = false) (bans_of (step s o)).
Proof. exact reserved_never_banned_all. Qed.
Print Assumptions reserved_never_banned_by_score.

(* no peer's score exceeds MAX_APP_SCORE (clamping by f64::min, and the decay cannot lift it) *)
Theorem score_le_max : forall reserved max s,
  max <= usizemax -> reachable reserved max s ->
  Forall (fun x => dy_leb (p_score x) MAX_APP_SCORE = true)
         (non_reserved_connected_peers s ++ reserved_connected_peers s).
Proof. exact score_le_max_all. Qed.
Print Assumptions score_le_max.

(* the flag read by ConnectionTracker::allow_peer: peers_allowed <=> fewer than max non-reserved
   peers connected.  PARTIAL: proved for every limit >= 1; refuted for the limit 0 (below). *)
Theorem flag_iff_free_slot_partial : forall reserved max s,
  1 <= max -> max <= usizemax -> reachable reserved max s ->
  (peers_allowed s = true <-> len (non_reserved_connected_peers s) < max) /\
  (forall p, mem p reserved = false ->
             (allow_peer s p = true <-> len (non_reserved_connected_peers s) < max)).
Proof. exact flag_iff_free_slot_pos. Qed.
Print Assumptions flag_iff_free_slot_partial.

Theorem flag_iff_free_slot_refuted :
  exists reserved s, reachable reserved 0 s /\
    ~ (peers_allowed s = true <-> len (non_reserved_connected_peers s) < 0).
Proof. exact flag_zero_refuted_all. Qed.
Print Assumptions flag_iff_free_slot_refuted.

(* with the limit 0 the flag stays "allowed" for ever (and the manager refuses every peer) *)
Theorem flag_limit_zero_always_allowed : forall reserved s,
  reachable reserved 0 s ->
  peers_allowed s = true /\ ~ len (non_reserved_connected_peers s) < 0.
Proof. exact flag_iff_free_slot_zero. Qed.
Print Assumptions flag_limit_zero_always_allowed.

(* the manager admits a new non-reserved peer exactly when a slot is free (every limit) *)
Theorem new_peer_admitted_iff_free_slot : forall reserved max s p,
  reachable reserved max s -> mem p reserved = false ->
  contains_key (non_reserved_connected_peers s) p = false ->
  (snd (handle_initial_connection s p) = false <-> len (non_reserved_connected_peers s) < max).
Proof. exact new_peer_admitted_iff_free_slot_all. Qed.
Print Assumptions new_peer_admitted_iff_free_slot.

(* the observable trace of every history passes the checker: everything but the flag for every
   limit, the flag too for every limit >= 1 *)
Theorem peer_trace_ok : forall cf reserved max ops,
  max <= usizemax -> (cf = true -> 1 <= max) ->
  trace_okb cf reserved max ops (trace reserved max ops) = true.
Proof. exact model_trace_ok. Qed.
Print Assumptions peer_trace_ok.

Theorem peer_trace_flag_refuted :
  exists reserved ops, trace_okb true reserved 0 ops (trace reserved 0 ops) = false.
Proof. exact model_trace_zero_refuted. Qed.
Print Assumptions peer_trace_flag_refuted.

(* meaning of the checker that is evaluated on the implementation's observations *)
Theorem trace_checker_sound : forall cf reserved max ops obs,
  trace_okb cf reserved max ops obs = true <-> TraceSpec cf reserved max ops obs.
Proof. exact trace_okb_iff. Qed.
Print Assumptions trace_checker_sound.

(* ======================================================================================= *)
(* C32.  [db : N -> option N] is ANY database content (value per height); the database
   answers a range all-or-nothing ([fetch_of]); the cache may lose ANY subset of its entries
   after every request ([keep] predicates).                                               *)

(* served_eq_db: for every database, every consistent cache, and every history of range
   requests with an arbitrary eviction after each, every answer is the database's answer for
   the whole range. *)
Theorem served_eq_db : forall db reqs c, consistent db c ->
  serve db c reqs = map (fun q => fetch_of db (fst (fst q)) (snd (fst q))) reqs.
Proof. exact served_eq_db_all. Qed.
Print Assumptions served_eq_db.

(* one request: the answer, and consistency of the cache is preserved *)
Theorem served_one_and_consistency_preserved : forall db c a b, consistent db c ->
  fst (fst (get_from_cache_or_db c (fetch_of db) a b)) = fetch_of db a b /\
  consistent db (snd (fst (get_from_cache_or_db c (fetch_of db) a b))).
Proof. exact get_from_cache_or_db_spec. Qed.
Print Assumptions served_one_and_consistency_preserved.

(* oversize_refused (the checks of handle_db_request / handle_full_transactions_request as
   modelled): a request is refused exactly when it asks for more heights / transactions than
   allowed.  PARTIAL: the tie of these two checks to the running Task is not exercised. *)
Theorem oversize_refused_partial : forall a b max_len n max_txs,
  (range_too_large a b max_len = true <-> max_len < b - a) /\
  (too_many_txs n max_txs = true <-> max_txs < n).
Proof. exact (fun a b ml n mt => conj (range_too_large_iff a b ml) (too_many_txs_iff n mt)). Qed.
Print Assumptions oversize_refused_partial.

(* request_roundtrip: every request (u32 range bounds, 32-byte ids) decodes from its postcard
   bytes, whatever follows them; and it is read back under any size cap it fits. *)
Theorem request_roundtrip : forall m rest, wf_request m ->
  decode_request (encode_request m ++ rest) = Some m.
Proof. exact request_roundtrip_all. Qed.
Print Assumptions request_roundtrip.

Theorem request_read_within_cap : forall m max_size, wf_request m ->
  N.of_nat (length (encode_request m)) <= max_size ->
  read_request max_size (encode_request m) = Some m.
Proof. exact read_request_fits. Qed.
Print Assumptions request_read_within_cap.

(* response_roundtrip (parametric in the payload codec): with any payload codec that has a
   round trip, every V2 response that can be written decodes to itself. *)
Theorem response_roundtrip : forall (P : Type) (enc_p : P -> list N) (dec_p : list N -> option (P * list N)),
  (forall p rest, dec_p (enc_p p ++ rest) = Some (p, rest)) ->
  forall m bs, encode_v2 P enc_p m = Some bs -> decode_v2 P dec_p bs = Some m.
Proof. exact response_roundtrip_v2. Qed.
Print Assumptions response_roundtrip.

(* under the legacy protocol a payload survives and every error code becomes
   ProtocolV1EmptyResponse (0) *)
Theorem response_v1_conversion : forall (P : Type) v (p : P) c,
  v2_of_v1 (v1_of_v2 (v, ROk p)) = (v, ROk p) /\
  v2_of_v1 (v1_of_v2 (v, @RErr P c)) = (v, RErr 0).
Proof. exact (fun P v p c => conj (v1_transport_ok P v p) (v1_transport_err P v c)). Qed.
Print Assumptions response_v1_conversion.
