(* Proofs for C32: served answers equal the database's, request codec round trip, response
   conversion. *)
From FC Require Import P2P.Model32.
From Coq Require Import ZifyBool ZifyN ZifyNat Lia.
Open Scope N_scope.

(* ---------- small facts ---------- *)

Lemma mapM_app {A B} (f : A -> option B) l1 l2 :
  mapM f (l1 ++ l2) = match mapM f l1, mapM f l2 with
                      | Some a, Some b => Some (a ++ b) | _, _ => None end.
Proof.
  induction l1 as [|x l1 IH]; cbn.
  - destruct (mapM f l2); reflexivity.
  - destruct (f x); [|reflexivity]. rewrite IH.
    destruct (mapM f l1); [|reflexivity]. destruct (mapM f l2); reflexivity.
Qed.

Lemma nseqN_app n m : forall a, nseqN n a ++ nseqN m (a + N.of_nat n) = nseqN (n + m) a.
Proof.
  induction n as [|n IH]; intros a; cbn [nseqN app Nat.add].
  - f_equal. lia.
  - f_equal. rewrite <- IH. do 2 f_equal. lia.
Qed.

Lemma cache_get_In c h v : cache_get c h = Some v -> In (h, v) c.
Proof.
  induction c as [|[h' v'] r IH]; cbn; [discriminate|].
  destruct (h' =? h) eqn:E.
  - intro H. injection H as <-. left. f_equal. lia.
  - intro H. right. now apply IH.
Qed.

(* ---------- served = database, for every database and every eviction ---------- *)

Section Served.
  Variable db : N -> option N.            (* what the database holds at a height *)

  (* the database answers a range all-or-nothing *)
  Definition fetch_of (a b : N) : option (list N) := mapM db (heights a b).

  Definition consistent (c : cache) : Prop := forall h v, cache_get c h = Some v -> db h = Some v.

  Lemma scan_spec n : forall c h items, consistent c ->
    exists k vs, (k <= n)%nat /\ fst (scan c h n items) = items ++ vs /\
      mapM db (nseqN k h) = Some vs /\
      match snd (scan c h n items) with
      | None => k = n
      | Some m => m = h + N.of_nat k /\ (k < n)%nat /\ cache_get c m = None
      end.
  Proof.
    induction n as [|n IH]; intros c h items Hc; cbn [scan].
    - exists O, []. cbn. rewrite app_nil_r. repeat split; lia.
    - destruct (cache_get c h) as [v|] eqn:Eg.
      + destruct (IH c (h + 1) (items ++ [v]) Hc) as [k [vs [Hk [H1 [H2 H3]]]]].
        exists (S k), (v :: vs). split; [lia|]. split; [rewrite H1, <- app_assoc; reflexivity|].
        split.
        * cbn [nseqN mapM]. rewrite (Hc h v Eg), H2. reflexivity.
        * destruct (snd (scan c (h + 1) n (items ++ [v]))); [|lia].
          destruct H3 as [A [B C]]. split; [lia|]. split; [lia|exact C].
      + exists O, []. cbn. rewrite app_nil_r. repeat split; try lia. exact Eg.
  Qed.

  Lemma consistent_insert c h v : consistent c -> db h = Some v -> consistent (cache_insert c h v).
  Proof.
    intros Hc Hd h' v'. unfold cache_insert; cbn. destruct (h =? h') eqn:E.
    - intro H. injection H as <-. replace h' with h by lia. exact Hd.
    - apply Hc.
  Qed.

  Lemma zip_insert_spec n : forall c m fetched,
    mapM db (nseqN n m) = Some fetched -> consistent c ->
    snd (zip_insert c m n fetched) = fetched /\ consistent (fst (zip_insert c m n fetched)).
  Proof.
    induction n as [|n IH]; intros c m fetched Hf Hc; cbn [nseqN mapM] in Hf.
    - injection Hf as <-. cbn. split; [reflexivity|exact Hc].
    - destruct (db m) as [v|] eqn:Ed; [|discriminate].
      destruct (mapM db (nseqN n (m + 1))) as [r|] eqn:Er; [|discriminate].
      injection Hf as <-. cbn [zip_insert].
      destruct (IH (cache_insert c m v) (m + 1) r Er (consistent_insert c m v Hc Ed)) as [A B].
      destruct (zip_insert (cache_insert c m v) (m + 1) n r) as [c' l]. cbn [fst snd] in *.
      split; [now rewrite A|exact B].
  Qed.

  (* one request *)
  Theorem get_from_cache_or_db_spec c a b : consistent c ->
    fst (fst (get_from_cache_or_db c fetch_of a b)) = fetch_of a b /\
    consistent (snd (fst (get_from_cache_or_db c fetch_of a b))).
  Proof.
    intro Hc. unfold get_from_cache_or_db.
    set (n := N.to_nat (b - a)).
    destruct (scan_spec n c a [] Hc) as [k [vs [Hk [H1 [H2 H3]]]]].
    destruct (scan c a n []) as [items missing]. cbn [fst snd app] in *. subst items.
    destruct missing as [m|].
    - destruct H3 as [Hm [Hlt Hnone]].
      assert (Hsplit : heights a b = nseqN k a ++ nseqN (N.to_nat (b - m)) m).
      { unfold heights. fold n. rewrite Hm.
        replace (N.to_nat (b - (a + N.of_nat k))) with (n - k)%nat by (unfold n; lia).
        rewrite nseqN_app. f_equal. lia. }
      change (fetch_of m b) with (mapM db (nseqN (N.to_nat (b - m)) m)).
      destruct (mapM db (nseqN (N.to_nat (b - m)) m)) as [fetched|] eqn:Ef.
      + destruct (zip_insert_spec _ c m fetched Ef Hc) as [A B].
        destruct (zip_insert c m (N.to_nat (b - m)) fetched) as [c' pushed]. cbn [fst snd] in *.
        subst pushed. split; [|exact B].
        unfold fetch_of. rewrite Hsplit, mapM_app, H2, Ef. reflexivity.
      + cbn [fst snd]. split; [|exact Hc].
        unfold fetch_of. rewrite Hsplit, mapM_app, H2, Ef. reflexivity.
    - subst k. cbn [fst snd]. split; [|exact Hc]. unfold fetch_of, heights. fold n. now rewrite H2.
  Qed.

  (* eviction: whatever subset of the entries survives, the cache stays consistent *)
  Lemma cache_get_filter keep c h :
    cache_get (filter (fun e => keep (fst e)) c) h = if keep h then cache_get c h else None.
  Proof.
    induction c as [|[h' v] r IH]; cbn [filter cache_get fst].
    - destruct (keep h); reflexivity.
    - destruct (keep h') eqn:Ek; cbn [cache_get].
      + destruct (h' =? h) eqn:E.
        * assert (h = h') by lia. subst. now rewrite Ek.
        * exact IH.
      + rewrite IH. destruct (h' =? h) eqn:E; [|reflexivity].
        assert (h = h') by lia. subst. now rewrite Ek.
  Qed.

  Lemma consistent_evict keep c : consistent c -> consistent (filter (fun e => keep (fst e)) c).
  Proof.
    intros Hc h v. rewrite cache_get_filter. destruct (keep h); [apply Hc|discriminate].
  Qed.

  (* any history of requests, with an arbitrary eviction after each *)
  Fixpoint serve (c : cache) (reqs : list (N * N * (N -> bool))) : list (option (list N)) :=
    match reqs with
    | [] => []
    | (a, b, keep) :: r =>
        let res := get_from_cache_or_db c fetch_of a b in
        fst (fst res) :: serve (filter (fun e => keep (fst e)) (snd (fst res))) r
    end.

  Theorem served_eq_db_all reqs : forall c, consistent c ->
    serve c reqs = map (fun q => fetch_of (fst (fst q)) (snd (fst q))) reqs.
  Proof.
    induction reqs as [|[[a b] keep] r IH]; intros c Hc; cbn [serve map fst snd]; [reflexivity|].
    destruct (get_from_cache_or_db_spec c a b Hc) as [A B]. rewrite A. f_equal.
    apply IH. now apply consistent_evict.
  Qed.
End Served.

(* the empty cache of a new CachedView is consistent with every database *)
Lemma consistent_nil db : consistent db [].
Proof. intros h v H. discriminate. Qed.

(* ---------- the range / count limits ---------- *)

Lemma range_too_large_iff a b max_len : range_too_large a b max_len = true <-> max_len < b - a.
Proof. unfold range_too_large, range_len. lia. Qed.

Lemma too_many_txs_iff n max_txs : too_many_txs n max_txs = true <-> max_txs < n.
Proof. unfold too_many_txs. lia. Qed.

(* ---------- varints ---------- *)

Lemma varint_roundtrip fuel : forall n rest, (0 < fuel)%nat -> n < 128 ^ N.of_nat fuel ->
  varint_dec fuel (varint_enc fuel n ++ rest) = Some (n, rest).
Proof.
  induction fuel as [|f IH]; intros n rest Hpos Hn; [lia|].
  cbn [varint_enc]. destruct (n <? 128) eqn:E.
  - cbn. rewrite E. reflexivity.
  - cbn [app varint_dec]. replace (n mod 128 + 128 <? 128) with false by lia.
    assert (Hdiv : n / 128 < 128 ^ N.of_nat f).
    { apply N.div_lt_upper_bound; [lia|].
      replace (N.of_nat (S f)) with (N.succ (N.of_nat f)) in Hn by lia.
      rewrite N.pow_succ_r' in Hn. exact Hn. }
    assert (Hf : (0 < f)%nat).
    { destruct f; [|lia]. cbn in Hdiv. assert (1 <= n / 128) by (apply N.div_le_lower_bound; lia). lia. }
    rewrite (IH (n / 128) rest Hf Hdiv). f_equal. f_equal.
    pose proof (N.div_mod n 128 ltac:(lia)). lia.
Qed.

Lemma u32_fits n : n <= u32max -> n < 128 ^ N.of_nat 5.
Proof. intro H. change (128 ^ N.of_nat 5) with 34359738368. unfold u32max in H. lia. Qed.
Lemma u64_fits n : n <= u64max -> n < 128 ^ N.of_nat 10.
Proof. intro H. change (128 ^ N.of_nat 10) with 1180591620717411303424. unfold u64max in H. lia. Qed.

(* ---------- requests ---------- *)

Definition wf_request (m : request) : Prop :=
  match m with
  | RSealedHeaders a b | RTransactions a b => a <= u32max /\ b <= u32max
  | RTxPoolAllTransactionsIds => True
  | RTxPoolFullTransactions ids =>
      N.of_nat (length ids) <= u64max /\ Forall (fun i => length i = 32%nat) ids
  end.

Lemma take_ids_concat ids : forall rest, Forall (fun i => length i = 32%nat) ids ->
  take_ids (length ids) (concat ids ++ rest) = Some ids.
Proof.
  induction ids as [|i ids IH]; intros rest Hf; cbn [length take_ids concat]; [reflexivity|].
  inversion Hf as [|? ? Hi Hr]; subst.
  rewrite <- app_assoc.
  replace (length (i ++ concat ids ++ rest) <? 32)%nat with false
    by (rewrite app_length; symmetry; apply Nat.ltb_ge; lia).
  assert (E1 : skipn 32 (i ++ concat ids ++ rest) = concat ids ++ rest).
  { rewrite <- Hi. rewrite skipn_app, skipn_all, Nat.sub_diag. reflexivity. }
  assert (E2 : firstn 32 (i ++ concat ids ++ rest) = i).
  { rewrite <- Hi. rewrite firstn_app, firstn_all, Nat.sub_diag. cbn. now rewrite app_nil_r. }
  rewrite E1, E2, (IH rest Hr). reflexivity.
Qed.

Lemma concat_length32 (ids : list (list N)) : Forall (fun i => length i = 32%nat) ids ->
  length (concat ids) = (length ids * 32)%nat.
Proof.
  induction 1 as [|i ids Hi _ IH]; cbn; [reflexivity|]. rewrite app_length, IH, Hi. lia.
Qed.

Theorem request_roundtrip_all m rest : wf_request m ->
  decode_request (encode_request m ++ rest) = Some m.
Proof.
  destruct m as [a b|a b| |ids]; cbn [wf_request encode_request]; intro H.
  - destruct H as [Ha Hb]. cbn [app decode_request]. unfold dec_u32, enc_u32.
    rewrite <- app_assoc, (varint_roundtrip 5 a _ ltac:(lia) (u32_fits a Ha)).
    rewrite (varint_roundtrip 5 b _ ltac:(lia) (u32_fits b Hb)). reflexivity.
  - destruct H as [Ha Hb]. cbn [app decode_request]. unfold dec_u32, enc_u32.
    rewrite <- app_assoc, (varint_roundtrip 5 a _ ltac:(lia) (u32_fits a Ha)).
    rewrite (varint_roundtrip 5 b _ ltac:(lia) (u32_fits b Hb)). reflexivity.
  - reflexivity.
  - destruct H as [Hl Hf]. cbn [app decode_request]. unfold dec_usize, enc_usize.
    rewrite <- app_assoc, (varint_roundtrip 10 _ _ ltac:(lia) (u64_fits _ Hl)).
    assert (Hlen : N.of_nat (length (concat ids ++ rest)) <? N.of_nat (length ids) * 32 = false).
    { rewrite app_length, (concat_length32 ids Hf). lia. }
    rewrite Hlen. rewrite Nat2N.id, (take_ids_concat ids rest Hf). reflexivity.
Qed.

(* a request that fits the size cap is read back unchanged *)
Theorem read_request_fits m max_size : wf_request m ->
  N.of_nat (length (encode_request m)) <= max_size ->
  read_request max_size (encode_request m) = Some m.
Proof.
  intros Hw Hfit. unfold read_request.
  replace (N.min max_size (N.of_nat (length (encode_request m)))) with
    (N.of_nat (length (encode_request m))) by lia.
  rewrite Nat2N.id, firstn_all. rewrite <- (app_nil_r (encode_request m)).
  now apply request_roundtrip_all.
Qed.

(* ---------- responses ---------- *)

Section ResponseFacts.
  Variable P : Type.

  (* under the legacy protocol an Ok payload survives, every error becomes
     ProtocolV1EmptyResponse *)
  Lemma v1_transport_ok v (p : P) : v2_of_v1 (v1_of_v2 (v, ROk p)) = (v, ROk p).
  Proof. reflexivity. Qed.
  Lemma v1_transport_err v c : v2_of_v1 (v1_of_v2 (v, @RErr P c)) = (v, RErr 0).
  Proof. reflexivity. Qed.
  Lemma v1_survives (m : v1 P) : v1_of_v2 (v2_of_v1 m) = m.
  Proof. destruct m as [v [p|]]; reflexivity. Qed.

  (* under protocol 2 every message with a known error code (or a payload) is transported
     unchanged; the Unknown code cannot be written *)
  Lemma v2_transport (m : v2 P) :
    transported 2 m = match snd m with
                      | RErr c => if 4 <=? c then None else Some m
                      | ROk _ => Some m
                      end.
  Proof. reflexivity. Qed.

  (* parametric byte-level round trip: any payload codec with a round trip gives a round trip
     of V2 responses: variant byte, Result tag (0 = Ok, 1 = Err), payload or code byte *)
  Variable enc_p : P -> list N.
  Variable dec_p : list N -> option (P * list N).
  Hypothesis payload_roundtrip : forall p rest, dec_p (enc_p p ++ rest) = Some (p, rest).

  Definition encode_v2 (m : v2 P) : option (list N) :=
    match snd m with
    | ROk p => Some (fst m :: 0 :: enc_p p)
    | RErr c => if 4 <=? c then None else Some [fst m; 1; c]
    end.
  Definition decode_v2 (bs : list N) : option (v2 P) :=
    match bs with
    | v :: 0 :: r => match dec_p r with Some (p, _) => Some (v, ROk p) | None => None end
    | v :: 1 :: c :: _ => Some (v, RErr (if 4 <=? c then 4 else c))
    | _ => None
    end.

  Theorem response_roundtrip_v2 (m : v2 P) bs : encode_v2 m = Some bs -> decode_v2 bs = Some m.
  Proof.
    destruct m as [v [p|c]]; unfold encode_v2; cbn [fst snd].
    - intro H. injection H as <-. cbn [decode_v2].
      rewrite <- (app_nil_r (enc_p p)), payload_roundtrip. reflexivity.
    - destruct (4 <=? c) eqn:E; [discriminate|]. intro H. injection H as <-. cbn. now rewrite E.
  Qed.
End ResponseFacts.

(* non-vacuity *)
Example c32_nonvacuous :
  let db := fun h => if h <? 5 then Some (h + 1) else None in
  serve db [] [(1, 4, fun _ => true); (0, 5, fun h => h =? 2); (3, 7, fun _ => false); (2, 2, fun _ => true)] =
    [Some [2; 3; 4]; Some [1; 2; 3; 4; 5]; None; Some []] /\
  encode_request (RSealedHeaders 300 4294967295) = [0; 172; 2; 255; 255; 255; 255; 15] /\
  decode_request [0; 172; 2; 255; 255; 255; 255; 15] = Some (RSealedHeaders 300 4294967295) /\
  read_request 7 [0; 172; 2; 255; 255; 255; 255; 15] = None.
Proof. vm_compute. repeat split; reflexivity. Qed.
